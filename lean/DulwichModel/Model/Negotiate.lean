/-
  Model of the server side of have/ack negotiation (protocol v0/v1):
  `BaseObjectStore.find_common_revisions` driving `_ProtocolGraphWalker` with one of
  `SingleAckGraphWalkerImpl`, `MultiAckGraphWalkerImpl`, `MultiAckDetailedGraphWalkerImpl`
  (dulwich/server.py), at the level of the transcript: the client's lines after the wants
  (`have <sha>`, flush-pkt, `done`) in, the server's ACK/NAK lines and the list of common revisions out,
  then `handle_done`.

  Parameters: `has` = membership in the server's object store (`sha in self`), `sat` =
  `_all_wants_satisfied(store, common, wants)` as a function of the common list (the driver
  instantiates it with `wantsSatisfied`, the walk over commit parents the real function performs
  when commit times are monotone).  Reading past the end of the client's lines is the
  `HangupException` of `read_pkt_line` (`Err.protocol`).
-/
import DulwichModel.Model.Graph

namespace Dulwich.Negotiate
open Dulwich Dulwich.Graph

inductive AckMode where
  | single | multi | detailed
  deriving DecidableEq, Repr

/-- A client line during negotiation. -/
inductive CLine where
  | have_ (x : Id)
  | flush
  | done
  deriving DecidableEq, Repr

/-- A server line during negotiation. -/
inductive SLine where
  | ack (x : Id)
  | ackContinue (x : Id)
  | ackCommon (x : Id)
  | ackReady (x : Id)
  | nak
  deriving DecidableEq, Repr

structure NState where
  common : List Id := []        -- `impl._common`, oldest first
  foundBase : Bool := false     -- `MultiAckGraphWalkerImpl._found_base`
  haves : List Id := []         -- `haves` of `find_common_revisions`, oldest first
  out : List SLine := []        -- lines written so far, oldest first
  deriving Repr

structure NegoResult where
  haves : List Id
  common : List Id
  out : List SLine
  doneReceived : Bool
  deriving Repr

def finish (st : NState) (doneReceived : Bool) : NegoResult :=
  { haves := st.haves, common := st.common, out := st.out, doneReceived := doneReceived }

/-- `if sha in self: haves.append(sha); graphwalker.ack(sha)` for the three implementations. -/
def ackHave (mode : AckMode) (has : Id → Bool) (sat : List Id → Bool) (x : Id) (st : NState) : NState :=
  if Gen.haveCheckedAgainstStore && !has x then st
  else
    let st := { st with haves := st.haves ++ [x] }
    match mode with
    | .single =>
      if st.common.isEmpty then { st with out := st.out ++ [.ack x], common := st.common ++ [x] } else st
    | .multi =>
      let common := st.common ++ [x]
      if st.foundBase then { st with common := common }
      else { st with common := common, out := st.out ++ [.ackContinue x], foundBase := sat common }
    | .detailed => { st with common := st.common ++ [x], out := st.out ++ [.ackCommon x] }

/-- `find_common_revisions(graph_walker)`: the `next()` of the chosen implementation consumes client
lines until it can return a sha or `None`. -/
def loop (mode : AckMode) (stateless : Bool) (has : Id → Bool) (sat : List Id → Bool) :
    List CLine → NState → Except Err NegoResult
  | [], _ => .error .protocol
  | .have_ x :: rest, st =>
    let st := if mode = .multi && st.foundBase then { st with out := st.out ++ [.ackContinue x] } else st
    loop mode stateless has sat rest (ackHave mode has sat x st)
  | .done :: _, st => .ok (finish st true)
  | .flush :: rest, st =>
    match mode with
    | .single => .ok (finish st true)        -- `if command in (None, COMMAND_DONE): notify_done()`
    | .multi => loop mode stateless has sat rest { st with out := st.out ++ [.nak] }
    | .detailed =>
      if sat st.common then
        match st.common.getLast? with
        | none => .error .other              -- `self._common[-1]` on an empty list
        | some c =>
          let st := { st with out := st.out ++ [.ackReady c, .nak] }
          if stateless then .ok (finish st false) else loop mode stateless has sat rest st
      else
        let st := { st with out := st.out ++ [.nak] }
        if stateless then .ok (finish st false) else loop mode stateless has sat rest st

def negotiate (mode : AckMode) (stateless : Bool) (has : Id → Bool) (sat : List Id → Bool)
    (lines : List CLine) : Except Err NegoResult :=
  loop mode stateless has sat lines {}

/-- `handle_done(done_required = not no-done, done_received)`: is the pack sent? -/
def sendsPack (_mode : AckMode) (r : NegoResult) (noDone : Bool) : Bool :=
  !(!noDone && !r.doneReceived) && !(!r.doneReceived && r.common.isEmpty)

/-- The lines `handle_done` writes. -/
def finalLines (mode : AckMode) (r : NegoResult) (noDone : Bool) : List SLine :=
  match mode with
  | .single => if r.common.isEmpty then [.nak] else []
  | _ =>
    if sendsPack mode r noDone then
      match r.common.getLast? with
      | some c => [.ack c]
      | none => [.nak]
    else []

/-! ### `_all_wants_satisfied` (for the driver) -/

/-- `_want_satisfied`: walk commit parents from the want until a common commit is met.  (The real
function prunes parents older than the oldest have; with monotone commit times that never cuts a
path to a have.) -/
def wantSatisfied (s : Store) (common : List Id) : Nat → List Id → List Id → Bool
  | _, [], _ => false
  | 0, _ :: _, _ => false
  | fuel + 1, c :: pending, known =>
    if c ∈ common then true
    else
      match s c with
      | some (.commit _ ps) =>
        let new := ps.eraseDups.filter fun p => p ∉ known
        wantSatisfied s common fuel (pending ++ new) (known ++ new)
      | _ => wantSatisfied s common fuel pending known

def wantsSatisfied (s : Store) (fuel : Nat) (wants common : List Id) : Bool :=
  wants.all fun w => wantSatisfied s common fuel [w] [w]

end Dulwich.Negotiate
