/-
  C08 — `DiskRefsContainer` as a transition system at system-call granularity.

  What is modelled (dulwich/refs.py, dulwich/file.py, dulwich/worktree.py, dulwich/repo.py):

  * the file system seen by the refs code: one optional loose file per ref, one lock file per ref
    (`<ref>.lock`, created with O_EXCL), the `packed-refs` file (identified by a version number that
    stands for its stat identity) and `packed-refs.lock`;
  * every operation is a *program* (`Prog`): a tree whose nodes are system calls (`Call`) and whose
    edges are labelled by the result of the call.  The programs below are transcriptions of the Python
    methods with the calls in exactly the order the code performs them (the order is what the
    scheduler-driven correspondence check compares, call by call, against the real code);
  * any number of actors, each with its own `DiskRefsContainer` (its own packed-refs cache) executing
    a list of operations; one `step` = one system call of one actor (interleaving semantics).

  Not modelled: reflog writes, directory creation/removal (`ensure_dir_exists`, the `rmdir` loop of
  `remove_if_equals`), peeled entries, ref names with more than one directory level.

  Core Lean only.
-/
import DulwichModel.Model.Basic
import DulwichModel.Gen.RefsFS

namespace Dulwich.RefsFS

abbrev Ref := Nat      -- 0 is HEAD; the others live in refs/heads/
abbrev Actor := Nat
abbrev Sha := Nat

/-- contents of a loose ref file -/
inductive Val where
  | sha (n : Sha)
  | sym (r : Ref)      -- `ref: <name>`
  deriving DecidableEq, Repr

/-- contents of packed-refs (names to object ids; never symbolic) -/
abbrev PMap := List (Ref × Sha)

def pmGet (m : PMap) (r : Ref) : Option Sha := m.lookup r
def pmErase (m : PMap) (r : Ref) : PMap := m.filter (fun e => e.1 != r)
def pmSet (m : PMap) (r : Ref) (s : Sha) : PMap := (r, s) :: pmErase m r

/-! ## System calls (the yield points of the scheduler) -/

inductive Call where
  | start                           -- the actor is released for the first time
  | openR (r : Ref)                 -- open(refpath(r), 'rb') and read it
  | statR (r : Ref)                 -- os.path.exists(refpath(r))
  | lstatR (r : Ref)                -- os.path.lexists(refpath(r))
  | openX (r : Ref)                 -- os.open(refpath(r) + '.lock', O_CREAT|O_EXCL)
  | fsyncL (r : Ref)                -- os.fsync(lock file)
  | replaceL (r : Ref) (v : Val)    -- os.replace(r.lock, r); `v` = what was written to the lock file
  | removeL (r : Ref)               -- os.remove(r.lock)      (`_GitFile.abort`)
  | removeR (r : Ref)               -- os.remove(refpath(r))
  | statP                           -- os.stat(packed-refs)
  | openRP                          -- open(packed-refs, 'rb'), read it, fstat
  | openXP                          -- os.open(packed-refs.lock, O_CREAT|O_EXCL)
  | fsyncP
  | replaceP (m : PMap)             -- os.replace(packed-refs.lock, packed-refs)
  | removeLP                        -- os.remove(packed-refs.lock)
  | scan                            -- os.scandir(refs/heads)
  deriving DecidableEq, Repr

/-- result type of each call -/
def ResT : Call → Type
  | .start => Unit
  | .openR _ => Option Val          -- none = FileNotFoundError
  | .statR _ => Bool
  | .lstatR _ => Bool
  | .openX _ => Bool                -- false = FileExistsError (→ FileLocked)
  | .fsyncL _ => Unit
  | .replaceL _ _ => Unit
  | .removeL _ => Unit
  | .removeR _ => Bool              -- false = FileNotFoundError
  | .statP => Option Nat            -- stat identity, none = FileNotFoundError
  | .openRP => Option (Nat × PMap)
  | .openXP => Bool
  | .fsyncP => Unit
  | .replaceP _ => Unit
  | .removeLP => Unit
  | .scan => List Ref

/-! ## File-system state -/

structure FS where
  loose : Ref → Option Val
  lock : Ref → Option Actor         -- `<ref>.lock` exists, created by that actor
  packed : Option (Nat × PMap)      -- (stat identity, contents)
  plock : Option Actor
  nextVer : Nat                     -- identity given to the next packed-refs file renamed in

def upd {α : Type} (f : Ref → α) (r : Ref) (v : α) : Ref → α := fun x => if x = r then v else f x

@[simp] theorem upd_same {α : Type} (f : Ref → α) (r : Ref) (v : α) : upd f r v r = v := by simp [upd]
@[simp] theorem upd_other {α : Type} (f : Ref → α) (r x : Ref) (v : α) (h : x ≠ r) : upd f r v x = f x := by
  simp [upd, h]

/-- the refs living in refs/heads (the universe a directory listing ranges over) -/
structure Env where
  heads : List Ref
  /-- iteration order of a Python `set` of ref names in the process under test -/
  order : List Ref

/-- Execute one system call atomically. -/
def exec (env : Env) (fs : FS) (a : Actor) : (c : Call) → FS × ResT c
  | .start => (fs, ())
  | .openR r => (fs, fs.loose r)
  | .statR r => (fs, (fs.loose r).isSome)
  | .lstatR r => (fs, (fs.loose r).isSome)
  | .openX r =>
    match fs.lock r with
    | some _ => (fs, false)
    | none => ({ fs with lock := upd fs.lock r (some a) }, true)
  | .fsyncL _ => (fs, ())
  | .replaceL r v => ({ fs with loose := upd fs.loose r (some v), lock := upd fs.lock r none }, ())
  | .removeL r => ({ fs with lock := upd fs.lock r none }, ())
  | .removeR r =>
    match fs.loose r with
    | some _ => ({ fs with loose := upd fs.loose r none }, true)
    | none => (fs, false)
  | .statP => (fs, fs.packed.map (·.1))
  | .openRP => (fs, fs.packed)
  | .openXP =>
    match fs.plock with
    | some _ => (fs, false)
    | none => ({ fs with plock := some a }, true)
  | .fsyncP => (fs, ())
  | .replaceP m => ({ fs with packed := some (fs.nextVer, m), plock := none, nextVer := fs.nextVer + 1 }, ())
  | .removeLP => ({ fs with plock := none }, ())
  | .scan => (fs, env.heads.filter (fun r => (fs.loose r).isSome))

/-- The ref map a reader is supposed to see: loose overrides packed. -/
def absVal (fs : FS) (r : Ref) : Option Val :=
  match fs.loose r with
  | some v => some v
  | none => match fs.packed with
    | some (_, m) => (pmGet m r).map Val.sha
    | none => none

/-! ## Programs -/

inductive Exc where
  | locked        -- FileLocked
  | key           -- KeyError
  | symloop       -- SymrefLoop
  | commit        -- CommitError
  | notfound      -- FileNotFoundError (os.remove of a loose file that vanished under the lock)
  deriving DecidableEq, Repr

inductive Outcome where
  | unit                                    -- returned None
  | bool (b : Bool)
  | val (v : Option Val)                    -- what a reader got
  | dict (d : List (Ref × Val))             -- as_dict()
  | keys (l : List Ref)                     -- allkeys()
  | committed (cid : Sha) (parent : Option Sha)
  | exc (e : Exc)
  deriving DecidableEq, Repr

/-- per-container packed-refs cache: `_packed_refs`, `_packed_refs_key` -/
structure Cache where
  loaded : Bool
  key : Option Nat
  map : PMap
  deriving DecidableEq, Repr

def Cache.empty : Cache := ⟨false, none, []⟩

inductive Prog where
  | ret (o : Outcome) (c : Cache)
  | call (c : Call) (k : ResT c → Prog)

namespace Prog
def sStart (k : Unit → Prog) : Prog := .call .start k
def sOpenR (r : Ref) (k : Option Val → Prog) : Prog := .call (.openR r) k
def sStatR (r : Ref) (k : Bool → Prog) : Prog := .call (.statR r) k
def sLstatR (r : Ref) (k : Bool → Prog) : Prog := .call (.lstatR r) k
def sOpenX (r : Ref) (k : Bool → Prog) : Prog := .call (.openX r) k
def sFsyncL (r : Ref) (k : Unit → Prog) : Prog := .call (.fsyncL r) k
def sReplaceL (r : Ref) (v : Val) (k : Unit → Prog) : Prog := .call (.replaceL r v) k
def sRemoveL (r : Ref) (k : Unit → Prog) : Prog := .call (.removeL r) k
def sRemoveR (r : Ref) (k : Bool → Prog) : Prog := .call (.removeR r) k
def sStatP (k : Option Nat → Prog) : Prog := .call .statP k
def sOpenRP (k : Option (Nat × PMap) → Prog) : Prog := .call .openRP k
def sOpenXP (k : Bool → Prog) : Prog := .call .openXP k
def sFsyncP (k : Unit → Prog) : Prog := .call .fsyncP k
def sReplaceP (m : PMap) (k : Unit → Prog) : Prog := .call (.replaceP m) k
def sRemoveLP (k : Unit → Prog) : Prog := .call .removeLP k
def sScan (k : List Ref → Prog) : Prog := .call .scan k
end Prog
open Prog

/-- How the code orders the steps the findings are about; `coded` is regenerated from the source. -/
structure Variant where
  /-- `remove_if_equals`: `os.remove(loose)` before `_remove_packed_ref` (else: lexists, packed entry, loose) -/
  rmLooseFirst : Bool
  /-- `add_packed_refs`: loose files removed before the new packed-refs is renamed in -/
  packRemovesLooseFirst : Bool
  /-- `add_if_new`: the packed-refs re-check under the lock looks up `name`, not `realname` -/
  addChecksName : Bool
  /-- number of times `WorkTree.commit` reads the branch head (the CAS uses the last read) -/
  commitReads : Nat
  /-- `pack_refs`: a loose file is pruned under the ref's own lock and only if it still holds the packed value -/
  packRecheck : Bool := false
  deriving DecidableEq, Repr

def Variant.coded : Variant :=
  { rmLooseFirst := Gen.RefsFS.rmLooseBeforePacked
    packRemovesLooseFirst := Gen.RefsFS.packRemovesLooseBeforeReplace
    addChecksName := Gen.RefsFS.addIfNewChecksName
    commitReads := Gen.RefsFS.worktreeCommitHeadReads
    packRecheck := Gen.RefsFS.packPrunesUnderRefLock }

/-- the repaired orders: packed entry before the loose file in remove_if_equals, loose files pruned after the
rename of packed-refs (under the ref lock, if unchanged), resolved name re-checked, single read in commit -/
def Variant.repaired : Variant :=
  { rmLooseFirst := false, packRemovesLooseFirst := false, addChecksName := false, commitReads := 1,
    packRecheck := true }

/-! ### readers -/

/-- `DiskRefsContainer.get_packed_refs`: stat-validated cache, (re)load on miss. -/
def getPacked (c : Cache) (k : PMap → Cache → Prog) : Prog :=
  let load : Prog := sOpenRP fun r =>
    match r with
    | none => k [] ⟨true, none, []⟩
    | some (ver, m) => k m ⟨true, some ver, m⟩
  if c.loaded then
    sStatP fun cur => if c.key = cur then k c.map c else load
  else load

/-- `RefsContainer.read_ref`: loose first, then packed. -/
def readRef (r : Ref) (c : Cache) (k : Option Val → Cache → Prog) : Prog :=
  sOpenR r fun v =>
    match v with
    | some v => k (some v) c
    | none => getPacked c fun m c => k ((pmGet m r).map Val.sha) c

/-- `RefsContainer.follow`; `none` = SymrefLoop, otherwise (last name in the chain, its sha if any). -/
def followAux : Nat → Ref → Nat → Cache → (Option (Ref × Option Sha) → Cache → Prog) → Prog
  | 0, _, _, c, k => k none c
  | fuel + 1, name, depth, c, k =>
    readRef name c fun v c =>
      match v with
      | none => k (some (name, none)) c
      | some (.sha s) => if depth + 1 > Gen.RefsFS.symrefMaxDepth then k none c else k (some (name, some s)) c
      | some (.sym t) => if depth + 1 > Gen.RefsFS.symrefMaxDepth then k none c else followAux fuel t (depth + 1) c k

def follow (name : Ref) (c : Cache) (k : Option (Ref × Option Sha) → Cache → Prog) : Prog :=
  followAux (Gen.RefsFS.symrefMaxDepth + 2) name 0 c k

/-- `refs[name]` as an `Except`: sha, KeyError or SymrefLoop -/
def getItem (name : Ref) (c : Cache) (k : Except Exc Sha → Cache → Prog) : Prog :=
  follow name c fun fr c =>
    match fr with
    | none => k (.error .symloop) c
    | some (_, none) => k (.error .key) c
    | some (_, some s) => k (.ok s) c

/-! ### writers -/

/-- `DiskRefsContainer.set_if_equals(name, old, new)`; `old = none`: unconditional, `some none`: ZERO_SHA. -/
def setIfEquals (name : Ref) (old : Option (Option Val)) (new : Val) (c : Cache)
    (k : Outcome → Cache → Prog) : Prog :=
  follow name c fun fr c =>
    let real := match fr with
      | some (r, _) => r
      | none => name
    getPacked c fun _ c =>                           -- `_check_packed_conflict(realname)`: names are flat here
    getPacked c fun stale c =>                       -- `packed_refs = self.get_packed_refs()` (outside the lock)
    sOpenX real fun ok =>
      if !ok then k (.exc .locked) c else
      let write (c : Cache) : Prog :=
        sOpenR real fun cur =>                       -- "already has the desired value" shortcut
          let cur := match cur with
            | some v => some v
            | none => (pmGet stale real).map Val.sha -- the dict captured outside the lock
          if cur = some new then sRemoveL real fun _ => k (.bool true) c
          else sFsyncL real fun _ => sReplaceL real new fun _ => k (.bool true) c
      match old with
      | none => write c
      | some o =>
        sOpenR real fun orig =>                      -- re-read while holding the lock
          match orig with
          | some v => if some v = o then write c else sRemoveL real fun _ => k (.bool false) c
          | none => getPacked c fun m c =>
              if (pmGet m real).map Val.sha = o then write c else sRemoveL real fun _ => k (.bool false) c

/-- `DiskRefsContainer.add_if_new(name, v)` -/
def addIfNew (vr : Variant) (name : Ref) (v : Val) (c : Cache) (k : Outcome → Cache → Prog) : Prog :=
  follow name c fun fr c =>
    match fr with
    | none => k (.exc .symloop) c
    | some (_, some _) => k (.bool false) c
    | some (real, none) =>
      getPacked c fun _ c =>                         -- `_check_packed_conflict(realname)`
      sOpenX real fun ok =>
        if !ok then k (.exc .locked) c else
        sStatR real fun ex =>
          if ex then sRemoveL real fun _ => k (.bool false) c else
          getPacked c fun m c =>
            if (pmGet m (if vr.addChecksName then name else real)).isSome then
              sRemoveL real fun _ => k (.bool false) c
            else sFsyncL real fun _ => sReplaceL real v fun _ => k (.bool true) c

/-- `DiskRefsContainer._remove_packed_ref(name)`; `kLocked` is taken when packed-refs.lock is held by
someone else (FileLocked propagates). -/
def removePacked (name : Ref) (c : Cache) (kLocked : Cache → Prog) (k : Cache → Prog) : Prog :=
  getPacked c fun m c =>
    if (pmGet m name).isNone then k c else
    sOpenXP fun ok =>
      if !ok then kLocked c else
      -- cache invalidated, re-read under the lock
      sOpenRP fun r =>
        let m2 : PMap := match r with
          | none => []
          | some (_, m) => m
        if (pmGet m2 name).isNone then sRemoveLP fun _ => k Cache.empty
        else sFsyncP fun _ => sReplaceP (pmErase m2 name) fun _ => k Cache.empty

/-- `DiskRefsContainer.remove_if_equals(name, old)` (does not follow symrefs) -/
def removeIfEquals (vr : Variant) (name : Ref) (old : Option (Option Val)) (c : Cache)
    (k : Outcome → Cache → Prog) : Prog :=
  sOpenX name fun ok =>
    if !ok then k (.exc .locked) c else
    let fail (c : Cache) : Prog := sRemoveL name fun _ => k (.exc .locked) c
    let finish (c : Cache) : Prog := sRemoveL name fun _ => k (.bool true) c
    let rmLoose (c : Cache) (kk : Prog) : Prog :=
      sLstatR name fun found =>
        if found then
          -- `os.remove(filename)`: FileNotFoundError is not caught (the file can vanish: pack_refs removes
          -- loose files without holding the ref lock)
          sRemoveR name fun ok => if ok then kk else sRemoveL name fun _ => k (.exc .notfound) c
        else kk
    let body (c : Cache) : Prog :=
      if vr.rmLooseFirst then rmLoose c (removePacked name c fail finish)     -- lexists; remove loose; packed entry
      else
        -- lexists; packed entry; remove loose (if it was found)
        sLstatR name fun found =>
          removePacked name c fail fun c =>
            if found then
              sStatR name fun _ =>                   -- `os.path.isdir(filename)`: a ref file (or nothing) is not one
              sRemoveR name fun ok => if ok then finish c else sRemoveL name fun _ => k (.exc .notfound) c
            else finish c
    match old with
    | none => body c
    | some o =>
      sOpenR name fun orig =>
        match orig with
        | some v => if some v = o then body c else sRemoveL name fun _ => k (.bool false) c
        | none => getPacked c fun m c =>
            if (pmGet m name).map Val.sha = o then body c else sRemoveL name fun _ => k (.bool false) c

/-- `DiskRefsContainer.set_symbolic_ref(name, other)` -/
def setSymbolicRef (name other : Ref) (c : Cache) (k : Outcome → Cache → Prog) : Prog :=
  getPacked c fun _ c =>                             -- `_check_packed_conflict(name)`
  sOpenX name fun ok =>
    if !ok then k (.exc .locked) c else
    follow name c fun _ c =>                         -- only for the reflog entry; a SymrefLoop is tolerated
      sFsyncL name fun _ => sReplaceL name (.sym other) fun _ => k .unit c

/-- remove the loose files of `rs` one after the other (errors suppressed) -/
def removeLooseAll : List Ref → Prog → Prog
  | [], k => k
  | r :: rs, k => sRemoveR r fun _ => removeLooseAll rs k

/-- the loose files of the refs just written to packed-refs, one after the other: with `recheck`
(`prune_only_if_unchanged`) and a target, `_prune_loose_ref` — take `<ref>.lock` (skip the ref when it is busy),
re-read the loose file, unlink it only if it still holds the packed value, release the lock; otherwise an
unconditional `os.remove` (errors suppressed) -/
def pruneLoose (recheck : Bool) : List (Ref × Option Sha) → Prog → Prog
  | [], k => k
  | (r, some s) :: rest, k =>
    if recheck then
      sOpenX r fun ok =>
        if !ok then pruneLoose recheck rest k else
        sOpenR r fun v =>
          if v = some (Val.sha s) then sRemoveR r fun _ => sRemoveL r fun _ => pruneLoose recheck rest k
          else sRemoveL r fun _ => pruneLoose recheck rest k
    else sRemoveR r fun _ => pruneLoose recheck rest k
  | (r, none) :: rest, k => sRemoveR r fun _ => pruneLoose recheck rest k

/-- `DiskRefsContainer.add_packed_refs(new, prune_only_if_unchanged=recheck)` for a non-empty mapping
(name ↦ sha, or `none` = remove the ref) -/
def addPackedRefs (vr : Variant) (recheck : Bool) (new : List (Ref × Option Sha)) (c : Cache)
    (k : Outcome → Cache → Prog) : Prog :=
  sOpenXP fun ok =>
    if !ok then k (.exc .locked) Cache.empty else
    getPacked c fun m _ =>
      let m' := new.foldl (fun acc e => match e.2 with
        | some s => pmSet acc e.1 s
        | none => pmErase acc e.1) m
      if vr.packRemovesLooseFirst then
        removeLooseAll (new.map (·.1)) (sFsyncP fun _ => sReplaceP m' fun _ => k .unit Cache.empty)
      else
        sFsyncP fun _ => sReplaceP m' fun _ => pruneLoose recheck new (k .unit Cache.empty)

/-- `DiskRefsContainer.allkeys()` (HEAD, loose refs in refs/heads, packed names), in set order -/
def allKeys (env : Env) (c : Cache) (k : List Ref → Cache → Prog) : Prog :=
  sStatR 0 fun headExists =>
    sScan fun ls =>
      getPacked c fun m c =>
        k (env.order.filter fun r => (r == 0 && headExists) || ls.contains r || (pmGet m r).isSome) c

/-- `pack_refs`: `read_ref` every name in turn (no symref following); symbolic and broken refs stay loose -/
def readAll : List Ref → List (Ref × Sha) → Cache → (List (Ref × Sha) → Cache → Prog) → Prog
  | [], acc, c, k => k acc.reverse c
  | r :: rs, acc, c, k =>
    readRef r c fun v c =>
      match v with
      | some (.sha s) => readAll rs ((r, s) :: acc) c k
      | _ => readAll rs acc c k

/-- `DiskRefsContainer.pack_refs(all=True)` -/
def packRefs (env : Env) (vr : Variant) (c : Cache) (k : Outcome → Cache → Prog) : Prog :=
  allKeys env c fun ks c =>
    readAll (ks.filter (· != 0)) [] c fun new c =>
      match new with
      | [] => k .unit c
      | new => addPackedRefs vr vr.packRecheck (new.map fun e => (e.1, some e.2)) c k

/-- `as_dict()`: SymrefLoop and KeyError are both skipped -/
def resolveAllLenient : List Ref → List (Ref × Sha) → Cache → (List (Ref × Sha) → Cache → Prog) → Prog
  | [], acc, c, k => k acc.reverse c
  | r :: rs, acc, c, k =>
    getItem r c fun res c =>
      match res with
      | .ok s => resolveAllLenient rs ((r, s) :: acc) c k
      | .error _ => resolveAllLenient rs acc c k

def insertSorted (e : Ref × Val) : List (Ref × Val) → List (Ref × Val)
  | [] => [e]
  | x :: xs => if e.1 ≤ x.1 then e :: x :: xs else x :: insertSorted e xs

def sortDict (l : List (Ref × Val)) : List (Ref × Val) := l.foldr insertSorted []

def insertNat (e : Nat) : List Nat → List Nat
  | [] => [e]
  | x :: xs => if e ≤ x then e :: x :: xs else x :: insertNat e xs

def sortNat (l : List Nat) : List Nat := l.foldr insertNat []

def asDict (env : Env) (c : Cache) (k : Outcome → Cache → Prog) : Prog :=
  allKeys env c fun ks c =>
    resolveAllLenient ks [] c fun d c => k (.dict (sortDict (d.map fun e => (e.1, Val.sha e.2)))) c

def keysOp (env : Env) (c : Cache) (k : Outcome → Cache → Prog) : Prog :=
  allKeys env c fun ks c => k (.keys (sortNat ks)) c

/-- `WorkTree.commit(ref=…)` reduced to its ref traffic: `reads` reads of the branch head (parents come
from the first, the compare-and-swap uses the last), then `set_if_equals` / `add_if_new`. -/
def commitOp (vr : Variant) (ref : Ref) (cid : Sha) (reads : Nat) (c : Cache)
    (k : Outcome → Cache → Prog) : Prog :=
  getItem ref c fun first c =>
    match first with
    | .error .symloop => k (.exc .symloop) c
    | _ =>
    let parent1 : Option Sha := match first with
      | .ok s => some s
      | .error _ => none
    let finish (last : Except Exc Sha) (c : Cache) : Prog :=
      match last with
      | .error .symloop => k (.exc .symloop) c
      | .ok oldHead =>
        setIfEquals ref (some (some (.sha oldHead))) (.sha cid) c fun o c =>
          match o with
          | .bool true => k (.committed cid parent1) c
          | .bool false => k (.exc .commit) c
          | o => k o c
      | .error _ =>
        -- second read raised KeyError: parents reset, add_if_new
        addIfNew vr ref (.sha cid) c fun o c =>
          match o with
          | .bool true => k (.committed cid none) c
          | .bool false => k (.exc .commit) c
          | o => k o c
    if reads ≤ 1 then finish first c else getItem ref c finish

/-! ## Operations, actors, configurations -/

inductive Op where
  | read (r : Ref)                                   -- read_ref (no symref following)
  | get (name : Ref)                                 -- refs[name]
  | cas (name : Ref) (old : Option (Option Val)) (new : Val)
  | add (name : Ref) (v : Val)
  | rm (name : Ref) (old : Option (Option Val))
  | symref (name other : Ref)
  | pack
  | unpack (r : Ref)                                  -- add_packed_refs({r: None}): remove the ref
  | list
  | keys
  | commit (ref : Ref) (cid : Sha)                   -- WorkTree.commit protocol as coded
  | commit1 (ref : Ref) (cid : Sha)                  -- single-read protocol (MemoryRepo.do_commit shape)
  deriving DecidableEq, Repr

def compile (env : Env) (vr : Variant) (op : Op) (c : Cache) : Prog :=
  let k : Outcome → Cache → Prog := fun o c => .ret o c
  match op with
  | .read r => readRef r c fun v c => k (.val v) c
  | .get name => getItem name c fun res c =>
      match res with
      | .ok s => k (.val (some (.sha s))) c
      | .error .key => k (.val none) c
      | .error e => k (.exc e) c
  | .cas name old new => setIfEquals name old new c k
  | .add name v => addIfNew vr name v c k
  | .rm name old => removeIfEquals vr name old c k
  | .symref name other => setSymbolicRef name other c k
  | .pack => packRefs env vr c k
  | .unpack r => addPackedRefs vr false [(r, none)] c k
  | .list => asDict env c k
  | .keys => keysOp env c k
  | .commit ref cid => commitOp vr ref cid vr.commitReads c k
  | .commit1 ref cid => commitOp vr ref cid 1 c k

structure ActorSt where
  prog : Prog
  todo : List Op
  outs : List Outcome          -- outcomes of the completed operations, oldest first

structure Config where
  fs : FS
  actors : List ActorSt

/-- When an operation has returned, record its outcome and start the next one with the same cache. -/
def settle (env : Env) (vr : Variant) : List Op → Prog → List Outcome → ActorSt
  | [], p, outs =>
    match p with
    | .ret o c => { prog := .ret o c, todo := [], outs := outs ++ [o] }
    | .call c k => { prog := .call c k, todo := [], outs := outs }
  | op :: rest, p, outs =>
    match p with
    | .ret o c => settle env vr rest (compile env vr op c) (outs ++ [o])
    | .call c k => { prog := .call c k, todo := op :: rest, outs := outs }

/-- an actor that has not been released yet -/
def ActorSt.init (env : Env) (vr : Variant) (ops : List Op) : ActorSt :=
  match ops with
  | [] => { prog := .ret .unit Cache.empty, todo := [], outs := [] }
  | op :: rest => { prog := sStart fun _ => compile env vr op Cache.empty, todo := rest, outs := [] }

def ActorSt.finished (st : ActorSt) : Bool :=
  match st.prog with
  | .ret _ _ => true
  | .call _ _ => false

/-- One step of actor `a` = its pending system call.  `none` when the actor does not exist or has finished. -/
def step (env : Env) (vr : Variant) (cfg : Config) (a : Actor) : Option (Config × Call) :=
  match cfg.actors[a]? with
  | none => none
  | some st =>
    match st.prog with
    | .ret _ _ => none
    | .call c k =>
      let (fs', res) := exec env cfg.fs a c
      let st' := settle env vr st.todo (k res) st.outs
      some ({ fs := fs', actors := cfg.actors.set a st' }, c)

/-- Follow a schedule the way `harness/sched.py` does: entries naming a finished actor are skipped. -/
def runSched (env : Env) (vr : Variant) (cfg : Config) : List Actor → Config
  | [] => cfg
  | a :: rest =>
    match step env vr cfg a with
    | some (cfg', _) => runSched env vr cfg' rest
    | none => runSched env vr cfg rest

def FS.init (loose : Ref → Option Val) (packed : Option PMap) : FS :=
  { loose := loose, lock := fun _ => none, packed := packed.map fun m => (0, m), plock := none, nextVer := 1 }

def Config.init (env : Env) (vr : Variant) (fs : FS) (progs : List (List Op)) : Config :=
  { fs := fs, actors := progs.map (ActorSt.init env vr) }

def Config.outs (cfg : Config) (a : Actor) : List Outcome :=
  match cfg.actors[a]? with
  | some st => st.outs
  | none => []

/-! ## The specification: a map from ref names to values, one operation at a time

`specVal` is the map specification restricted to the one ref an operation acts on; a sequential history is a list
of events (actor, operation, returned result) and `specRun` replays it on a map: every event must return what
`specVal` says and changes its ref as `specVal` says; an operation that raised (a loser) changes nothing. -/

def Op.target : Op → Ref
  | .read r => r
  | .get r => r
  | .cas n _ _ => n
  | .add n _ => n
  | .rm n _ => n
  | .symref n _ => n
  | .unpack r => r
  | .commit r _ => r
  | .commit1 r _ => r
  | _ => 0

/-- a loose value that is not a symbolic ref -/
def IsSha : Option Val → Prop
  | some (.sym _) => False
  | _ => True

/-- the operations of the loose fragment: direct reads, conditional/unconditional set, create, delete, all
writing object ids -/
def LooseOp : Op → Prop
  | .read _ => True
  | .cas _ _ (.sha _) => True
  | .add _ (.sha _) => True
  | .rm _ _ => True
  | _ => False

/-- The map specification restricted to the one ref an operation acts on: (new value, result). -/
def specVal : Op → Option Val → Option Val × Outcome
  | .read _, x => (x, .val x)
  | .cas _ none new, _ => (some new, .bool true)
  | .cas _ (some o) new, x => if x = o then (some new, .bool true) else (x, .bool false)
  | .add _ v, x => if x.isSome then (x, .bool false) else (some v, .bool true)
  | .rm _ none, _ => (none, .bool true)
  | .rm _ (some o), x => if x = o then (none, .bool true) else (x, .bool false)
  | _, x => (x, .unit)

structure LinEv where
  actor : Actor
  op : Op
  out : Outcome

def Outcome.isExc : Outcome → Bool
  | .exc _ => true
  | _ => false

/-- One event of the sequential history: a loser (exception) has no effect; otherwise the operation must return
what the specification says and the ref takes the specified value. -/
def specStep (m : Ref → Option Val) (e : LinEv) : Option (Ref → Option Val) :=
  if e.out.isExc then some m
  else if (specVal e.op (m e.op.target)).2 = e.out then
    some (upd m e.op.target (specVal e.op (m e.op.target)).1)
  else none

def specRun (m : Ref → Option Val) : List LinEv → Option (Ref → Option Val)
  | [] => some m
  | e :: es =>
    match specStep m e with
    | some m' => specRun m' es
    | none => none

/-! ## The commit protocol over an atomic compare-and-swap register

One branch as a register holding an optional commit id.  Every access is one atomic step: this is what
`MemoryRepo.do_commit` sees of `DictRefsContainer` (whose methods make no system call), and it is the abstraction
of the disk protocol that `cas_linearizable_loose` justifies.  An actor reads the head `reads` times (parents
come from the first read, the swap is conditioned on the last — `WorkTree.commit` has `reads = 2`,
`MemoryRepo.do_commit` has `reads = 1`), then swaps. -/
namespace Proto

inductive PC where
  | start                                   -- nothing read yet
  | read1 (p : Option Sha)                  -- parents chosen from the first read; a second read follows
  | ready (parent old : Option Sha)         -- commit object built with `parent`; about to swap `old → cid`
  | done (ok : Bool) (parent : Option Sha)  -- returned the commit id / raised CommitError
  deriving DecidableEq, Repr

structure PActor where
  cid : Sha
  pc : PC
  deriving DecidableEq, Repr

structure PState where
  reg : Option Sha
  actors : List PActor
  /-- successful swaps, newest first: (commit id, parent recorded in the commit object) -/
  log : List (Sha × Option Sha)
  deriving DecidableEq, Repr

inductive PEvent where
  | read | cas (ok : Bool) | add (ok : Bool)
  deriving DecidableEq, Repr

def pstep (reads : Nat) (s : PState) (a : Nat) : Option (PState × PEvent) :=
  match s.actors[a]? with
  | none => none
  | some st =>
    let put (pc : PC) : List PActor := s.actors.set a { st with pc := pc }
    match st.pc with
    | .start =>
      if reads ≤ 1 then some ({ s with actors := put (.ready s.reg s.reg) }, .read)
      else some ({ s with actors := put (.read1 s.reg) }, .read)
    | .read1 p =>
      -- second read; KeyError (no head) resets the parents and falls back to add_if_new
      match s.reg with
      | none => some ({ s with actors := put (.ready none none) }, .read)
      | some v => some ({ s with actors := put (.ready p (some v)) }, .read)
    | .ready parent old =>
      let ev : Bool → PEvent := fun ok => if old.isSome then .cas ok else .add ok
      if s.reg = old then
        some ({ reg := some st.cid, actors := put (.done true parent), log := (st.cid, parent) :: s.log }, ev true)
      else some ({ s with actors := put (.done false parent) }, ev false)
    | .done _ _ => none

def prun (reads : Nat) (s : PState) : List Nat → PState
  | [] => s
  | a :: rest =>
    match pstep reads s a with
    | some (s', _) => prun reads s' rest
    | none => prun reads s rest

def PState.init (reg : Option Sha) (cids : List Sha) : PState :=
  { reg := reg, actors := cids.map fun c => { cid := c, pc := .start }, log := [] }

end Proto

end Dulwich.RefsFS
