/-
  C18 — executable model of dulwich's work-tree / index / HEAD interplay.

  Three finite maps `head, index, wd : Path → Option _` (association lists, first binding wins):
    * `head`  : the HEAD tree flattened, `Path ↦ (Kind, Cid)`
    * `index` : the index, `Path ↦ (Kind, Cid, StatKey)` (StatKey = the cached ctime/mtime/size)
    * `wd`    : every non-directory path of the working directory,
                `Path ↦ (Kind, Cid, StatKey, LinkRes)`; directories are implicit (a path is a
                directory iff some file lies below it; an *empty* directory is indistinguishable
                from an absent path for every operation modelled here).
  `Cid` is the identity of a content (blob id); the hash is a parameter — the harness supplies equal
  ids for equal contents.  `LinkRes` records, for a symbolic link, what `pathlib.Path.resolve()`
  makes of it, because `porcelain.get_untracked_paths` / `path_to_tree_path` resolve links
  (a defect the model reproduces, see Props/C18.lean).

  Modelled code (dulwich): index.py `cleanup_mode`, `build_index_from_tree` (fresh directory),
  `update_working_tree` with `_transition_to_file/_transition_to_absent/_check_file_matches`,
  `verify_leading_dirs`, `_stat_matches_entry`, `_check_entry_for_changes`, `get_unstaged_changes`,
  `changes_from_tree`; diff_tree.py `tree_changes` (order of changes, type change = delete+add);
  porcelain `status`, `add(paths=None)`, `remove(cached=True)`, `checkout(branch)`,
  `_check_uncommitted_changes`, `get_untracked_paths("all")`, `get_tree_changes`;
  worktree.py `WorkTree.stage`, `WorkTree.unstage`.
  Constants / compared fields come from Gen/WorkTree.lean (regenerated from /repo each run).
  Core Lean only.
-/
import DulwichModel.Model.Basic
import DulwichModel.Gen.WorkTree

namespace Dulwich.WorkTree
open Dulwich

abbrev Path := Bytes
abbrev Cid := Nat

inductive Kind where
  | regular | executable | symlink
  deriving DecidableEq, Repr, Inhabited

structure StatKey where
  ctime : Nat
  mtime : Nat
  size : Nat
  deriving DecidableEq, Repr, Inhabited

/-- What following a symbolic link leads to (`os.stat`): nothing, a non-directory, a directory. -/
inductive Target where
  | missing | file | dir
  deriving DecidableEq, Repr, Inhabited

/-- What the file system makes of a symbolic link found in the working directory (an observation the
harness supplies): `target` — what following it leads to; `alias` — the work-tree path
`pathlib.Path.resolve()` lands on (`none`: outside the work tree; the code then uses the link's own
path).  For regular files the value is irrelevant (`⟨.file, none⟩` by convention). -/
structure LinkRes where
  target : Target
  alias : Option Path
  deriving DecidableEq, Repr, Inhabited

structure Entry where
  kind : Kind
  cid : Cid
  deriving DecidableEq, Repr, Inhabited

structure IEntry where
  kind : Kind
  cid : Cid
  stat : StatKey
  deriving DecidableEq, Repr, Inhabited

structure WFile where
  kind : Kind
  cid : Cid
  stat : StatKey
  res : LinkRes
  deriving DecidableEq, Repr, Inhabited

def IEntry.entry (e : IEntry) : Entry := ⟨e.kind, e.cid⟩
def WFile.entry (f : WFile) : Entry := ⟨f.kind, f.cid⟩
def WFile.ientry (f : WFile) : IEntry := ⟨f.kind, f.cid, f.stat⟩

/-- Errors the real operations raise. -/
inductive WErr where
  | notADirectory   -- NotADirectoryError out of os.lstat (a tracked path lies below a file)
  | unicodeDecode   -- UnicodeDecodeError (tree path that is not UTF-8 in a staged / unstaged list)
  | invalidPath     -- InvalidPathError
  | isADirectory    -- IsADirectoryError "Cannot replace non-empty directory with file"
  | osError         -- OSError "Cannot access …" / "Cannot replace modified file with directory"
  | modified        -- WorkingTreeModifiedError
  | conflict        -- CheckoutError (local changes would be overwritten)
  | key             -- KeyError ("not in index") / porcelain.Error "did not match any files"
  | notTree         -- NotTreeError from Tree.lookup_path
  | assertion       -- AssertionError (unstage of a path that is a directory in HEAD)
  | badObs          -- driver-level: an observation (stat / size) the operation needs is missing
  deriving DecidableEq, Repr, Inhabited

def WErr.toString : WErr → String
  | .notADirectory => "NotADirectoryError" | .unicodeDecode => "UnicodeDecodeError"
  | .invalidPath => "InvalidPathError" | .isADirectory => "IsADirectoryError"
  | .osError => "OSError" | .modified => "WorkingTreeModifiedError" | .conflict => "CheckoutError"
  | .key => "KeyError" | .notTree => "NotTreeError" | .assertion => "AssertionError"
  | .badObs => "bad-obs"

instance : ToString WErr := ⟨WErr.toString⟩

/-! ### finite maps as association lists -/

abbrev FMap (α : Type) := List (Path × α)

namespace FMap
variable {α : Type}

def get : FMap α → Path → Option α
  | [], _ => none
  | (k, v) :: r, p => if k = p then some v else get r p

def erase (m : FMap α) (p : Path) : FMap α := m.filter (fun kv => decide (kv.1 ≠ p))

def put (m : FMap α) (p : Path) (v : α) : FMap α := (p, v) :: erase m p

def keys (m : FMap α) : List Path := m.map (·.1)

def has (m : FMap α) (p : Path) : Bool := (get m p).isSome

end FMap

/-! ### modes -/

/-- `(mode & S_IFMT) >> 12` -/
def fileType (m : Nat) : Nat := m / 4096 % 16

def gitlinkMode : Nat := 57344

/-- `cleanup_mode` on a raw `st_mode` / tree mode. -/
def cleanupMode (m : Nat) : Nat :=
  if fileType m = 10 then Gen.WorkTree.symlinkMode
  else if fileType m = 4 then Gen.WorkTree.dirMode
  else if fileType m = 14 then gitlinkMode
  else if m / Gen.WorkTree.execTestMask % 2 = 1 then Gen.WorkTree.regFileMode ||| Gen.WorkTree.execBits
  else Gen.WorkTree.regFileMode

def modeOfKind : Kind → Nat
  | .regular => Gen.WorkTree.regFileMode
  | .executable => Gen.WorkTree.regFileMode ||| Gen.WorkTree.execBits
  | .symlink => Gen.WorkTree.symlinkMode

def kindOfMode (m : Nat) : Option Kind :=
  if m = Gen.WorkTree.symlinkMode then some .symlink
  else if m = (Gen.WorkTree.regFileMode ||| Gen.WorkTree.execBits) then some .executable
  else if m = Gen.WorkTree.regFileMode then some .regular
  else none

/-- The `st_mode` of a file that `build_file_from_blob` has just written for tree mode `m`:
`os.chmod(path, cleanup_mode(m))` on a regular file keeps the type bits of a regular file and takes
the permission bits of the argument; a symbolic link is `S_IFLNK | 0o777`. -/
def stModeAfterCheckout (m : Nat) : Nat :=
  if fileType m = 10 then 40960 + 511 else 32768 + cleanupMode m % 4096

/-! ### paths -/

def slash : UInt8 := 47

/-- `a` is a proper ancestor directory of `p`. -/
def isAncestor (a p : Path) : Bool := (a ++ [slash]).isPrefixOf p

def lowerByte (b : UInt8) : UInt8 := if 65 ≤ b.toNat ∧ b.toNat ≤ 90 then b + 32 else b

/-- `bytes.split(b"/")` -/
def splitSlash : Path → List Bytes
  | [] => [[]]
  | b :: r =>
    if b = slash then [] :: splitSlash r
    else match splitSlash r with
      | [] => [[b]]
      | h :: t => (b :: h) :: t

/-- `validate_path_element_default`: `element.lower() not in INVALID_DOTNAMES`. -/
def validElement (e : Bytes) : Bool := !(Gen.WorkTree.invalidDotnames.contains (e.map lowerByte))

/-- `validate_path` with the default element validator. -/
def validPath (p : Path) : Bool := (splitSlash p).all validElement

/-- One UTF-8 scalar value off the front, as CPython's strict decoder accepts them
(no overlongs, no surrogates, at most U+10FFFF). -/
def utf8Step : Bytes → Option Bytes
  | [] => none
  | b0 :: rest =>
    let c (b : UInt8) : Bool := 0x80 ≤ b.toNat && b.toNat ≤ 0xBF
    let n := b0.toNat
    if n < 0x80 then some rest
    else if 0xC2 ≤ n && n ≤ 0xDF then
      match rest with
      | b1 :: r => if c b1 then some r else none
      | _ => none
    else if 0xE0 ≤ n && n ≤ 0xEF then
      match rest with
      | b1 :: b2 :: r =>
        let lo := if n = 0xE0 then 0xA0 else 0x80
        let hi := if n = 0xED then 0x9F else 0xBF
        if lo ≤ b1.toNat && b1.toNat ≤ hi && c b2 then some r else none
      | _ => none
    else if 0xF0 ≤ n && n ≤ 0xF4 then
      match rest with
      | b1 :: b2 :: b3 :: r =>
        let lo := if n = 0xF0 then 0x90 else 0x80
        let hi := if n = 0xF4 then 0x8F else 0xBF
        if lo ≤ b1.toNat && b1.toNat ≤ hi && c b2 && c b3 then some r else none
      | _ => none
    else none

def validUtf8Fuel : Nat → Bytes → Bool
  | _, [] => true
  | 0, _ => false
  | fuel + 1, bs =>
    match utf8Step bs with
    | some r => validUtf8Fuel fuel r
    | none => false

/-- `bytes.decode("utf-8")` succeeds. -/
def validUtf8 (bs : Bytes) : Bool := validUtf8Fuel bs.length bs

/-! ### the world -/

structure World where
  head : FMap Entry
  index : FMap IEntry
  wd : FMap WFile
  deriving Repr, DecidableEq

/-- Scenario constants: blob sizes and HEAD's commit time (seconds), used by `unstage`. -/
structure Env where
  sizes : List (Cid × Nat)
  commitTime : Nat

/-- What the file system reports after an operation wrote files: stat key and link resolution. -/
abbrev Obs := FMap (StatKey × LinkRes)

/-! ### what `os.lstat(root/p)` sees -/

def hasFileAncestor {α : Type} (m : FMap α) (p : Path) : Bool := m.keys.any (fun k => isAncestor k p)

/-- Some leading component of `p` is a file, or a link that leads to a file: `os.lstat` raises
`NotADirectoryError`.  Below a dangling link `lstat` raises `FileNotFoundError`.  A link that leads
to a *directory* is followed by the real `lstat`; the model answers "no such file" there, which is
what happens unless the directory the link leads to contains the same relative path — a situation
the harness detects on the real file system and then checks with the direct oracle only. -/
def blockedByFile (wd : FMap WFile) (p : Path) : Bool :=
  wd.keys.any (fun k => isAncestor k p &&
    match wd.get k with
    | some f => !(f.kind == .symlink) || f.res.target == .file
    | none => false)

def hasDescendant {α : Type} (m : FMap α) (p : Path) : Bool := m.keys.any (fun k => isAncestor p k)

inductive View where
  | enoent
  | enotdir
  | dir            -- a non-empty directory
  | file (f : WFile)
  deriving DecidableEq, Repr

def lstatView (wd : FMap WFile) (p : Path) : View :=
  if blockedByFile wd p then .enotdir
  else if hasFileAncestor wd p then .enoent      -- below a link that leads nowhere (or to a directory)
  else match wd.get p with
    | some f => .file f
    | none => if hasDescendant wd p then .dir else .enoent

/-- The working directory as the specification sees it: the entry at `p`, if `p` is a file. -/
def wdEntry (wd : FMap WFile) (p : Path) : Option Entry :=
  match lstatView wd p with
  | .file f => some f.entry
  | _ => none

/-! ### behaviours that the code has had in two variants

The translator reads from the source which variant is present (`cur`); `legacy` is the behaviour of
the snapshot before the C18 fix series, kept for the regression witnesses in Props/C18.lean. -/

structure Flags where
  /-- `_check_entry_for_changes` compares the blob id -/
  cmpSha : Bool
  /-- … and the canonical mode (type, executable bit) -/
  cmpMode : Bool
  /-- … the mode before the cached stat data is trusted -/
  modeBeforeStat : Bool
  /-- `_check_entry_for_changes` handles `NotADirectoryError` from `os.lstat` -/
  catchesNotDir : Bool
  /-- `WorkTree.unstage` handles `NotADirectoryError` from `os.lstat` -/
  unstageCatchesNotDir : Bool
  /-- `path_to_tree_path` resolves a symbolic link before the index lookup -/
  resolveLinks : Bool
  /-- the working-tree walk leaves links to directories among `os.walk`'s directory names -/
  linkDirsAsDirs : Bool
  /-- `tree_path_to_fs_path` decodes tree paths strictly -/
  strictDecode : Bool
  /-- `update_working_tree` applies all deletions before it writes -/
  deletesFirst : Bool
  /-- `_transition_to_absent` removes the index entry also when the file is already gone from disk -/
  absentDropsIndex : Bool
  /-- a forced checkout / switch starts from the index and visits unchanged paths too (as `reset --hard` does) -/
  forceUsesIndex : Bool
  deriving DecidableEq, Repr

def cur : Flags :=
  { cmpSha := Gen.WorkTree.unstagedCmpSha, cmpMode := Gen.WorkTree.unstagedCmpMode,
    modeBeforeStat := Gen.WorkTree.unstagedModeBeforeStat,
    catchesNotDir := Gen.WorkTree.unstagedCatchesNotDir,
    unstageCatchesNotDir := Gen.WorkTree.unstageCatchesNotDir,
    resolveLinks := Gen.WorkTree.lookupResolvesLinks, linkDirsAsDirs := Gen.WorkTree.walkLinkDirsAsDirs,
    strictDecode := Gen.WorkTree.strictPathDecoding, deletesFirst := Gen.WorkTree.switchDeletesFirst,
    absentDropsIndex := Gen.WorkTree.absentDropsIndex, forceUsesIndex := Gen.WorkTree.forceUsesIndex }

def legacy : Flags :=
  { cmpSha := true, cmpMode := false, modeBeforeStat := false, catchesNotDir := false,
    unstageCatchesNotDir := false, resolveLinks := true, linkDirsAsDirs := true, strictDecode := true,
    deletesFirst := false, absentDropsIndex := false, forceUsesIndex := false }

/-! ### status -/

/-- `_stat_matches_entry(st, entry, trust_ctime)`: the change time (when trusted), the modification
time and the size are compared exactly; a time stamp is the pair (seconds, nanoseconds), held here as
`seconds * 10^9 + nanoseconds`, so equality of the numbers is equality of the pairs. -/
def statMatchesWith (trust : Bool) (st e : StatKey) : Bool :=
  (!(Gen.WorkTree.statCmpCtime && trust) || st.ctime == e.ctime) &&
  (!Gen.WorkTree.statCmpMtime || st.mtime == e.mtime) &&
  (!Gen.WorkTree.statCmpSize || st.size == e.size)

/-- `_stat_matches_entry` with the default `trust_ctime`. -/
def statMatches (st e : StatKey) : Bool := statMatchesWith Gen.WorkTree.trustCtimeDefault st e

/-- The comparison `_check_entry_for_changes` makes once the short-cut has failed. -/
def contentDiffers (fl : Flags) (f : WFile) (e : IEntry) : Bool :=
  (fl.cmpSha && f.cid != e.cid) || (fl.cmpMode && decide (f.kind ≠ e.kind))

/-- `_check_entry_for_changes` for a path whose `lstat` does not raise. -/
def entryChanged (fl : Flags) (wd : FMap WFile) (p : Path) (e : IEntry) : Bool :=
  match lstatView wd p with
  | .file f =>
    if fl.cmpMode && fl.modeBeforeStat && decide (f.kind ≠ e.kind) then true
    else if statMatches f.stat e.stat then false
    else contentDiffers fl f e
  | _ => true

def lstatRaisesNotDir (fl : Flags) (wd : FMap WFile) (p : Path) : Bool :=
  !fl.catchesNotDir && blockedByFile wd p

/-- How `get_unstaged_changes` divides the `n` index entries among its `workers` threads when
`core.preloadIndex` is on: one task per entry, submitted in index order (with `preload_index=False`
the entries are visited one after the other).  Results are collected in the order of submission. -/
def scanSlices (n _workers : Nat) : List (List Nat) := (List.range n).map (fun i => [i])

def changedAt (fl : Flags) (wd : FMap WFile) (index : FMap IEntry) (p : Path) : Bool :=
  match index.get p with
  | some e => entryChanged fl wd p e
  | none => false

/-- `get_unstaged_changes` -/
def unstagedOf (fl : Flags) (wd : FMap WFile) (index : FMap IEntry) : Except WErr (List Path) :=
  if index.keys.any (lstatRaisesNotDir fl wd) then .error .notADirectory
  else .ok (index.keys.filter (changedAt fl wd index))

/-- `changes_from_tree` as consumed by `get_tree_changes`: (add, delete, modify). -/
def entryDiffers (h : Entry) (i : IEntry) : Bool :=
  (Gen.WorkTree.stagedCmpSha && h.cid != i.cid) || (Gen.WorkTree.stagedCmpMode && decide (h.kind ≠ i.kind))

def stagedAdd (head : FMap Entry) (index : FMap IEntry) : List Path :=
  index.keys.filter (fun p => !head.has p)

def stagedDel (head : FMap Entry) (index : FMap IEntry) : List Path :=
  head.keys.filter (fun p => !index.has p)

def modifiedAt (head : FMap Entry) (index : FMap IEntry) (p : Path) : Bool :=
  match head.get p, index.get p with
  | some h, some i => entryDiffers h i
  | _, _ => false

def stagedMod (head : FMap Entry) (index : FMap IEntry) : List Path :=
  head.keys.filter (modifiedAt head index)

/-- The tree path `path_to_tree_path` computes for a walked file when it resolves links. -/
def aliasOf (p : Path) (f : WFile) : Path :=
  match f.kind, f.res.alias with
  | .symlink, some q => q
  | _, _ => p

/-- `os.walk` puts a link that resolves to a directory among the directory names. -/
def walkedAsFile (f : WFile) : Bool := !(f.kind == .symlink && f.res.target == .dir)

def untrackedAt (fl : Flags) (wd : FMap WFile) (index : FMap IEntry) (p : Path) : Bool :=
  match lstatView wd p with
  | .file f =>
    (!fl.linkDirsAsDirs || walkedAsFile f) && !index.has (if fl.resolveLinks then aliasOf p f else p)
  | _ => false

/-- `get_untracked_paths(untracked_files="all")` without ignore rules. -/
def untrackedOf (fl : Flags) (wd : FMap WFile) (index : FMap IEntry) : List Path :=
  wd.keys.filter (untrackedAt fl wd index)

/-! #### untracked paths in "normal" mode (the default of `porcelain.status`) -/

def joinSlash : List Bytes → Path
  | [] => []
  | [c] => c
  | c :: r => c ++ [slash] ++ joinSlash r

/-- The leading directories of `p`, shallowest first. -/
def ancestorsOf (p : Path) : List Path :=
  let comps := splitSlash p
  (List.range (comps.length - 1)).map (fun i => joinSlash (comps.take (i + 1)))

/-- An untracked file is reported as the shallowest of its leading directories below which the index
has nothing (with a trailing `/`), or by its own name if every leading directory holds tracked files:
`any(name.startswith(dir + b"/") for name in index)`. -/
def collapse (index : FMap IEntry) (u : Path) : Path :=
  match (ancestorsOf u).find? (fun d => !hasDescendant index d) with
  | some d => d ++ [slash]
  | none => u

/-- `get_untracked_paths(untracked_files="normal")` without ignore rules. -/
def untrackedNormalOf (fl : Flags) (wd : FMap WFile) (index : FMap IEntry) : List Path :=
  ((untrackedOf fl wd index).map (collapse index)).eraseDups

structure Status where
  add : List Path
  del : List Path
  mod : List Path
  unstaged : List Path
  untracked : List Path
  deriving Repr, DecidableEq

/-- `porcelain.status(untracked_files="all")`. -/
def status (fl : Flags) (w : World) : Except WErr Status :=
  match unstagedOf fl w.wd w.index with
  | .error e => .error e
  | .ok u =>
    let a := stagedAdd w.head w.index
    let d := stagedDel w.head w.index
    let m := stagedMod w.head w.index
    if !fl.strictDecode || (a ++ d ++ m ++ u).all validUtf8 then
      .ok ⟨a, d, m, u, untrackedOf fl w.wd w.index⟩
    else .error .unicodeDecode

/-- `porcelain.status()` with the default `untracked_files="normal"`. -/
def statusNormal (fl : Flags) (w : World) : Except WErr Status :=
  match status fl w with
  | .error e => .error e
  | .ok s => .ok { s with untracked := untrackedNormalOf fl w.wd w.index }

def Status.clean (s : Status) : Bool :=
  s.add.isEmpty && s.del.isEmpty && s.mod.isEmpty && s.unstaged.isEmpty && s.untracked.isEmpty

/-! ### index operations -/

/-- `WorkTree.stage([p])`. -/
def stage (w : World) (p : Path) : World :=
  match lstatView w.wd p with
  | .file f => { w with index := w.index.put p f.ientry }
  | _ => { w with index := w.index.erase p }

/-- `porcelain.add(repo)` with `paths=None`: every untracked and every unstaged path is staged. -/
def stageAll (fl : Flags) (w : World) : Except WErr World :=
  match unstagedOf fl w.wd w.index with
  | .error e => .error e
  | .ok u =>
    if !fl.strictDecode || u.all validUtf8 then .ok ((untrackedOf fl w.wd w.index ++ u).foldl stage w)
    else .error .unicodeDecode

/-- `porcelain.add(repo, paths=[p])` for a path that is a file or absent (not a directory, not reached
through a link): the unstaged changes of the whole index are computed first, then `p` is staged. -/
def addPath (fl : Flags) (w : World) (p : Path) : Except WErr World :=
  match unstagedOf fl w.wd w.index with
  | .error e => .error e
  | .ok _ => .ok (stage w p)

def sizeOf (env : Env) (c : Cid) : Option Nat := (env.sizes.find? (fun kv => kv.1 == c)).map (·.2)

/-- `WorkTree.unstage([p])` with a HEAD commit. -/
def unstage (fl : Flags) (env : Env) (w : World) (p : Path) : Except WErr World :=
  if hasFileAncestor w.head p then .error .notTree
  else match w.head.get p with
    | none =>
      if hasDescendant w.head p then .error .assertion
      else if w.index.has p then .ok { w with index := w.index.erase p }
      else .error .key
    | some h =>
      -- `os.lstat(root/p)` for dev/ino/uid/gid: only FileNotFoundError is caught
      if !fl.unstageCatchesNotDir && blockedByFile w.wd p then .error .notADirectory else
      match sizeOf env h.cid with
      | none => .error .badObs
      | some sz =>
        let t := env.commitTime * 1000000000
        .ok { w with index := w.index.put p ⟨h.kind, h.cid, ⟨t, t, sz⟩⟩ }

/-- `porcelain.remove(paths=[p], cached=True)` for a path that is not reached through a link. -/
def rmCached (w : World) (p : Path) : Except WErr World :=
  if w.index.has p then .ok { w with index := w.index.erase p } else .error .key

/-- Deleting `.git/index`. -/
def clearIndex (w : World) : World := ⟨w.head, [], w.wd⟩

def treeOf (index : FMap IEntry) : FMap Entry := index.map (fun kv => (kv.1, kv.2.entry))

/-! ### fresh checkout (`build_index_from_tree` into an empty directory) -/

/-- The files `build_index_from_tree` writes: one per tree entry, with the observed stat key. -/
def checkoutFiles (t : FMap Entry) (obs : Obs) : FMap WFile :=
  t.filterMap (fun kv => (obs.get kv.1).map (fun o => (kv.1, (⟨kv.2.kind, kv.2.cid, o.1, o.2⟩ : WFile))))

def checkedOut (t : FMap Entry) (obs : Obs) : World :=
  { head := t, index := (checkoutFiles t obs).map (fun kv => (kv.1, kv.2.ientry)), wd := checkoutFiles t obs }

def checkoutFresh (t : FMap Entry) (obs : Obs) : Except WErr World :=
  if !t.keys.all validPath then .error .invalidPath
  else if !t.keys.all obs.has then .error .badObs
  else .ok (checkedOut t obs)

/-! ### branch switch (`porcelain.checkout(repo, branch)`) -/

inductive Change where
  | delete (p : Path) (old : Entry)
  | add (p : Path) (new : Entry)
  | modify (p : Path) (old new : Entry)
  deriving DecidableEq, Repr

/-- Component-wise order of paths (`/` sorts before every other byte): the order in which
`walk_trees` meets them. -/
def pathKey (p : Path) : List Nat := p.map (fun b => if b = slash then 0 else b.toNat + 1)

def keyLt : List Nat → List Nat → Bool
  | [], [] => false
  | [], _ :: _ => true
  | _ :: _, [] => false
  | a :: as, b :: bs => a < b || (a == b && keyLt as bs)

def pathLt (a b : Path) : Bool := keyLt (pathKey a) (pathKey b)

def insertPath (p : Path) : List Path → List Path
  | [] => [p]
  | q :: r => if p = q then q :: r else if pathLt p q then p :: q :: r else q :: insertPath p r

def sortPaths (ps : List Path) : List Path := ps.foldr insertPath []

def isLink (k : Kind) : Bool := k == .symlink

def dedupPaths : List Path → List Path
  | [] => []
  | p :: r => if p ∈ r then dedupPaths r else p :: dedupPaths r

/-- The changes `tree_changes` reports at one path; a change of file type (`S_IFMT`) is reported as
delete + add. -/
def changesAt (a b : FMap Entry) (p : Path) : List Change :=
  match a.get p, b.get p with
  | some x, some y =>
    if x = y then []
    else if isLink x.kind != isLink y.kind then [.delete p x, .add p y]
    else [.modify p x y]
  | some x, none => [.delete p x]
  | none, some y => [.add p y]
  | none, none => []

/-- The paths of both trees, each once, in walk order. -/
def changedPathOrder (a b : FMap Entry) : List Path := sortPaths (dedupPaths (a.keys ++ b.keys))

/-- `tree_changes(store, a, b)` for flattened trees. -/
def changes (a b : FMap Entry) : List Change := (changedPathOrder a b).flatMap (changesAt a b)

/-- `_check_file_matches` for a regular file on disk: the permission bits first — both sides reduced to
0o644 / 0o755, which makes a symbolic-link entry count as 0o644 —, then size and content. -/
def fileMatches (f : WFile) (e : Entry) : Bool :=
  ((f.kind == .executable) == (e.kind == .executable)) && f.cid == e.cid

/-- `verify_leading_dirs(path, [], root)`: a leading component that is a symbolic link. -/
def hasLinkAncestor (wd : FMap WFile) (p : Path) : Bool :=
  wd.keys.any (fun k => isAncestor k p &&
    match wd.get k with
    | some f => isLink f.kind
    | none => false)

structure WT where
  wd : FMap WFile
  index : FMap IEntry

/-- Write the file for entry `e` at `p` (`build_file_from_blob`) and record it in the index. -/
def writeFile (obs : Obs) (s : WT) (p : Path) (e : Entry) : Except WErr WT :=
  match obs.get p with
  | none => .error .badObs
  | some o => .ok ⟨s.wd.put p ⟨e.kind, e.cid, o.1, o.2⟩, s.index.put p ⟨e.kind, e.cid, o.1⟩⟩

/-- `_transition_to_file` -/
def transitionToFile (obs : Obs) (s : WT) (p : Path) (e : Entry) : Except WErr WT :=
  if !validPath p then .error .invalidPath
  else if hasLinkAncestor s.wd p then .error .invalidPath
  else match lstatView s.wd p with
    | .enotdir => .error .osError
    | .dir => .error .isADirectory
    | .enoent => writeFile obs s p e
    | .file f =>
      if (isLink f.kind == isLink e.kind) && (if isLink f.kind then f.cid == e.cid else fileMatches f e) then
        .ok ⟨s.wd, s.index.put p ⟨f.kind, e.cid, f.stat⟩⟩
      else writeFile obs s p e

/-- `_transition_to_absent` -/
def transitionToAbsent (fl : Flags) (s : WT) (p : Path) : Except WErr WT :=
  if !validPath p then .ok s
  else match lstatView s.wd p with
    | .enotdir => .error .osError
    | .enoent => if fl.absentDropsIndex then .ok ⟨s.wd, s.index.erase p⟩ else .ok s
    | .dir => .ok ⟨s.wd, s.index.erase p⟩
    | .file _ => .ok ⟨s.wd.erase p, s.index.erase p⟩

def applyChange (fl : Flags) (obs : Obs) (s : WT) : Change → Except WErr WT
  | .delete p _ => transitionToAbsent fl s p
  | .add p e => transitionToFile obs s p e
  | .modify p _ e => transitionToFile obs s p e

/-- Apply the changes in order; on the first error the files written so far stay, the index is not
written.  Returns the state and the error, if any. -/
def applyChanges (fl : Flags) (obs : Obs) : WT → List Change → WT × Option WErr
  | s, [] => (s, none)
  | s, c :: cs =>
    match applyChange fl obs s c with
    | .ok s' => applyChanges fl obs s' cs
    | .error e => (s, some e)

/-- The change writes a file below `p`. -/
def writesBelow (p : Path) : Change → Bool
  | .add q _ => isAncestor p q
  | .modify q _ _ => isAncestor p q
  | .delete _ _ => false

/-- "paths becoming directories" pre-check of `update_working_tree`. -/
def preCheckDirs (wd : FMap WFile) (chs : List Change) : Except WErr Unit :=
  chs.foldl (fun acc ch =>
    match acc, ch with
    | .error e, _ => .error e
    | .ok (), .delete p old =>
      if chs.any (writesBelow p) then
        match lstatView wd p with
        | .enotdir => .error .osError
        | .file f => if !isLink f.kind && !fileMatches f old then .error .osError else .ok ()
        | _ => .ok ()
      else .ok ()
    | .ok (), _ => .ok ()) (.ok ())

/-- The file at `p`, if it is a regular file, still is what the old tree says (`_check_file_matches`). -/
def checkUnmodified (wd : FMap WFile) (p : Path) (old : Entry) : Except WErr Unit :=
  if !validPath p then .ok ()
  else match lstatView wd p with
    | .enotdir => .error .osError
    | .file f => if !isLink f.kind && !fileMatches f old then .error .modified else .ok ()
    | _ => .ok ()

/-- "uncommitted modifications" pre-check of `update_working_tree` (`allow_overwrite_modified=False`). -/
def preCheckModified (wd : FMap WFile) (chs : List Change) : Except WErr Unit :=
  chs.foldl (fun acc ch =>
    match acc, ch with
    | .error e, _ => .error e
    | .ok (), .delete p old => checkUnmodified wd p old
    | .ok (), .modify p old _ => checkUnmodified wd p old
    | .ok (), .add _ _ => .ok ()) (.ok ())

/-- `_check_uncommitted_changes(repo, target, force=False)`. -/
def checkUncommitted (fl : Flags) (w : World) (b : FMap Entry) : Except WErr Unit :=
  match status fl w with
  | .error e => .error e
  | .ok s =>
    (s.add ++ s.del ++ s.mod ++ s.unstaged).foldl (fun acc p =>
      match acc with
      | .error e => .error e
      | .ok () =>
        if hasFileAncestor b p then .error .notTree
        else if b.has p || hasDescendant b p then .error .conflict
        else .ok ()) (.ok ())

structure SwitchResult where
  world : World
  err : Option WErr
  deriving Repr

def Change.isDelete : Change → Bool
  | .delete _ _ => true
  | _ => false

/-- The order in which `update_working_tree` applies the changes. -/
def applyOrder (fl : Flags) (chs : List Change) : List Change :=
  if fl.deletesFirst then chs.filter Change.isDelete ++ chs.filter (fun c => !c.isDelete) else chs

/-- `porcelain.checkout(repo, branch)` where `branch` points at tree `b`. -/
def switchTo (fl : Flags) (w : World) (b : FMap Entry) (obs : Obs) : SwitchResult :=
  match checkUncommitted fl w b with
  | .error e => ⟨w, some e⟩
  | .ok () =>
    let chs := changes w.head b
    match preCheckDirs w.wd chs with
    | .error e => ⟨w, some e⟩
    | .ok () =>
      match preCheckModified w.wd chs with
      | .error e => ⟨w, some e⟩
      | .ok () =>
        match applyChanges fl obs ⟨w.wd, w.index⟩ (applyOrder fl chs) with
        | (s, some e) => ⟨{ w with wd := s.wd }, some e⟩
        | (s, none) => ⟨{ head := b, index := s.index, wd := s.wd }, none⟩

/-! ### reset --hard and forced checkout: index, work tree and target may all differ -/

/-- `tree_changes(old, new, want_unchanged=True)` at one path: an unchanged entry is visited like a
modified one (`CHANGE_UNCHANGED` goes through `_transition_to_file`). -/
def changesAtAll (a b : FMap Entry) (p : Path) : List Change :=
  match a.get p, b.get p with
  | some x, some y => if isLink x.kind != isLink y.kind then [.delete p x, .add p y] else [.modify p x y]
  | some x, none => [.delete p x]
  | none, some y => [.add p y]
  | none, none => []

def allChanges (a b : FMap Entry) : List Change := (changedPathOrder a b).flatMap (changesAtAll a b)

/-- `porcelain.reset(repo, "hard", commit)` where the commit's tree is `t`: HEAD is moved first, then the
work tree and the index are taken from the tree the index describes to `t`, overwriting local
modifications. -/
def resetHard (fl : Flags) (w : World) (t : FMap Entry) (obs : Obs) : SwitchResult :=
  let chs := allChanges (treeOf w.index) t
  match preCheckDirs w.wd chs with
  | .error e => ⟨{ w with head := t }, some e⟩
  | .ok () =>
    match applyChanges fl obs ⟨w.wd, w.index⟩ (applyOrder fl chs) with
    | (s, some e) => ⟨{ head := t, index := w.index, wd := s.wd }, some e⟩
    | (s, none) => ⟨{ head := t, index := s.index, wd := s.wd }, none⟩

/-- `porcelain.checkout(repo, branch, force=True)` / `porcelain.switch(…, force=True)`. -/
def switchForce (fl : Flags) (w : World) (b : FMap Entry) (obs : Obs) : SwitchResult :=
  let chs := if fl.forceUsesIndex then allChanges (treeOf w.index) b else changes w.head b
  match preCheckDirs w.wd chs with
  | .error e => ⟨w, some e⟩
  | .ok () =>
    match applyChanges fl obs ⟨w.wd, w.index⟩ (applyOrder fl chs) with
    | (s, some e) => ⟨{ w with wd := s.wd }, some e⟩
    | (s, none) => ⟨{ head := b, index := s.index, wd := s.wd }, none⟩

/-! ### edits of the property's quantifier -/

/-- Remove `p`, everything below `p`, and every file that is a leading component of `p`
(what must happen on a file system before a file can be created at `p`). -/
def clearAt (wd : FMap WFile) (p : Path) : FMap WFile :=
  wd.filter (fun kv => decide (kv.1 ≠ p) && !isAncestor p kv.1 && !isAncestor kv.1 p)

inductive Edit where
  /-- rewrite the content of the file at `p` (same size or not: that is in the new stat key) -/
  | modify (p : Path) (c : Cid) (s : StatKey)
  /-- change the executable bit -/
  | chmod (p : Path) (k : Kind) (s : StatKey)
  /-- delete the file / link at `p` -/
  | delete (p : Path)
  /-- delete directory `p` with everything below it -/
  | rmtree (p : Path)
  /-- create `f` at `p`, replacing whatever is there: nothing (add untracked), a file, a link, or a
  whole directory; leading components that are files are replaced by directories -/
  | create (p : Path) (f : WFile)
  /-- make `p` an (empty) directory, replacing whatever is there -/
  | mkdir (p : Path)
  /-- any other rearrangement of the working directory -/
  | setWd (wd : FMap WFile)
  | stage (p : Path)
  | unstage (p : Path)
  | rmCached (p : Path)
  | stageAll

/-- Operations that raise leave the world as it was (the index is only written on success). -/
def applyEdit (fl : Flags) (env : Env) (w : World) : Edit → World
  | .modify p c s =>
    match w.wd.get p with
    | some f => { w with wd := w.wd.put p { f with cid := c, stat := s } }
    | none => w
  | .chmod p k s =>
    match w.wd.get p with
    | some f => if f.kind = .symlink ∨ k = .symlink then w else { w with wd := w.wd.put p { f with kind := k, stat := s } }
    | none => w
  | .delete p => { w with wd := w.wd.erase p }
  | .rmtree p => { w with wd := w.wd.filter (fun kv => !isAncestor p kv.1) }
  | .create p f => { w with wd := (clearAt w.wd p).put p f }
  | .mkdir p => { w with wd := clearAt w.wd p }
  | .setWd wd => { w with wd := wd }
  | .stage p => stage w p
  | .unstage p => match unstage fl env w p with | .ok w' => w' | .error _ => w
  | .rmCached p => match rmCached w p with | .ok w' => w' | .error _ => w
  | .stageAll => match stageAll fl w with | .ok w' => w' | .error _ => w

def runEdits (fl : Flags) (env : Env) (w : World) (es : List Edit) : World := es.foldl (applyEdit fl env) w

end Dulwich.WorkTree
