/-
  C07 — the `_GitFile` lock protocol of dulwich/file.py as a labelled transition system at
  system-call granularity.  Core Lean only (the driver links against this file).

  * Global state: the directory (`FS`: which inode is at `f`, which at `f.lock`) and one record per
    actor (`Nat → Actor`: unboundedly many actors).
  * Each actor is a *caller* of one `_GitFile` handle: `GitFile(f, "wb")` followed by a script of
    API calls (`write d`, `close()`, `abort()`), with an exception handler script for a failing
    `write` (`hW`) and one for a failing `close()` (`hC`); an exception inside a handler ends
    the actor.  `with GitFile(..) as h: h.write(..)` is body `[write.., close]`, `hW = [abort]`,
    `hC = []` (and `hC = [abort]` once CPython has finalised the handle: `__del__` calls abort()).
    `Index.write` is body `[write.., close]`, `hW = [close]`, `hC = [close]`.
  * One transition = one system call of one actor (`open(O_EXCL)`, `write`, `flush`, `fsync`,
    `stat`, `chmod`, `rename`, `unlink`), which either executes atomically or fails with an
    injected error (`fault = true`).  Closing the Python file object
    (`self._file.close()`, whose implicit flush can fail — this is how a PERSISTENT write error
    shows up a second time inside abort()) is a step of its own, taken only while the file object
    is still open.  Everything else the Python code does between two calls (flag updates, guards,
    exception propagation into the caller's handler) is folded into the transition that precedes
    it (`settle`).
  * The *program* (`Program`) — order of the calls in `close()`, which of them sit inside the
    `try … finally: self.abort()`, whether `_closed` is set right after the rename, the guards —
    is not hard-coded: `gitFile` is assembled from `Gen/Lock.lean`, which the translator
    regenerates from the source on every run.  `gitFileOld` is the program before commit dd7ffc5
    (no `_closed = True` after the rename), kept as a regression witness.
-/
import DulwichModel.Model.LockFS
import DulwichModel.Gen.Lock

namespace Dulwich.Lock

/-- what the translator extracts from `_GitFile.__init__/close/abort` -/
structure Program where
  opens : List Bool                   -- EVERY `os.open(lock, …)` of `__init__` in source order: does it carry
                                      --   O_CREAT|O_EXCL.  The first is the normal open; each further one is a
                                      --   retry after the previous failed with ENOENT (parent directory missing)
                                      --   and the directory was re-created.
  guardClose : Bool                   -- close(): `if self._closed: return`
  closePre : List (PreCall × Bool)    -- close(): calls before the rename, in source order;
                                      --   flag = inside the `try … finally: self.abort()`
  finallyAbort : Bool                 -- the rename sits in `try … finally: self.abort()`
  markClosedOnReplace : Bool          -- `self._closed = True` right after the rename (dd7ffc5)
  guardAbort : Bool                   -- abort(): `if self._closed: return`
  abortRemoves : Bool                 -- abort(): `os.remove(self._lockfilename)`
  abortCloseInTry : Bool              -- abort(): `try: self._file.close() finally: <unlink>` (the unlink
                                      --   runs even when closing the file object raises)
  deriving Repr, DecidableEq

def hasFclose (l : List (PreCall × Bool)) : Bool := l.any (fun p => p.1 == .fclose)

/-- THE CHECKER (proved sound in Props/C07.lean, `check_sound`): decidable well-behavedness of a
`_GitFile` program — exclusive create, both `_closed` guards, `_closed = True` right after the
rename, abort() unlinks, the file object is closed before the rename; EVERY open of the lock file
(retry paths included) is exclusive. -/
def Program.wellBehaved (P : Program) : Bool :=
  !P.opens.isEmpty && P.opens.all id && P.guardClose && P.markClosedOnReplace && P.guardAbort
    && P.abortRemoves && hasFclose P.closePre

/-- "every failure inside close() is followed by abort()": the rename and all calls before it sit
inside the `try … finally: self.abort()` (premise of `close_failure_releases_lock`) -/
def Program.abortsOnAnyCloseFailure (P : Program) : Bool :=
  P.finallyAbort && P.closePre.all (fun p => p.2)

/-- the program as the source says it is NOW -/
def gitFile : Program :=
  { opens := Gen.Lock.opens
    guardClose := Gen.Lock.guardClose
    closePre := Gen.Lock.closePre
    finallyAbort := Gen.Lock.finallyAbort
    markClosedOnReplace := Gen.Lock.markClosedOnReplace
    guardAbort := Gen.Lock.guardAbort
    abortRemoves := Gen.Lock.abortRemoves
    abortCloseInTry := Gen.Lock.abortCloseInTry }

/-- the program before dd7ffc5: `finally: self.abort()` ran with `_closed` still false after a
successful rename -/
def gitFileOld : Program := { gitFile with markClosedOnReplace := false }

/-- the program with every call of close() that precedes the rename OUTSIDE the
`try … finally: self.abort()` — the code as it was when finding
F-C07-close-fault-before-rename-leaves-lock was recorded.  (Identical to `gitFile` until that
finding is repaired; kept explicit so that the negation witness survives the repair.) -/
def gitFilePreOutsideTry : Program :=
  { gitFile with closePre := gitFile.closePre.map (fun p => (p.1, false)) }

/-- the program with abort() closing the file object OUTSIDE any try/finally — the code as it was
when finding F-C07-abort-file-close-error-skips-unlink was recorded (identical to `gitFile` until
that finding is repaired; explicit so that the negation witness survives the repair) -/
def gitFileAbortCloseOutsideTry : Program := { gitFile with abortCloseInTry := false }

/-- API calls on a handle -/
inductive Op where
  | write (d : Bytes)
  | close
  | abort
  deriving DecidableEq, Repr

/-- where the acquisition of the lock stands (only meaningful while `pc = start`) -/
inductive Acq where
  | init                                       -- nothing done yet
  | mkdir (opens : List Bool)                  -- about to `ensure_dir_exists(parent)`, then these opens
  | open (excl : Bool) (retries : List Bool)   -- about to `os.open(f.lock, …)` with / without O_EXCL
  | rmdir                                      -- not a writer at all: about to `os.rmdir(parent)` (a pruner)
  deriving DecidableEq, Repr

/-- where an actor is: the system call it will issue next -/
inductive Pc where
  | start                                                  -- acquiring: see `Actor.acq`
  | wr (d : Bytes)                                         -- `self._file.write(d)`
  | pre (c : PreCall) (inTry : Bool) (rest : List (PreCall × Bool))  -- in close(), before the rename
  | replace                                                -- in close(): `os.replace(lock, f)`
  | fcClose (pending : Bool)   -- in close()'s abort(): `self._file.close()` (only when still open)
  | rmClose (pending : Bool)   -- in close()'s abort(): `os.remove(lock)`; pending = an exception is in flight
  | fcAbort                                                -- in abort(): `self._file.close()` (only when still open)
  | rmAbort                                                -- in abort(): `os.remove(lock)`
  | done
  deriving DecidableEq, Repr

structure Actor where
  -- configuration of the handle / the caller
  fsyncOn : Bool          -- GitFile(..., fsync=…)
  permOn : Bool           -- GitFile(..., shared_perm=…) with a mode change to apply
  hW : List Op            -- caller's handler when write() raises
  hC : List Op            -- caller's handler when close() raises
  mkdirFirst : Bool := false  -- the caller does `ensure_dir_exists(dirname)` before `GitFile(...)`
  -- control
  acq : Acq := .init
  pc : Pc
  todo : List Op          -- API calls still to make after the current one
  inHandler : Bool
  -- fields of `_GitFile`
  opened : Bool           -- `__init__` returned (the handle exists)
  fopen : Bool            -- `self._file` is open
  closed : Bool           -- `self._closed`
  -- ghost (not in the code): bookkeeping the theorems talk about
  owns : Bool             -- between its successful open and its own rename/unlink of `f.lock`
  written : Bytes         -- everything successfully written through the handle = content of `Ino.of i`
  committed : Option Bytes  -- `written` at the moment its rename succeeded
  rmFailed : Bool         -- an `os.remove` of this actor failed with an injected error
  fcFailed : Bool         -- closing the file object inside abort() raised and the unlink was skipped
  deriving Repr, DecidableEq

def Actor.init (fsyncOn permOn : Bool) (body hW hC : List Op) : Actor :=
  { fsyncOn, permOn, hW, hC, pc := .start, todo := body, inHandler := false,
    opened := false, fopen := false, closed := false,
    owns := false, written := [], committed := none, rmFailed := false, fcFailed := false }

/-- not a writer: one `os.rmdir(parent)` with errors suppressed — what `remove_if_equals` does to
the directories above a deleted ref, WITHOUT holding any lock -/
def Actor.pruner : Actor := { Actor.init false false [] [] [] with acq := .rmdir }

/-- what an initial actor looks like: nothing done, no handle, any caller script / configuration -/
def Actor.Fresh (a : Actor) : Prop :=
  a.pc = .start ∧ a.opened = false ∧ a.owns = false ∧ a.closed = false ∧ a.fopen = false ∧
    a.committed = none ∧ a.fcFailed = false ∧ (a.acq = .init ∨ a.acq = .rmdir)

/-- the acquisition state with `init` resolved: the caller's own `ensure_dir_exists`, or straight
to the first open -/
def Actor.acqNow (P : Program) (a : Actor) : Acq :=
  match a.acq with
  | .init => if a.mkdirFirst then .mkdir P.opens
             else (match P.opens with | [] => .mkdir [] | e :: r => .open e r)
  | x => x

/-- Walk through the calls of close() that precede the rename until one that is a system call for
this handle: `fsync` is skipped without `fsync=True`, `stat`/`chmod` without `shared_perm`,
`fclose` (closing the Python file object: its implicit flush can fail) when it is closed already. -/
def enterClose (a : Actor) : List (PreCall × Bool) → Actor
  | [] => { a with pc := .replace }
  | (c, t) :: rest =>
    match c with
    | .fclose => if a.fopen then { a with pc := .pre c t rest } else enterClose a rest
    | .fsync => if a.fsyncOn then { a with pc := .pre c t rest } else enterClose a rest
    | .stat => if a.permOn then { a with pc := .pre c t rest } else enterClose a rest
    | .chmod => if a.permOn then { a with pc := .pre c t rest } else enterClose a rest
    | .flush => { a with pc := .pre c t rest }

/-- Run the caller's script up to its next system call. -/
def settle (P : Program) (a : Actor) : List Op → Actor
  | [] => { a with pc := .done, todo := [] }
  | .write d :: rest => { a with pc := .wr d, todo := rest }
  | .close :: rest =>
    if P.guardClose && a.closed then settle P a rest
    else enterClose { a with todo := rest } P.closePre
  | .abort :: rest =>
    if P.guardAbort && a.closed then settle P a rest
    else if a.fopen then { a with pc := .fcAbort, todo := rest }
    else if P.abortRemoves then { a with pc := .rmAbort, todo := rest }
    else settle P { a with closed := true } rest

/-- An exception leaves the current API call: the caller's handler `h` runs (once). -/
def raise (P : Program) (a : Actor) (h : List Op) : Actor :=
  if a.inHandler then { a with pc := .done, todo := [] }
  else settle P { a with inHandler := true } h

/-- after close() is over: propagate the pending exception or go on with the script -/
def afterClose (P : Program) (a : Actor) (pending : Bool) : Actor :=
  if pending then raise P a a.hC else settle P a a.todo

/-- abort() inside close(), after `self._file.close()`: the unlink -/
def unlinkInClose (P : Program) (a : Actor) (pending : Bool) : Actor :=
  if P.abortRemoves then { a with pc := .rmClose pending }
  else afterClose P { a with closed := true } pending

/-- `self.abort()` called from inside close() (the `finally`) -/
def abortInClose (P : Program) (a : Actor) (pending : Bool) : Actor :=
  if P.guardAbort && a.closed then afterClose P a pending
  else if a.fopen then { a with pc := .fcClose pending }
  else unlinkInClose P a pending

/-- abort() called by the caller, after `self._file.close()`: the unlink -/
def unlinkInAbort (P : Program) (a : Actor) : Actor :=
  if P.abortRemoves then { a with pc := .rmAbort }
  else settle P { a with closed := true } a.todo

/-- a call of close() before the rename failed -/
def preFail (P : Program) (a : Actor) (inTry : Bool) : Actor :=
  if inTry then abortInClose P a true else raise P a a.hC

/-- effect of a transition on the directory -/
inductive Eff where
  | none | create | replace | remove | mkdir | rmdir
  deriving DecidableEq, Repr

/-- what the system call returned -/
inductive Out where
  | ok | exists | noent | injected | valueError | skip
  | noentRetry     -- the open failed with ENOENT and `__init__` goes on to re-create the directory and retry
  | notEmpty       -- rmdir: ENOTEMPTY / ENOENT (suppressed by the pruner)
  deriving DecidableEq, Repr

def Out.name : Out → String
  | .ok => "ok" | .exists => "FileExistsError" | .noent => "FileNotFoundError"
  | .injected => "inject" | .valueError => "ValueError" | .skip => "skip"
  | .noentRetry => "FileNotFoundError" | .notEmpty => "OSError"

def Acq.call : Acq → String
  | .init => "?" | .mkdir _ => "mkdir" | .open true _ => "open-x" | .open false _ => "open-w" | .rmdir => "rmdir"

/-- name of the system call an actor at `pc` issues (for the correspondence; for `start` see `Acq.call`) -/
def Pc.call : Pc → String
  | .start => "open-x" | .wr _ => "write" | .pre c _ _ => c.name | .replace => "replace"
  | .rmClose _ => "remove" | .rmAbort => "remove" | .fcClose _ => "fclose" | .fcAbort => "fclose"
  | .done => "-"

/-- The acquisition (`pc = start`): the caller's `ensure_dir_exists`, the open(s) of `__init__` with
the retry after ENOENT, or — for a pruner — the rmdir. -/
def acquireStep (P : Program) (a : Actor) (lockThere dirThere dirEmpty fault : Bool) :
    Actor × Eff × Out :=
  match a.acqNow P with
  | .init => ({ a with pc := .done, todo := [] }, .none, .skip)     -- (unreachable: `acqNow` resolves it)
  | .rmdir =>
    if fault then ({ a with pc := .done, todo := [] }, .none, .injected)
    else if dirThere && dirEmpty then ({ a with pc := .done, todo := [] }, .rmdir, .ok)
    else ({ a with pc := .done, todo := [] }, .none, .notEmpty)
  | .mkdir opens =>
    if fault then ({ a with pc := .done, todo := [] }, .none, .injected)
    else match opens with
      | [] => ({ a with pc := .done, todo := [] }, .mkdir, .ok)          -- (no open at all: nothing to model)
      | e :: r => ({ a with acq := .open e r }, .mkdir, .ok)
  | .open excl retries =>
    if fault then ({ a with pc := .done, todo := [] }, .none, .injected)
    else if !dirThere then
      -- ENOENT: the parent directory is missing
      (match retries with
       | [] => ({ a with pc := .done, todo := [] }, .none, .noent)        -- FileNotFoundError reaches the caller
       | _ :: _ => ({ a with acq := .mkdir retries }, .none, .noentRetry))  -- re-create the directory, retry
    else if excl && lockThere then ({ a with pc := .done, todo := [] }, .none, .exists)
    else (settle P { a with opened := true, fopen := true, owns := true } a.todo, .create, .ok)

/-- One system call of one actor.  `lockThere`: does `f.lock` exist right now; `dirThere`: does the
parent directory; `dirEmpty`: is it empty.  `fault`: the call raises an injected error instead of
executing. -/
def actorStep (P : Program) (a : Actor) (lockThere dirThere dirEmpty fault : Bool) :
    Actor × Eff × Out :=
  match a.pc with
  | .done => (a, .none, .skip)
  | .start => acquireStep P a lockThere dirThere dirEmpty fault
  | .wr d =>
    if fault then (raise P a a.hW, .none, .injected)
    else if !a.fopen then (raise P a a.hW, .none, .valueError)
    else (settle P { a with written := a.written ++ d } a.todo, .none, .ok)
  | .pre c t rest =>
    if fault then
      -- (CPython closes the descriptor even when the file object's close() raises)
      (preFail P (match c with | .fclose => { a with fopen := false } | _ => a) t, .none, .injected)
    else match c with
      | .flush =>
        if !a.fopen then (preFail P a t, .none, .valueError) else (enterClose a rest, .none, .ok)
      | .fsync => (enterClose a rest, .none, .ok)
      | .fclose => (enterClose { a with fopen := false } rest, .none, .ok)
      | .stat => if lockThere then (enterClose a rest, .none, .ok) else (preFail P a t, .none, .noent)
      | .chmod => if lockThere then (enterClose a rest, .none, .ok) else (preFail P a t, .none, .noent)
  | .replace =>
    if fault then
      ((if P.finallyAbort then abortInClose P a true else raise P a a.hC), .none, .injected)
    else if !lockThere then
      ((if P.finallyAbort then abortInClose P a true else raise P a a.hC), .none, .noent)
    else
      let a1 := { a with owns := false, committed := some a.written,
                         closed := a.closed || P.markClosedOnReplace }
      ((if P.finallyAbort then abortInClose P a1 false else settle P a1 a1.todo), .replace, .ok)
  | .fcClose pending =>
    if fault then
      -- `self._file.close()` inside abort() raised: without the try/finally the unlink is skipped and
      -- this new exception leaves close() with the lock file still on disk
      ((if P.abortCloseInTry then unlinkInClose P { a with fopen := false } true
        else raise P { a with fopen := false, fcFailed := true } a.hC), .none, .injected)
    else (unlinkInClose P { a with fopen := false } pending, .none, .ok)
  | .rmClose pending =>
    if fault then (raise P { a with rmFailed := true } a.hC, .none, .injected)
    else
      (afterClose P { a with owns := false, closed := true } pending,
       (if lockThere then .remove else .none), (if lockThere then .ok else .noent))
  | .fcAbort =>
    if fault then
      -- abort() raises towards the caller (which ends the script); the unlink only runs with the try/finally
      ((if P.abortCloseInTry then unlinkInAbort P { a with fopen := false, todo := [] }
        else { a with fopen := false, fcFailed := true, pc := .done, todo := [] }), .none, .injected)
    else (unlinkInAbort P { a with fopen := false }, .none, .ok)
  | .rmAbort =>
    if fault then ({ a with rmFailed := true, pc := .done, todo := [] }, .none, .injected)
    else
      (settle P { a with owns := false, closed := true } a.todo,
       (if lockThere then .remove else .none), (if lockThere then .ok else .noent))

structure State where
  fs : FS
  actors : Nat → Actor

def applyEff (fs : FS) (i : Nat) : Eff → FS
  | .none => fs
  | .create => { fs with lock := some i }
  | .replace => (fs.replace).getD fs
  | .remove => (fs.remove).getD fs
  | .mkdir => fs.mkdir
  | .rmdir => (fs.rmdir).getD fs

/-- one transition of the whole system: actor `i` performs its pending system call -/
def step (P : Program) (s : State) (i : Nat) (fault : Bool) : State :=
  let r := actorStep P (s.actors i) s.fs.lock.isSome s.fs.dir s.fs.isEmpty fault
  { fs := applyEff s.fs i r.2.1
    actors := fun j => if j = i then r.1 else s.actors j }

def stepOut (P : Program) (s : State) (i : Nat) (fault : Bool) : Out :=
  (actorStep P (s.actors i) s.fs.lock.isSome s.fs.dir s.fs.isEmpty fault).2.2

/-- name of the call actor `i` is about to make (for the correspondence) -/
def stepCall (P : Program) (s : State) (i : Nat) : String :=
  match (s.actors i).pc with
  | .start => ((s.actors i).acqNow P).call
  | pc => pc.call

/-- a schedule: which actor moves, and whether its call is made to fail -/
abbrev Sched := List (Nat × Bool)

def run (P : Program) (s : State) : Sched → State
  | [] => s
  | (i, f) :: rest => run P (step P s i f) rest

/-- states reachable from `s0` under some schedule -/
inductive Reach (P : Program) (s0 : State) : State → Prop where
  | init : Reach P s0 s0
  | step (s : State) (i : Nat) (fault : Bool) : Reach P s0 s → Reach P s0 (step P s i fault)

/-- a state with finitely many configured actors (all others idle callers that never get scheduled
in the examples); `tgt` = is there an initial file at `f` -/
def State.ofList (tgt : Bool) (as : List Actor) (dir : Bool := true) : State :=
  { fs := { target := if tgt then some .init else none, lock := none, dir := dir }
    actors := fun j => as.getD j (Actor.init false false [] [] []) }

/-- content of `f` (what a reader gets), given the content of the initial file -/
def content (s : State) (init : Bytes) : Option Bytes :=
  match s.fs.target with
  | none => none
  | some .init => some init
  | some (.of i) => some (s.actors i).written

/-- initial states: `f` absent or the initial file, no lock, every actor about to open -/
structure Initial (s : State) : Prop where
  lockFree : s.fs.lock = none
  targetInit : s.fs.target = none ∨ s.fs.target = some .init
  fresh : ∀ i, (s.actors i).Fresh

/-! ### the `with GitFile(...)` caller -/

def withBody (ds : List Bytes) : List Op := ds.map .write ++ [.close]

/-- `with GitFile(f,"wb") as h: for d in ds: h.write(d)`; `finalised` = the handle is dropped
after an exception escaped from close() (CPython then runs `__del__`, which calls abort()). -/
def withCaller (mk fsyncOn permOn : Bool) (ds : List Bytes) (finalised : Bool) : Actor :=
  { Actor.init fsyncOn permOn (withBody ds)
      (if Gen.Lock.exitAbortsOnException then [.abort] else [.close])
      (if finalised && Gen.Lock.delAborts then [.abort] else []) with mkdirFirst := mk }

/-- `Index.write` before commit 3b15974: `except: f.close(); raise` -/
def indexWriteCaller (fsyncOn permOn : Bool) (ds : List Bytes) : Actor :=
  Actor.init fsyncOn permOn (withBody ds) [.close] [.close]

/-- `Index.write` as the source says it is NOW: one `except:` around the writes and the close, whose
handler the translator reads off (`f.close()` before 3b15974, `f.abort()` since) -/
def indexWriteCallerNow (fsyncOn permOn : Bool) (ds : List Bytes) : Actor :=
  Actor.init fsyncOn permOn (withBody ds)
    (if Gen.Lock.indexWriteErrCloses then [.close] else [.abort])
    (if Gen.Lock.indexWriteErrCloses then [.close] else [.abort])

end Dulwich.Lock
