/-
  C14 — generic sound-cache refinement and the layered lookups of the accelerator consumers.

  Every optional acceleration structure in dulwich is consulted the same way: ask the accelerator,
  and when it has no answer fall back to the authoritative source
    * `ParentsProvider.get_parents` / `_collect_ancestors`:  `commit_graph.get_parents(e)`, `None` ⇒ read the commit;
    * `DiskObjectStore.get_raw`: MIDX `object_offset`, `None` / missing pack ⇒ per-pack lookup;
    * `DiskObjectStore.contains_packed`: `sha in midx` ⇒ True (NO check that the named pack exists), else per-pack;
    * `RefsContainer.read_ref`: loose file first, packed-refs when there is no loose file.
  Core Lean only.
-/
import DulwichModel.Model.Basic

namespace Dulwich.Accel

/-- Consult the cache `c`; fall back to `base` when it has no entry. -/
def withCache {κ ν : Type} (c : κ → Option ν) (base : κ → ν) : κ → ν :=
  fun k => match c k with
    | some v => v
    | none => base k

/-- A cache is *sound* for `base` when every entry it has is the answer `base` would give. -/
def Sound {κ ν : Type} (c : κ → Option ν) (base : κ → ν) : Prop :=
  ∀ k v, c k = some v → base k = v

/-! ### refs: loose files over packed-refs (`RefsContainer.read_ref`) -/

/-- `contents = read_loose_ref(name); if not contents: contents = get_packed_refs().get(name)` -/
def readRef {Name Val : Type} (loose packed : Name → Option Val) : Name → Option Val :=
  fun n => match loose n with
    | some v => some v
    | none => packed n

/-- `pack_refs(all=True)` / `add_packed_refs`: every ref in `sel` that has a value moves to the packed
file and its loose file is removed. -/
def packRefs {Name Val : Type} (sel : Name → Bool) (loose packed : Name → Option Val) :
    (Name → Option Val) × (Name → Option Val) :=
  (fun n => if sel n then none else loose n,
   fun n => if sel n then readRef loose packed n else packed n)

/-- setting a ref writes the loose file only (the packed entry, if any, becomes stale) -/
def setLoose {Name Val : Type} [DecidableEq Name] (n0 : Name) (v : Val) (loose : Name → Option Val) :
    Name → Option Val := fun n => if n = n0 then some v else loose n

/-- deleting a ref removes the loose file and the packed entry -/
def deleteRef {Name Val : Type} [DecidableEq Name] (n0 : Name) (loose packed : Name → Option Val) :
    (Name → Option Val) × (Name → Option Val) :=
  (fun n => if n = n0 then none else loose n, fun n => if n = n0 then none else packed n)

/-! ### object lookup through a multi-pack-index (`DiskObjectStore.get_raw` / `contains_packed`) -/

/-- `get_raw`: the MIDX names a pack; the object is then read *from that pack* and a missing pack or a
missing object in it (`KeyError`, `PackFileDisappeared`) falls through to the standard lookup. -/
def getRawVia {Oid Pack Obj : Type} (midx : Oid → Option Pack) (packGet : Pack → Oid → Option Obj)
    (base : Oid → Option Obj) : Oid → Option Obj :=
  fun o => match midx o with
    | some p => (match packGet p o with
        | some x => some x
        | none => base o)
    | none => base o

/-- `contains_packed` as coded: `midx is not None and sha in midx` answers True without looking at the
pack the entry names. -/
def containsVia {Oid Pack : Type} (midx : Oid → Option Pack) (base : Oid → Bool) : Oid → Bool :=
  fun o => match midx o with
    | some _ => true
    | none => base o

/-! ### bitmap header gate (`read_bitmap_file` + `Pack.bitmap`) -/

/-- `Pack.bitmap`: the checksum recorded in the bitmap header must equal the pack's own trailer checksum,
otherwise the file is ignored (`ChecksumMismatch` ⇒ `None`). `hdr` is the header after the signature,
version and flags were accepted: entry count (4 bytes) then the 20-byte pack checksum. -/
def bitmapGate (packChecksum : Bytes) (stored : Bytes) : Bool := stored == packChecksum

end Dulwich.Accel
