/-
  C14 — generic sound-cache refinement and the layered lookups of the accelerator consumers.

  Every optional acceleration structure in dulwich is consulted the same way: ask the accelerator,
  and when it has no answer fall back to the authoritative source
    * `ParentsProvider.get_parents` / `_collect_ancestors`:  `commit_graph.get_parents(e)`, `None` ⇒ read the commit;
    * `DiskObjectStore.get_raw`: MIDX `object_offset`, `None` / missing pack ⇒ per-pack lookup;
    * `DiskObjectStore.contains_packed`: MIDX entry + the named pack has the object ⇒ True, else per-pack;
    * `RefsContainer.read_ref`: loose file first, packed-refs when there is no loose file.
  Core Lean only.
-/
import DulwichModel.Model.Basic

namespace Dulwich.Accel

/-- Consult the cache `c`; fall back to `base` when it has no entry. -/
def withCache {κ ν : Type} (c : κ → Option ν) (base : κ → ν) : κ → ν :=
  fun k => match c k with
    | some v => v
    | none => base k

/-- A cache is *sound* for `base` when every entry it has is the answer `base` would give. -/
def Sound {κ ν : Type} (c : κ → Option ν) (base : κ → ν) : Prop :=
  ∀ k v, c k = some v → base k = v

/-! ### commit-graph consumers and staleness -/

/-- `ParentsProvider.get_parents` / `_collect_ancestors`: graph first, commit object otherwise
(`store k = none` ⇔ the commit is not in the object store ⇒ `KeyError`) -/
def parentsVia {Oid : Type} (g : Oid → Option (List Oid)) (store : Oid → Option (List Oid)) :
    Oid → Option (List Oid) := withCache (fun k => (g k).map some) store

/-- Commits are immutable (content addressed): a repository evolves by adding and pruning objects, never by
changing one. -/
def Evolves {Oid : Type} (s0 s1 : Oid → Option (List Oid)) : Prop :=
  ∀ k v, s0 k = some v → s1 k = some v ∨ s1 k = none

/-- diamond history used by the negation witnesses: 0 ← 1 ← 2, 0 ← 3, 4 = merge(2, 3) -/
def diamond : Nat → List Nat
  | 1 => [0] | 2 => [1] | 3 => [0] | 4 => [2, 3] | _ => []

/-! ### refs: loose files over packed-refs (`RefsContainer.read_ref`) -/

/-- `contents = read_loose_ref(name); if not contents: contents = get_packed_refs().get(name)` -/
def readRef {Name Val : Type} (loose packed : Name → Option Val) : Name → Option Val :=
  fun n => match loose n with
    | some v => some v
    | none => packed n

/-- `pack_refs(all=True)` / `add_packed_refs`: every ref in `sel` that has a value moves to the packed
file and its loose file is removed. -/
def packRefs {Name Val : Type} (sel : Name → Bool) (loose packed : Name → Option Val) :
    (Name → Option Val) × (Name → Option Val) :=
  (fun n => if sel n then none else loose n,
   fun n => if sel n then readRef loose packed n else packed n)

/-- setting a ref writes the loose file only (the packed entry, if any, becomes stale) -/
def setLoose {Name Val : Type} [DecidableEq Name] (n0 : Name) (v : Val) (loose : Name → Option Val) :
    Name → Option Val := fun n => if n = n0 then some v else loose n

/-- deleting a ref removes the loose file and the packed entry -/
def deleteRef {Name Val : Type} [DecidableEq Name] (n0 : Name) (loose packed : Name → Option Val) :
    (Name → Option Val) × (Name → Option Val) :=
  (fun n => if n = n0 then none else loose n, fun n => if n = n0 then none else packed n)

/-! ### object lookup through a multi-pack-index (`DiskObjectStore.get_raw` / `contains_packed`) -/

/-- `get_raw`: the MIDX names a pack; the object is then read *from that pack* and a missing pack or a
missing object in it (`KeyError`, `PackFileDisappeared`) falls through to the standard lookup. -/
def getRawVia {Oid Pack Obj : Type} (midx : Oid → Option Pack) (packGet : Pack → Oid → Option Obj)
    (base : Oid → Option Obj) : Oid → Option Obj :=
  fun o => match midx o with
    | some p => (match packGet p o with
        | some x => some x
        | none => base o)
    | none => base o

/-- `get_raw` with the MIDX entry as it is stored — (pack, offset): `pack_name, _offset = result` — the offset is
NOT used, the object is looked up again through the named pack's own index (`pack.get_raw(sha)`). -/
def getRawViaEntry {Oid Pack Obj : Type} (midx : Oid → Option (Pack × Nat)) (packGet : Pack → Oid → Option Obj)
    (base : Oid → Option Obj) : Oid → Option Obj :=
  getRawVia (fun o => (midx o).map (·.1)) packGet base

/-- the variant that TRUSTS the stored offset (reads the pack file at that offset; `readAt p off = none` ⇔ the pack is
gone; a failure to inflate is not a KeyError, so there is no fall-back) — not what the code does; kept to show
what would go wrong -/
def getRawAtOffset {Oid Pack Obj : Type} (midx : Oid → Option (Pack × Nat)) (readAt : Pack → Nat → Option Obj)
    (base : Oid → Option Obj) : Oid → Option Obj :=
  fun o => match midx o with
    | some (p, off) => (match readAt p off with
        | some x => some x
        | none => base o)
    | none => base o

/-- `contains_packed`: a MIDX entry is believed only if the pack it names still exists and has the object
(`sha in self._get_pack_by_name(name)`; `KeyError` / `PackFileDisappeared` ⇒ per-pack lookup), as in `get_raw`. -/
def containsVia {Oid Pack : Type} (midx : Oid → Option Pack) (packHas : Pack → Oid → Bool)
    (base : Oid → Bool) : Oid → Bool :=
  fun o => match midx o with
    | some p => if packHas p o then true else base o
    | none => base o

/-- `contains_packed` BEFORE the repair: `midx is not None and sha in midx` answered True without looking at
the pack the entry names.  Kept for the regression witness. -/
def containsViaOld {Oid Pack : Type} (midx : Oid → Option Pack) (base : Oid → Bool) : Oid → Bool :=
  fun o => match midx o with
    | some _ => true
    | none => base o

/-! ### reachability providers (`GraphTraversalReachability` vs `BitmapReachability`) on a finite DAG

Commits are numbers, the history is a parent function.  Both walks are fuel-bounded (fuel = number of commits
suffices on a DAG); results are duplicate-free lists compared as sets (`sameSet`). -/

/-- `_collect_ancestors(store, heads, common)`: breadth-first from `heads`; a commit in `common` is not
entered (and not reported) — its ancestors can still be reached along other paths. -/
def collectAncestors (parents : Nat → List Nat) (common : List Nat) : Nat → List Nat → List Nat → List Nat
  | 0, _, seen => seen
  | _ + 1, [], seen => seen
  | fuel + 1, e :: queue, seen =>
    if common.contains e ∨ seen.contains e then collectAncestors parents common fuel queue seen
    else collectAncestors parents common fuel (queue ++ parents e) (seen ++ [e])

/-- `_collect_ancestors(store, heads, common, shallow)` with the parent source as a parameter (`parentsOf` is the
object store, or the commit-graph falling back to the store): a commit in `shallow` (the OTHER side's boundary in
upload-pack / a depth fetch from a full repository) is reported but never expanded — the `e in shallow` test comes
before EITHER parent source is asked. -/
def collectAncestorsSh (parentsOf : Nat → List Nat) (common shallow : List Nat) : Nat → List Nat → List Nat → List Nat
  | 0, _, seen => seen
  | _ + 1, [], seen => seen
  | fuel + 1, e :: queue, seen =>
    if common.contains e ∨ seen.contains e then collectAncestorsSh parentsOf common shallow fuel queue seen
    else if shallow.contains e then collectAncestorsSh parentsOf common shallow fuel queue (seen ++ [e])
    else collectAncestorsSh parentsOf common shallow fuel (queue ++ parentsOf e) (seen ++ [e])

/-- the BROKEN variant in which the shallow test guards only the object-load branch: a graph hit walks below
the boundary.  Not what the code does; kept for the negation witness. -/
def collectAncestorsShGraphFirst (graph : Nat → Option (List Nat)) (store : Nat → List Nat) (common shallow : List Nat) :
    Nat → List Nat → List Nat → List Nat
  | 0, _, seen => seen
  | _ + 1, [], seen => seen
  | fuel + 1, e :: queue, seen =>
    if common.contains e ∨ seen.contains e then collectAncestorsShGraphFirst graph store common shallow fuel queue seen
    else match graph e with
      | some ps => collectAncestorsShGraphFirst graph store common shallow fuel (queue ++ ps) (seen ++ [e])
      | none =>
        if shallow.contains e then collectAncestorsShGraphFirst graph store common shallow fuel queue (seen ++ [e])
        else collectAncestorsShGraphFirst graph store common shallow fuel (queue ++ store e) (seen ++ [e])

/-- `GraphTraversalReachability.get_reachable_commits(heads, exclude)` -/
def traversalReach (parents : Nat → List Nat) (fuel : Nat) (heads exclude : List Nat) : List Nat :=
  collectAncestors parents exclude fuel heads []

/-- the bitmap `build_reachability_bitmap` stores for one commit: its ancestry, restricted to the pack -/
def bitmapOf (parents : Nat → List Nat) (fuel : Nat) (pack : List Nat) (c : Nat) : List Nat :=
  (collectAncestors parents [] fuel [c] []).filter pack.contains

/-- `BitmapReachability.get_reachable_commits(heads, exclude)`: OR of the heads' bitmaps minus OR of the
excluded commits' bitmaps -/
def bitmapReach (parents : Nat → List Nat) (fuel : Nat) (pack : List Nat) (heads exclude : List Nat) : List Nat :=
  let inc := (heads.flatMap (bitmapOf parents fuel pack)).eraseDups
  let exc := exclude.flatMap (bitmapOf parents fuel pack)
  inc.filter (fun c => !exc.contains c)

def sameSet (a b : List Nat) : Bool := a.all b.contains && b.all a.contains

/-! ### bitmap header gate (`read_bitmap_file` + `Pack.bitmap`) -/

/-- `Pack.bitmap`: the checksum recorded in the bitmap header must equal the pack's own trailer checksum,
otherwise the file is ignored (`ChecksumMismatch` ⇒ `None`). `hdr` is the header after the signature,
version and flags were accepted: entry count (4 bytes) then the 20-byte pack checksum. -/
def bitmapGate (packChecksum : Bytes) (stored : Bytes) : Bool := stored == packChecksum

end Dulwich.Accel
