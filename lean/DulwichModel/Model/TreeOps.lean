/-
  C12 — tree building, flattening, diffing and patching (executable model, core Lean only).

  Real code                                              model
  ----------------------------------------------------   -------------------------------------------
  dulwich/index.py        commit_tree                    `commitTree` (fold of `Tree.insert`)
  dulwich/objects.py      Tree.iteritems / key_entry     `Tree.toList` (name order) / `keyEntry`, `sortCanon`
                          serialize_tree, Tree.id        `serializeEntries`, `Tree.body`, `Tree.id` (hash `H` parameter)
                          Tree.lookup_path               `Tree.lookupPath`
  dulwich/object_store.py iter_tree_contents             `Tree.flatten`, `iterTreeContents`
                          tree_lookup_path               `Tree.lookupPath`
                          commit_tree_changes            `commitTreeChanges`
  dulwich/diff_tree.py    _merge_entries                 `mergeEntries`
                          walk_trees                     `walk`
                          tree_changes                   `changesOfPair`, `treeChanges`
                          RenameDetector (post-pass)     `renameStep`, `renamePass` (any pairing)
  (specification)         patching a flat listing        `applyChanges`

  Representation.  A directory is a `Tree`: the list of its children, nested, as ONE inductive type
  (first-child / next-sibling form of `T | file | dir (List (Name × T))`, chosen so that every
  function below is structurally recursive and every proof is a plain `induction`).  The order of
  the constructors in a `Tree` is the order in which `Tree.iteritems(name_order=True)` yields the
  entries; well-formedness (`Tree.WF`: names strictly increasing, no empty sub-directory, no leaf
  with a directory mode) is a separate decidable predicate, not a subtype.

  Paths are lists of components (`b"a/b/c"` ↔ `[a, b, c]`, split/joined on `Gen.pathSep` at the
  boundary: `splitPath`, `joinPath`); object ids are the RAW digest bytes (the driver prints them in
  hex, which is dulwich's `ObjectID`).  The object hash is a parameter `H : Bytes → Id` applied to
  the serialised tree body (the driver instantiates it with SHA-1 of `tree <len>\0 ++ body`,
  implemented below and validated against hashlib in its own correspondence stream; no theorem is
  stated about SHA-1).
-/
import DulwichModel.Model.Basic
import DulwichModel.Gen.TreeOps

namespace Dulwich.TreeOps
open Dulwich

abbrev Name := Bytes
abbrev Path := List Name
abbrev Id := Bytes

/-- a non-directory tree entry: blob (regular / executable), symlink or gitlink -/
structure Leaf where
  mode : Nat
  id : Id
  deriving DecidableEq, Repr

inductive Tree where
  | nil
  | file (name : Name) (leaf : Leaf) (rest : Tree)
  | dir (name : Name) (children : Tree) (rest : Tree)
  deriving DecidableEq, Repr

inductive Node where
  | file (leaf : Leaf)
  | dir (t : Tree)
  deriving DecidableEq, Repr

/-- `TreeEntry(path, mode, sha)` -/
structure Entry where
  path : Path
  mode : Nat
  id : Id
  deriving DecidableEq, Repr

/-! ### modes -/

/-- `stat.S_IFMT(mode)` = `mode & 0o170000` -/
def sIFMT (m : Nat) : Nat := m &&& Gen.TreeOps.sIFMT
/-- `stat.S_ISDIR(mode)` -/
def isDirMode (m : Nat) : Bool := sIFMT m == Gen.TreeOps.sIFDIR
/-- `S_ISGITLINK(mode)` -/
def isGitlinkMode (m : Nat) : Bool := sIFMT m == Gen.TreeOps.sIFGITLINK
/-- mode commit_tree / commit_tree_changes give to sub-directories -/
def dirMode : Nat := Gen.TreeOps.sIFDIR

/-! ### paths at the byte boundary -/

/-- `bytes.split(b"/")` -/
def splitOn (sep : UInt8) : Bytes → List Bytes
  | [] => [[]]
  | b :: bs =>
    match splitOn sep bs with
    | [] => [[]]          -- unreachable: splitOn never returns []
    | c :: cs => if b = sep then [] :: c :: cs else (b :: c) :: cs

def splitPath (p : Bytes) : Path := splitOn Gen.TreeOps.pathSep p

/-- `b"/".join(components)` -/
def joinPath : Path → Bytes
  | [] => []
  | [c] => c
  | c :: cs => c ++ Gen.TreeOps.pathSep :: joinPath cs

/-- a name that may be stored in a tree built by `commit_tree`: non-empty, no separator -/
def validName (n : Name) : Bool := n != [] && !n.contains Gen.TreeOps.pathSep

/-! ### tree basics -/

def Tree.toList : Tree → List (Name × Node)
  | .nil => []
  | .file n l r => (n, .file l) :: r.toList
  | .dir n cs r => (n, .dir cs) :: r.toList

def Tree.isNil : Tree → Bool
  | .nil => true
  | _ => false

/-- every name in the tree is greater than `n` -/
def Tree.allGt (n : Name) : Tree → Bool
  | .nil => true
  | .file m _ r => decide (n < m) && r.allGt n
  | .dir m _ r => decide (n < m) && r.allGt n

/-- well-formed: names strictly increasing (bytewise, as `iteritems(name_order=True)`), no leaf with a
directory mode, no empty sub-directory (git never stores one; `commit_tree` cannot create one and
`commit_tree_changes` deletes them) -/
def Tree.WF : Tree → Bool
  | .nil => true
  | .file n l r => !isDirMode l.mode && r.allGt n && r.WF
  | .dir n cs r => !cs.isNil && cs.WF && r.allGt n && r.WF

def Tree.namesOk : Tree → Bool
  | .nil => true
  | .file n _ r => validName n && r.namesOk
  | .dir n cs r => validName n && cs.namesOk && r.namesOk

def Tree.depth : Tree → Nat
  | .nil => 0
  | .file _ _ r => r.depth
  | .dir _ cs r => max (cs.depth + 1) r.depth

def Tree.find (name : Name) : Tree → Option Node
  | .nil => none
  | .file n l r => if name = n then some (.file l) else r.find name
  | .dir n cs r => if name = n then some (.dir cs) else r.find name

/-! ### commit_tree: flat listing → nested tree -/

/-- the tree holding exactly one leaf at `n :: p`, followed by `rest` -/
def mkPath (l : Leaf) (rest : Tree) : Name → Path → Tree
  | n, [] => .file n l rest
  | n, m :: p => .dir n (mkPath l .nil m p) rest

/-- `tree[basename] = (mode, sha)` after `add_tree(dirname)`, on the name-ordered representation.
An exact duplicate path is overwritten (dict assignment: last wins); a file/directory conflict
(a leaf where a directory is needed or the reverse), which the Python resolves silently through its
side table of tree dicts, is reported as `none`; so is the empty path. -/
def Tree.insert (l : Leaf) : Tree → Path → Option Tree
  | _, [] => none
  | .nil, n :: p => some (mkPath l .nil n p)
  | .file m lf r, n :: p =>
    if n < m then some (mkPath l (.file m lf r) n p)
    else if n = m then (if p = [] then some (.file m l r) else none)
    else (r.insert l (n :: p)).map (.file m lf)
  | .dir m cs r, n :: p =>
    if n < m then some (mkPath l (.dir m cs r) n p)
    else if n = m then (if p = [] then none else (cs.insert l p).map (fun cs' => .dir m cs' r))
    else (r.insert l (n :: p)).map (.dir m cs)

/-- an entry `commit_tree` can take: non-empty path, valid components, non-directory mode -/
def validEntry (e : Entry) : Bool := e.path != [] && e.path.all validName && !isDirMode e.mode

def insertEntry (t : Tree) (e : Entry) : Option Tree := t.insert ⟨e.mode, e.id⟩ e.path

def buildFrom (t : Tree) : List Entry → Option Tree
  | [] => some t
  | e :: es => match insertEntry t e with
    | none => none
    | some t' => buildFrom t' es

/-- `commit_tree(store, blobs)` up to the object ids (see `Tree.id`); `none` = conflict -/
def commitTree (es : List Entry) : Option Tree := buildFrom .nil es

/-! ### iter_tree_contents: nested tree → flat listing -/

def Entry.under (n : Name) (e : Entry) : Entry := { e with path := n :: e.path }

/-- `iter_tree_contents(store, id)` (relative paths): depth-first pre-order, children in NAME order
(`tree.iteritems(name_order=True)`) -/
def Tree.flatten : Tree → List Entry
  | .nil => []
  | .file n l r => ⟨[n], l.mode, l.id⟩ :: r.flatten
  | .dir n cs r => cs.flatten.map (Entry.under n) ++ r.flatten

/-! ### serialisation and ids -/

/-- one line of a tree object before serialisation: (name, mode, raw id) -/
structure TEntry where
  name : Name
  mode : Nat
  id : Id
  deriving DecidableEq, Repr

/-- `key_entry`: directories sort as `name + b"/"` -/
def keyEntry (e : TEntry) : Bytes := if isDirMode e.mode then e.name ++ [Gen.TreeOps.dirSuffix] else e.name

def keyLe (a b : TEntry) : Bool := !decide (keyEntry b < keyEntry a)

/-- stable insertion sort (Python's `sorted(..., key=key_entry)`) -/
def insertCanon (x : TEntry) : List TEntry → List TEntry
  | [] => [x]
  | y :: ys => if keyLe x y then x :: y :: ys else y :: insertCanon x ys

def sortCanon : List TEntry → List TEntry
  | [] => []
  | x :: xs => insertCanon x (sortCanon xs)

def octDigits : Nat → Nat → Bytes → Bytes
  | 0, _, acc => acc
  | fuel + 1, n, acc => if n < 8 then UInt8.ofNat (48 + n) :: acc else octDigits fuel (n / 8) (UInt8.ofNat (48 + n % 8) :: acc)

/-- `f"{mode:04o}"` -/
def fmtMode (m : Nat) : Bytes :=
  let ds := octDigits (m + 1) m []
  List.replicate (Gen.TreeOps.modeOctWidth - ds.length) 48 ++ ds

/-- `serialize_tree`: `mode SP name NUL rawsha` per entry -/
def serializeEntries : List TEntry → Bytes
  | [] => []
  | e :: es => fmtMode e.mode ++ 32 :: e.name ++ 0 :: e.id ++ serializeEntries es

variable (H : Bytes → Id)

/-- the `_entries` of the Tree object (in name order), sub-directory ids computed bottom-up -/
def Tree.entries : Tree → List TEntry
  | .nil => []
  | .file n l r => ⟨n, l.mode, l.id⟩ :: r.entries
  | .dir n cs r => ⟨n, dirMode, H (serializeEntries (sortCanon cs.entries))⟩ :: r.entries

/-- `Tree._serialize()` joined: entries in canonical (`key_entry`) order -/
def Tree.body (t : Tree) : Bytes := serializeEntries (sortCanon (t.entries H))

def Tree.id (t : Tree) : Id := H (t.body H)

/-- ids of all tree objects `commit_tree` adds to the store (root first) -/
def Tree.allIds (t : Tree) : List Id := t.id H :: go t
where go : Tree → List Id
  | .nil => []
  | .file _ _ r => go r
  | .dir _ cs r => (cs.id H :: go cs) ++ go r

/-- `iter_tree_contents(..., include_trees=True)` below the root -/
def Tree.flattenT : Tree → List Entry
  | .nil => []
  | .file n l r => ⟨[n], l.mode, l.id⟩ :: r.flattenT
  | .dir n cs r => ⟨[n], dirMode, cs.id H⟩ :: cs.flattenT.map (Entry.under n) ++ r.flattenT

/-- `iter_tree_contents(store, tree_id, include_trees=…)` -/
def iterTreeContents (includeTrees : Bool) (t : Tree) : List Entry :=
  if includeTrees then ⟨[], dirMode, t.id H⟩ :: t.flattenT H else t.flatten

/-! ### tree_lookup_path -/

inductive LookupErr where
  | key | notTree | submodule | value
  deriving DecidableEq, Repr

/-- `Tree.lookup_path` below the root, on the non-empty components of the path -/
def Tree.lookupRel : Tree → Path → Except LookupErr (Nat × Id)
  | _, [] => .error .value
  | .nil, _ :: _ => .error .key
  | .file m l r, n :: p =>
    if n = m then
      (if p = [] then .ok (l.mode, l.id)
       else if isGitlinkMode l.mode then .error .submodule else .error .notTree)
    else r.lookupRel (n :: p)
  | .dir m cs r, n :: p =>
    if n = m then (if p = [] then .ok (dirMode, cs.id H) else cs.lookupRel p)
    else r.lookupRel (n :: p)

/-- `tree_lookup_path(store.__getitem__, root, path)`; `path` as bytes -/
def lookupPath (t : Tree) (path : Bytes) : Except LookupErr (Nat × Id) :=
  if path = [] then .ok (dirMode, t.id H)
  else
    let parts := (splitPath path).filter (· != [])
    if parts = [] then .error .value else t.lookupRel H parts

/-! ### _merge_entries -/

/-- the two-pointer merge over two name-ordered entry lists; `fuel` bounds the loop
(`xs.length + ys.length` iterations suffice, each consumes at least one entry) -/
def mergeAux {α : Type} : Nat → List (Name × α) → List (Name × α) → List (Name × Option α × Option α)
  | 0, _, _ => []
  | _ + 1, [], ys => ys.map (fun e => (e.1, none, some e.2))
  | _ + 1, xs, [] => xs.map (fun e => (e.1, some e.2, none))
  | fuel + 1, (n1, x) :: xs, (n2, y) :: ys =>
    if n1 < n2 then (n1, some x, none) :: mergeAux fuel xs ((n2, y) :: ys)
    else if n2 < n1 then (n2, none, some y) :: mergeAux fuel ((n1, x) :: xs) ys
    else (n1, some x, some y) :: mergeAux fuel xs ys

def mergeEntries {α : Type} (xs ys : List (Name × α)) : List (Name × Option α × Option α) :=
  mergeAux (xs.length + ys.length + 1) xs ys

/-! ### walk_trees -/

def Node.isDir : Option Node → Bool
  | some (.dir _) => true
  | _ => false

def Node.children : Option Node → List (Name × Node)
  | some (.dir t) => t.toList
  | _ => []

def nodeEntry (path : Path) : Node → Entry
  | .file l => ⟨path, l.mode, l.id⟩
  | .dir t => ⟨path, dirMode, t.id H⟩

def isPrefixB : Bytes → Bytes → Bool
  | [], _ => true
  | _ :: _, [] => false
  | a :: as, b :: bs => a == b && isPrefixB as bs

/-- `should_recurse` of walk_trees (byte-level, exactly as coded) -/
def shouldRecurse (filters : List Bytes) (path : Bytes) : Bool :=
  path == [] || filters.any (fun f =>
    f == path || isPrefixB (path ++ [Gen.TreeOps.pathSep]) f || isPrefixB (f ++ [Gen.TreeOps.pathSep]) path)

/-- the yield condition of walk_trees under a path filter -/
def filterYield (filters : List Bytes) (path : Bytes) (anyTree : Bool) : Bool :=
  filters.any (fun f =>
    path == f || isPrefixB (f ++ [Gen.TreeOps.pathSep]) path ||
      (isPrefixB (path ++ [Gen.TreeOps.pathSep]) f && anyTree))

/-- `walk_trees(store, id1, id2, prune_identical, paths)`: pre-order list of entry pairs.
`fuel` bounds the nesting depth (`max depth + 1` suffices). -/
def walk (prune : Bool) (filters : Option (List Bytes)) :
    Nat → Path → Option Node → Option Node → List (Option Entry × Option Entry)
  | 0, _, _, _ => []
  | fuel + 1, path, x, y =>
    let e1 := x.map (nodeEntry H path)
    let e2 := y.map (nodeEntry H path)
    let t1 := Node.isDir x
    let t2 := Node.isDir y
    if prune && t1 && t2 && e1 == e2 then []
    else
      let bpath := joinPath path
      let skip := match filters with
        | some fs => (t1 || t2) && !shouldRecurse fs bpath
        | none => false
      if skip then []
      else
        let kids := if t1 || t2 then mergeEntries (Node.children x) (Node.children y) else []
        let self := match filters with
          | none => [(e1, e2)]
          | some fs => if filterYield fs bpath (t1 || t2) then [(e1, e2)] else []
        self ++ kids.flatMap (fun k => walk prune filters fuel (path ++ [k.1]) k.2.1 k.2.2)

/-! ### tree_changes -/

inductive CType where
  | add | modify | delete | rename | copy | unchanged
  deriving DecidableEq, Repr

def CType.toString : CType → String
  | .add => Gen.TreeOps.changeAdd | .modify => Gen.TreeOps.changeModify | .delete => Gen.TreeOps.changeDelete
  | .rename => Gen.TreeOps.changeRename | .copy => Gen.TreeOps.changeCopy | .unchanged => Gen.TreeOps.changeUnchanged

/-- `TreeChange(type, old, new)` -/
structure Change where
  type : CType
  old : Option Entry
  new : Option Entry
  deriving DecidableEq, Repr

structure Flags where
  wantUnchanged : Bool := false
  includeTrees : Bool := false
  changeTypeSame : Bool := false
  deriving DecidableEq, Repr

/-- `_skip_tree` -/
def skipTree (includeTrees : Bool) : Option Entry → Option Entry
  | none => none
  | some e => if !includeTrees && isDirMode e.mode then none else some e

/-- the body of the `for entry1, entry2 in entries` loop of tree_changes -/
def changesOfPair (f : Flags) (e1 e2 : Option Entry) : List Change :=
  if e1 == e2 && !f.wantUnchanged then []
  else
    match skipTree f.includeTrees e1, skipTree f.includeTrees e2 with
    | some a, some b =>
      if sIFMT a.mode != sIFMT b.mode && !f.changeTypeSame then
        [⟨.delete, some a, none⟩, ⟨.add, none, some b⟩]
      else if a == b then [⟨.unchanged, some a, some b⟩]
      else [⟨.modify, some a, some b⟩]
    | some a, none => [⟨.delete, some a, none⟩]
    | none, some b => [⟨.add, none, some b⟩]
    | none, none => []

def rootNode : Option Tree → Option Node
  | none => none
  | some t => some (.dir t)

def optDepth : Option Tree → Nat
  | none => 0
  | some t => t.depth

/-- `list(tree_changes(store, id1, id2, want_unchanged, include_trees=…, change_type_same=…, paths=…))`
without a rename detector -/
def treeChanges (f : Flags) (filters : Option (List Bytes)) (a b : Option Tree) : List Change :=
  (walk H (!f.wantUnchanged) filters (max (optDepth a) (optDepth b) + 2) [] (rootNode a) (rootNode b)).flatMap
    (fun p => changesOfPair f p.1 p.2)

/-! ### applying a change list to a flat listing (the specification side of the property) -/

/-- paths a change list removes -/
def removedPaths : List Change → List Path
  | [] => []
  | c :: cs =>
    match c.type, c.old with
    | .delete, some o => o.path :: removedPaths cs
    | .modify, some o => o.path :: removedPaths cs
    | .rename, some o => o.path :: removedPaths cs
    | _, _ => removedPaths cs

/-- entries a change list installs -/
def addedEntries : List Change → List Entry
  | [] => []
  | c :: cs =>
    match c.type, c.new with
    | .add, some n => n :: addedEntries cs
    | .modify, some n => n :: addedEntries cs
    | .rename, some n => n :: addedEntries cs
    | .copy, some n => n :: addedEntries cs
    | _, _ => addedEntries cs

/-- insert into a listing ordered by path (component-wise, the order of `Tree.flatten`), replacing an
entry with the same path -/
def insertListing (e : Entry) : List Entry → List Entry
  | [] => [e]
  | x :: xs =>
    if e.path < x.path then e :: x :: xs
    else if e.path = x.path then e :: xs
    else x :: insertListing e xs

def insertAll (es : List Entry) (l : List Entry) : List Entry := es.foldl (fun acc e => insertListing e acc) l

/-- sort a listing by path (later duplicates win) -/
def sortListing (es : List Entry) : List Entry := insertAll es []

/-- patch: first drop every path the change list removes, then install every entry it adds -/
def applyChanges (cs : List Change) (l : List Entry) : List Entry :=
  insertAll (addedEntries cs) (l.filter (fun e => !(removedPaths cs).contains e.path))

/-! ### rename detection as a post-pass -/

/-- one decision of a rename detector: pair a reported delete with a reported add (→ rename), or
re-label an add as a copy of some old entry -/
inductive Pairing where
  | rename (old new : Entry)
  | copy (old new : Entry)
  deriving DecidableEq, Repr

def renameStep (cs : List Change) : Pairing → List Change
  | .rename o n =>
    let d : Change := ⟨.delete, some o, none⟩
    let a : Change := ⟨.add, none, some n⟩
    if cs.contains d && cs.contains a then ((cs.erase d).erase a) ++ [⟨.rename, some o, some n⟩] else cs
  | .copy o n =>
    let a : Change := ⟨.add, none, some n⟩
    if cs.contains a then (cs.erase a) ++ [⟨.copy, some o, some n⟩] else cs

/-- apply the decisions of ANY pairing function to a change list -/
def renamePass (pairing : List Change → List Pairing) (cs : List Change) : List Change :=
  (pairing cs).foldl renameStep cs

/-! ### commit_tree_changes -/

/-- `tree_obj[name] = (mode, sha)` / sub-tree replacement on the name-ordered representation -/
def Tree.set (name : Name) (nd : Node) : Tree → Tree
  | .nil => (match nd with | .file l => .file name l .nil | .dir t => .dir name t .nil)
  | .file m lf r =>
    if name < m then (match nd with | .file l => .file name l (.file m lf r) | .dir t => .dir name t (.file m lf r))
    else if name = m then (match nd with | .file l => .file name l r | .dir t => .dir name t r)
    else .file m lf (r.set name nd)
  | .dir m cs r =>
    if name < m then (match nd with | .file l => .file name l (.dir m cs r) | .dir t => .dir name t (.dir m cs r))
    else if name = m then (match nd with | .file l => .file name l r | .dir t => .dir name t r)
    else .dir m cs (r.set name nd)

/-- `del tree_obj[name]`; `none` = KeyError -/
def Tree.del (name : Name) : Tree → Option Tree
  | .nil => none
  | .file m lf r => if name = m then some r else (r.del name).map (.file m lf)
  | .dir m cs r => if name = m then some r else (r.del name).map (.dir m cs)

/-- one element of the `changes` argument: `(path, mode, sha)`; `none` = `(path, None, None)` (delete) -/
abbrev TChange := Path × Option Leaf

/-- `nested_changes.setdefault(dirname, []).append(...)`: groups in first-occurrence order -/
def groupAdd (name : Name) (c : TChange) : List (Name × List TChange) → List (Name × List TChange)
  | [] => [(name, [c])]
  | (m, cs) :: gs => if m = name then (m, cs ++ [c]) :: gs else (m, cs) :: groupAdd name c gs

inductive CtcErr where
  | key      -- KeyError (deleting something that is not there)
  | notTree  -- nested change under a name that holds a blob (`assert isinstance(sha_obj, Tree)` fails); under a
             -- gitlink the store lookup of the commit id raises KeyError instead (`key`): submodule commits are
             -- not in the store
  | fuel
  deriving DecidableEq, Repr

/-- first loop of commit_tree_changes: removals of direct entries are applied in order, direct entries that are
added or replaced are collected (`new_entries`), nested changes are grouped by their first component -/
def ctcDirect : Tree → List (Name × List TChange) → List (Name × Leaf) → List TChange →
    Except CtcErr (Tree × List (Name × List TChange) × List (Name × Leaf))
  | t, gs, ss, [] => .ok (t, gs, ss)
  | t, gs, ss, (p, v) :: cs =>
    match p with
    | [] => .error .key     -- not produced by `bytes.split`
    | [n] =>
      (match v with
       | none => (match t.del n with
          | none => .error .key
          | some t' => ctcDirect t' gs ss cs)
       | some l => ctcDirect t gs (ss ++ [(n, l)]) cs)
    | n :: m :: q => ctcDirect t (groupAdd n (m :: q, v) gs) ss cs

/-- the sub-tree the nested changes under `name` start from: `tree_obj[name][1]` loaded from the store, an empty
Tree when the name is absent -/
def ctcOrig (t : Tree) (name : Name) : Except CtcErr Tree :=
  match t.find name with
  | none => .ok .nil
  | some (.dir sub) => .ok sub
  | some (.file l) => if isGitlinkMode l.mode then .error .key else .error .notTree

/-- one iteration of the second loop, given the recursive call -/
def ctcGroup (rec : Tree → List TChange → Except CtcErr Tree) (acc : Except CtcErr Tree) (g : Name × List TChange) :
    Except CtcErr Tree :=
  match acc with
  | .error e => .error e
  | .ok t =>
    match ctcOrig t g.1 with
    | .error e => .error e
    | .ok sub =>
      match rec sub g.2 with
      | .error e => .error e
      | .ok sub' =>
        if sub'.isNil then (match t.del g.1 with | none => .error .key | some t' => .ok t')
        else .ok (t.set g.1 (.dir sub'))

/-- third loop: `tree_obj[name] = (new_mode, new_sha)` for the collected direct entries -/
def ctcSets (t : Tree) (ss : List (Name × Leaf)) : Tree := ss.foldl (fun t s => t.set s.1 (.file s.2)) t

/-- `commit_tree_changes(store, tree, changes)`; `fuel` bounds the recursion depth (longest path + 1) -/
def ctcAux : Nat → Tree → List TChange → Except CtcErr Tree
  | 0, _, _ => .error .fuel
  | fuel + 1, t, cs =>
    match ctcDirect t [] [] cs with
    | .error e => .error e
    | .ok (t1, groups, sets) =>
      match groups.foldl (ctcGroup (ctcAux fuel)) (.ok t1) with
      | .error e => .error e
      | .ok t2 => .ok (ctcSets t2 sets)

def maxLen : List TChange → Nat
  | [] => 0
  | c :: cs => max c.1.length (maxLen cs)

def commitTreeChanges (t : Tree) (cs : List TChange) : Except CtcErr Tree := ctcAux (maxLen cs + 1) t cs

/-! #### the code before the fix "commit_tree_changes applies a change list that replaces a directory by a file"
(kept as a regression witness: direct entries were stored immediately, before the nested changes) -/

def ctcDirectOld : Tree → List (Name × List TChange) → List TChange → Except CtcErr (Tree × List (Name × List TChange))
  | t, gs, [] => .ok (t, gs)
  | t, gs, (p, v) :: cs =>
    match p with
    | [] => .error .key
    | [n] =>
      (match v with
       | none => (match t.del n with
          | none => .error .key
          | some t' => ctcDirectOld t' gs cs)
       | some l => ctcDirectOld (t.set n (.file l)) gs cs)
    | n :: m :: q => ctcDirectOld t (groupAdd n (m :: q, v) gs) cs

def ctcAuxOld : Nat → Tree → List TChange → Except CtcErr Tree
  | 0, _, _ => .error .fuel
  | fuel + 1, t, cs =>
    match ctcDirectOld t [] cs with
    | .error e => .error e
    | .ok (t1, groups) => groups.foldl (ctcGroup (ctcAuxOld fuel)) (.ok t1)

def commitTreeChangesOld (t : Tree) (cs : List TChange) : Except CtcErr Tree := ctcAuxOld (maxLen cs + 1) t cs

/-- the `changes` argument that expresses a diff (what a caller patching a tree with a `tree_changes` result
passes), in normal form -- every path at most once: a removal `(path, None, None)` for every path the diff removes and
does not install again, then `(path, mode, sha)` for every entry it installs -/
def toTChanges (cs : List Change) : List TChange :=
  let inst := (addedEntries cs).map (·.path)
  ((removedPaths cs).filter (fun p => !inst.contains p)).map (fun p => (p, none)) ++
    (addedEntries cs).map (fun e => (e.path, some ⟨e.mode, e.id⟩))

/-! ### RenameDetector as a long-lived object: explicit per-call state

`changes_with_renames` is a fixed pipeline of phases over the attributes `_adds`, `_deletes`, `_changes`, `_candidates`,
`_want_unchanged`, `_include_trees`.  What each phase computes (similarity scores, thresholds, the `max_files` cut-off,
copy detection) is a PARAMETER (`DetPhases`, uninterpreted); what the model fixes is the data flow: which attributes a
phase reads and which it (re)assigns, and on which branch.  An attribute that the translator's definite-assignment
analysis finds readable before it is (re)assigned in the call (`Gen.detStaleReads`) keeps, at that read, the value the
PREVIOUS call left in the object — that is how a reused detector could depend on its history. -/

structure DetState where
  adds : List Change := []
  deletes : List Change := []
  changes : List Change := []
  candidates : List (Int × Change) := []
  wantUnchanged : Bool := false
  includeTrees : Bool := false

/-- the state of a freshly constructed detector -/
def DetState.init : DetState := {}

/-- the uninterpreted content of the phases, for one tree pair and one set of constructor options -/
structure DetPhases where
  /-- `_collect_changes`: tree_changes + `_add_change`, appended to the three lists -/
  collect : Bool → Bool → List Change × List Change × List Change → List Change × List Change × List Change
  /-- `_find_exact_renames` (+ `_prune`) -/
  exact : List Change × List Change × List Change → List Change × List Change × List Change
  /-- `_should_find_content_renames`: false = the `max_files` cut-off trips -/
  shouldFind : List Change → List Change → Bool
  /-- the scoring loop of `_find_content_rename_candidates` -/
  score : List Change → List Change → List (Int × Change)
  /-- `_choose_content_renames` (+ `_prune`) -/
  choose : List (Int × Change) → List Change × List Change × List Change → List Change × List Change × List Change
  /-- `_join_modifies` -/
  join : List Change × List Change × List Change → List Change × List Change × List Change
  /-- `_prune_unchanged` -/
  pruneUnchanged : Bool → List Change → List Change
  /-- `_sorted_changes` -/
  sorted : List Change → List Change → List Change → List Change

def detStale (attr : String) : Bool := Gen.TreeOps.detStaleReads.contains attr

/-- `RenameDetector.changes_with_renames(tree1, tree2, want_unchanged, include_trees)` on an object in state `st`:
the returned change list and the state the object is left in -/
def detRun (P : DetPhases) (wantUnchanged includeTrees : Bool) (st : DetState) : List Change × DetState :=
  -- _reset(); self._want_unchanged = …; self._include_trees = …
  let adds0 := if detStale "_adds" then st.adds else []
  let dels0 := if detStale "_deletes" then st.deletes else []
  let chgs0 := if detStale "_changes" then st.changes else []
  let wu := if detStale "_want_unchanged" then st.wantUnchanged else wantUnchanged
  let inc := if detStale "_include_trees" then st.includeTrees else includeTrees
  let s1 := P.exact (P.collect wu inc (adds0, dels0, chgs0))
  -- _find_content_rename_candidates: `candidates = self._candidates = []`, then the cut-off, then the scoring loop
  let cands := if P.shouldFind s1.1 s1.2.1 then P.score s1.1 s1.2.1
               else (if detStale "_candidates" then st.candidates else [])
  let s2 := P.join (P.choose cands s1)
  let dels := P.pruneUnchanged wu s2.2.1
  (P.sorted s2.1 dels s2.2.2, { adds := s2.1, deletes := dels, changes := s2.2.2, candidates := cands,
                                 wantUnchanged := wu, includeTrees := inc })

/-! ### SHA-1 (execution only; validated against hashlib by the harness; nothing is proved about it) -/

namespace Sha1

def rotl (x : UInt32) (n : UInt32) : UInt32 := (x <<< n) ||| (x >>> (32 - n))

def pad (msg : Bytes) : Bytes :=
  let l := msg.length
  let z := (55 + 64 - l % 64) % 64
  let lenBytes : Bytes := (List.range 8).reverse.map (fun i => UInt8.ofNat ((l * 8) >>> (8 * i)))
  msg ++ (0x80 : UInt8) :: List.replicate z (0 : UInt8) ++ lenBytes

def block (h : Array UInt32) (blk : Array UInt8) : Array UInt32 := Id.run do
  let mut w : Array UInt32 := Array.mkEmpty 80
  for i in [0:16] do
    w := w.push ((blk[4*i]!.toUInt32 <<< 24) ||| (blk[4*i+1]!.toUInt32 <<< 16) |||
                 (blk[4*i+2]!.toUInt32 <<< 8) ||| blk[4*i+3]!.toUInt32)
  for i in [16:80] do
    w := w.push (rotl (w[i-3]! ^^^ w[i-8]! ^^^ w[i-14]! ^^^ w[i-16]!) 1)
  let mut a := h[0]!
  let mut b := h[1]!
  let mut c := h[2]!
  let mut d := h[3]!
  let mut e := h[4]!
  for i in [0:80] do
    let fk : UInt32 × UInt32 :=
      if i < 20 then ((b &&& c) ||| ((~~~ b) &&& d), 0x5A827999)
      else if i < 40 then (b ^^^ c ^^^ d, 0x6ED9EBA1)
      else if i < 60 then ((b &&& c) ||| (b &&& d) ||| (c &&& d), 0x8F1BBCDC)
      else (b ^^^ c ^^^ d, 0xCA62C1D6)
    let t := rotl a 5 + fk.1 + e + fk.2 + w[i]!
    e := d
    d := c
    c := rotl b 30
    b := a
    a := t
  return #[h[0]! + a, h[1]! + b, h[2]! + c, h[3]! + d, h[4]! + e]

def sha1 (msg : Bytes) : Bytes := Id.run do
  let data := (pad msg).toArray
  let mut h : Array UInt32 := #[0x67452301, 0xEFCDAB89, 0x98BADCFE, 0x10325476, 0xC3D2E1F0]
  for k in [0:data.size / 64] do
    h := block h (data.extract (64 * k) (64 * k + 64))
  return h.toList.flatMap (fun (x : UInt32) => [(x >>> 24).toUInt8, (x >>> 16).toUInt8, (x >>> 8).toUInt8, x.toUInt8])

end Sha1

def natDec (n : Nat) : Bytes := (toString n).toList.map (fun c => UInt8.ofNat c.toNat)

/-- the object hash of a tree body: SHA-1 of `b"tree " + str(len) + b"\0" + body` (raw digest) -/
def gitTreeHash (body : Bytes) : Id :=
  Sha1.sha1 (asciiBytes "tree " ++ natDec body.length ++ 0 :: body)

end Dulwich.TreeOps
