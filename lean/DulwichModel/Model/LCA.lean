/-
  C13 — executable model of `dulwich/graph.py`: `_find_lcas` (priority work-list keyed by commit
  time, the four flag bits, `_has_candidates`, the `min_stamp` cut, the final `_DNC` filter),
  `find_merge_base`, `find_octopus_base`, `can_fast_forward`, `independent`.

  A history is a `Graph`: commits are natural numbers `0 .. n-1`, `parents c` is the parent list of
  `c` and `ts c` its commit time.  Commit ids are compared as numbers wherever the Python code
  compares object ids (heap ties: `heappush(pq, (-dt, cmt))` pops the smallest tuple, i.e. the
  largest stamp and, among equal stamps, the smallest id); the harness numbers the commits of a
  real repository by the rank of their SHA so that both orders coincide.

  Not modelled (assumed away by the well-formedness hypothesis `Graph.WF`: every parent id is a
  commit of the graph): missing commits, shallow boundaries, grafts, the commit-graph file.
  The `cstates` dict is an array of `Option Flags` of size `n`; a `KeyError` of `cstates[cmt]` is an
  explicit error result (`Fail.key`), fuel exhaustion is `Fail.fuel` (theorem `lca_terminates` in
  Props/C13.lean: neither happens on a well-formed graph with the default fuel).

  The public functions are the code AFTER the C13 fix series (no default date cut, `c1 in lcas`,
  `_remove_redundant`, duplicate ids removed in `independent`); namespace `Old` keeps the functions as
  they were before, for the regression witnesses only.

  Core Lean only.
-/
import DulwichModel.Model.Basic
import DulwichModel.Gen.Graph

namespace Dulwich.LCA

/-! ## flag words -/

/-- The state bits of `_find_lcas` (`_ANC_OF_1`, `_ANC_OF_2`, `_DNC`, `_LCA`) as a record of Booleans.
`Flags.toNat`/`Flags.ofNat` connect it to the integers the Python code manipulates; that `&`, `|`
and the mask tests commute with this reading for every value `< 16` is theorem
`flag_encoding_faithful` (it depends on the generated constants). -/
structure Flags where
  anc1 : Bool
  anc2 : Bool
  dnc : Bool
  lca : Bool
  deriving DecidableEq, Repr, Inhabited

namespace Flags

def zero : Flags := ⟨false, false, false, false⟩

/-- `a | b` -/
def union (a b : Flags) : Flags := ⟨a.anc1 || b.anc1, a.anc2 || b.anc2, a.dnc || b.dnc, a.lca || b.lca⟩

/-- `a & b` -/
def inter (a b : Flags) : Flags := ⟨a.anc1 && b.anc1, a.anc2 && b.anc2, a.dnc && b.dnc, a.lca && b.lca⟩

/-- the integer the Python code holds -/
def toNat (f : Flags) : Nat :=
  (if f.anc1 then Gen.lcaAncOf1 else 0) ||| (if f.anc2 then Gen.lcaAncOf2 else 0) |||
  (if f.dnc then Gen.lcaDnc else 0) ||| (if f.lca then Gen.lcaLca else 0)

/-- reading of an integer flag word: bit test `(n & M) == M` per constant -/
def ofNat (n : Nat) : Flags :=
  ⟨n &&& Gen.lcaAncOf1 == Gen.lcaAncOf1, n &&& Gen.lcaAncOf2 == Gen.lcaAncOf2,
   n &&& Gen.lcaDnc == Gen.lcaDnc, n &&& Gen.lcaLca == Gen.lcaLca⟩

/-- `cstates[cmt] & (_ANC_OF_1 | _ANC_OF_2 | _DNC)` -/
def ancMask (f : Flags) : Flags := { f with lca := false }

/-- `cflags == (_ANC_OF_1 | _ANC_OF_2)` for an `ancMask`ed word -/
def isBoth (f : Flags) : Bool := f.anc1 && f.anc2 && !f.dnc && !f.lca

/-- `(pflags & cflags) == cflags` -/
def covers (p c : Flags) : Bool := p.inter c == c

/-- number of the three propagating bits still clear (termination measure) -/
def room (f : Flags) : Nat :=
  (if f.anc1 then 0 else 1) + (if f.anc2 then 0 else 1) + (if f.dnc then 0 else 1)

end Flags

/-! ## the `cstates` dictionary -/

/-- `cstates`: commit ↦ flag word, absent = `none`.  Keys are commits `< size`. -/
abbrev FlagMap := Array (Option Flags)

namespace FlagMap
def empty (n : Nat) : FlagMap := Array.replicate n none
/-- `cstates.get(c)` / `c in cstates` -/
def get (m : FlagMap) (c : Nat) : Option Flags := m.getD c none
/-- `cstates[c] = f` (keys outside `0..n-1` do not occur on a well-formed graph) -/
def set (m : FlagMap) (c : Nat) (f : Flags) : FlagMap := m.setIfInBounds c (some f)
end FlagMap

/-! ## graphs -/

structure Graph where
  /-- number of commits; commits are `0 .. n-1` -/
  n : Nat
  parents : Nat → List Nat
  ts : Nat → Int

/-- every parent of a commit is a commit -/
def Graph.WF (g : Graph) : Prop := ∀ c, c < g.n → ∀ p, p ∈ g.parents c → p < g.n

/-- Build a graph from parent lists and stamps given as lists (driver, `decide` witnesses). -/
def Graph.ofLists (ps : List (List Nat)) (ts : List Int) : Graph :=
  { n := ps.length, parents := fun c => ps.getD c [], ts := fun c => ts.getD c 0 }

/-! ## the work list (`WorkList`: a `heapq` of `(-dt, cmt)`) -/

abbrev Entry := Int × Nat

/-- `a` is popped no later than `b`: larger stamp first, then smaller id. -/
def before (a b : Entry) : Bool := a.1 > b.1 || (a.1 == b.1 && a.2 ≤ b.2)

/-- the entry `heappop` returns among `b :: l` -/
def best : Entry → List Entry → Entry
  | b, [] => b
  | b, e :: r => best (if before b e then b else e) r

/-- `WorkList.get()`: remove and return the top entry -/
def popMax : List Entry → Option (Entry × List Entry)
  | [] => none
  | e :: r => let b := best e r; some (b, (e :: r).erase b)

/-! ## `_find_lcas` -/

inductive Fail where
  | fuel   -- the model ran out of fuel (never, see `findLcas_ok`)
  | key    -- `KeyError` from `cstates[cmt]`
  | empty  -- `heappop` on an empty heap (`IndexError`)
  deriving DecidableEq, Repr

instance exceptFailDecEq {α : Type} [DecidableEq α] : DecidableEq (Except Fail α)
  | .ok a, .ok b => if h : a = b then isTrue (by rw [h]) else isFalse (by intro h'; cases h'; exact h rfl)
  | .error a, .error b =>
    if h : a = b then isTrue (by rw [h]) else isFalse (by intro h'; cases h'; exact h rfl)
  | .ok _, .error _ => isFalse (by intro h; cases h)
  | .error _, .ok _ => isFalse (by intro h; cases h)

structure St where
  wl : List Entry
  fl : FlagMap
  cands : List Entry

/-- `_has_candidates(wlst, cstates)` -/
def hasCandidates (s : St) : Bool :=
  s.wl.any fun e => match s.fl.get e.2 with
    | some f => !f.dnc
    | none => false

/-- body of `for pcmt in parents:` -/
def pushParent (g : Graph) (cut : Nat → Bool) (cfl : Flags) (acc : FlagMap × List Entry) (p : Nat) :
    FlagMap × List Entry :=
  let pfl := (acc.1.get p).getD Flags.zero
  if pfl.covers cfl then acc
  else if cut p then acc
  else (acc.1.set p (pfl.union cfl), (g.ts p, p) :: acc.2)

/-- the flags handed to the parents of a popped commit whose word is `f`:
`cflags = cstates[cmt] & (_ANC_OF_1|_ANC_OF_2|_DNC)`, plus `_DNC` when `cflags == _ANC_OF_1|_ANC_OF_2` -/
def cflagsOf (f : Flags) : Flags :=
  if f.ancMask.isBoth then { f.ancMask with dnc := true } else f.ancMask

/-- loop body once `(dt, c)` has been popped (leaving `rest`) and `cstates[c] = f` has been read -/
def stepWith (g : Graph) (cut : Nat → Bool) (s : St) (dt : Int) (c : Nat) (rest : List Entry) (f : Flags) : St :=
  let newCand := f.ancMask.isBoth && !f.lca
  let fl1 := if newCand then s.fl.set c { f with lca := true } else s.fl
  let cands1 := if newCand then s.cands ++ [(dt, c)] else s.cands
  let r := (g.parents c).foldl (pushParent g cut (cflagsOf f)) (fl1, rest)
  { wl := r.2, fl := r.1, cands := cands1 }

/-- one iteration of the `while _has_candidates(...)` loop -/
def step (g : Graph) (cut : Nat → Bool) (s : St) : Except Fail St :=
  match popMax s.wl with
  | none => .error .empty
  | some ((dt, c), rest) =>
    match s.fl.get c with
    | none => .error .key
    | some f => .ok (stepWith g cut s dt c rest f)

def loop (g : Graph) (cut : Nat → Bool) : Nat → St → Except Fail St
  | 0, s => if hasCandidates s then .error .fuel else .ok s
  | fuel + 1, s =>
    if hasCandidates s then
      match step g cut s with
      | .ok s' => loop g cut fuel s'
      | .error e => .error e
    else .ok s

/-- initialisation: `cstates[c1] = _ANC_OF_1`, then `cstates[c2] = cstates.get(c2,0) | _ANC_OF_2` for every c2 -/
def initC2 (g : Graph) (s : St) (c2 : Nat) : St :=
  { s with fl := s.fl.set c2 { (s.fl.get c2).getD Flags.zero with anc2 := true },
           wl := (g.ts c2, c2) :: s.wl }

def init (g : Graph) (c1 : Nat) (c2s : List Nat) : St :=
  c2s.foldl (initC2 g)
    { wl := [(g.ts c1, c1)], fl := (FlagMap.empty g.n).set c1 ⟨true, false, false, false⟩, cands := [] }

/-- `for dt, cmt in cands: if not DNC and (dt, cmt) not in results: results.append(...)` -/
def finalFilter (fl : FlagMap) : List Entry → List Entry → Except Fail (List Entry)
  | [], acc => .ok acc
  | (dt, c) :: r, acc =>
    match fl.get c with
    | none => .error .key
    | some f =>
      if !f.dnc && !acc.contains (dt, c) then finalFilter fl r (acc ++ [(dt, c)])
      else finalFilter fl r acc

/-- stable insertion by stamp (`results.sort(key=lambda x: x[0])`; Python's sort is stable, and a
stable sort has exactly one result) -/
def insertByStamp (e : Entry) : List Entry → List Entry
  | [] => [e]
  | x :: r => if e.1 < x.1 then e :: x :: r else x :: insertByStamp e r

def sortByStamp (l : List Entry) : List Entry := l.foldl (fun acc e => insertByStamp e acc) []

/-- number of loop iterations that always suffices on a well-formed graph -/
def defaultFuel (g : Graph) (c2s : List Nat) : Nat := 3 * g.n + c2s.length + 2

/-- the `min_stamp` cut: `if min_stamp is not None and pdt < min_stamp: continue` as a predicate on the parent -/
def cutBelow (g : Graph) (minStamp : Option Int) : Nat → Bool :=
  fun p => match minStamp with
    | some m => decide (g.ts p < m)
    | none => false

/-- `_find_lcas(lookup_parents, c1, c2s, lookup_stamp, min_stamp)`; `cut p` = "parent `p` is skipped" -/
def findLcasFuel (fuel : Nat) (g : Graph) (c1 : Nat) (c2s : List Nat) (cut : Nat → Bool) :
    Except Fail (List Nat) :=
  match loop g cut fuel (init g c1 c2s) with
  | .error e => .error e
  | .ok s =>
    match finalFilter s.fl s.cands [] with
    | .error e => .error e
    | .ok res => .ok ((sortByStamp res).map (·.2))

def findLcas (g : Graph) (c1 : Nat) (c2s : List Nat) (cut : Nat → Bool) : Except Fail (List Nat) :=
  findLcasFuel (defaultFuel g c2s) g c1 c2s cut

/-- `_find_lcas(...)` called without `min_stamp` (the generated default; `None` = no cut) -/
def defaultCut (g : Graph) : Nat → Bool := cutBelow g Gen.lcaDefaultMinStamp

/-- all flag words at the end of the loop (driver, debugging) -/
def finalFlags (g : Graph) (c1 : Nat) (c2s : List Nat) (cut : Nat → Bool) : Except Fail (List Nat) :=
  match loop g cut (defaultFuel g c2s) (init g c1 c2s) with
  | .error e => .error e
  | .ok s => .ok ((List.range g.n).map fun c => match s.fl.get c with
      | some f => f.toNat
      | none => 0)

/-! ## the public functions (the code after the C13 fix series) -/

/-- `list(dict.fromkeys(l))`: first occurrences, in order -/
def dedupe (l : List Nat) : List Nat :=
  l.foldl (fun acc x => if acc.contains x then acc else acc ++ [x]) []

/-- `is_ancestor(a, b)` inside `_remove_redundant`: `a in _find_lcas(a, [b])` -/
def isAncestorVia (g : Graph) (a b : Nat) : Except Fail Bool :=
  match findLcas g a [b] (defaultCut g) with
  | .error e => .error e
  | .ok l => .ok (l.contains a)

/-- `any(o != c and is_ancestor(c, o) for o in lcas)` -/
def redundantIn (g : Graph) (c : Nat) : List Nat → Except Fail Bool
  | [] => .ok false
  | o :: r =>
    if o = c then redundantIn g c r
    else match isAncestorVia g c o with
      | .error e => .error e
      | .ok true => .ok true
      | .ok false => redundantIn g c r

/-- `[c for c in lcas if not any(...)]` over the list `all` -/
def keepMaximal (g : Graph) (all : List Nat) : List Nat → Except Fail (List Nat)
  | [] => .ok []
  | c :: r =>
    match redundantIn g c all with
    | .error e => .error e
    | .ok d =>
      match keepMaximal g all r with
      | .error e => .error e
      | .ok rest => .ok (if d then rest else c :: rest)

/-- `_remove_redundant(lcas, ...)` -/
def removeRedundant (g : Graph) (lcas : List Nat) : Except Fail (List Nat) :=
  let l := dedupe lcas
  if l.length < 2 then .ok l else keepMaximal g l l

/-- `find_merge_base(repo, commit_ids)` -/
def findMergeBase (g : Graph) (ids : List Nat) : Except Fail (List Nat) :=
  match ids with
  | [] => .ok []
  | [c1] => .ok [c1]
  | c1 :: c2s =>
    if c2s.contains c1 then .ok [c1]
    else match findLcas g c1 c2s (defaultCut g) with
      | .error e => .error e
      | .ok lcas => removeRedundant g lcas

/-- `can_fast_forward(repo, c1, c2)` -/
def canFastForward (g : Graph) (c1 c2 : Nat) : Except Fail Bool :=
  if c1 = c2 then .ok true
  else
    match findLcas g c1 [c2] (defaultCut g) with
    | .error e => .error e
    | .ok l => .ok (l.contains c1)

/-- inner loop of `independent`: is `[c]` the merge base of `(c, other)` for some other list position? -/
def dominated (g : Graph) (i : Nat) (c : Nat) : List (Nat × Nat) → Except Fail Bool
  | [] => .ok false
  | (j, o) :: r =>
    if i = j then dominated g i c r
    else match findMergeBase g [c, o] with
      | .error e => .error e
      | .ok mb => if mb == [c] then .ok true else dominated g i c r

def independentAux (g : Graph) (all : List (Nat × Nat)) :
    List (Nat × Nat) → Except Fail (List Nat)
  | [] => .ok []
  | (i, c) :: r =>
    match dominated g i c all with
    | .error e => .error e
    | .ok d =>
      match independentAux g all r with
      | .error e => .error e
      | .ok rest => .ok (if d then rest else c :: rest)

/-- `independent(repo, commit_ids)` -/
def independent (g : Graph) (ids0 : List Nat) : Except Fail (List Nat) :=
  match ids0 with
  | [] => .ok []
  | _ =>
    let ids := dedupe ids0
    if ids.length = 1 then .ok ids
    else
      let all := (List.range ids.length).zip ids
      independentAux g all all

/-- inner `for ca in lcas: next_lcas.extend(_find_lcas(cmt, [ca]))` -/
def octopusInner (g : Graph) (cmt : Nat) : List Nat → Except Fail (List Nat)
  | [] => .ok []
  | ca :: r =>
    match findLcas g cmt [ca] (defaultCut g) with
    | .error e => .error e
    | .ok res =>
      match octopusInner g cmt r with
      | .error e => .error e
      | .ok rest => .ok (res ++ rest)

def octopusOuter (g : Graph) : List Nat → List Nat → Except Fail (List Nat)
  | [], lcas => .ok lcas
  | cmt :: others, lcas =>
    match octopusInner g cmt lcas with
    | .error e => .error e
    | .ok next => octopusOuter g others next

/-- `find_octopus_base(repo, commit_ids)` -/
def findOctopusBase (g : Graph) (ids : List Nat) : Except Fail (List Nat) :=
  match ids with
  | [] => .ok []
  | [_] => findMergeBase g ids
  | [_, _] => findMergeBase g ids
  | c0 :: others =>
    match octopusOuter g others [c0] with
    | .error e => .error e
    | .ok lcas => removeRedundant g lcas

/-! ## the same functions as they were BEFORE the fix series (regression witnesses only)

`min_stamp` defaulted to 0; `can_fast_forward` passed `min_stamp = commit time of c1` and compared with `[c1]`;
nothing was reduced; `independent` did not remove duplicate ids. -/

namespace Old

def cut0 (g : Graph) : Nat → Bool := cutBelow g (some 0)

def findMergeBase (g : Graph) (ids : List Nat) : Except Fail (List Nat) :=
  match ids with
  | [] => .ok []
  | [c1] => .ok [c1]
  | c1 :: c2s => if c2s.contains c1 then .ok [c1] else findLcas g c1 c2s (cut0 g)

def canFastForward (g : Graph) (c1 c2 : Nat) : Except Fail Bool :=
  if c1 = c2 then .ok true
  else
    match findLcas g c1 [c2] (cutBelow g (some (g.ts c1))) with
    | .error e => .error e
    | .ok l => .ok (l == [c1])

def dominated (g : Graph) (i : Nat) (c : Nat) : List (Nat × Nat) → Except Fail Bool
  | [] => .ok false
  | (j, o) :: r =>
    if i = j then dominated g i c r
    else match findMergeBase g [c, o] with
      | .error e => .error e
      | .ok mb => if mb == [c] then .ok true else dominated g i c r

def independentAux (g : Graph) (all : List (Nat × Nat)) : List (Nat × Nat) → Except Fail (List Nat)
  | [] => .ok []
  | (i, c) :: r =>
    match dominated g i c all with
    | .error e => .error e
    | .ok d =>
      match independentAux g all r with
      | .error e => .error e
      | .ok rest => .ok (if d then rest else c :: rest)

def independent (g : Graph) (ids : List Nat) : Except Fail (List Nat) :=
  match ids with
  | [] => .ok []
  | [c] => .ok [c]
  | _ =>
    let all := (List.range ids.length).zip ids
    independentAux g all all

def octopusInner (g : Graph) (cmt : Nat) : List Nat → Except Fail (List Nat)
  | [] => .ok []
  | ca :: r =>
    match findLcas g cmt [ca] (cut0 g) with
    | .error e => .error e
    | .ok res =>
      match octopusInner g cmt r with
      | .error e => .error e
      | .ok rest => .ok (res ++ rest)

def octopusOuter (g : Graph) : List Nat → List Nat → Except Fail (List Nat)
  | [], lcas => .ok lcas
  | cmt :: others, lcas =>
    match octopusInner g cmt lcas with
    | .error e => .error e
    | .ok next => octopusOuter g others next

def findOctopusBase (g : Graph) (ids : List Nat) : Except Fail (List Nat) :=
  match ids with
  | [] => .ok []
  | [_] => findMergeBase g ids
  | [_, _] => findMergeBase g ids
  | c0 :: others => octopusOuter g others [c0]

end Old

/-! ## specification vocabulary (used by the theorems in Props/C13.lean; nothing here is executed) -/

/-- `Anc g a c`: `a` is `c` or reachable from `c` along parent edges (ancestor-or-self) -/
inductive Anc (g : Graph) : Nat → Nat → Prop
  | refl (c : Nat) : Anc g c c
  | step {a p c : Nat} : p ∈ g.parents c → Anc g a p → Anc g a c

/-- strict ancestor: ancestor-or-self of a parent -/
def SAnc (g : Graph) (a c : Nat) : Prop := ∃ p, p ∈ g.parents c ∧ Anc g a p

/-- common ancestor of `c1` and (at least one of) `c2s` -/
def CA (g : Graph) (c1 : Nat) (c2s : List Nat) (x : Nat) : Prop :=
  Anc g x c1 ∧ ∃ c2, c2 ∈ c2s ∧ Anc g x c2

/-- maximal common ancestor: a common ancestor that is not a strict ancestor of another one -/
def MaxCA (g : Graph) (c1 : Nat) (c2s : List Nat) (x : Nat) : Prop :=
  CA g c1 c2s x ∧ ¬ ∃ y, CA g c1 c2s y ∧ SAnc g x y

/-- common ancestor of ALL of `ids` -/
def CAall (g : Graph) (ids : List Nat) (x : Nat) : Prop := ∀ c, c ∈ ids → Anc g x c

/-- maximal common ancestor of all of `ids` (the graph-theoretic octopus base) -/
def MaxCAall (g : Graph) (ids : List Nat) (x : Nat) : Prop :=
  CAall g ids x ∧ ¬ ∃ y, CAall g ids y ∧ SAnc g x y

/-- the history is acyclic: some rank strictly increases from every parent to its child -/
def Graph.Acyclic (g : Graph) : Prop := ∃ rk : Nat → Nat, ∀ c p, p ∈ g.parents c → rk p < rk c

/-- stamps strictly increase from every parent to its child -/
def Graph.StrictMono (g : Graph) : Prop := ∀ c p, p ∈ g.parents c → g.ts p < g.ts c

end Dulwich.LCA
