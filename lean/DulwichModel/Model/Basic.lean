/-
  Common definitions shared by all models.  Core Lean only (no Mathlib) so that the
  driver links as a `lean_exe`.
-/
namespace Dulwich

abbrev Bytes := List UInt8

/-- Error classes the real code raises, canonicalised to a small enum. -/
inductive Err where
  | delta      -- ApplyDeltaError
  | format     -- ObjectFormatException / ValueError / struct.error style
  | checksum   -- ChecksumMismatch
  | protocol   -- GitProtocolError / HangupException
  | locked     -- FileLocked
  | key        -- KeyError
  | other
  deriving DecidableEq, Repr, Inhabited

def Err.toString : Err → String
  | .delta => "delta" | .format => "format" | .checksum => "checksum"
  | .protocol => "protocol" | .locked => "locked" | .key => "key" | .other => "other"

instance : ToString Err := ⟨Err.toString⟩

/-! ### hex helpers (driver line protocol) -/

def hexDigit (n : Nat) : Char :=
  if n < 10 then Char.ofNat (48 + n) else Char.ofNat (87 + n)

def hexOfBytes (bs : Bytes) : String :=
  if bs.isEmpty then "-" else
  String.ofList (bs.foldr (fun b acc => hexDigit (b.toNat / 16) :: hexDigit (b.toNat % 16) :: acc) [])

def hexVal (c : Char) : Option Nat :=
  if '0' ≤ c ∧ c ≤ '9' then some (c.toNat - 48)
  else if 'a' ≤ c ∧ c ≤ 'f' then some (c.toNat - 87)
  else if 'A' ≤ c ∧ c ≤ 'F' then some (c.toNat - 55)
  else none

def bytesOfHexAux : List Char → Bytes → Option Bytes
  | [], acc => some acc.reverse
  | [_], _ => none
  | a :: b :: rest, acc =>
    match hexVal a, hexVal b with
    | some x, some y => bytesOfHexAux rest (UInt8.ofNat (16 * x + y) :: acc)
    | _, _ => none

/-- `-` denotes the empty byte string. -/
def bytesOfHex (s : String) : Option Bytes :=
  if s = "-" then some [] else bytesOfHexAux s.toList []

def asciiBytes (s : String) : Bytes := s.toList.map (fun c => UInt8.ofNat c.toNat)

end Dulwich
