/-
  C10 (concurrent half) — a reader's object lookup as a small-step program over the pack directory and the
  loose-object directory, to be interleaved with the file-system actions of a repacking actor.

  Modelled code (dulwich/object_store.py):
    PackBasedObjectStore._lookup_in_packs  -> phases `scan` / `needData` of `step`
        (iterate a snapshot of `_pack_cache`; `PackFileDisappeared` => `_evict_pack`, remember `disappeared`;
         at the end of a pass: rescan when something disappeared, or once when nothing was found; at most
         `_MAX_PACK_RESCAN_ATTEMPTS` passes)
    DiskObjectStore._update_pack_cache     -> `rescan`   (a `.pack` with a matching `.idx` is a pack; new ones are
                                                         appended to the cache, vanished ones dropped)
    PackBasedObjectStore.get_raw / __contains__ -> `step`: packs, then the loose file, then alternates
        (`Cfg.reprobe`: after the loose file and the alternates have missed, `_lookup_in_packs` runs once more — the
         repaired code; `reprobe = false` is the code before the C10 fix series)
    PackBasedObjectStore.__iter__          -> `istep`    (rescan; each cached pack, a vanished one is evicted and skipped;
                                                         loose; `rescanAfter`: rescan again and list the packs that
                                                         appeared since (repaired code); alternates)
    Pack.index / Pack.data (lazy open, FileNotFoundError => PackFileDisappeared) -> the `idx`/`data` probes

  One `step` is at most one system call of the real code (open of `<pack>.idx`, open of `<pack>.pack`,
  `listdir(pack_dir)`, open of the loose file); steps that need no system call (a pack whose index is already
  mapped) ignore the file system they are given.  A pack's content is a function of its name (the name is the
  hash of the object ids).  No multi-pack-index.  Core Lean only.
-/
import DulwichModel.Model.Basic
import DulwichModel.Gen.GC
namespace Dulwich.Reader

abbrev Id := Nat
abbrev Name := Nat

/-- what a reader can observe of `objects/` -/
structure FS where
  /-- names p with `pack-p.idx` present -/
  idx : List Name
  /-- names p with `pack-p.pack` present, in directory-listing order -/
  data : List Name
  /-- loose object files -/
  loose : List Id
  deriving DecidableEq, Repr

def FS.complete (f : FS) (p : Name) : Bool := f.idx.contains p && f.data.contains p

/-- `_update_pack_cache`'s notion of a pack: `.pack` with a matching `.idx` in one directory listing -/
def FS.visible (f : FS) : List Name := f.data.filter (fun p => f.idx.contains p)

/-- file-system actions of a repacking actor -/
inductive Act where
  | installData (p : Name)   -- rename tmp -> pack-p.pack
  | installIdx (p : Name)    -- rename pack-p.idx.lock -> pack-p.idx
  | removeData (p : Name)
  | removeIdx (p : Name)
  | addLoose (x : Id)
  | delLoose (x : Id)
  /-- the actor lists the pack directory (`self.packs` / `_update_pack_cache`): no effect on the file system, but what
  it removes afterwards may depend on what it saw -/
  | listPacks
  deriving DecidableEq, Repr

def FS.act (f : FS) : Act → FS
  | .installData p => { f with data := if f.data.contains p then f.data else f.data ++ [p] }
  | .installIdx p => { f with idx := if f.idx.contains p then f.idx else f.idx ++ [p] }
  | .removeData p => { f with data := f.data.filter (fun q => q != p) }
  | .removeIdx p => { f with idx := f.idx.filter (fun q => q != p) }
  | .addLoose x => { f with loose := if f.loose.contains x then f.loose else f.loose ++ [x] }
  | .delLoose x => { f with loose := f.loose.filter (fun y => y != x) }
  | .listPacks => f

/-- decoding of the generated programs (`Gen/GC.lean`): (tag, argument) -/
def Act.ofCode : Nat × Nat → Act
  | (0, p) => .installData p
  | (1, p) => .installIdx p
  | (2, p) => .removeData p
  | (3, p) => .removeIdx p
  | (4, x) => .addLoose x
  | (5, x) => .delLoose x
  | _ => .listPacks

/-- parameters of one lookup -/
structure Cfg where
  /-- content of a pack by name -/
  ids : Name → List Id
  /-- the object looked up -/
  x : Id
  /-- `get_raw` needs the pack data, `__contains__` only the index -/
  needData : Bool
  /-- objects of the alternates -/
  alts : List Id
  /-- `_MAX_PACK_RESCAN_ATTEMPTS` -/
  maxAttempts : Nat
  /-- look at the packs once more (`_lookup_in_packs` again) after the loose + alternates miss -/
  reprobe : Bool

inductive Phase where
  | scan
  | needData (p : Name)
  | loose
  | alts
  | done (found : Bool)
  deriving DecidableEq, Repr

structure RState where
  /-- `_pack_cache` keys in dict order -/
  cache : List Name
  /-- cached packs whose index / data file is already open (immune to deletion) -/
  idxLoaded : List Name
  dataLoaded : List Name
  /-- passes already finished -/
  attempt : Nat
  rescanned : Bool
  disappeared : Bool
  /-- rest of the snapshot `list(self._pack_cache.items())` being iterated -/
  todo : List Name
  phase : Phase
  reprobed : Bool
  deriving DecidableEq, Repr

/-- start of `_lookup_in_packs` for a store whose cache is `cache` -/
def RState.init (cache idxLoaded dataLoaded : List Name) : RState :=
  { cache, idxLoaded, dataLoaded, attempt := 0, rescanned := false, disappeared := false,
    todo := cache, phase := .scan, reprobed := false }

/-- `_update_pack_cache`: (new cache, newly appeared packs) -/
def rescan (f : FS) (cache : List Name) : List Name × List Name :=
  let new := f.visible.filter (fun p => !cache.contains p)
  (cache.filter (fun p => f.visible.contains p) ++ new, new)

/-- `_evict_pack` -/
def evict (r : RState) (p : Name) : RState :=
  { r with cache := r.cache.filter (fun q => q != p),
           idxLoaded := r.idxLoaded.filter (fun q => q != p),
           dataLoaded := r.dataLoaded.filter (fun q => q != p) }

/-- install the result of a rescan (dropped packs are closed) -/
def withCache (r : RState) (cache' : List Name) : RState :=
  { r with cache := cache',
           idxLoaded := r.idxLoaded.filter (fun q => cache'.contains q),
           dataLoaded := r.dataLoaded.filter (fun q => cache'.contains q) }

/-- where `_lookup_in_packs` raising `KeyError` leads: the loose probe after the first look at the packs, `KeyError` to
the caller after the second -/
def afterPacks (r : RState) : Phase := if r.reprobed then .done false else .loose

/-- `continue` in `for _attempt in range(N)`: another pass if one is left, else `raise KeyError` -/
def nextAttempt (c : Cfg) (r : RState) : RState :=
  if r.attempt + 1 < c.maxAttempts then
    { r with attempt := r.attempt + 1, rescanned := true, disappeared := false, todo := r.cache }
  else { r with attempt := r.attempt + 1, rescanned := true, phase := afterPacks r }

def step (c : Cfg) (f : FS) (r : RState) : RState :=
  match r.phase with
  | .done _ => r
  | .scan =>
    match r.todo with
    | p :: rest =>
      if r.idxLoaded.contains p || f.idx.contains p then
        let r1 := { r with idxLoaded := if r.idxLoaded.contains p then r.idxLoaded else p :: r.idxLoaded }
        if (c.ids p).contains c.x then
          if !c.needData || r.dataLoaded.contains p then { r1 with phase := .done true }
          else { r1 with phase := .needData p }
        else { r1 with todo := rest }
      else { evict r p with todo := rest, disappeared := true }
    | [] =>
      if r.disappeared then nextAttempt c (withCache r (rescan f r.cache).1)
      else if !r.rescanned then
        if (rescan f r.cache).2.isEmpty then { withCache r (rescan f r.cache).1 with phase := afterPacks r }
        else nextAttempt c (withCache r (rescan f r.cache).1)
      else { r with phase := afterPacks r }
  | .needData p =>
    if f.data.contains p then
      { r with dataLoaded := p :: r.dataLoaded, phase := .done true }
    else { evict r p with todo := r.todo.drop 1, disappeared := true, phase := .scan }
  | .loose =>
    if f.loose.contains c.x then { r with phase := .done true } else { r with phase := .alts }
  | .alts =>
    if c.alts.contains c.x then { r with phase := .done true }
    else if c.reprobe && !r.reprobed then
      -- `_lookup_in_packs` once more, from scratch (its own rescan comes when the cached packs have missed)
      { r with attempt := 0, rescanned := false, disappeared := false, todo := r.cache, phase := .scan, reprobed := true }
    else { r with phase := .done false }

/-- the reader takes one step in each of the given file-system states (whatever the other actors did in between) -/
def run (c : Cfg) : List FS → RState → RState
  | [], r => r
  | f :: fs, r => run c fs (step c f r)

/-! ### interleaving with a repacking actor and any number of readers -/

structure Sys where
  fs : FS
  /-- remaining file-system actions of the repacker -/
  prog : List Act
  /-- any number of readers, each with its own lookup (object, kind, alternates) -/
  readers : List (Cfg × RState)

def setAt {α : Type} : List α → Nat → α → List α
  | [], _, _ => []
  | _ :: xs, 0, a => a :: xs
  | x :: xs, n + 1, a => x :: setAt xs n a

/-- one scheduling decision: `none` = the repacker's next action, `some i` = reader `i` takes a step -/
def Sys.sched (s : Sys) : Option Nat → Sys
  | none => match s.prog with
    | [] => s
    | a :: rest => { s with fs := s.fs.act a, prog := rest }
  | some i => match s.readers[i]? with
    | none => s
    | some cr => { s with readers := setAt s.readers i (cr.1, step cr.1 s.fs cr.2) }

def Sys.exec : Sys → List (Option Nat) → Sys
  | s, [] => s
  | s, d :: ds => Sys.exec (s.sched d) ds

/-! ### the shape of a safe repacking program (checked on the recorded programs) -/

/-- `checkProgram pstar prot haveData haveIdx prog`: no pack file is removed, and no loose object of `prot` is deleted,
before both files of `pstar` have been installed by the program (or were there from the start: `haveData`, `haveIdx`),
and `pstar`'s files are never removed afterwards. -/
def checkProgram (pstar : Name) (prot : List Id) : Bool → Bool → List Act → Bool
  | _, _, [] => true
  | hd, hi, a :: rest =>
    match a with
    | .installData p => checkProgram pstar prot (hd || p == pstar) hi rest
    | .installIdx p => checkProgram pstar prot hd (hi || p == pstar) rest
    | .removeData p => (hd && hi && p != pstar) && checkProgram pstar prot hd hi rest
    | .removeIdx p => (hd && hi && p != pstar) && checkProgram pstar prot hd hi rest
    | .addLoose _ => checkProgram pstar prot hd hi rest
    | .delLoose x => ((hd && hi) || !prot.contains x) && checkProgram pstar prot hd hi rest
    | .listPacks => checkProgram pstar prot hd hi rest

/-- `removesSnapshotOnly pstar installed relisted prog`: once the new pack `pstar` is installed the program does not list
the pack directory again before it removes pack files — what it removes was decided by a listing taken BEFORE the copy
(the snapshot whose objects it copied), so a pack that another writer lands meanwhile cannot be among the targets.
(A listing after the last removal, like `repack()`'s final cache refresh, is fine.) -/
def removesSnapshotOnly (pstar : Name) : Bool → Bool → List Act → Bool
  | _, _, [] => true
  | inst, rel, a :: rest =>
    match a with
    | .installIdx p => removesSnapshotOnly pstar (inst || p == pstar) rel rest
    | .listPacks => removesSnapshotOnly pstar inst (rel || inst) rest
    | .removeData _ => !rel && removesSnapshotOnly pstar inst rel rest
    | .removeIdx _ => !rel && removesSnapshotOnly pstar inst rel rest
    | _ => removesSnapshotOnly pstar inst rel rest

/-! ### `repack()` as a procedure: which packs is it entitled to delete?

The removal targets are data: the packs listed BEFORE copying (`old_packs`), minus the consolidated pack.  `relist = true`
is NOT the code: it is the variant whose removal loop lists the directory again (regression witness).  The environment
(another writer) may install packs at any moment. -/

inductive MPhase where
  | start
  | copied (snap : List Name)
  | installed (snap : List Name)
  | removing (targets : List Name)
  | done
  deriving DecidableEq, Repr

/-- one step of the repacking procedure with consolidated pack `newp` -/
def mstep (relist : Bool) (newp : Name) (f : FS) : MPhase → FS × MPhase
  | .start => (f, .copied f.visible)                                             -- old_packs = {p.name(): p for p in self.packs}
  | .copied snap => ((f.act (.installData newp)).act (.installIdx newp), .installed snap)   -- add_objects(...)
  | .installed snap =>                                                          -- delete the loose objects; fix the targets
    ({ f with loose := [] }, .removing ((if relist then f.visible else snap).filter (fun p => p != newp)))
  | .removing (p :: ps) => ((f.act (.removeData p)).act (.removeIdx p), .removing ps)
  | .removing [] => (f, .done)
  | .done => (f, .done)

/-- `none` = the repacker's next step, `some a` = an action of the environment -/
def mexec (relist : Bool) (newp : Name) : FS → MPhase → List (Option Act) → FS × MPhase
  | f, m, [] => (f, m)
  | f, m, none :: ds => mexec relist newp (mstep relist newp f m).1 (mstep relist newp f m).2 ds
  | f, m, some a :: ds => mexec relist newp (f.act a) m ds

/-- the environment only adds: packs and loose objects -/
def Act.adds : Act → Bool
  | .installData _ => true
  | .installIdx _ => true
  | .addLoose _ => true
  | .listPacks => true
  | _ => false

/-! ### iteration (`__iter__`) -/

inductive IPhase where
  | rescan | packs | loose | rescan2 | packs2 | alts | done
  deriving DecidableEq, Repr

structure IState where
  cache : List Name
  idxLoaded : List Name
  todo : List Name
  acc : List Id
  phase : IPhase
  deriving DecidableEq, Repr

def IState.init (cache idxLoaded : List Name) : IState :=
  { cache, idxLoaded, todo := [], acc := [], phase := .rescan }

/-- list one pack (`yield from pack`): open its index if need be; a vanished pack is evicted and skipped -/
def iprobe (ids : Name → List Id) (f : FS) (r : IState) (p : Name) (rest : List Name) : IState :=
  if r.idxLoaded.contains p || f.idx.contains p then
    { r with idxLoaded := if r.idxLoaded.contains p then r.idxLoaded else p :: r.idxLoaded,
             acc := r.acc ++ ids p, todo := rest }
  else { r with cache := r.cache.filter (fun q => q != p),
                idxLoaded := r.idxLoaded.filter (fun q => q != p), todo := rest }

/-- `rescanAfter`: the repaired `__iter__` (after the loose listing, rescan and list the packs that appeared since) -/
def istep (rescanAfter : Bool) (ids : Name → List Id) (alts : List Id) (f : FS) (r : IState) : IState :=
  match r.phase with
  | .rescan =>
    let cache' := (rescan f r.cache).1
    { r with cache := cache', idxLoaded := r.idxLoaded.filter (fun q => cache'.contains q),
             todo := cache', phase := .packs }
  | .packs =>
    match r.todo with
    | p :: rest => iprobe ids f r p rest
    | [] => { r with phase := .loose }
  | .loose => { r with acc := r.acc ++ f.loose, phase := if rescanAfter then .rescan2 else .alts }
  | .rescan2 =>
    let cache' := (rescan f r.cache).1
    { r with cache := cache', idxLoaded := r.idxLoaded.filter (fun q => cache'.contains q),
             todo := (rescan f r.cache).2, phase := .packs2 }
  | .packs2 =>
    match r.todo with
    | p :: rest => iprobe ids f r p rest
    | [] => { r with phase := .alts }
  | .alts => { r with acc := r.acc ++ alts, phase := .done }
  | .done => r

def irun (rescanAfter : Bool) (ids : Name → List Id) (alts : List Id) : List FS → IState → IState
  | [], r => r
  | f :: fs, r => irun rescanAfter ids alts fs (istep rescanAfter ids alts f r)

/-- a repacker interleaved with one iteration: `true` = the repacker's next action, `false` = the iterator's next step -/
def iexec (rescanAfter : Bool) (ids : Name → List Id) (alts : List Id) :
    FS → List Act → IState → List Bool → FS × List Act × IState
  | f, prog, r, [] => (f, prog, r)
  | f, prog, r, true :: ds =>
    match prog with
    | [] => iexec rescanAfter ids alts f [] r ds
    | a :: rest => iexec rescanAfter ids alts (f.act a) rest r ds
  | f, prog, r, false :: ds => iexec rescanAfter ids alts f prog (istep rescanAfter ids alts f r) ds

/-! ### replay support for the driver: which system call does the next step make? -/

inductive Sys.Call where
  | idx (p : Name) | data (p : Name) | listdir | loose
  deriving DecidableEq, Repr

/-- `none` = the next step needs no system call (or the lookup is finished) -/
def nextCall (_c : Cfg) (r : RState) : Option Sys.Call :=
  match r.phase with
  | .done _ => none
  | .scan => match r.todo with
    | p :: _ => if r.idxLoaded.contains p then none else some (.idx p)
    | [] => if r.disappeared || !r.rescanned then some .listdir else none
  | .needData p => some (.data p)
  | .loose => some .loose
  | .alts => none

def inextCall (r : IState) : Option Sys.Call :=
  match r.phase with
  | .rescan => some .listdir
  | .rescan2 => some .listdir
  | .packs => match r.todo with
    | p :: _ => if r.idxLoaded.contains p then none else some (.idx p)
    | [] => none
  | .packs2 => match r.todo with
    | p :: _ => if r.idxLoaded.contains p then none else some (.idx p)
    | [] => none
  | .loose => some .loose
  | .alts => none
  | .done => none

end Dulwich.Reader
