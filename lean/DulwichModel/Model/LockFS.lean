/-
  C07 — a tiny abstract POSIX directory for ONE protected file `f` and its lock file `f.lock`,
  plus the vocabulary of system calls the `_GitFile` program of dulwich/file.py issues.

  Core Lean only.  (Named LockFS, not FS, so that it cannot collide with the crash-consistency
  file-system model of C09; nothing outside C07 depends on this file.)

  Inodes are identified by their creator: in the lock protocol a file only ever comes into
  existence at the path `f.lock` through `open(O_CREAT|O_EXCL)`, every actor opens at most once,
  so "the inode created by actor i" is a unique name (`Ino.of i`); `Ino.init` is the inode that
  was at `f` before anybody started.  The content of `Ino.of i` is whatever actor `i` has written
  through its file descriptor (kept in the actor record, `Actor.written`): data goes to an inode
  through a descriptor, never through a path, exactly as on POSIX.
-/
import DulwichModel.Model.Basic

namespace Dulwich.Lock

/-- inode identity -/
inductive Ino where
  | init                   -- the file that was at `f` in the initial state
  | of (creator : Nat)     -- the file actor `creator` made with `open(f.lock, O_CREAT|O_EXCL)`
  deriving DecidableEq, Repr

/-- The directory: which inode each of the two names refers to (`none` = no such entry).
Only `open(O_EXCL)` creates an entry at `f.lock`, so that entry is named by the creating actor. -/
structure FS where
  target : Option Ino      -- `f`
  lock : Option Nat        -- `f.lock`  (`some i` = the inode actor `i` created)
  dir : Bool := true       -- does the PARENT DIRECTORY of `f` and `f.lock` exist (a ref below a fresh
                           --   `refs/heads/x/`; `remove_if_equals` prunes empty directories without a lock)
  deriving DecidableEq, Repr

/-- nothing in the parent directory (only then can it be removed) -/
def FS.isEmpty (fs : FS) : Bool := fs.target.isNone && fs.lock.isNone

/-- `mkdir(parent)` / `makedirs(…, exist_ok)`: afterwards the directory exists -/
def FS.mkdir (fs : FS) : FS := { fs with dir := true }

/-- `rmdir(parent)`: only an existing, empty directory can be removed; `none` = ENOENT / ENOTEMPTY -/
def FS.rmdir (fs : FS) : Option FS :=
  if fs.dir && fs.isEmpty then some { fs with dir := false } else none

/-- `open(f.lock, O_CREAT|O_EXCL)` by actor `i`: atomic test-and-create; `none` = EEXIST. -/
def FS.openExcl (fs : FS) (i : Nat) : Option FS :=
  match fs.lock with
  | some _ => none
  | none => some { fs with lock := some i }

/-- `open(f.lock, O_CREAT)` without `O_EXCL` (only reachable for a mutated program): always
succeeds; the name afterwards refers to a file the caller writes to. -/
def FS.openCreat (fs : FS) (i : Nat) : FS := { fs with lock := some i }

/-- `rename(f.lock, f)`: atomic; whatever inode is at `f.lock` becomes `f`; `none` = ENOENT. -/
def FS.replace (fs : FS) : Option FS :=
  match fs.lock with
  | none => none
  | some j => some { fs with target := some (.of j), lock := none }

/-- `unlink(f.lock)`: removes whatever is at that name; `none` = ENOENT. -/
def FS.remove (fs : FS) : Option FS :=
  match fs.lock with
  | none => none
  | some _ => some { fs with lock := none }

/-- System calls issued by `_GitFile.close()` before the rename, in the vocabulary of the
translator (`Gen/Lock.lean` lists them in source order).  `fclose` (closing the Python file
object) is not a scheduling point of its own: it has no effect another actor can see. -/
inductive PreCall where
  | flush | fsync | fclose | stat | chmod
  deriving DecidableEq, Repr

def PreCall.name : PreCall → String
  | .flush => "flush" | .fsync => "fsync" | .fclose => "fclose" | .stat => "stat" | .chmod => "chmod"

end Dulwich.Lock
