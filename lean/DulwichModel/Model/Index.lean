/-
  Model of dulwich's staging-index codec (dulwich/index.py) and of the checksum wrappers
  `SHA1Reader` / `SHA1Writer` (dulwich/pack.py) as `Index.read` / `Index.write` use them.

  Modelled functions (Python name → model name):
    _encode_varint → encodeVarint            _decode_varint → decodeVarint
    _compress_path → compressPath            _decompress_path_from_stream → decompressPathStream
    _decompress_path → decompressPath        write_cache_time/read_cache_time → packTime/readTime
    write_cache_entry → writeCacheEntry      read_cache_entry → readCacheEntry
    IndexEntry.serialize → serialize         write_index → writeIndex
    write_index_dict → writeIndexDict        read_index_header → readHeader
    read_index_dict_with_version → readIndexDict (entries, dictionary building, extension loop)
    Index.write → indexWrite                 Index.read (+ SHA1Reader.check_sha) → indexRead
    index_entry_from_stat → entryFromStat

  The model describes the code that exists (after the C11 repair series): the name length saturates
  at 0xFFF and saturated names are read to their NUL, size and times are masked to 32 bits like
  dev/ino, `mode/uid/gid` are packed unmasked (struct.error above 2^32-1), the v4 varint is git's
  offset varint, every extension signature is parsed (an unknown one must start with A..Z), and
  `check_sha` accepts only the digest or, with `allow_empty`, 20 zero bytes.  Remaining oddities are
  modelled too: short reads of a non-saturated name or of padding are silent (the trailer check then
  fails), `Index.write` drops extensions with an empty payload.  The pre-repair behaviour is kept in
  `namespace Old` for regression witnesses.

  Python integers are `Nat` here: negative field values are outside the model (the harness never
  feeds them to the model; the direct oracle does exercise them on the real code).  Float times are
  converted by CPython before they reach `struct.pack`; the model starts at `int | (sec, nsec)`.
  The object id is modelled as the raw 20 bytes (`hex_to_sha`/`sha_to_hex` are outside the model).

  Every constant comes from `Gen/Index.lean`, regenerated from /repo on every run.
-/
import DulwichModel.Model.Basic
import DulwichModel.Gen.Index

namespace Dulwich.Index
open Dulwich
open Dulwich.Gen.Index

/-! ## errors -/

/-- The exception classes the index code raises. -/
inductive IErr where
  | struct        -- struct.error
  | value         -- ValueError
  | assertion     -- AssertionError
  | checksum      -- ChecksumMismatch
  | unsupported   -- UnsupportedIndexFormat
  | unsupportedExt -- UnsupportedIndexExtension
  deriving DecidableEq, Repr, Inhabited

def IErr.toString : IErr → String
  | .struct => "struct" | .value => "value" | .assertion => "assertion"
  | .checksum => "checksum" | .unsupported => "unsupported" | .unsupportedExt => "unsupportedext"

instance : ToString IErr := ⟨IErr.toString⟩

abbrev R := Except IErr

/-! ## fixed-width big-endian integers (`struct.pack(">L")`, `">H"`) -/

def be16 (n : Nat) : Bytes := [UInt8.ofNat (n / 256 % 256), UInt8.ofNat (n % 256)]

def be32 (n : Nat) : Bytes :=
  [UInt8.ofNat (n / 16777216 % 256), UInt8.ofNat (n / 65536 % 256), UInt8.ofNat (n / 256 % 256),
   UInt8.ofNat (n % 256)]

/-- `struct.pack(">L", n)`: `struct.error` unless `0 ≤ n < 2^32`. -/
def packL (n : Nat) : R Bytes := if n < 4294967296 then .ok (be32 n) else .error .struct

/-- `struct.pack(">H", n)`. -/
def packH (n : Nat) : R Bytes := if n < 65536 then .ok (be16 n) else .error .struct

/-- `struct.unpack(">L", f.read(4))`: needs all four bytes. -/
def readL : Bytes → R (Nat × Bytes)
  | a :: b :: c :: d :: rest =>
    .ok (a.toNat * 16777216 + b.toNat * 65536 + c.toNat * 256 + d.toNat, rest)
  | _ => .error .struct

def readH : Bytes → R (Nat × Bytes)
  | a :: b :: rest => .ok (a.toNat * 256 + b.toNat, rest)
  | _ => .error .struct

/-- Python `x & ~m` on a non-negative `x`. -/
def clearBits (x m : Nat) : Nat := x - (x &&& m)

/-! ## v4 varint (`_encode_varint`, `_decode_varint`, stream reader): git's offset varint -/

/-- The loop of `_encode_varint`:
`value >>= S; while value > 0: value -= 1; result.append(C | (value & M)); value >>= S`, with
`result` kept reversed (the code reverses it at the end).  `v` is the value *before* the shift.
Structural on a fuel argument (so that `decide` can evaluate it); `fuel > v` always suffices. -/
def encodeVarintAux : Nat → Nat → Bytes → Bytes
  | 0, _, acc => acc
  | fuel + 1, v, acc =>
    if v / 2 ^ varintEncShift = 0 then acc
    else
      let v' := v / 2 ^ varintEncShift - 1
      encodeVarintAux fuel v' (UInt8.ofNat (varintEncCont + v' % (varintEncMask + 1)) :: acc)

/-- `_encode_varint` (varint.c `encode_varint`): most significant 7-bit group first, continuation bit
on all but the last byte, every group but the last stored minus one. -/
def encodeVarint (n : Nat) : Bytes :=
  encodeVarintAux (n + 1) n [UInt8.ofNat (n % (varintEncMask + 1))]

/-- The varint loop of `_decompress_path_from_stream`: `remove_len = ((remove_len + 1) << S) | (byte & M)`
starting from -1; the state `v` is `remove_len + 1`.  `ValueError` at EOF. -/
def readVarintAux (v : Nat) : Bytes → R (Nat × Bytes)
  | [] => .error .value
  | b :: rest =>
    let x := v * 2 ^ varintStreamShift + b.toNat % (varintStreamMask + 1)
    if b.toNat / varintStreamCont % 2 = 0 then .ok (x, rest) else readVarintAux (x + 1) rest

def readVarint (d : Bytes) : R (Nat × Bytes) := readVarintAux 0 d

/-- `_decode_varint(data, offset)` on `data[offset:]`: same arithmetic, `ValueError` at the end of the data. -/
def decodeVarintAux (v : Nat) : Bytes → R (Nat × Bytes)
  | [] => .error .value
  | b :: rest =>
    let x := v * 2 ^ varintDecShift + b.toNat % (varintDecMask + 1)
    if b.toNat / varintDecCont % 2 = 0 then .ok (x, rest) else decodeVarintAux (x + 1) rest

def decodeVarint (d : Bytes) : R (Nat × Bytes) := decodeVarintAux 0 d

/-! ## v4 path prefix compression -/

/-- The `for i in range(min_len): if path[i] == previous_path[i]: common_len += 1 else: break` loop. -/
def commonPrefixLen : Bytes → Bytes → Nat
  | a :: as, b :: bs => if a = b then commonPrefixLen as bs + 1 else 0
  | _, _ => 0

/-- `_compress_path(path, previous_path)`. -/
def compressPath (path prev : Bytes) : Bytes :=
  let c := commonPrefixLen path prev
  encodeVarint (prev.length - c) ++ path.drop c ++ [0]

/-- Bytes up to the first NUL and the bytes after it; `none` when there is no NUL. -/
def splitNul : Bytes → Option (Bytes × Bytes)
  | [] => none
  | b :: r => if b = 0 then some ([], r) else (splitNul r).map fun p => (b :: p.1, p.2)

/-- `previous_path[:-remove_len] if remove_len > 0 else previous_path` followed by `+ suffix`,
after the `remove_len > len(previous_path)` check. -/
def rebuildPath (prev : Bytes) (rm : Nat) (suffix : Bytes) : R Bytes :=
  if rm > prev.length then .error .value else .ok (prev.take (prev.length - rm) ++ suffix)

/-- `_decompress_path_from_stream(f, previous_path)`: `(path, rest of stream)`. -/
def decompressPathStream (prev d : Bytes) : R (Bytes × Bytes) :=
  match readVarint d with
  | .error e => .error e
  | .ok (rm, d1) =>
    match splitNul d1 with
    | none => .error .value
    | some (suffix, d2) =>
      match rebuildPath prev rm suffix with
      | .error e => .error e
      | .ok p => .ok (p, d2)

/-- `_decompress_path(data, offset, previous_path)` on `data[offset:]` (buffer variant). -/
def decompressPath (prev d : Bytes) : R (Bytes × Bytes) :=
  match decodeVarint d with
  | .error e => .error e
  | .ok (rm, d1) =>
    match splitNul d1 with
    | none => .error .value
    | some (suffix, d2) =>
      match rebuildPath prev rm suffix with
      | .error e => .error e
      | .ok p => .ok (p, d2)

/-! ## entries -/

/-- `ctime`/`mtime` as `write_cache_time` sees them after the float case: `int` or `(sec, nsec)`. -/
inductive Time where
  | int (t : Nat)
  | pair (s n : Nat)
  deriving DecidableEq, Repr, Inhabited

/-- `SerializedIndexEntry` (with `name`) / `IndexEntry` (name = dictionary key). `sha` is raw. -/
structure Entry where
  name : Bytes
  ctime : Time
  mtime : Time
  dev : Nat
  ino : Nat
  mode : Nat
  uid : Nat
  gid : Nat
  size : Nat
  sha : Bytes
  flags : Nat
  ext : Nat
  deriving DecidableEq, Repr, Inhabited

def maskOpt (m : Option Nat) (x : Nat) : Nat :=
  match m with
  | some m => x &&& m
  | none => x

/-- `write_cache_time`: `struct.pack(">LL", secs & MASK, nsecs & MASK)`. -/
def packTime : Time → R Bytes
  | .int t => do
    let a ← packL (maskOpt timeSecMask t); let b ← packL (maskOpt timeNsecMask 0); pure (a ++ b)
  | .pair s n => do
    let a ← packL (maskOpt timeSecMask s); let b ← packL (maskOpt timeNsecMask n); pure (a ++ b)

/-- `read_cache_time`: `struct.unpack(">LL", f.read(8))`. -/
def readTime (d : Bytes) : R (Time × Bytes) := do
  let (s, d1) ← readL d
  let (n, d2) ← readL d1
  pure (.pair s n, d2)

/-- `struct.pack("20s", b)`: NUL-padded / truncated to 20 bytes. -/
def pack20 (b : Bytes) : Bytes := (b ++ List.replicate 20 0).take 20

/-- The `struct.pack(">LLLLLL20sH", dev & …, ino & …, mode, uid, gid, size, sha, flags)` call. -/
def packFixed (e : Entry) (flags : Nat) : R Bytes := do
  let a ← packL (maskOpt devMask e.dev)
  let b ← packL (maskOpt inoMask e.ino)
  let c ← packL (maskOpt modeMask e.mode)
  let d ← packL (maskOpt uidMask e.uid)
  let f ← packL (maskOpt gidMask e.gid)
  let g ← packL (maskOpt sizeMask e.size)
  let h ← packH flags
  pure (a ++ b ++ c ++ d ++ f ++ g ++ pack20 e.sha ++ h)

/-- `(n + 8) & ~7` (n = bytes of the entry written/read so far) minus n: the padding length. -/
def padLenWith (add mask n : Nat) : Nat := clearBits (n + add) mask - n

def padLenWrite (n : Nat) : Nat := padLenWith padAddWrite padMaskWrite n
def padLenRead (n : Nat) : Nat := padLenWith padAddRead padMaskRead n

/-- The on-disk flags word of `write_cache_entry`:
`flags = min(len(entry.name), FLAG_NAMEMASK) | (entry.flags & ~FLAG_NAMEMASK)`, then `|= FLAG_EXTENDED`
when there are extended flags.  The 12-bit length saturates at 0xFFF. -/
def diskFlags (e : Entry) : Nat :=
  let f := min e.name.length flagNameMask ||| clearBits e.flags flagNameMask
  if e.ext ≠ 0 then f ||| flagExtended else f

/-- `write_cache_entry(f, entry, version, previous_path)`: the bytes written, or the exception. -/
def writeCacheEntry (v : Nat) (prev : Bytes) (e : Entry) : R Bytes := do
  let ct ← packTime e.ctime
  let mt ← packTime e.mtime
  let cpath := if v ≥ wCompressFrom then compressPath e.name prev else []
  let flags := diskFlags e
  if flags &&& flagExtended ≠ 0 ∧ v < wExtendedFrom then .error .assertion else
  let fixed ← packFixed e flags
  let xw ← if flags &&& flagExtended ≠ 0 then packH e.ext else pure []
  if v ≥ wCompressFrom2 then pure (ct ++ mt ++ fixed ++ xw ++ cpath)
  else
    let body := ct ++ mt ++ fixed ++ xw ++ e.name
    pure (body ++ List.replicate (padLenWrite body.length) 0)

/-- The six `>L` fields, the 20-byte id and the `>H` flags: `struct.unpack(">LLLLLL20sH", f.read(46))`. -/
def readFixed (d : Bytes) : R ((Nat × Nat × Nat × Nat × Nat × Nat) × Bytes × Nat × Bytes) :=
  if d.length < entryReadLen then .error .struct else do
  let (dev, d) ← readL d
  let (ino, d) ← readL d
  let (mode, d) ← readL d
  let (uid, d) ← readL d
  let (gid, d) ← readL d
  let (size, d) ← readL d
  let sha := d.take 20
  let (flags, d) ← readH (d.drop 20)
  pure ((dev, ino, mode, uid, gid, size), sha, flags, d)

/-- `read_cache_entry(f, version, previous_path)` on the unread part `d` of the stream:
the entry and the new unread part.  Below version 4 a name whose 12-bit length field is saturated is read
up to its NUL terminator (`ValueError` when there is none); the padding is computed from the end of the
name.  A short read of a non-saturated name or of the padding is still silent (`f.read(n)` returns what
is there) — the trailer check catches it. -/
def readCacheEntry (v : Nat) (prev : Bytes) (d : Bytes) : R (Entry × Bytes) := do
  let (ct, d1) ← readTime d
  let (mt, d2) ← readTime d1
  let ((dev, ino, mode, uid, gid, size), sha, flags, d3) ← readFixed d2
  let (ext, d4) ←
    if flags &&& flagExtended ≠ 0 then
      (if v < rExtendedFrom then .error .assertion else readH d3)
    else pure (0, d3)
  let mk (name : Bytes) : Entry :=
    { name, ctime := ct, mtime := mt, dev, ino, mode, uid, gid, size, sha,
      flags := clearBits flags flagNameMask, ext }
  if v ≥ rCompressFrom then do
    let (name, d5) ← decompressPathStream prev d4
    pure (mk name, d5)
  else
    let k := flags &&& flagNameMask
    let name0 := d4.take k
    let d5 := d4.drop k
    if k = flagNameMask then
      match splitNul d5 with
      | none => .error .value
      | some (more, d6) =>
        let nameEnd := d.length - d5.length + more.length
        pure (mk (name0 ++ more), d6.drop (padLenRead nameEnd - 1))
    else
      let nameEnd := d.length - d5.length
      pure (mk name0, d5.drop (padLenRead nameEnd))

/-! ## whole index: writer -/

/-- An extension as `(signature, extension.to_bytes())`. -/
abbrev Ext := Bytes × Bytes

/-- Dictionary values: `IndexEntry` or `ConflictedIndexEntry(ancestor, this, other)`. -/
inductive Val where
  | normal (e : Entry)
  | conflict (a t o : Option Entry)
  deriving DecidableEq, Repr, Inhabited

/-- A Python `dict[bytes, …]`: keys unique, insertion order kept. -/
abbrev Dict := List (Bytes × Val)

/-- `IndexEntry.serialize(name, stage)`: clear the stage bits, set them from `stage`. -/
def serialize (e : Entry) (name : Bytes) (stage : Nat) : Entry :=
  { e with name := name,
           flags := clearBits e.flags flagStageMask ||| (stage <<< flagStageShift) }

/-- Python's `bytes.__lt__`: lexicographic on unsigned bytes, a proper prefix is smaller
(this is also git's `cache_name_compare`). -/
def bytesLt : Bytes → Bytes → Bool
  | [], [] => false
  | [], _ :: _ => true
  | _ :: _, [] => false
  | a :: as, b :: bs => if a < b then true else if b < a then false else bytesLt as bs

def insertSorted (x : Bytes × Val) : Dict → Dict
  | [] => [x]
  | y :: ys => if bytesLt x.1 y.1 then x :: y :: ys else y :: insertSorted x ys

/-- `sorted(entries)` (keys are unique, so stability does not matter). -/
def sortDict (d : Dict) : Dict := d.foldr insertSorted []

def stageAt (i : Nat) : Nat := writeStageOrder.getD i 0

/-- The entries one dictionary value contributes, in the order `write_index_dict` appends them. -/
def flattenVal (k : Bytes) : Val → List Entry
  | .normal e => [serialize e k (stageAt 3)]
  | .conflict a t o =>
    (a.map fun e => serialize e k (stageAt 0)).toList ++
    (t.map fun e => serialize e k (stageAt 1)).toList ++
    (o.map fun e => serialize e k (stageAt 2)).toList

def flattenDict (d : Dict) : List Entry := (sortDict d).flatMap fun kv => flattenVal kv.1 kv.2

/-- The entry loop of `write_index`: `previous_path` threads through. -/
def writeEntries (v : Nat) : Bytes → List Entry → R Bytes
  | _, [] => .ok []
  | prev, e :: es => do
    let b ← writeCacheEntry v prev e
    let r ← writeEntries v e.name es
    pure (b ++ r)

/-- `write_index_extension`: signature, `>I` length, data. -/
def writeExt (x : Ext) : R Bytes := do
  let l ← packL x.2.length
  pure (x.1 ++ l ++ x.2)

def writeExts : List Ext → R Bytes
  | [] => .ok []
  | x :: xs => do let a ← writeExt x; let r ← writeExts xs; pure (a ++ r)

/-- The version `write_index` ends up writing. -/
def effectiveVersion (ver : Option Nat) (es : List Entry) : Nat :=
  let v := ver.getD defaultVersion
  if es.any (fun e => e.ext ≠ 0) ∧ v < bumpBelow then bumpTo else v

/-- `write_index(f, entries, version, extensions)`. -/
def writeIndex (ver : Option Nat) (es : List Entry) (exts : List Ext) : R Bytes := do
  let v := effectiveVersion ver es
  let a ← packL v
  let b ← packL es.length
  let body ← writeEntries v [] es
  let x ← writeExts exts
  pure (magic ++ a ++ b ++ body ++ x)

/-- `write_index_dict(f, entries, version, extensions)`. -/
def writeIndexDict (ver : Option Nat) (d : Dict) (exts : List Ext) : R Bytes :=
  writeIndex ver (flattenDict d) exts

/-- `Index.write()`: extensions with an empty payload are dropped; then either 20 zero bytes
(skip_hash) or the hash of everything written (`SHA1Writer.close`). -/
def indexWrite (H : Bytes → Bytes) (skipHash : Bool) (ver : Option Nat) (d : Dict) (exts : List Ext) :
    R Bytes := do
  let body ← writeIndexDict ver d (exts.filter fun x => !x.2.isEmpty)
  pure (body ++ (if skipHash then List.replicate skipHashZeros 0 else H body))

/-! ## whole index: reader -/

/-- `read_index_header`. -/
def readHeader (d : Bytes) : R (Nat × Nat × Bytes) :=
  if d.take 4 ≠ magic then .error .assertion else
  match readL (d.drop 4) with
  | .error e => .error e
  | .ok (v, d1) =>
    match readL d1 with
    | .error e => .error e
    | .ok (n, d2) => if versions.contains v then .ok (v, n, d2) else .error .unsupported

def dictGet (d : Dict) (k : Bytes) : Option Val := (d.find? fun kv => kv.1 = k).map (·.2)

/-- `d[k] = v`: replace in place, else append. -/
def dictSet : Dict → Bytes → Val → Dict
  | [], k, v => [(k, v)]
  | (k', v') :: r, k, v => if k' = k then (k, v) :: r else (k', v') :: dictSet r k v

def entryStage (e : Entry) : Nat := (e.flags &&& flagStageMask) >>> flagStageShift

/-- One iteration of the dictionary-building loop of `read_index_dict_with_version`. -/
def addEntry (d : Dict) (e : Entry) : R Dict :=
  let st := entryStage e
  if st = readStageNormal then .ok (dictSet d e.name (.normal e))
  else
    match dictGet d e.name with
    | some (.normal _) => .error .assertion
    | cur =>
      let (a, t, o) := match cur with
        | some (.conflict a t o) => (a, t, o)
        | _ => (none, none, none)
      let nv :=
        if st = readStageAncestor then Val.conflict (some e) t o
        else if st = readStageThis then Val.conflict a (some e) o
        else if st = readStageOther then Val.conflict a t (some e)
        else Val.conflict a t o
      .ok (dictSet d e.name nv)

/-- The `for i in range(num_entries)` loop. -/
def readEntries (v : Nat) : Nat → Bytes → Dict → Bytes → R (Dict × Bytes)
  | 0, _, acc, d => .ok (acc, d)
  | n + 1, prev, acc, d =>
    match readCacheEntry v prev d with
    | .error e => .error e
    | .ok (e, d1) =>
      match addEntry acc e with
      | .error e => .error e
      | .ok acc' => readEntries v n e.name acc' d1

def isSigByte (b : UInt8) : Bool := sigLo ≤ b.toNat && b.toNat ≤ sigHi

/-- `IndexExtension.from_raw(signature, data)` followed by `to_bytes()`. -/
def fromRaw (sig data : Bytes) : Ext :=
  if dropPayloadSigs.contains sig then (sig, []) else (sig, data)

/-- `LO <= signature[0] <= HI`: the extension is optional and may be carried along unparsed. -/
def firstIsOptional : Bytes → Bool
  | b :: _ => isSigByte b
  | [] => false

/-- The extension loop of `read_index_dict_with_version` on the unread part `d`: every 4-byte signature
is parsed; an extension `from_raw` leaves as a plain `IndexExtension` (unknown signature) whose signature
does not start with `A..Z` raises `UnsupportedIndexExtension`.  Returns the extensions and the part left
unread.  `fuel ≥ d.length` suffices. -/
def readExts : Nat → Bytes → R (List Ext × Bytes)
  | 0, d => .ok ([], d)
  | fuel + 1, d =>
    if d.length ≤ trailerLen then .ok ([], d)            -- current_pos >= eof_pos - 20
    else
      let sig := d.take 4
      if sig.length < 4 then .ok ([], [])                  -- short signature: break at EOF
      else
        match readL (d.drop 4) with
        | .error _ => .ok ([], [])                         -- short size field: break at EOF
        | .ok (size, d2) =>
          if d2.length < size then .ok ([], [])            -- short data: break at EOF
          else if !knownSigs.contains sig && !firstIsOptional sig then .error .unsupportedExt
          else
            match readExts fuel (d2.drop size) with
            | .error e => .error e
            | .ok (xs, r) => .ok (fromRaw sig (d2.take size) :: xs, r)

def zeros20 : Bytes := List.replicate 20 0

/-- `SHA1Reader.check_sha(allow_empty)`: `true` = accepted: the stored trailer is the digest of what was
read, or (`allow_empty`) it is exactly `N` zero bytes.  `hashed` is everything that went through
`SHA1Reader.read`, `rest` the unread part of the file. -/
def checkSha (H : Bytes → Bytes) (allowEmpty : Bool) (hashed rest : Bytes) : Bool :=
  let stored := rest.take shaReadLen
  !(stored ≠ H hashed && !(allowEmpty && stored = List.replicate shaZeroLen 0))

/-- `read_index_dict_with_version` on a whole file: dictionary, version, extensions, unread rest and
the bytes read (= hashed) so far. -/
def readIndexDict (file : Bytes) : R (Dict × Nat × List Ext × Bytes × Bytes) :=
  match readHeader file with
  | .error e => .error e
  | .ok (v, n, d0) =>
    match readEntries v n [] [] d0 with
    | .error e => .error e
    | .ok (dict, d1) =>
      match readExts d1.length d1 with
      | .error e => .error e
      | .ok (exts, rest) => .ok (dict, v, exts, rest, file.take (file.length - rest.length))

/-- `Index(path)` on a file with these contents: `(entries in dict order, version, extensions)` or the
exception (`ChecksumMismatch` from `check_sha(allow_empty=True)`). -/
def indexRead (H : Bytes → Bytes) (file : Bytes) : R (Dict × Nat × List Ext) :=
  match readIndexDict file with
  | .error e => .error e
  | .ok (dict, v, exts, rest, hashed) =>
    if checkSha H allowEmpty hashed rest then .ok (dict, v, exts) else .error .checksum

/-! ## `index_entry_from_stat` (field widths) -/

/-- What `index_entry_from_stat` stores for a `stat_result` with `st_*_ns` present: nothing is
narrowed; (sec, nsec) from the nanosecond counters. -/
def entryFromStat (ctimeNs mtimeNs dev ino mode uid gid size : Nat) (sha : Bytes) : Entry :=
  { name := [], ctime := .pair (ctimeNs / 1000000000) (ctimeNs % 1000000000),
    mtime := .pair (mtimeNs / 1000000000) (mtimeNs % 1000000000),
    dev, ino, mode, uid, gid, size, sha, flags := 0, ext := 0 }

/-- The `(st_*_ns // 1_000_000_000, st_*_ns % 1_000_000_000)` of `index_entry_from_stat`, on Python's
unbounded integers (negative for timestamps before 1970): floor division and its non-negative remainder.
(`Int` `/` and `%` are Euclidean in Lean 4, which for the positive divisor 10^9 is Python's `//`, `%`.) -/
def timespecOfNs (ns : Int) : Int × Int := (ns / 1000000000, ns % 1000000000)

/-- What truncation towards zero (C's `/`, `int(ns / 1e9)`) would give instead. -/
def truncTimespecOfNs (ns : Int) : Int × Int := (Int.tdiv ns 1000000000, Int.tmod ns 1000000000)

/-- The two 32-bit words `write_cache_time` stores for `(sec, nsec)`: `& 0xFFFFFFFF` on Python integers. -/
def timeWords (t : Int × Int) : Nat × Nat := ((t.1 % 4294967296).toNat, (t.2 % 4294967296).toNat)

/-! ## git's own v4 varint (varint.c), for the interoperability statement -/

/-- C git `encode_varint`: big-endian base-128 groups with the "+1" offset encoding. -/
def gitEncodeVarintAux : Nat → Nat → Bytes → Bytes
  | 0, _, acc => acc
  | fuel + 1, v, acc =>
    if v / 128 = 0 then acc
    else
      let v' := v / 128 - 1
      gitEncodeVarintAux fuel v' (UInt8.ofNat (128 + v' % 128) :: acc)

def gitEncodeVarint (n : Nat) : Bytes := gitEncodeVarintAux (n + 1) n [UInt8.ofNat (n % 128)]

/-- C git `decode_varint` (without its overflow check). -/
def gitDecodeVarintAux (val : Nat) : Bytes → Option (Nat × Bytes)
  | [] => none
  | c :: rest =>
    let val' := (val + 1) * 128 + c.toNat % 128
    if c.toNat < 128 then some (val', rest) else gitDecodeVarintAux val' rest

def gitDecodeVarint : Bytes → Option (Nat × Bytes)
  | [] => none
  | c :: rest =>
    if c.toNat < 128 then some (c.toNat % 128, rest) else gitDecodeVarintAux (c.toNat % 128) rest

/-! ## The code BEFORE the repair series (regression witnesses only)

Frozen copies of the functions the `fix:` commits changed, as they were modelled (and tied to the code
byte for byte) before: plain LEB128 varint, unmasked size and times, unsaturated name length, name of
`flags & 0xFFF` bytes, upper-case-only extension signatures with the seek-back after hashing, and
`check_sha` accepting any trailer that is not exactly 20 bytes.  Constants that the repairs changed are
literals here; nothing in this namespace is tied to the current source. -/

namespace Old

def encodeVarintAux : Nat → Nat → Bytes
  | 0, n => [UInt8.ofNat (n % (128))]
  | fuel + 1, n =>
    if n / 128 = 0 then [UInt8.ofNat (n % (128))]
    else UInt8.ofNat (n % (128) + 128) :: encodeVarintAux fuel (n / 128)

def encodeVarint (n : Nat) : Bytes := encodeVarintAux n n

/-- The varint loop of `_decompress_path_from_stream`: one byte at a time, `ValueError` at EOF. -/
def readVarintAux (shift acc : Nat) : Bytes → R (Nat × Bytes)
  | [] => .error .value
  | b :: rest =>
    let acc' := acc + (b.toNat % (128)) * 2 ^ shift
    if b.toNat / 128 % 2 = 0 then .ok (acc', rest)
    else readVarintAux (shift + 7) acc' rest

def readVarint (d : Bytes) : R (Nat × Bytes) := readVarintAux 0 0 d

/-- `_compress_path(path, previous_path)`. -/
def compressPath (path prev : Bytes) : Bytes :=
  let c := commonPrefixLen path prev
  encodeVarint (prev.length - c) ++ path.drop c ++ [0]

/-- `_decompress_path_from_stream(f, previous_path)`: `(path, rest of stream)`. -/
def decompressPathStream (prev d : Bytes) : R (Bytes × Bytes) :=
  match readVarint d with
  | .error e => .error e
  | .ok (rm, d1) =>
    match splitNul d1 with
    | none => .error .value
    | some (suffix, d2) =>
      match rebuildPath prev rm suffix with
      | .error e => .error e
      | .ok p => .ok (p, d2)

/-- `write_cache_time`. -/
def packTime : Time → R Bytes
  | .int t => do let a ← packL t; let b ← packL 0; pure (a ++ b)
  | .pair s n => do let a ← packL s; let b ← packL n; pure (a ++ b)

/-- The `struct.pack(">LLLLLL20sH", dev & …, ino & …, mode, uid, gid, size, sha, flags)` call. -/
def packFixed (e : Entry) (flags : Nat) : R Bytes := do
  let a ← packL (maskOpt devMask e.dev)
  let b ← packL (maskOpt inoMask e.ino)
  let c ← packL (maskOpt modeMask e.mode)
  let d ← packL (maskOpt uidMask e.uid)
  let f ← packL (maskOpt gidMask e.gid)
  let g ← packL (e.size)
  let h ← packH flags
  pure (a ++ b ++ c ++ d ++ f ++ g ++ pack20 e.sha ++ h)

/-- The on-disk flags word of `write_cache_entry`:
`flags = len(entry.name) | (entry.flags & ~FLAG_NAMEMASK)`, then `|= FLAG_EXTENDED` when there are
extended flags.  No saturation of the length at 0xFFF. -/
def diskFlags (e : Entry) : Nat :=
  let f := e.name.length ||| clearBits e.flags flagNameMask
  if e.ext ≠ 0 then f ||| flagExtended else f

/-- `write_cache_entry(f, entry, version, previous_path)`: the bytes written, or the exception. -/
def writeCacheEntry (v : Nat) (prev : Bytes) (e : Entry) : R Bytes := do
  let ct ← packTime e.ctime
  let mt ← packTime e.mtime
  let cpath := if v ≥ wCompressFrom then compressPath e.name prev else []
  let flags := diskFlags e
  if flags &&& flagExtended ≠ 0 ∧ v < wExtendedFrom then .error .assertion else
  let fixed ← packFixed e flags
  let xw ← if flags &&& flagExtended ≠ 0 then packH e.ext else pure []
  if v ≥ wCompressFrom2 then pure (ct ++ mt ++ fixed ++ xw ++ cpath)
  else
    let body := ct ++ mt ++ fixed ++ xw ++ e.name
    pure (body ++ List.replicate (padLenWrite body.length) 0)

/-- `read_cache_entry(f, version, previous_path)` on the unread part `d` of the stream:
the entry and the new unread part.  Short reads of the name and of the padding are silent, as in
the code (`f.read(n)` returns what is there). -/
def readCacheEntry (v : Nat) (prev : Bytes) (d : Bytes) : R (Entry × Bytes) := do
  let (ct, d1) ← readTime d
  let (mt, d2) ← readTime d1
  let ((dev, ino, mode, uid, gid, size), sha, flags, d3) ← readFixed d2
  let (ext, d4) ←
    if flags &&& flagExtended ≠ 0 then
      (if v < rExtendedFrom then .error .assertion else readH d3)
    else pure (0, d3)
  let mk (name : Bytes) : Entry :=
    { name, ctime := ct, mtime := mt, dev, ino, mode, uid, gid, size, sha,
      flags := clearBits flags flagNameMask, ext }
  if v ≥ rCompressFrom then do
    let (name, d5) ← decompressPathStream prev d4
    if v < 4 then
      let n := d.length - d5.length
      pure (mk name, d5.drop (padLenRead n))
    else pure (mk name, d5)
  else
    let k := flags &&& flagNameMask
    let name := d4.take k
    let d5 := d4.drop k
    if v < 4 then
      let n := d.length - d5.length
      pure (mk name, d5.drop (padLenRead n))
    else pure (mk name, d5)

/-- The `for i in range(num_entries)` loop. -/
def readEntries (v : Nat) : Nat → Bytes → Dict → Bytes → R (Dict × Bytes)
  | 0, _, acc, d => .ok (acc, d)
  | n + 1, prev, acc, d =>
    match readCacheEntry v prev d with
    | .error e => .error e
    | .ok (e, d1) =>
      match addEntry acc e with
      | .error e => .error e
      | .ok acc' => readEntries v n e.name acc' d1

def isAllUpper (sig : Bytes) : Bool := sig.all isSigByte

/-- The extension loop of `read_index_dict_with_version` on the unread part `d`.
Returns the extensions, the part left unread, and the bytes that were read (hence hashed by
`SHA1Reader.read`) and then un-read with `f.seek(-4, 1)`.  `fuel ≥ d.length` suffices. -/
def readExts : Nat → Bytes → List Ext × Bytes × Bytes
  | 0, d => ([], d, [])
  | fuel + 1, d =>
    if d.length ≤ trailerLen then ([], d, [])           -- current_pos >= eof_pos - 20
    else
      let sig := d.take 4
      if sig.length < 4 then ([], [], [])                 -- short signature: break at EOF
      else if !sig.all isSigByte then ([], d, sig)        -- seek back 4; the 4 bytes stay hashed
      else
        match readL (d.drop 4) with
        | .error _ => ([], [], [])                        -- short size field: break at EOF
        | .ok (size, d2) =>
          if d2.length < size then ([], [], [])           -- short data: break at EOF
          else
            let r := readExts fuel (d2.drop size)
            (fromRaw sig (d2.take size) :: r.1, r.2.1, r.2.2)


/-- `SHA1Reader.check_sha(allow_empty)`: `true` = accepted.  `hashed` is everything that went
through `SHA1Reader.read`, `rest` the unread part of the file. -/
def checkSha (H : Bytes → Bytes) (allowEmpty : Bool) (hashed rest : Bytes) : Bool :=
  let stored := rest.take shaReadLen
  !(stored ≠ H hashed && (!allowEmpty || (stored.length = 20 && stored ≠ zeros20)))

/-- `read_index_dict_with_version` on a whole file: dictionary, version, extensions, unread rest and
the bytes hashed so far. -/
def readIndexDict (file : Bytes) : R (Dict × Nat × List Ext × Bytes × Bytes) :=
  match readHeader file with
  | .error e => .error e
  | .ok (v, n, d0) =>
    match readEntries v n [] [] d0 with
    | .error e => .error e
    | .ok (dict, d1) =>
      let x := readExts d1.length d1
      let rest := x.2.1
      .ok (dict, v, x.1, rest, file.take (file.length - rest.length) ++ x.2.2)

/-- `Index(path)` on a file with these contents: `(entries in dict order, version, extensions)` or the
exception (`ChecksumMismatch` from `check_sha(allow_empty=True)`). -/
def indexRead (H : Bytes → Bytes) (file : Bytes) : R (Dict × Nat × List Ext) :=
  match readIndexDict file with
  | .error e => .error e
  | .ok (dict, v, exts, rest, hashed) =>
    if checkSha H allowEmpty hashed rest then .ok (dict, v, exts) else .error .checksum

end Old

/-! ## SHA-1 (driver side only; no theorem depends on its definition) -/

namespace Sha1

def rotl (x : UInt32) (n : UInt32) : UInt32 := (x <<< n) ||| (x >>> (32 - n))

def be64 (n : Nat) : Bytes := be32 (n / 4294967296 % 4294967296) ++ be32 (n % 4294967296)

def pad (msg : Bytes) : Bytes :=
  let l := msg.length
  let k := (119 - l % 64) % 64
  msg ++ [0x80] ++ List.replicate k 0 ++ be64 (l * 8)

def words : Bytes → List UInt32
  | a :: b :: c :: d :: rest =>
    ((a.toUInt32 <<< 24) ||| (b.toUInt32 <<< 16) ||| (c.toUInt32 <<< 8) ||| d.toUInt32) :: words rest
  | _ => []

def schedule (w : Array UInt32) : Array UInt32 := Id.run do
  let mut w := w
  for t in [16:80] do
    w := w.push (rotl (w.getD (t - 3) 0 ^^^ w.getD (t - 8) 0 ^^^ w.getD (t - 14) 0 ^^^ w.getD (t - 16) 0) 1)
  return w

structure St where
  a : UInt32
  b : UInt32
  c : UInt32
  d : UInt32
  e : UInt32

def round (t : Nat) (w : UInt32) (s : St) : St :=
  let (f, k) :=
    if t < 20 then ((s.b &&& s.c) ||| ((~~~ s.b) &&& s.d), (0x5A827999 : UInt32))
    else if t < 40 then (s.b ^^^ s.c ^^^ s.d, (0x6ED9EBA1 : UInt32))
    else if t < 60 then ((s.b &&& s.c) ||| (s.b &&& s.d) ||| (s.c &&& s.d), (0x8F1BBCDC : UInt32))
    else (s.b ^^^ s.c ^^^ s.d, (0xCA62C1D6 : UInt32))
  { a := rotl s.a 5 + f + s.e + k + w, b := s.a, c := rotl s.b 30, d := s.c, e := s.d }

def block (h : St) (blk : Bytes) : St := Id.run do
  let w := schedule (words blk).toArray
  let mut s := h
  for t in [0:80] do
    s := round t (w.getD t 0) s
  return { a := h.a + s.a, b := h.b + s.b, c := h.c + s.c, d := h.d + s.d, e := h.e + s.e }

def blocks : Nat → St → Bytes → St
  | 0, h, _ => h
  | n + 1, h, d => blocks n (block h (d.take 64)) (d.drop 64)

def sha1 (msg : Bytes) : Bytes :=
  let p := pad msg
  let h := blocks (p.length / 64) ⟨0x67452301, 0xEFCDAB89, 0x98BADCFE, 0x10325476, 0xC3D2E1F0⟩ p
  be32 h.a.toNat ++ be32 h.b.toNat ++ be32 h.c.toNat ++ be32 h.d.toNat ++ be32 h.e.toNat

end Sha1

end Dulwich.Index
