/-
  C17 — an abstract POSIX file system WITH symlinks, and the sequence of system calls
  `build_index_from_tree` (dulwich/index.py) performs for a list of tree entries:
  validate_path → verify_leading_dirs (with the shared `safe_prefix` cache) → exists/makedirs of the
  parent → gitlink: isdir/mkdir | blob: build_file_from_blob (lstat, unlink of an old symlink, symlink /
  open("wb") + chmod(cleanup_mode)).

  Every mutating call is logged with the PHYSICAL path it acted on (after the kernel's symlink
  resolution), so that confinement can be stated about what really happens, not about strings.

  Abstractions (recorded as assumptions in the evidence):
   * the work-tree root is given as a physical path (no symlink in `root` itself changes during the run);
   * `os.makedirs` = find the deepest existing prefix by `exists` tests on the pre-state (as CPython's
     recursion does), then `mkdir` each missing prefix outermost first, aborting on the first error
     (the FileExistsError-swallowing branch of CPython's makedirs needs a concurrent writer);
   * regular files are created with mode 0644 (umask 022) before `chmod`; directory modes, ownership,
     timestamps and the index file are not modelled; path length limits are not modelled; at most
     `linkFuel` symlink expansions (ELOOP beyond).
  Core Lean only.
-/
import DulwichModel.Model.PathSafe

namespace Dulwich.Checkout
open Dulwich Dulwich.PathSafe Dulwich.Gen.PathSafe

abbrev Name := Bytes
/-- a physical location: component names from the file-system root -/
abbrev PPath := List Name

inductive Node where
  | file (content : Bytes) (mode : Nat)
  | dir
  | link (target : Bytes)
  deriving DecidableEq, Repr

abbrev FS := PPath → Option Node

def FS.set (fs : FS) (p : PPath) (n : Option Node) : FS := fun q => if q = p then n else fs q

inductive Errno where
  | enoent | enotdir | eisdir | eexist | eloop | invalidPath | enotempty
  deriving DecidableEq, Repr

def Errno.toString : Errno → String
  | .enoent => "ENOENT" | .enotdir => "ENOTDIR" | .eisdir => "EISDIR" | .eexist => "EEXIST"
  | .eloop => "ELOOP" | .invalidPath => "InvalidPath" | .enotempty => "ENOTEMPTY"

/-- mutating system calls, with the physical path acted on -/
inductive Mut where
  | mkdir (p : PPath)
  | unlink (p : PPath)
  | symlink (p : PPath) (target : Bytes)
  | write (p : PPath)
  | chmod (p : PPath) (mode : Nat)
  | rmdir (p : PPath)
  deriving DecidableEq, Repr

def Mut.target : Mut → PPath
  | .mkdir p => p | .unlink p => p | .symlink p _ => p | .write p => p | .chmod p _ => p | .rmdir p => p

/-! ### path resolution (namei) -/

/-- Resolve the components `comps` starting in the physical directory `cur`; `followLast` says whether a
symlink in the final position is followed (stat/open/chmod) or not (lstat/unlink/mkdir/symlink).  The result is
the physical path of the final object, which need not exist.  `fuel` bounds the number of steps. -/
def resolve (fs : FS) : Nat → PPath → List Name → Bool → Except Errno PPath
  | _, cur, [], _ => .ok cur
  | 0, _, _ :: _, _ => .error .eloop
  | fuel + 1, cur, c :: rest, fl =>
    if c = [] ∨ c = [46] then resolve fs fuel cur rest fl
    else if c = [46, 46] then resolve fs fuel cur.dropLast rest fl
    else
      let p := cur ++ [c]
      match fs p with
      | none => if rest = [] then .ok p else .error .enoent
      | some (.link t) =>
        if rest = [] ∧ fl = false then .ok p
        else resolve fs fuel (if t.head? = some 47 then [] else cur) (splitOn 47 t ++ rest) fl
      | some .dir => resolve fs fuel p rest fl
      | some (.file _ _) => if rest = [] then .ok p else .error .enotdir

/-- steps available to one system call on a path of `n` components -/
def fuelFor (n : Nat) : Nat := n + 4096

/-- `os.lstat(root/comps)` -/
def lstat (fs : FS) (root : PPath) (comps : List Name) : Except Errno Node :=
  match resolve fs (fuelFor comps.length) root comps false with
  | .error e => .error e
  | .ok p => match fs p with
    | none => .error .enoent
    | some n => .ok n

/-- `os.stat(root/comps)` (follows a final symlink) -/
def stat (fs : FS) (root : PPath) (comps : List Name) : Except Errno Node :=
  match resolve fs (fuelFor comps.length) root comps true with
  | .error e => .error e
  | .ok p => match fs p with
    | none => .error .enoent
    | some n => .ok n

/-- `os.path.exists` -/
def exists_ (fs : FS) (root : PPath) (comps : List Name) : Bool :=
  match stat fs root comps with | .ok _ => true | .error _ => false

/-- `os.path.isdir` -/
def isdir (fs : FS) (root : PPath) (comps : List Name) : Bool :=
  match stat fs root comps with | .ok .dir => true | _ => false

/-! ### mutating calls: new file system + the physical target, or an error (file system unchanged) -/

def sysMkdir (fs : FS) (root : PPath) (comps : List Name) : Except Errno (FS × Mut) :=
  match resolve fs (fuelFor comps.length) root comps false with
  | .error e => .error e
  | .ok p => match fs p with
    | some _ => .error .eexist
    | none => .ok (fs.set p (some .dir), .mkdir p)

def sysUnlink (fs : FS) (root : PPath) (comps : List Name) : Except Errno (FS × Mut) :=
  match resolve fs (fuelFor comps.length) root comps false with
  | .error e => .error e
  | .ok p => match fs p with
    | none => .error .enoent
    | some .dir => .error .eisdir
    | some _ => .ok (fs.set p none, .unlink p)

def sysSymlink (fs : FS) (target : Bytes) (root : PPath) (comps : List Name) : Except Errno (FS × Mut) :=
  match resolve fs (fuelFor comps.length) root comps false with
  | .error e => .error e
  | .ok p => match fs p with
    | some _ => .error .eexist
    | none => .ok (fs.set p (some (.link target)), .symlink p target)

/-- `open(path, "wb")` + write + close -/
def sysOpenWrite (fs : FS) (content : Bytes) (root : PPath) (comps : List Name) : Except Errno (FS × Mut) :=
  match resolve fs (fuelFor comps.length) root comps true with
  | .error e => .error e
  | .ok p => match fs p with
    | some .dir => .error .eisdir
    | some (.link _) => .error .eloop          -- unreachable: a final link was followed
    | some (.file _ m) => .ok (fs.set p (some (.file content m)), .write p)
    | none => .ok (fs.set p (some (.file content 0o644)), .write p)

def sysChmod (fs : FS) (mode : Nat) (root : PPath) (comps : List Name) : Except Errno (FS × Mut) :=
  match resolve fs (fuelFor comps.length) root comps true with
  | .error e => .error e
  | .ok p => match fs p with
    | none => .error .enoent
    | some (.file c _) => .ok (fs.set p (some (.file c (mode % 4096))), .chmod p (mode % 4096))
    | some n => .ok (fs.set p (some n), .chmod p (mode % 4096))

/-! ### the state of one `build_index_from_tree` run -/

structure St where
  fs : FS
  log : List Mut          -- mutating calls so far, oldest first
  safe : List Name        -- the `safe_prefix` cache

/-- outcome of a step: the state reached, and the error that aborted it (if any) -/
abbrev Step := St × Option Errno

def St.apply (st : St) (r : Except Errno (FS × Mut)) : Step :=
  match r with
  | .error e => (st, some e)
  | .ok (fs', m) => ({ st with fs := fs', log := st.log ++ [m] }, none)

/-- sequencing: continue with `f` unless the step was aborted by an error -/
def Step.andThen (r : Step) (f : St → Step) : Step :=
  match r with
  | (st1, none) => f st1
  | r => r

/-! ### verify_leading_dirs -/

/-- `common`: length of the longest common prefix of the cache and the leading components -/
def commonLen : List Name → List Name → Nat
  | a :: as, b :: bs => if a = b then commonLen as bs + 1 else 0
  | _, _ => 0

/-- the `for part in components[common:]` loop: `done` are the components already joined onto `current` -/
def verifyLoop (fs : FS) (root : PPath) : List Name → List Name → List Name → Except Errno (List Name)
  | _, [], safe => .ok safe
  | done, c :: rest, safe =>
    match lstat fs root (done ++ [c]) with
    | .error .enoent => .ok safe                       -- FileNotFoundError: break
    | .error e => .error e                             -- NotADirectoryError etc. propagate
    | .ok (.link _) => .error .invalidPath
    | .ok _ => verifyLoop fs root (done ++ [c]) rest (safe ++ [c])

/-- `verify_leading_dirs(tree_path, safe_prefix, repo_path)` on the components of `tree_path`; returns the
updated cache.  (`slash <= 0: return` = no leading component; a path starting with `/` never gets here
because `validate_path` refused it.) -/
def verifyLeadingDirs (fs : FS) (root : PPath) (comps : List Name) (safe : List Name) : Except Errno (List Name) :=
  let lead := comps.dropLast
  if lead = [] then .ok safe
  else
    let common := commonLen safe lead
    verifyLoop fs root (lead.take common) (lead.drop common) (safe.take common)

/-! ### os.makedirs -/

/-- deepest `i ≤ n` such that `root/lead[:i]` exists (`i = 0`: the root itself, assumed to exist) -/
def deepestExisting (fs : FS) (root : PPath) (lead : List Name) : Nat → Nat
  | 0 => 0
  | i + 1 => if exists_ fs root (lead.take (i + 1)) then i + 1 else deepestExisting fs root lead i

/-- `mkdir root/lead[:i+1]` for `i = from … from+count-1`, aborting on the first error -/
def mkdirsUp (root : PPath) (lead : List Name) : Nat → Nat → St → Step
  | _, 0, st => (st, none)
  | i, count + 1, st =>
    (st.apply (sysMkdir st.fs root (lead.take (i + 1)))).andThen (mkdirsUp root lead (i + 1) count)

/-- `os.makedirs(root/lead)` when `not os.path.exists(root/lead)` -/
def makedirs (root : PPath) (lead : List Name) (st : St) : Step :=
  let start := deepestExisting st.fs root lead (lead.length - 1)
  mkdirsUp root lead start (lead.length - start) st

/-! ### build_file_from_blob / one entry / the run -/

structure Entry where
  path : Bytes
  mode : Nat
  content : Bytes          -- blob contents (symlink target for mode 0120000)
  deriving Repr

def isLnkMode (m : Nat) : Bool := sIfmt m = 0o120000
def isGitlinkMode (m : Nat) : Bool := sIfmt m = 0o160000

/-- `open(path, "wb")`, write, close, `os.chmod(path, cleanup_mode(mode))` -/
def writeAndChmod (root : PPath) (comps : List Name) (mode : Nat) (content : Bytes) (st : St) : Step :=
  (st.apply (sysOpenWrite st.fs content root comps)).andThen fun st1 =>
    st1.apply (sysChmod st1.fs (cleanupMode mode) root comps)

/-- `build_file_from_blob(blob, mode, root/comps, honor_filemode=True)` -/
def buildFileFromBlob (root : PPath) (comps : List Name) (mode : Nat) (content : Bytes) (st : St) : Step :=
  match lstat st.fs root comps with
  | .error .enoent =>
    if isLnkMode mode then st.apply (sysSymlink st.fs content root comps)
    else writeAndChmod root comps mode content st
  | .error e => (st, some e)
  | .ok old =>
    if isLnkMode mode then
      (st.apply (sysUnlink st.fs root comps)).andThen fun st1 => st1.apply (sysSymlink st1.fs content root comps)
    else
      match old with
      | .link _ =>
        (st.apply (sysUnlink st.fs root comps)).andThen (writeAndChmod root comps mode content)
      | .dir => (st, some .eisdir)      -- open(dir, "rb"/"wb") fails either way
      | .file c _ =>
        if c = content then (st, none)  -- same size, same bytes: `return oldstat`
        else writeAndChmod root comps mode content st

/-- gitlink entry: `if not os.path.isdir(full_path): os.mkdir(full_path)` -/
def buildGitlink (root : PPath) (comps : List Name) (st : St) : Step :=
  if isdir st.fs root comps then (st, none) else st.apply (sysMkdir st.fs root comps)

/-- `if not os.path.exists(dirname): os.makedirs(dirname)` -/
def ensureParent (root : PPath) (lead : List Name) (st : St) : Step :=
  if exists_ st.fs root lead then (st, none) else makedirs root lead st

/-- one iteration of the `for entry in iter_tree_contents(...)` loop -/
def processEntry (v : Bytes → Bool) (root : PPath) (e : Entry) (st : St) : Step :=
  if validatePath v e.path = false then (st, some .invalidPath)
  else
    let comps := splitOn pathSep e.path
    match verifyLeadingDirs st.fs root comps st.safe with
    | .error err => (st, some err)
    | .ok safe' =>
      (ensureParent root comps.dropLast { st with safe := safe' }).andThen fun st1 =>
        if isGitlinkMode e.mode then buildGitlink root comps st1
        else buildFileFromBlob root comps e.mode e.content st1

/-- the loop: stops at the first error, "leaving any files already written in place" -/
def runEntries (v : Bytes → Bool) (root : PPath) : List Entry → St → Step
  | [], st => (st, none)
  | e :: es, st => (processEntry v root e st).andThen (runEntries v root es)

/-- `build_index_from_tree(root, …, validate_path_element=v)` on the entries of the tree, from file system `fs` -/
def buildIndexFromTree (v : Bytes → Bool) (root : PPath) (entries : List Entry) (fs : FS) : Step :=
  runEntries v root entries { fs := fs, log := [], safe := [] }

/-! ### the delete phase of `update_working_tree` (non-directory case), as coded -/

/-- `_lstat_tracked_path(tree_path, full_path, repo_path)`: `verify_leading_dirs(tree_path, [], repo_path)`
(InvalidPathError → FileNotFoundError: "a leading directory is a symlink: not in the work tree"), then
`os.lstat(full_path)`.  Used by the delete phase and by both pre-checks of `update_working_tree`. -/
def lstatTracked (fs : FS) (root : PPath) (comps : List Name) : Except Errno Node :=
  match verifyLeadingDirs fs root comps [] with
  | .error .invalidPath => .error .enoent
  | .error e => .error e
  | .ok _ => lstat fs root comps

/-- One `CHANGE_DELETE` of `update_working_tree`: `if not validate_path(path): continue`; the (guarded) lstat
(FileNotFoundError: nothing to do); `_transition_to_absent` → `os.unlink(full_path)` for anything that is not a
directory.  `guarded = false` is the code BEFORE the repair (bare `os.lstat(full_path)`, no leading-directory
check), kept as a regression variant.  (The directory branch — listdir/rmdir/rmtree — and
`_remove_empty_parents` are not modelled.) -/
def deleteOldG (guarded : Bool) (v : Bytes → Bool) (root : PPath) (path : Bytes) (st : St) : Step :=
  if validatePath v path = false then (st, none)
  else
    let comps := splitOn pathSep path
    match (if guarded then lstatTracked st.fs root comps else lstat st.fs root comps) with
    | .error .enoent => (st, none)
    | .error e => (st, some e)
    | .ok .dir => (st, none)
    | .ok _ => st.apply (sysUnlink st.fs root comps)

/-- the delete step as the code stands now (the translator reads from the source whether the guard is there) -/
def deleteOld (v : Bytes → Bool) (root : PPath) (path : Bytes) (st : St) : Step :=
  deleteOldG deleteGuarded v root path st

/-- the delete phase over the deleted paths of the old tree, in order; stops at the first error -/
def deletePhaseG (guarded : Bool) (v : Bytes → Bool) (root : PPath) : List Bytes → St → Step
  | [], st => (st, none)
  | p :: ps, st => (deleteOldG guarded v root p st).andThen (deletePhaseG guarded v root ps)

def deletePhase (v : Bytes → Bool) (root : PPath) (paths : List Bytes) (st : St) : Step :=
  deletePhaseG deleteGuarded v root paths st

/-- what the two pre-checks of `update_working_tree` look at for an old path: the guarded lstat (they go on to
read the file only when it reports a regular file) -/
def precheckOld (root : PPath) (path : Bytes) (fs : FS) : Except Errno Node :=
  lstatTracked fs root (splitOn pathSep path)

/-! ### the write (add/modify) phase of `update_working_tree`, as coded -/

/-- `os.rmdir(path)`.  The model's file system is a function, so whether a directory is empty is decided by the
parameter `isEmpty` (the theorems hold for every such parameter; the driver instantiates it on its finite FS). -/
def sysRmdir (isEmpty : FS → PPath → Bool) (fs : FS) (root : PPath) (comps : List Name) : Except Errno (FS × Mut) :=
  match resolve fs (fuelFor comps.length) root comps false with
  | .error e => .error e
  | .ok p => match fs p with
    | none => .error .enoent
    | some .dir => if isEmpty fs p then .ok (fs.set p none, .rmdir p) else .error .enotempty
    | some _ => .error .enotdir

/-- mode comparison of `_check_file_matches` (honor_filemode): only 0644 vs 0755 counts -/
def normCurMode (m : Nat) : Nat :=
  let x := m &&& 0o755
  if x = 0o644 ∨ x = 0o755 then x else if m &&& 0o100 ≠ 0 then 0o755 else 0o644

def normExpMode (m : Nat) : Nat :=
  let y := (m % 4096) &&& 0o755
  if y = 0o644 ∨ y = 0o755 then y else 0o644

/-- `needs_update = False` in `_transition_to_file`: file→file with equal mode class and bytes, or symlink→symlink
with equal target -/
def upToDate (cur : Node) (e : Entry) : Bool :=
  match cur with
  | .file c m => !isLnkMode e.mode && c == e.content && normCurMode m == normExpMode e.mode
  | .link t => isLnkMode e.mode && t == e.content
  | .dir => false

/-- One add/modify of `update_working_tree` for a blob or symlink entry (gitlinks and the `.git`-only-directory
`rmtree` branch are not modelled): `validate_path` (invalid: raise), `verify_leading_dirs(path, CACHE, repo_path)`,
`lstat(full_path)`, then `_transition_to_file`: nothing if up to date; otherwise remove what is there (`rmdir` of a
directory — not empty: raise —, `unlink` of anything else), `_ensure_parent_dir_exists`, `build_file_from_blob`.
`fresh = true` is the code as it stands: CACHE is a new empty list for every path.  `fresh = false` is the variant
that threads ONE `safe_prefix` list through the whole update (kept to show why that is unsound: rmdir and symlink
creation do not invalidate it). -/
def uwtWriteG (fresh : Bool) (isEmpty : FS → PPath → Bool) (v : Bytes → Bool) (root : PPath) (e : Entry) (st : St) : Step :=
  if validatePath v e.path = false then (st, some .invalidPath)
  else
    let comps := splitOn pathSep e.path
    match verifyLeadingDirs st.fs root comps (if fresh then [] else st.safe) with
    | .error err => (st, some err)
    | .ok safe' =>
      let st := { st with safe := if fresh then st.safe else safe' }
      let writeIt : St → Step := fun s =>
        (ensureParent root comps.dropLast s).andThen (buildFileFromBlob root comps e.mode e.content)
      match lstat st.fs root comps with
      | .error .enoent => writeIt st
      | .error err => (st, some err)
      | .ok cur =>
        if upToDate cur e then (st, none)
        else
          (match cur with
           | .dir => st.apply (sysRmdir isEmpty st.fs root comps)
           | _ => st.apply (sysUnlink st.fs root comps)).andThen writeIt

def uwtWritePhaseG (fresh : Bool) (isEmpty : FS → PPath → Bool) (v : Bytes → Bool) (root : PPath) : List Entry → St → Step
  | [], st => (st, none)
  | e :: es, st => (uwtWriteG fresh isEmpty v root e st).andThen (uwtWritePhaseG fresh isEmpty v root es)

/-! ### gitlink entries: `_transition_to_submodule` / `ensure_submodule_placeholder` -/

def dotGit : Name := [46, 103, 105, 116]

/-- the placeholder's content: `b"gitdir: " + b"../" * depth + b".git/modules/" + path + b"\n"` -/
def gitfileContent (path : Bytes) : Bytes :=
  asciiBytes "gitdir: " ++ (List.replicate (path.count 47 + 1) [46, 46, 47]).flatten ++
    asciiBytes ".git/modules/" ++ path ++ [10]

/-- `ensure_submodule_placeholder(repo, path)`: `if not os.path.exists(full): os.makedirs(full)`;
`if not os.path.exists(full/.git): open(full/.git, "wb").write(...)` — both tests FOLLOW symlinks. -/
def placeholder (root : PPath) (comps : List Name) (content : Bytes) (st : St) : Step :=
  (ensureParent root comps st).andThen fun s =>
    if exists_ s.fs root (comps ++ [dotGit]) then (s, none)
    else s.apply (sysOpenWrite s.fs content root (comps ++ [dotGit]))

/-- `_transition_to_submodule(…, current_stat, …)` with `current_stat` from `os.lstat(full_path)`.
`follows` says how the "is a directory already there?" test looks at the path: `false` is the code as it stands
(`current_stat is not None and stat.S_ISDIR(current_stat.st_mode)` on the LSTAT result — a symlink is not a
directory and gets removed); `true` is a test that follows symlinks (`os.path.isdir(full_path)`), kept as a variant to
show that a leftover symlink to a directory would then be kept and the placeholder written inside its target. -/
def uwtGitlinkG (follows : Bool) (root : PPath) (comps : List Name) (content : Bytes) (st : St) : Step :=
  match lstat st.fs root comps with
  | .error .enoent => placeholder root comps content st
  | .error err => (st, some err)
  | .ok cur =>
    if (if follows then isdir st.fs root comps else decide (cur = .dir)) then placeholder root comps content st
    else (st.apply (sysUnlink st.fs root comps)).andThen (placeholder root comps content)

/-- one add/modify of `update_working_tree`, gitlink entries included -/
def uwtEntryG (fresh follows : Bool) (isEmpty : FS → PPath → Bool) (v : Bytes → Bool) (root : PPath) (e : Entry)
    (st : St) : Step :=
  if isGitlinkMode e.mode then
    if validatePath v e.path = false then (st, some .invalidPath)
    else
      let comps := splitOn pathSep e.path
      match verifyLeadingDirs st.fs root comps (if fresh then [] else st.safe) with
      | .error err => (st, some err)
      | .ok safe' =>
        uwtGitlinkG follows root comps (gitfileContent e.path) { st with safe := if fresh then st.safe else safe' }
  else uwtWriteG fresh isEmpty v root e st

def uwtPhaseAllG (fresh follows : Bool) (isEmpty : FS → PPath → Bool) (v : Bytes → Bool) (root : PPath) :
    List Entry → St → Step
  | [], st => (st, none)
  | e :: es, st => (uwtEntryG fresh follows isEmpty v root e st).andThen (uwtPhaseAllG fresh follows isEmpty v root es)

/-- `update_working_tree` as coded now: all deletions first, then all writes (non-directory deletes; blob, symlink
and gitlink writes); the translator reads from the source that every `verify_leading_dirs` call of the function gets
a fresh `[]` (`Gen.uwtFreshCache`), that old paths are lstat'ed through `_lstat_tracked_path` (`Gen.deleteGuarded`)
and that the gitlink branch tests the LSTAT result (`Gen.gitlinkDirTestFollows = false`). -/
def updateWorkingTree (isEmpty : FS → PPath → Bool) (v : Bytes → Bool) (root : PPath) (deletes : List Bytes)
    (adds : List Entry) (st : St) : Step :=
  (deletePhase v root deletes st).andThen (uwtPhaseAllG uwtFreshCache gitlinkDirTestFollows isEmpty v root adds)

/-! ### sparse checkout: `sparse_patterns.apply_included_paths`, one index path -/

/-- Step 2 of `apply_included_paths` for one index entry (`excluded` = its skip-worktree bit; `force=True`, i.e. the
local-modification test — a read — never vetoes).
`guarded = true` is the code as it stands: `validate_path` with the configured validator (excluded: skip an invalid
path; included: raise), excluded paths are looked up through `_lstat_tracked_path` and `os.remove`d (a directory is
left alone), included paths go through `verify_leading_dirs(path, [], repo_path)`, count as present when `os.lstat`
finds anything, and are otherwise written by `ensure_dir_exists(dirname)` + `build_file_from_blob`.
`guarded = false` is the code BEFORE the repair: `os.path.join(repo.path, path)` with no validation at all,
`os.path.exists` (follows symlinks) as presence test, `os.remove` / `open(full_path, "wb")` through whatever the
path resolves to. -/
def sparseEntryG (guarded : Bool) (v : Bytes → Bool) (root : PPath) (e : Entry) (excluded : Bool) (st : St) : Step :=
  if guarded then
    if excluded then deleteOldG true v root e.path st
    else if validatePath v e.path = false then (st, some .invalidPath)
    else
      let comps := splitOn pathSep e.path
      match verifyLeadingDirs st.fs root comps [] with
      | .error err => (st, some err)
      | .ok _ =>
        match lstat st.fs root comps with
        | .error .enoent =>
          (ensureParent root comps.dropLast st).andThen (buildFileFromBlob root comps e.mode e.content)
        | .error err => (st, some err)
        | .ok _ => (st, none)
  else
    let comps := splitOn pathSep e.path
    if excluded then
      if exists_ st.fs root comps then
        match st.apply (sysUnlink st.fs root comps) with
        | (s, some .eisdir) => (s, none)
        | (s, some .enoent) => (s, none)
        | r => r
      else (st, none)
    else if exists_ st.fs root comps then (st, none)
    else (ensureParent root comps.dropLast st).andThen fun s => s.apply (sysOpenWrite s.fs e.content root comps)

def sparseApplyG (guarded : Bool) (v : Bytes → Bool) (root : PPath) : List (Entry × Bool) → St → Step
  | [], st => (st, none)
  | (e, x) :: es, st => (sparseEntryG guarded v root e x st).andThen (sparseApplyG guarded v root es)

/-- step 2 of `apply_included_paths` as coded now (`Gen.sparseGuarded`, read from the source) -/
def sparseApply (v : Bytes → Bool) (root : PPath) (entries : List (Entry × Bool)) (st : St) : Step :=
  sparseApplyG sparseGuarded v root entries st

/-! ### `update_working_tree` over a list of tree changes of every kind -/

inductive ChangeKind where
  | add | modify | unchanged | copy | rename | delete
  deriving DecidableEq, Repr

def ChangeKind.name : ChangeKind → String
  | .add => "ADD" | .modify => "MODIFY" | .unchanged => "UNCHANGED" | .copy => "COPY" | .rename => "RENAME"
  | .delete => "DELETE"

/-- the kinds whose OLD path the first loop removes / whose NEW entry the second loop writes / for which the write
loop reaches `validate_path` (and `verify_leading_dirs`) before touching the disk — all three read from the source -/
def deletedKind (k : ChangeKind) : Bool := uwtKindsDeleted.contains k.name
def writtenKind (k : ChangeKind) : Bool := uwtKindsWritten.contains k.name
def validatedKind (k : ChangeKind) : Bool := uwtKindsValidated.contains k.name

/-- a tree change: kind, old path, new entry -/
abbrev Change := ChangeKind × Bytes × Entry

/-- the write loop over ALL changes: an entry of a written kind is written; its name is validated only if the
source reaches `validate_path` for that kind (for a kind that is written but not validated the step runs with the
trivial validator) -/
def uwtWriteChanges (isEmpty : FS → PPath → Bool) (v : Bytes → Bool) (root : PPath) : List Change → St → Step
  | [], st => (st, none)
  | (k, _, e) :: cs, st =>
    if writtenKind k then
      (uwtEntryG uwtFreshCache gitlinkDirTestFollows isEmpty (if validatedKind k then v else fun _ => true) root e st).andThen
        (uwtWriteChanges isEmpty v root cs)
    else uwtWriteChanges isEmpty v root cs st

/-- `update_working_tree(repo, old, new, change_iterator)` on the list of changes, whatever their kinds -/
def updateWorkingTreeK (isEmpty : FS → PPath → Bool) (v : Bytes → Bool) (root : PPath) (changes : List Change)
    (st : St) : Step :=
  (deletePhase v root ((changes.filter (fun c => deletedKind c.1)).map (·.2.1)) st).andThen
    (uwtWriteChanges isEmpty v root changes)

end Dulwich.Checkout
