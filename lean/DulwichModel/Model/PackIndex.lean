/-
  Model of dulwich's pack index writers and readers (dulwich/pack.py).

  Modelled functions
    * `write_pack_index_v1/v2/v3`                              → `writeIndexV1/V2/V3`
    * `load_pack_index_file`, `PackIndex1/2/3.__init__`,
      `FilePackIndex._read_fan_out_table`                      → `loadIndex`
    * `_unpack_name/_unpack_offset/_unpack_crc32_checksum`     → `Idx.nameAt/offsetAt/crcAt`
    * `bisect_find_sha` (Python version)                       → `bisect`
    * `FilePackIndex._object_offset`                           → `Idx.lookup`  — *as coded*: the
      bisection is handed `end = fan_out[idx]` as an **inclusive** bound, i.e. one past the group
    * `iterentries`, `object_sha1`                             → `Idx.entries`, `Idx.nameOfOffset`

  `H` (the index checksum) is a parameter.  Layout constants come from `Gen/Pack.lean`.
-/
import DulwichModel.Model.Pack

namespace Dulwich.PackIndex
open Dulwich Dulwich.Pack

structure IdxEntry where
  name : Bytes
  offset : Nat
  crc : Nat                 -- ignored by v1
  deriving DecidableEq, Repr

/-- `ord(name[:1])` (the writers raise `TypeError` on an empty name before this value matters). -/
def firstByte : Bytes → Nat
  | [] => 0
  | b :: _ => b.toNat

/-! ## writers -/

/-- `fan_out_table[ord(name[:1])] += 1` over all entries. -/
def bucketCount (es : List IdxEntry) (b : Nat) : Nat :=
  (es.filter (fun e => firstByte e.name = b)).length

/-- `fan_out_table[i + 1] += fan_out_table[i]`: the value written for bucket `b`. -/
def cumul (es : List IdxEntry) : Nat → Nat
  | 0 => bucketCount es 0
  | b + 1 => cumul es b + bucketCount es (b + 1)

def fanoutBytes (es : List IdxEntry) : Bytes :=
  (List.range Gen.Pack.fanoutSize).flatMap (fun b => beBytes Gen.Pack.fanEntryBytes (cumul es b))

/-- The 4-byte offset table: small offsets verbatim, large ones as `2**31 + position in the large table`. -/
def ofsWords (k : Nat) : List IdxEntry → Bytes
  | [] => []
  | e :: es =>
    if e.offset < Gen.Pack.largeFlag then beBytes 4 e.offset ++ ofsWords k es
    else beBytes 4 (Gen.Pack.largeFlag + k) ++ ofsWords (k + 1) es

/-- The 8-byte large-offset table, in entry order. -/
def largeWords : List IdxEntry → Bytes
  | [] => []
  | e :: es =>
    if e.offset < Gen.Pack.largeFlag then largeWords es else beBytes 8 e.offset ++ largeWords es

def nameTable (es : List IdxEntry) : Bytes := es.flatMap (fun e => e.name)
def crcTable (es : List IdxEntry) : Bytes := es.flatMap (fun e => beBytes 4 e.crc)

/-- Entries for which `struct.pack(">L", crc)` / `struct.pack(">Q", offset)` raise `struct.error`. -/
def structOk (es : List IdxEntry) : Bool :=
  es.all (fun e => decide (e.crc < 2 ^ 32 ∧ e.offset < 2 ^ 64))

/-- Everything `write_pack_index_v2` writes before its own checksum. -/
def v2Body (es : List IdxEntry) (cs : Bytes) : Bytes :=
  Gen.Pack.idxMagic ++ beBytes 4 Gen.Pack.idxV2Version ++ fanoutBytes es ++ nameTable es ++ crcTable es
    ++ ofsWords 0 es ++ largeWords es ++ cs

/-- `hash_size = len(entries_list[0][0])`, or `len(pack_checksum)` for an empty index. -/
def v2HashSize (es : List IdxEntry) (cs : Bytes) : Nat :=
  match es with
  | [] => cs.length
  | e :: _ => e.name.length

def writeIndexV2 (H : Bytes → Bytes) (es : List IdxEntry) (cs : Bytes) : Except Err Bytes :=
  if cs.length ≠ Gen.Pack.v2CsLenA ∧ cs.length ≠ Gen.Pack.v2CsLenB then .error .format     -- ValueError
  else if es.any (fun e => e.name.isEmpty) then .error .format                              -- ord(b"")
  else if es.any (fun e => decide (e.name.length ≠ v2HashSize es cs)) then .error .format    -- TypeError
  else if ¬ structOk es then .error .format                                                  -- struct.error
  else .ok (v2Body es cs ++ H (v2Body es cs))

/-- Everything `write_pack_index_v1` writes before its checksum: fan-out, `(offset, name)` records, pack checksum. -/
def v1Body (es : List IdxEntry) (cs : Bytes) : Bytes :=
  fanoutBytes es ++ es.flatMap (fun e => beBytes 4 e.offset ++ e.name) ++ cs

def writeIndexV1 (H : Bytes → Bytes) (es : List IdxEntry) (cs : Bytes) : Except Err Bytes :=
  if es.any (fun e => e.name.isEmpty) then .error .format                                    -- ord(b"")
  else if es.any (fun e => decide (e.name.length ≠ Gen.Pack.v1NameLen ∨ e.offset > Gen.Pack.v1MaxOffset))
    then .error .format                                                                      -- TypeError
  else if cs.length ≠ Gen.Pack.v1NameLen then .error .other                                  -- assert
  else .ok (v1Body es cs ++ H (v1Body es cs))

def v3Body (es : List IdxEntry) (cs : Bytes) (fmt hs : Nat) : Bytes :=
  Gen.Pack.idxMagic ++ beBytes 4 Gen.Pack.idxV3Version ++ beBytes 4 fmt ++ beBytes 4 hs ++ fanoutBytes es
    ++ nameTable es ++ crcTable es ++ ofsWords 0 es ++ largeWords es ++ cs

def writeIndexV3 (H : Bytes → Bytes) (es : List IdxEntry) (cs : Bytes) (fmt : Nat) : Except Err Bytes :=
  if fmt = Gen.Pack.v3FmtSha1 then
    if es.any (fun e => decide (e.name.length ≠ Gen.Pack.v3LenSha1)) then .error .format     -- ValueError
    else if ¬ structOk es then .error .format                                                -- struct.error
    else if cs.length ≠ Gen.Pack.v3LenSha1 then .error .other                                -- assert
    else .ok (v3Body es cs fmt Gen.Pack.v3LenSha1 ++ H (v3Body es cs fmt Gen.Pack.v3LenSha1))
  else if fmt = Gen.Pack.v3FmtSha256 then .error .other                                      -- NotImplementedError
  else .error .format                                                                        -- ValueError

/-! ## readers -/

structure Idx where
  version : Nat
  hs : Nat                  -- `hash_size`
  c : Bytes                 -- `_contents`
  fan : List Nat            -- `_fan_out_table`
  n : Nat                   -- `len(self)` = last fan-out entry
  nameOff : Nat             -- `_name_table_offset` (v2/v3)
  deriving Repr

/-- `_read_fan_out_table(start)`, entries `i, i+1, …` (`k` of them): `struct.unpack(">L", short slice)`
raises `struct.error`. -/
def readFanFrom (c : Bytes) (start : Nat) : Nat → Nat → Except Err (List Nat)
  | 0, _ => .ok []
  | k + 1, i =>
    match beAt Gen.Pack.fanEntryBytes c (start + i * Gen.Pack.fanEntryBytes) with
    | none => .error .format
    | some v =>
      match readFanFrom c start k (i + 1) with
      | .error e => .error e
      | .ok r => .ok (v :: r)

def readFan (c : Bytes) (start : Nat) : Except Err (List Nat) :=
  readFanFrom c start Gen.Pack.fanoutSize 0

/-- `self._fan_out_table[-1]` (the table has `fanoutSize` entries). -/
def lastOr0 (fan : List Nat) : Nat :=
  match fan[Gen.Pack.fanoutSize - 1]? with
  | some v => v
  | none => 0

/-- `load_pack_index_file` + the constructor of the selected class.  `hs` is the `oid_length` of the
`object_format` the caller passes. -/
def loadIndex (hs : Nat) (c : Bytes) : Except Err Idx :=
  if c.take Gen.Pack.loadMagicLen = Gen.Pack.idxMagic then
    match beAt 4 c Gen.Pack.loadVersionAt with
    | none => .error .format
    | some v =>
      if v = Gen.Pack.idxV2Version then
        match readFan c Gen.Pack.v2FanAt with
        | .error e => .error e
        | .ok fan => .ok ⟨2, hs, c, fan, lastOr0 fan, Gen.Pack.v2NameAt⟩
      else if v = Gen.Pack.idxV3Version then
        match beAt 4 c Gen.Pack.v3FmtAt with
        | none => .error .format
        | some fmt =>
          if fmt ≠ Gen.Pack.sha1Fmt ∧ fmt ≠ Gen.Pack.sha256Fmt then .error .key          -- OBJECT_FORMAT_TYPE_NUMS[..]
          else if hs ≠ (if fmt = Gen.Pack.sha1Fmt then Gen.Pack.sha1Len else Gen.Pack.sha256Len) then .error .other
          else match beAt 4 c Gen.Pack.v3ShortLenAt with
            | none => .error .format
            | some _ =>
              match readFan c Gen.Pack.v3FanAt with
              | .error e => .error e
              | .ok fan => .ok ⟨3, hs, c, fan, lastOr0 fan, Gen.Pack.v3NameAt⟩
      else .error .key                                                                    -- Unknown pack index format
  else
    if hs ≠ Gen.Pack.sha1Len then .error .other                                           -- PackIndex1 only supports SHA1
    else match readFan c Gen.Pack.v1FanAt with
      | .error e => .error e
      | .ok fan => .ok ⟨1, hs, c, fan, lastOr0 fan, 0⟩

namespace Idx

/-- `_unpack_name(i)` — a Python slice: short or empty beyond the end of the file, never an error. -/
def nameAt (x : Idx) (i : Nat) : Bytes :=
  if x.version = 1 then
    slice x.c (Gen.Pack.v1TableAt + i * (Gen.Pack.v1EntryExtra + x.hs) + Gen.Pack.v1NameSkip) x.hs
  else slice x.c (x.nameOff + i * x.hs) x.hs

def crcOff (x : Idx) : Nat := x.nameOff + x.hs * x.n
def ofsOff (x : Idx) : Nat := x.crcOff + Gen.Pack.v2CrcWidth * x.n
def largeOff (x : Idx) : Nat := x.ofsOff + Gen.Pack.v2OfsWidth * x.n

/-- The 64-bit table: `unpack_from(">Q", contents, largetable + (v & (2**31 - 1)) * 8)`. -/
def largeOffsetAt (x : Idx) (v : Nat) : Except Err Nat :=
  match beAt 8 x.c (x.largeOff + (v % Gen.Pack.largeFlag) * Gen.Pack.largeEntryWidth) with
  | none => .error .format
  | some w => .ok w

/-- `PackIndex2/3._unpack_offset(i)`. -/
def offsetAtV2 (x : Idx) (i : Nat) : Except Err Nat :=
  match beAt 4 x.c (x.ofsOff + i * Gen.Pack.ofsEntryWidth) with
  | none => .error .format
  | some v => if v < Gen.Pack.largeFlag then .ok v else x.largeOffsetAt v

/-- `PackIndex1._unpack_offset(i)`. -/
def offsetAtV1 (x : Idx) (i : Nat) : Except Err Nat :=
  match beAt 4 x.c (Gen.Pack.v1TableAt + i * (Gen.Pack.v1EntryExtra + x.hs)) with
  | none => .error .format
  | some v => .ok v

/-- `_unpack_offset(i)`; `unpack_from` past the end is `struct.error`. -/
def offsetAt (x : Idx) (i : Nat) : Except Err Nat :=
  if x.version = 1 then x.offsetAtV1 i else x.offsetAtV2 i

/-- `_unpack_crc32_checksum(i)` (`None` for v1). -/
def crcAt (x : Idx) (i : Nat) : Except Err (Option Nat) :=
  if x.version = 1 then .ok none
  else match beAt 4 x.c (x.crcOff + i * Gen.Pack.v2CrcWidth) with
    | none => .error .format
    | some v => .ok (some v)

end Idx

/-- Python `a < b` on `bytes`: lexicographic, a proper prefix is smaller. -/
def bytesLt : Bytes → Bytes → Bool
  | [], [] => false
  | [], _ :: _ => true
  | _ :: _, [] => false
  | a :: as, b :: bs =>
    if a.toNat < b.toNat then true
    else if b.toNat < a.toNat then false
    else bytesLt as bs

/-- `bisect_find_sha(start, end, sha, unpack_name)` with `hi = end + 1` (so that the `end = i - 1`
update stays in ℕ): `while start <= end: i = (start + end) // 2; …`.  Each round shrinks `hi - start`,
so `fuel = hi - start` suffices (`Props.C02.bisect_spec`). -/
def bisect (name : Nat → Bytes) (sha : Bytes) : Nat → Nat → Nat → Option Nat
  | 0, _, _ => none
  | fuel + 1, start, hi =>
    if start < hi then
      let i := (start + (hi - 1)) / Gen.Pack.bisectDiv
      if bytesLt (name i) sha then bisect name sha fuel (i + Gen.Pack.bisectUp) hi
      else if bytesLt sha (name i) then bisect name sha fuel start (i + 1 - Gen.Pack.bisectDown)
      else some i
    else none

namespace Idx

/-- `FilePackIndex._object_offset(sha)`: `start = fan[idx-1]` (0 for `idx = 0`), `end = fan[idx]` (one
past the group), then `bisect_find_sha(start, end - slack, …)` whose upper bound is inclusive
(`Gen.Pack.bisectInclusive = 1`); `KeyError` when nothing is found, else `_unpack_offset(i)`.

`slack` and `guard` describe the call site and come from the translator:
  * `slack = 0, guard = 0`: the code up to the F3 repair — `bisect_find_sha(start, end, …)`, which can probe
    index `end` itself (the next group's first name or, for the last group, the bytes after the name table);
  * `slack = 1, guard = 1`: the repaired code — `if start == end: raise KeyError` and
    `bisect_find_sha(start, end - 1, …)`. -/
def lookupWith (slack guard : Nat) (x : Idx) (sha : Bytes) : Except Err Nat :=
  if sha.length ≠ x.hs then .error .other                       -- assert len(sha) == hash_size
  else
    let idx := firstByte sha
    match (if idx = 0 then some 0 else x.fan[idx - 1]?), x.fan[idx]? with
    | some start, some end_ =>
      let bad : Except Err Nat :=                                 -- `assert start <= end` / `raise ValueError("start > end")`
        if Gen.Pack.bisectBadBoundsIsAssert = 1 then .error .other else .error .format
      if start > end_ then bad
      else if end_ < start + slack then                           -- the group is too small for `end - slack`
        (if guard = 1 then .error .key else bad)                  -- `if start == end: raise KeyError(sha)`
      else
        let hi := end_ + Gen.Pack.bisectInclusive - slack
        match bisect x.nameAt sha (hi - start) start hi with
        | none => .error .key
        | some i => x.offsetAt i
    | _, _ => .error .other

/-- `_object_offset` of the working tree. -/
def lookup (x : Idx) (sha : Bytes) : Except Err Nat :=
  lookupWith Gen.Pack.lookupEndSlack Gen.Pack.lookupEmptyGroupIsKeyError x sha

/-- `iterentries()`. -/
def entriesFrom (x : Idx) : Nat → Nat → Except Err (List (Bytes × Nat × Option Nat))
  | 0, _ => .ok []
  | k + 1, i =>
    match x.offsetAt i, x.crcAt i with
    | .ok o, .ok c =>
      match entriesFrom x k (i + 1) with
      | .ok r => .ok ((x.nameAt i, o, c) :: r)
      | .error e => .error e
    | .error e, _ => .error e
    | _, .error e => .error e

def entries (x : Idx) : Except Err (List (Bytes × Nat × Option Nat)) := entriesFrom x x.n 0

/-- `object_sha1(offset)`: linear scan, `KeyError` when no entry has that offset. -/
def nameOfOffset (x : Idx) (off : Nat) : Except Err Bytes :=
  match x.entries with
  | .error e => .error e
  | .ok es =>
    match es.find? (fun e => e.2.1 = off) with
    | some e => .ok e.1
    | none => .error .key

end Idx

/-! ## specification vocabulary used by the theorems -/

/-- Entries strictly increasing by name (what `sorted(entries)` gives for distinct names). -/
def Sorted (es : List IdxEntry) : Prop := es.Pairwise (fun a b => bytesLt a.name b.name = true)

instance (es : List IdxEntry) : Decidable (Sorted es) := by unfold Sorted; infer_instance

/-- Number of entries whose name starts with a byte `≤ b` (what fan-out slot `b` should hold). -/
def countLe (es : List IdxEntry) (b : Nat) : Nat := (es.filter (fun e => decide (firstByte e.name ≤ b))).length

deriving instance DecidableEq for Except

/-- The complete file `write_pack_index_v2` writes for accepted input. -/
def v2File (H : Bytes → Bytes) (es : List IdxEntry) (cs : Bytes) : Bytes := v2Body es cs ++ H (v2Body es cs)

/-- What `loadIndex hs (v2File H es cs)` returns (`Lemmas.PackIndex.load_v2`): version 2, the fan-out
table of cumulative bucket counts, `len = #entries`. -/
def v2Idx (H : Bytes → Bytes) (es : List IdxEntry) (cs : Bytes) (hs : Nat) : Idx :=
  ⟨2, hs, v2File H es cs, (List.range' 0 256).map (cumul es), es.length, Gen.Pack.v2NameAt⟩

/-- The complete file `write_pack_index_v3` writes for accepted SHA-1 input (`hash_format = 1`). -/
def v3File (H : Bytes → Bytes) (es : List IdxEntry) (cs : Bytes) : Bytes :=
  v3Body es cs Gen.Pack.v3FmtSha1 Gen.Pack.v3LenSha1 ++ H (v3Body es cs Gen.Pack.v3FmtSha1 Gen.Pack.v3LenSha1)

/-- What `loadIndex 20 (v3File H es cs)` returns (`Lemmas.PackIndex.load_v3`). -/
def v3Idx (H : Bytes → Bytes) (es : List IdxEntry) (cs : Bytes) : Idx :=
  ⟨3, Gen.Pack.sha1Len, v3File H es cs, (List.range' 0 256).map (cumul es), es.length, Gen.Pack.v3NameAt⟩

/-- The complete file `write_pack_index_v1` writes for accepted input. -/
def v1File (H : Bytes → Bytes) (es : List IdxEntry) (cs : Bytes) : Bytes := v1Body es cs ++ H (v1Body es cs)

/-- What `loadIndex 20 (v1File H es cs)` returns (`Lemmas.PackIndex.load_v1`). -/
def v1Idx (H : Bytes → Bytes) (es : List IdxEntry) (cs : Bytes) : Idx :=
  ⟨1, Gen.Pack.sha1Len, v1File H es cs, (List.range' 0 256).map (cumul es), es.length, 0⟩

end Dulwich.PackIndex
