/-
  Model of dulwich's pack-file entry codec, pack writer and pack readers (dulwich/pack.py).

  Modelled functions
    * `pack_object_header`                      → `encodeObjHeader`, `encodeOfs`
    * `take_msb_bytes(_at)`                     → `takeMsb`
    * `_decode_object_header`                   → `decodeObjHeaderRaw`
    * `_decode_delta_base_offset`               → `decodeOfsRaw`
    * `unpack_object(_at)` + `read_zlib_chunks(_at)` → `parseEntry`
    * `pack_header_chunks`, `PackChunkGenerator._pack_data_chunks`, `write_pack_data` → `writePack`
    * `read_pack_header_at`, `PackData.__init__`, `PackData.iter_unpacked` → `readPackSeq`
    * `PackData.get_object_at` + `Pack.resolve_object` + `Pack.get_ref` → `resolveAt`
    * `PackStreamReader._read`                  → `feed`

  Parameters (never axioms): `deflate`/`inflate` (zlib), `H` (the trailer hash).  Every mask, shift,
  type number and magic comes from `Gen/Pack.lean`, which the translator regenerates from /repo.

  Arithmetic is written with `/ % *` instead of `>> & | <<` where the two coincide for the values that
  occur (7-bit groups, the continuation bit added to a value < 128); the correspondence check ties
  these definitions to the real bit-twiddling byte for byte.
-/
import DulwichModel.Model.Basic
import DulwichModel.Model.Delta
import DulwichModel.Gen.Pack

namespace Dulwich.Pack
open Dulwich

/-! ## fixed-width big-endian integers (`struct.pack(">L")`, `">Q"`, `unpack_from`) -/

/-- `k` big-endian bytes of `n` (the value is reduced mod `256^k`; callers check the range where
`struct.pack` would raise). -/
def beBytes : Nat → Nat → Bytes
  | 0, _ => []
  | k + 1, n => beBytes k (n / 256) ++ [UInt8.ofNat (n % 256)]

def beVal (bs : Bytes) : Nat := bs.foldl (fun acc b => acc * 256 + b.toNat) 0

/-- Python slice `c[off : off + len]` (short or empty near the end, never an error). -/
def slice (c : Bytes) (off len : Nat) : Bytes := (c.drop off).take len

/-- `unpack_from(fmt, c, off)` for a `w`-byte big-endian field: `none` = `struct.error`. -/
def beAt (w : Nat) (c : Bytes) (off : Nat) : Option Nat :=
  if (slice c off w).length = w then some (beVal (slice c off w)) else none

/-! ## object header: type + size varint (`pack_object_header`) -/

/-- The `while size:` loop: `c` is the pending byte (< 128), `n` what is left of the size. -/
def encVarTail (c n : Nat) : Bytes :=
  if n = 0 then [UInt8.ofNat c]
  else UInt8.ofNat (c + Gen.Pack.hdrContBit)
        :: encVarTail (n % (Gen.Pack.hdrGroupMask + 1)) (n / 2 ^ Gen.Pack.hdrGroupShift)
termination_by n
decreasing_by
  simp only [Gen.Pack.hdrGroupShift]
  omega

/-- `c = (type_num << 4) | (size & 15); size >>= 4; while size: …` -/
def encodeObjHeader (ty size : Nat) : Bytes :=
  encVarTail (ty * 2 ^ Gen.Pack.hdrTypeShift + size % (Gen.Pack.hdrLowMask + 1))
    (size / 2 ^ Gen.Pack.hdrLowShift)

/-- `while delta_base: delta_base -= 1; ret.insert(0, 0x80 | (delta_base & 0x7F)); delta_base >>= 7` -/
def encodeOfsAux (n : Nat) (acc : Bytes) : Bytes :=
  if n = 0 then acc
  else encodeOfsAux ((n - Gen.Pack.ofsBias) / 2 ^ Gen.Pack.ofsGroupShift)
        (UInt8.ofNat (Gen.Pack.ofsContBit + (n - Gen.Pack.ofsBias) % (Gen.Pack.ofsGroupMask + 1)) :: acc)
termination_by n
decreasing_by
  simp only [Gen.Pack.ofsGroupShift, Gen.Pack.ofsBias]
  omega

/-- The OFS_DELTA distance code of `pack_object_header`: `ret = [delta_base & 0x7F]; delta_base >>= 7; …` -/
def encodeOfs (n : Nat) : Bytes :=
  encodeOfsAux (n / 2 ^ Gen.Pack.ofsLowShift) [UInt8.ofNat (n % (Gen.Pack.ofsLowMask + 1))]

/-! ## decoders -/

/-- `take_msb_bytes`: bytes up to and including the first one without the top bit.
`none` = ran off the end of the data. -/
def takeMsb : Bytes → Option (Bytes × Bytes)
  | [] => none
  | b :: r =>
    if b.toNat < Gen.Pack.msbBit then some ([b], r)
    else match takeMsb r with
      | none => none
      | some (raw, rest) => some (b :: raw, rest)

/-- `for i, byte in enumerate(raw[1:]): size += (byte & 0x7F) << ((i * 7) + 4)` -/
def sizeTail (shift : Nat) : Bytes → Nat
  | [] => 0
  | b :: r => (b.toNat % (Gen.Pack.dhGroupMask + 1)) * 2 ^ shift + sizeTail (shift + Gen.Pack.dhGroupShift) r

/-- `_decode_object_header(raw)` → `(type_num, size)`. -/
def decodeObjHeaderRaw : Bytes → Option (Nat × Nat)
  | [] => none
  | b :: r => some (b.toNat / 2 ^ Gen.Pack.dhTypeShift % (Gen.Pack.dhTypeMask + 1),
                    b.toNat % (Gen.Pack.dhLowMask + 1) + sizeTail Gen.Pack.dhLowShift r)

/-- `for byte in raw[1:]: x += 1; x <<= 7; x += byte & 0x7F` -/
def decodeOfsAux (acc : Nat) : Bytes → Nat
  | [] => acc
  | b :: r => decodeOfsAux ((acc + Gen.Pack.doBias) * 2 ^ Gen.Pack.doGroupShift
                + b.toNat % (Gen.Pack.doGroupMask + 1)) r

def lastHasMsb : Bytes → Bool
  | [] => false
  | [b] => decide (b.toNat ≥ Gen.Pack.doContBit)
  | _ :: r => lastHasMsb r

/-- `_decode_delta_base_offset(raw)`: `AssertionError` when the last byte carries the continuation
bit, `ApplyDeltaError` for a zero distance. -/
def decodeOfsRaw : Bytes → Except Err Nat
  | [] => .error .other
  | b :: r =>
    if lastHasMsb (b :: r) then .error .other
    else
      let v := decodeOfsAux (b.toNat % (Gen.Pack.doLowMask + 1)) r
      if v = Gen.Pack.doZero then .error .delta else .ok v

/-- `take_msb_bytes` followed by `_decode_object_header`: `(type, size, unconsumed bytes)`. -/
def decodeObjHeader (buf : Bytes) : Option (Nat × Nat × Bytes) :=
  match takeMsb buf with
  | none => none
  | some (raw, rest) =>
    match decodeObjHeaderRaw raw with
    | none => none
    | some (ty, size) => some (ty, size, rest)

/-- `take_msb_bytes` followed by `_decode_delta_base_offset`. -/
def decodeOfs (buf : Bytes) : Option (Except Err Nat × Bytes) :=
  match takeMsb buf with
  | none => none
  | some (raw, rest) => some (decodeOfsRaw raw, rest)

/-! ## one pack entry (`unpack_object_at` + `read_zlib_chunks_at`) -/

inductive BaseRef where
  | none
  | ofs (dist : Nat)        -- OFS_DELTA: distance back to the base
  | ref (name : Bytes)      -- REF_DELTA: name of the base
  deriving DecidableEq, Repr

structure Entry where
  ty : Nat                  -- pack_type_num
  base : BaseRef
  data : Bytes              -- decompressed payload (object content or delta)
  deriving DecidableEq, Repr

/-- The part of `unpack_object_at` after the type/size header. -/
def parseBase (hs ty : Nat) (r1 : Bytes) : Except Err (BaseRef × Bytes) :=
  if ty = Gen.Pack.ofsDelta then
    match takeMsb r1 with
    | none => .error .other
    | some (raw2, r2) =>
      match decodeOfsRaw raw2 with
      | .error e => .error e
      | .ok d => .ok (.ofs d, r2)
  else if ty = Gen.Pack.refDelta then
    if r1.length < hs then .error .other else .ok (.ref (r1.take hs), r1.drop hs)
  else .ok (.none, r1)

/-- `unpack_object_at` on the suffix `buf` of the pack starting at the entry.  `inflate buf'` is zlib:
`some (data, unused)` when a complete stream starts at `buf'`.  The reader needs at least one byte
after the stream (`EOF before end of zlib stream` otherwise) and the declared size to match. -/
def parseEntry (inflate : Bytes → Option (Bytes × Bytes)) (hs : Nat) (buf : Bytes) :
    Except Err (Entry × Bytes) :=
  match takeMsb buf with
  | none => .error .other                       -- AssertionError: unexpected end of pack data
  | some (raw, r1) =>
    match decodeObjHeaderRaw raw with
    | none => .error .other
    | some (ty, size) =>
      match parseBase hs ty r1 with
      | .error e => .error e
      | .ok (base, r3) =>
        match inflate r3 with
        | none => .error .format
        | some (data, rest) =>
          if rest.isEmpty then .error .format
          else if data.length ≠ size then .error .format
          else .ok (⟨ty, base, data⟩, rest)

/-! ## writer (`PackChunkGenerator._pack_data_chunks`) -/

/-- An `UnpackedObject` handed to the writer. -/
structure Rec where
  name : Bytes              -- `unpacked.sha()`
  ty : Nat                  -- `pack_type_num` (object type; overridden for deltas)
  base : Option Bytes       -- `delta_base` (a *name*) or `None`
  data : Bytes              -- `decomp_chunks` joined: object content or delta bytes
  deriving DecidableEq, Repr

/-- What the writer remembers per record: `entries[sha] = (offset, crc32)`; the CRC is the CRC-32 of
exactly `raw`, the bytes emitted for the record. -/
structure WEntry where
  name : Bytes
  offset : Nat
  raw : Bytes
  deriving DecidableEq, Repr

/-- `self.entries[unpacked.delta_base]` (latest assignment wins: the list is newest-first). -/
def lookupOff (entries : List WEntry) (name : Bytes) : Option Nat :=
  match entries.find? (fun e => e.name = name) with
  | some e => some e.offset
  | none => none

/-- Bytes emitted for one record at `offset`: OFS_DELTA if the base has been written, else REF_DELTA. -/
def entryBytes (deflate : Bytes → Bytes) (offset : Nat) (entries : List WEntry) (r : Rec) : Bytes :=
  match r.base with
  | none => encodeObjHeader r.ty r.data.length ++ deflate r.data
  | some b =>
    match lookupOff entries b with
    | some baseOff =>
      encodeObjHeader Gen.Pack.ofsDelta r.data.length ++ encodeOfs (offset - baseOff) ++ deflate r.data
    | none =>
      encodeObjHeader Gen.Pack.refDelta r.data.length ++ b ++ deflate r.data

/-- The record loop.  Returns the bytes and the entries, newest first. -/
def writeRecs (deflate : Bytes → Bytes) : Nat → List WEntry → List Rec → Bytes × List WEntry
  | _, entries, [] => ([], entries)
  | offset, entries, r :: rs =>
    let b := entryBytes deflate offset entries r
    let rest := writeRecs deflate (offset + b.length) (⟨r.name, offset, b⟩ :: entries) rs
    (b ++ rest.1, rest.2)

/-- `pack_header_chunks(num_objects)` -/
def packHeader (n : Nat) : Bytes :=
  Gen.Pack.packMagic ++ beBytes 4 Gen.Pack.packVersion ++ beBytes 4 n

/-- Everything `write_pack_data` writes before the trailer, and the entries. -/
def writePackBody (deflate : Bytes → Bytes) (recs : List Rec) : Bytes × List WEntry :=
  let w := writeRecs deflate (packHeader recs.length).length [] recs
  (packHeader recs.length ++ w.1, w.2)

/-- `write_pack_data`: body followed by `H body`. -/
def writePack (deflate : Bytes → Bytes) (H : Bytes → Bytes) (recs : List Rec) : Bytes × List WEntry :=
  let w := writePackBody deflate recs
  (w.1 ++ H w.1, w.2)

/-- Static preconditions of the writer (violations raise `TypeError`/`AssertionError` in the code):
full records carry a non-delta type, REF bases have the hash length. -/
def wfRec (hs : Nat) (r : Rec) : Bool :=
  match r.base with
  | none => decide (r.ty ≠ Gen.Pack.ofsDelta ∧ r.ty ≠ Gen.Pack.refDelta ∧ r.ty < 8)
  | some b => decide (b.length = hs)

/-! ## specification vocabulary: what the writer *means* to have written -/

/-- zlib as the theorems see it (a hypothesis on the parameters, never an axiom): a deflated block followed by
anything inflates to the original and leaves exactly what followed. -/
def ZlibOk (deflate : Bytes → Bytes) (inflate : Bytes → Option (Bytes × Bytes)) : Prop :=
  ∀ x rest, inflate (deflate x ++ rest) = some (x, rest)

/-- The entry the writer intends for record `r` at `offset` (same OFS/REF decision as `entryBytes`). -/
def entryOf (offset : Nat) (entries : List WEntry) (r : Rec) : Entry :=
  match r.base with
  | none => ⟨r.ty, .none, r.data⟩
  | some b =>
    match lookupOff entries b with
    | some baseOff => ⟨Gen.Pack.ofsDelta, .ofs (offset - baseOff), r.data⟩
    | none => ⟨Gen.Pack.refDelta, .ref b, r.data⟩

/-- `(offset, entry)` for every record, in pack order (mirrors `writeRecs`). -/
def layoutRecs (deflate : Bytes → Bytes) : Nat → List WEntry → List Rec → List (Nat × Entry)
  | _, _, [] => []
  | offset, entries, r :: rs =>
    (offset, entryOf offset entries r)
      :: layoutRecs deflate (offset + (entryBytes deflate offset entries r).length)
          (⟨r.name, offset, entryBytes deflate offset entries r⟩ :: entries) rs

/-- The objects a record list denotes when every delta's base *precedes* it: `(name, type, content)`,
newest first.  `.error .key` when a base has not been seen yet, the delta error when a delta does not
apply. -/
def resolveRecs : List (Bytes × Nat × Bytes) → List Rec → Except Err (List (Bytes × Nat × Bytes))
  | acc, [] => .ok acc
  | acc, r :: rs =>
    match r.base with
    | none => resolveRecs ((r.name, r.ty, r.data) :: acc) rs
    | some b =>
      match acc.find? (fun a => a.1 = b) with
      | none => .error .key
      | some a =>
        match Delta.applyDelta a.2.2 r.data with
        | .error e => .error e
        | .ok out => resolveRecs ((r.name, a.2.1, out) :: acc) rs

def objectsOf (recs : List Rec) : Except Err (List (Bytes × Nat × Bytes)) := resolveRecs [] recs

/-! ## sequential reader (`PackData.__init__` + `iter_unpacked`) -/

/-- `read_pack_header_at`: number of objects. -/
def readPackHeader (pack : Bytes) : Except Err Nat :=
  let header := pack.take Gen.Pack.packHeaderSize
  if header.isEmpty then .error .other
  else if header.take Gen.Pack.packMagic.length ≠ Gen.Pack.packMagic then .error .other
  else match beAt 4 header Gen.Pack.packVersionAt with
    | none => .error .format
    | some v =>
      if v ≠ Gen.Pack.packVersionLo ∧ v ≠ Gen.Pack.packVersionHi then .error .other
      else match beAt 4 header Gen.Pack.packCountAt with
        | none => .error .format
        | some n => .ok n

/-- `n` entries from the suffix `buf` of a pack of `total` bytes; each with its offset. -/
def parseEntries (inflate : Bytes → Option (Bytes × Bytes)) (hs total : Nat) :
    Nat → Bytes → Except Err (List (Nat × Entry) × Bytes)
  | 0, buf => .ok ([], buf)
  | n + 1, buf =>
    match parseEntry inflate hs buf with
    | .error e => .error e
    | .ok (e, rest) =>
      match parseEntries inflate hs total n rest with
      | .error e' => .error e'
      | .ok (es, r) => .ok ((total - buf.length, e) :: es, r)

def readPackSeq (inflate : Bytes → Option (Bytes × Bytes)) (hs : Nat) (pack : Bytes) :
    Except Err (List (Nat × Entry)) :=
  if pack.length < Gen.Pack.packHeaderSize + hs then .error .other
  else match readPackHeader pack with
    | .error e => .error e
    | .ok n =>
      match parseEntries inflate hs pack.length n (pack.drop Gen.Pack.packHeaderSize) with
      | .error e => .error e
      | .ok (es, _) => .ok es

/-! ## random access (`get_object_at` + `Pack.resolve_object`) -/

def parseAt (inflate : Bytes → Option (Bytes × Bytes)) (hs : Nat) (pack : Bytes) (off : Nat) :
    Except Err Entry :=
  match parseEntry inflate hs (pack.drop off) with
  | .error e => .error e
  | .ok (e, _) => .ok e

/-- `Pack.resolve_object` started at `off`: walk down to a non-delta base, apply the deltas back up.
`lookup` is the index (`Pack.get_ref` without `resolve_ext_ref`).  The Python loop has no bound (a
REF cycle spins forever, DESIGN §7-F4); the model takes fuel and `.error .other` marks exhaustion. -/
def resolveAt (inflate : Bytes → Option (Bytes × Bytes)) (hs : Nat) (lookup : Bytes → Except Err Nat)
    (pack : Bytes) : Nat → Nat → Except Err (Nat × Bytes)
  | 0, _ => .error .other
  | fuel + 1, off =>
    if off < Gen.Pack.packHeaderSize then .error .other
    else match parseAt inflate hs pack off with
      | .error e => .error e
      | .ok e =>
        match e.base with
        | .none => .ok (e.ty, e.data)
        | .ofs d =>
          if d > off then .error .other
          else match resolveAt inflate hs lookup pack fuel (off - d) with
            | .error x => .error x
            | .ok (bty, bdata) =>
              match Delta.applyDelta bdata e.data with
              | .error x => .error x
              | .ok out => .ok (bty, out)
        | .ref name =>
          match lookup name with
          | .error x => .error x
          | .ok boff =>
            if boff = off then .error .other
            else match resolveAt inflate hs lookup pack fuel boff with
              | .error x => .error x
              | .ok (bty, bdata) =>
                match Delta.applyDelta bdata e.data with
                | .error x => .error x
                | .ok out => .ok (bty, out)

/-- Python `data[-k:]` (for `k = 0` that is the *whole* of `data`). -/
def pyTakeLast (k : Nat) (d : Bytes) : Bytes := if k = 0 then d else d.drop (d.length - k)

/-- Python `data[:-k]` (for `k = 0` that is empty). -/
def pyDropLast (k : Nat) (d : Bytes) : Bytes := if k = 0 then [] else d.take (d.length - k)

/-! ## how the readers walk a zlib stream (`read_zlib_chunks_at`, `read_zlib_chunks`)

zlib is abstracted to the one fact these loops use: the stream that starts at the beginning of `buf`
occupies exactly its first `L` bytes; after the reader has handed zlib `c` bytes in total, `unused_data`
holds the `c - L` bytes past the end (empty while `c ≤ L`, in particular when `c = L`) and `eof` is
`c ≥ L`.  What the loops accumulate — the bytes fed to `binascii.crc32` and kept as `comp_chunks` — and
the end offset they report must not depend on the slice size. -/

/-- `read_zlib_chunks_at(contents, offset, …, buffer_size = B)` on `buf = contents[offset:]`:
`add = view[pos : pos + B]; pos += len(add); …; if unused: left = len(unused); pos -= left; add = add[:-left]`
then CRC/`comp_chunks` take `add`, and the loop ends `if unused`.  Returns (bytes fed, end position).
`endsOnUnused = 1` is that code; `0` is the variant that tests `decomp_obj.eof` instead (then `left` can
be 0 and Python's `add[:-0]` is empty).  `none` = `zlib.error("EOF before end of zlib stream")`. -/
def zlibWalkAt (endsOnUnused B L : Nat) (buf : Bytes) : Nat → Nat → Bytes → Option (Bytes × Nat)
  | 0, _, _ => none
  | fuel + 1, pos, fed =>
    let add := slice buf pos B
    if add.isEmpty then none
    else
      let pos' := pos + add.length
      let left := pos' - L
      let done := if endsOnUnused = 1 then decide (0 < left) else decide (L ≤ pos')
      if done then some (fed ++ pyDropLast left add, pos' - left)
      else zlibWalkAt endsOnUnused B L buf fuel pos' (fed ++ add)

/-- `read_zlib_chunks(read_some, …)`: the chunks are whatever `read_some(buffer_size)` returns.  Returns
(bytes fed to CRC / kept as `comp_chunks`, the `unused` bytes handed back to the caller). -/
def zlibWalkStream (L : Nat) : List Bytes → Nat → Bytes → Option (Bytes × Bytes)
  | [], _, _ => none
  | add :: rest, cum, fed =>
    if add.isEmpty then none
    else
      let left := cum + add.length - L
      if 0 < left then some (fed ++ pyDropLast left add, pyTakeLast left add)
      else zlibWalkStream L rest (cum + add.length) (fed ++ add)

/-! ## trailer tracking (`PackStreamReader._read`) -/

structure TrailerState where
  hashed : Bytes            -- everything passed to `self.sha.update` so far
  trailer : Bytes           -- the deque of the last `hash_size` bytes
  deriving DecidableEq, Repr

/-- One call of `_read` that returned `data`. -/
def feed (hs : Nat) (s : TrailerState) (data : Bytes) : TrailerState :=
  let n := data.length
  let tn := s.trailer.length
  let toPop := if n ≥ hs then tn else n + tn - hs
  let toAdd := if n ≥ hs then hs else n
  { hashed := s.hashed ++ s.trailer.take toPop ++ pyDropLast toAdd data,
    trailer := s.trailer.drop toPop ++ pyTakeLast toAdd data }

def feedAll (hs : Nat) (chunks : List Bytes) : TrailerState :=
  chunks.foldl (feed hs) ⟨[], []⟩

end Dulwich.Pack
