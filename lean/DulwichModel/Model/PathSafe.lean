/-
  C17 — path validation as coded in dulwich/index.py (POSIX host: the two tests of
  `validate_path_element_ntfs` and the one of `validate_path` guarded by `os.name == "nt"` are off).

  validate_path_element_default / _ntfs (incl. _is_ntfs_dotgit) / _hfs, get_path_element_validator,
  validate_path, cleanup_mode.  Every literal comes from Gen/PathSafe.lean (regenerated from /repo).
  Unicode NFD + str.lower() used by the HFS validator is a PARAMETER `fold` on code-point lists.
  Core Lean only.
-/
import DulwichModel.Model.Basic
import DulwichModel.Gen.PathSafe

namespace Dulwich.PathSafe
open Dulwich Dulwich.Gen.PathSafe

/-! ### bytes helpers (CPython `bytes` methods) -/

/-- `bytes.lower()` on one byte: ASCII `A`–`Z` only. -/
def lowerByte (b : UInt8) : UInt8 :=
  if 65 ≤ b.toNat ∧ b.toNat ≤ 90 then UInt8.ofNat (b.toNat + 32) else b

/-- `bytes.lower()` -/
def lower (bs : Bytes) : Bytes := bs.map lowerByte

/-- `bytes.split(sep)` for a one-byte separator: never empty, `b"".split(sep) == [b""]`. -/
def splitOn (sep : UInt8) : Bytes → List Bytes
  | [] => [[]]
  | b :: rest =>
    let r := splitOn sep rest
    if b = sep then [] :: r else (b :: r.headD []) :: r.tail

/-- `bytes.rstrip(set)` -/
def rstrip (set : Bytes) : Bytes → Bytes
  | [] => []
  | b :: rest =>
    match rstrip set rest with
    | [] => if set.contains b then [] else [b]
    | r => b :: r

/-- `name[a:b]` for `0 ≤ a ≤ b` -/
def slice (a b : Nat) (l : Bytes) : Bytes := (l.drop a).take (b - a)

/-! ### validate_path_element_default -/

/-- `_normalize_path_element_default(element) not in INVALID_DOTNAMES` -/
def validateDefault (e : Bytes) : Bool := !(invalidDotnames.contains (lower e))

/-! ### _is_ntfs_dotgit / validate_path_element_ntfs -/

/-- the `while i < len(name)` loop of `_is_ntfs_dotgit` on `name[i:]` -/
def dgTail : Bytes → Bool
  | [] => true
  | c :: r =>
    if c = dgColon then true
    else if c ≠ dgTailDot ∧ c ≠ dgTailSpace then false
    else dgTail r

/-- `_is_ntfs_dotgit(name)` -/
def isNtfsDotgit (name : Bytes) : Bool :=
  if name.take 1 = [dgDot] then
    if lower (slice dgGitFrom dgGitTo name) ≠ dgGit then false
    else dgTail (name.drop dgGitTail)
  else if lower (name.take 1) = [dgG] then
    if lower (slice dgItFrom dgItTo name) ≠ dgIt ∨ slice dgTildeFrom dgTildeTo name ≠ dgTilde then false
    else dgTail (name.drop dgShortTail)
  else false

/-- `_normalize_path_element_ntfs` -/
def normalizeNtfs (e : Bytes) : Bytes := lower (rstrip ntfsStrip e)

/-- `validate_path_element_ntfs(element)` with `os.name != "nt"` -/
def validateNtfs (e : Bytes) : Bool :=
  if (splitOn ntfsSegSep e).any isNtfsDotgit then false
  else !(invalidDotnames.contains (normalizeNtfs e))

/-! ### validate_path_element_hfs -/

/-- strict UTF-8 decoder (CPython `bytes.decode("utf-8", errors="strict")`): shortest form only,
no surrogates, nothing above U+10FFFF.  State: continuation bytes still needed, accumulated value,
allowed range of the next continuation byte. -/
def utf8Go : Bytes → (need acc lo hi : Nat) → List Nat → Option (List Nat)
  | [], need, _, _, _, out => if need = 0 then some out.reverse else none
  | b :: rest, need, acc, lo, hi, out =>
    let n := b.toNat
    if need = 0 then
      if n < 0x80 then utf8Go rest 0 0 0 0 (n :: out)
      else if n < 0xC2 then none
      else if n < 0xE0 then utf8Go rest 1 (n % 32) 0x80 0xBF out
      else if n < 0xF0 then
        utf8Go rest 2 (n % 16) (if n = 0xE0 then 0xA0 else 0x80) (if n = 0xED then 0x9F else 0xBF) out
      else if n < 0xF5 then
        utf8Go rest 3 (n % 8) (if n = 0xF0 then 0x90 else 0x80) (if n = 0xF4 then 0x8F else 0xBF) out
      else none
    else if lo ≤ n ∧ n ≤ hi then
      if need = 1 then utf8Go rest 0 0 0 0 ((acc * 64 + n % 64) :: out)
      else utf8Go rest (need - 1) (acc * 64 + n % 64) 0x80 0xBF out
    else none

def utf8Decode (bs : Bytes) : Option (List Nat) := utf8Go bs 0 0 0 0 []

def utf8EncodeCp (c : Nat) : Bytes :=
  if c < 0x80 then [UInt8.ofNat c]
  else if c < 0x800 then [UInt8.ofNat (0xC0 + c / 64), UInt8.ofNat (0x80 + c % 64)]
  else if c < 0x10000 then
    [UInt8.ofNat (0xE0 + c / 4096), UInt8.ofNat (0x80 + c / 64 % 64), UInt8.ofNat (0x80 + c % 64)]
  else
    [UInt8.ofNat (0xF0 + c / 262144 % 8), UInt8.ofNat (0x80 + c / 4096 % 64), UInt8.ofNat (0x80 + c / 64 % 64),
     UInt8.ofNat (0x80 + c % 64)]

def utf8Encode (cs : List Nat) : Bytes := cs.flatMap utf8EncodeCp

/-- `"".join(c for c in s if ord(c) not in HFS_IGNORABLE_CHARS)` -/
def hfsFilter (cs : List Nat) : List Nat := cs.filter (fun c => !(hfsIgnorable.contains c))

/-- `_normalize_path_element_hfs`: `none` = UnicodeDecodeError.  `fold` stands for
`unicodedata.normalize("NFD", ·).lower()` on code-point lists. -/
def normalizeHfs (fold : List Nat → List Nat) (e : Bytes) : Option Bytes :=
  (utf8Decode e).map (fun cs => utf8Encode (fold (hfsFilter cs)))

/-- `validate_path_element_hfs(element)` -/
def validateHfs (fold : List Nat → List Nat) (e : Bytes) : Bool :=
  match normalizeHfs fold e with
  | none => false
  | some n => !(invalidDotnames.contains n) && !(n == hfsShort)

/-! ### get_path_element_validator / validate_path -/

inductive Validator where
  | default | ntfs | hfs | both
  deriving DecidableEq, Repr

/-- `get_path_element_validator(config)` as a function of the two effective booleans. -/
def select (protectNtfs protectHfs : Bool) : Validator :=
  match protectNtfs, protectHfs with
  | false, false => .default
  | true, false => .ntfs
  | false, true => .hfs
  | true, true => .both

def Validator.run (fold : List Nat → List Nat) : Validator → Bytes → Bool
  | .default, e => validateDefault e
  | .ntfs, e => validateNtfs e
  | .hfs, e => validateHfs fold e
  | .both, e => validateNtfs e && validateHfs fold e

/-- `validate_path(path, element_validator)` with `os.name != "nt"` -/
def validatePath (v : Bytes → Bool) (p : Bytes) : Bool := (splitOn pathSep p).all v

/-! ### cleanup_mode -/

def sIfmt (mode : Nat) : Nat := mode &&& 0o170000

/-- `cleanup_mode(mode)` -/
def cleanupMode (mode : Nat) : Nat :=
  if sIfmt mode = 0o120000 then 0o120000
  else if sIfmt mode = 0o040000 then 0o040000
  else if sIfmt mode = 0o160000 then 0o160000
  else if mode &&& cleanupExecTest ≠ 0 then 0o100000 ||| cleanupBase ||| cleanupExecBits
  else 0o100000 ||| cleanupBase

/-- ASCII instance of the `fold` parameter (used by examples; the driver receives the real
`unicodedata` results from the harness as a table). -/
def foldAscii (cs : List Nat) : List Nat := cs.map (fun c => if 65 ≤ c ∧ c ≤ 90 then c + 32 else c)

end Dulwich.PathSafe
