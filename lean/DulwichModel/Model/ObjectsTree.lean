/-
  Model of the tree functions of dulwich/objects.py and their Rust twins in crates/objects/src/lib.rs
  (property C01; the sort order is shared with C12/C15):

    serialize_tree, parse_tree (pure Python and Rust), key_entry, sorted_tree_items (Python: stable
    sort on `key_entry`; Rust: stable sort with `cmp_with_suffix`), and the `Tree._entries` dict
    (insertion-ordered association list).
-/
import DulwichModel.Model.ObjectsText

namespace Dulwich.Objects
open Dulwich

/-- A tree entry as dulwich holds it: name, mode, *hex* object id. -/
structure Entry where
  name : Bytes
  mode : Int
  sha : Bytes
  deriving DecidableEq, Repr

/-! ## serialize_tree -/

def padZeros (w : Nat) (ds : Bytes) : Bytes := List.replicate (w - ds.length) 48 ++ ds

/-- `f"{m:0Wo}"`: zero padded to width `W`, sign first. -/
def fmtOct (w : Nat) (m : Int) : Bytes :=
  if m < 0 then 45 :: padZeros (w - 1) (natToOct (-m).toNat) else padZeros w (natToOct m.toNat)

/-- One chunk of `serialize_tree`: `mode SP name NUL rawsha`. -/
def serializeEntry (e : Entry) : Except Err Bytes :=
  match hexToSha e.sha with
  | .ok raw => .ok (fmtOct OGen.treeModeWidth e.mode ++ [32] ++ e.name ++ [0] ++ raw)
  | .error err => .error err

def serializeTree : List Entry → Except Err Bytes
  | [] => .ok []
  | e :: es =>
    match serializeEntry e, serializeTree es with
    | .ok a, .ok b => .ok (a ++ b)
    | .error err, _ => .error err
    | _, .error err => .error err

/-! ## parse_tree -/

/-- The `while count < length` loop of `parse_tree`, on the remaining text.  `pm` parses the mode
token (`int(_, 8)` in Python, `u32::from_str_radix(_, 8)` in Rust).  Every iteration consumes at
least two bytes, so `fuel = text.length` always suffices (the fuel-exhausted branch is unreachable
from `parseTreePy`/`parseTreeRs`). -/
def parseTreeAux (pm : Bytes → Option Int) (shaLen : Nat) : Nat → Bytes → Except Err (List Entry)
  | 0, text => if text.isEmpty then .ok [] else .error .other
  | f + 1, text =>
    if text.isEmpty then .ok []
    else
    match splitFirst 32 text with
    | none => .error .format                      -- text.index(b" ") fails / "Missing terminator for mode"
    | some (modeText, afterSp) =>
      match pm modeText with
      | none => .error .format
      | some mode =>
        match splitFirst 0 afterSp with
        | none => .error .format                  -- text.index(b"\0") fails / "Missing trailing \0"
        | some (name, afterNul) =>
          if afterNul.length < shaLen then .error .format
          else
            match shaToHex (afterNul.take shaLen) with
            | .error e => .error e
            | .ok hex =>
              match parseTreeAux pm shaLen f (afterNul.drop shaLen) with
              | .ok es => .ok (⟨name, mode, hex⟩ :: es)
              | .error e => .error e

/-- The strict mode token (code since 5d5709a, Python and Rust alike): `[0-7]+` with a value that fits `u32`. -/
def strictOct (s : Bytes) : Option Nat :=
  if s.isEmpty || !allOct s then none
  else
    let v := octVal s 0
    if v ≤ OGen.treeModeMax then some v else none

/-- Python's mode token: `_TREE_MODE_RE.fullmatch` + bound when `OGen.pyModeStrict`, else the older `int(token, 8)`. -/
def pyModeToken (s : Bytes) : Option Int :=
  if OGen.pyModeStrict then (strictOct s).map Int.ofNat else pyInt 8 s

/-- Rust's mode token: a leading `+` is refused first when `OGen.rsRejectsPlus`; then `u32::from_str_radix(_, 8)`
(`rsOctU32`, which on its own accepts one leading `+`). -/
def rsModeToken (s : Bytes) : Option Int :=
  if OGen.rsRejectsPlus then (strictOct s).map Int.ofNat else (rsOctU32 s).map Int.ofNat

/-- pure-Python `parse_tree(text, sha_len)` (non-strict). -/
def parseTreePy (shaLen : Nat) (text : Bytes) : Except Err (List Entry) :=
  parseTreeAux pyModeToken shaLen text.length text

/-- Rust `parse_tree(text, sha_len)` (non-strict). -/
def parseTreeRs (shaLen : Nat) (text : Bytes) : Except Err (List Entry) :=
  parseTreeAux rsModeToken shaLen text.length text

/-! ## ordering -/

/-- `stat.S_ISDIR(mode)`: `(mode & 0o170000) == S_IFDIR` (for `0 ≤ mode < 2^32`; the mask is bits 12–15). -/
def isDir (m : Int) : Bool := (m.toNat / 4096) % 16 * 4096 == OGen.sIFDIR

/-- `key_entry`. -/
def keyEntry (e : Entry) : Bytes := if isDir e.mode then e.name ++ [OGen.dirSuffix] else e.name

/-- `bytes.__le__`: lexicographic on unsigned bytes. -/
def bytesLe : Bytes → Bytes → Bool
  | [], _ => true
  | _ :: _, [] => false
  | a :: as, b :: bs => if a < b then true else if b < a then false else bytesLe as bs

def keyLe (a b : Entry) : Bool := bytesLe (keyEntry a) (keyEntry b)

/-- Stable insertion: `x` goes before the first element that is not strictly smaller. -/
def insertBy (le : Entry → Entry → Bool) (x : Entry) : List Entry → List Entry
  | [] => [x]
  | y :: ys => if le x y then x :: y :: ys else y :: insertBy le x ys

/-- A stable sort (any stable sort gives the same list when `le` is a total preorder). -/
def sortBy (le : Entry → Entry → Bool) : List Entry → List Entry
  | [] => []
  | x :: xs => insertBy le x (sortBy le xs)

/-- Python `sorted_tree_items(entries, name_order=False)`: `sorted(entries.items(), key=key_entry)`. -/
def sortedTreeItems (es : List Entry) : List Entry := sortBy keyLe es

/-- Python `sorted_tree_items(entries, name_order=True)`. -/
def sortedTreeItemsNameOrder (es : List Entry) : List Entry :=
  sortBy (fun a b => bytesLe a.name b.name) es

def rsIsDir (m : Int) : Bool := (m.toNat / 4096) % 16 * 4096 == OGen.rsSIFDIR

/-- `u8::cmp`. -/
def cmpByte (u v : UInt8) : Ordering := if u < v then .lt else if v < u then .gt else .eq

/-- The virtual byte after the end of a name in the OLD comparator: `/` for a directory, NUL otherwise. -/
def rsTerm (m : Int) : UInt8 := if rsIsDir m then OGen.rsDirTerm else OGen.rsFileTerm

/-- Rust `cmp_with_suffix` as it was before 15beabf: compare the common prefix, then ONE more byte where a
name that has ended contributes `/` if it is a directory and NUL otherwise. -/
def cmpWithSuffixOld : (ma : Int) → Bytes → (mb : Int) → Bytes → Ordering
  | ma, [], mb, [] => cmpByte (rsTerm ma) (rsTerm mb)
  | ma, [], _, b :: _ => cmpByte (rsTerm ma) b
  | _, a :: _, mb, [] => cmpByte a (rsTerm mb)
  | ma, a :: as, mb, b :: bs => if a < b then .lt else if b < a then .gt else cmpWithSuffixOld ma as mb bs

/-- `<[u8]>::cmp` / `Iterator::cmp`: lexicographic, a proper prefix is smaller. -/
def cmpBytes : Bytes → Bytes → Ordering
  | [], [] => .eq
  | [], _ :: _ => .lt
  | _ :: _, [] => .gt
  | a :: as, b :: bs => if a < b then .lt else if b < a then .gt else cmpBytes as bs

/-- the suffix slice of the new comparator: `b"/"` for a directory, `b""` otherwise -/
def rsSuffix (m : Int) : Bytes := if rsIsDir m then OGen.rsDirSuffix else OGen.rsFileSuffix

/-- Rust `cmp_with_suffix` since 15beabf: compare the common prefix (`len = min`), and if that is equal compare
the rest of each name chained with its suffix slice. -/
def cmpWithSuffixNew (ma : Int) (an : Bytes) (mb : Int) (bn : Bytes) : Ordering :=
  let len := min an.length bn.length
  match cmpBytes (an.take len) (bn.take len) with
  | .eq => cmpBytes (an.drop len ++ rsSuffix ma) (bn.drop len ++ rsSuffix mb)
  | c => c

/-- Rust `cmp_with_suffix`, whichever of the two the source has now. -/
def cmpWithSuffix (ma : Int) (an : Bytes) (mb : Int) (bn : Bytes) : Ordering :=
  if OGen.rsCmpWhole then cmpWithSuffixNew ma an mb bn else cmpWithSuffixOld ma an mb bn

def rsLe (a b : Entry) : Bool := cmpWithSuffix a.mode a.name b.mode b.name != .gt

/-- the order of the old comparator (kept as a variant for the regression witnesses) -/
def rsLeOld (a b : Entry) : Bool := cmpWithSuffixOld a.mode a.name b.mode b.name != .gt

/-- Rust `sorted_tree_items(entries, false)`. -/
def sortedTreeItemsRs (es : List Entry) : List Entry := sortBy rsLe es

/-! ## the `_entries` dict -/

/-- `d[name] = (mode, sha)` on an insertion-ordered dict. -/
def dictSet (d : List Entry) (e : Entry) : List Entry :=
  match d with
  | [] => [e]
  | x :: xs => if x.name = e.name then e :: xs else x :: dictSet xs e

/-- `del d[name]`; `none` = `KeyError`. -/
def dictDel (d : List Entry) (name : Bytes) : Option (List Entry) :=
  match d with
  | [] => none
  | x :: xs => if x.name = name then some xs else (dictDel xs name).map (x :: ·)

/-- `{n: (m, s) for n, m, s in parsed}`. -/
def dictOfList (es : List Entry) : List Entry := es.foldl dictSet []

/-- every mode is in `0..treeModeMax` (what the Rust `sorted_tree_items` can extract as `u32`) -/
def modesOk (es : List Entry) : Bool := es.all fun e => decide (0 ≤ e.mode) && decide (e.mode ≤ (OGen.treeModeMax : Int))

/-- Python `sorted_tree_items` as a partial function: `.other` = `TypeError` for a mode outside `0..treeModeMax`
(since 46c4930; before that `stat.S_ISDIR` raised `OverflowError` for the same modes in tree order). -/
def sortedTreeItemsE (es : List Entry) : Except Err (List Entry) :=
  if modesOk es then .ok (sortedTreeItems es) else .error .other

/-- Rust `sorted_tree_items`: `.other` = `TypeError` when a mode does not extract as `u32`. -/
def sortedTreeItemsRsE (es : List Entry) : Except Err (List Entry) :=
  if modesOk es then .ok (sortedTreeItemsRs es) else .error .other

/-- `Tree._serialize` (Python sort). -/
def serializeTreeObj (entries : List Entry) : Except Err Bytes :=
  match sortedTreeItemsE entries with
  | .ok es => serializeTree es
  | .error e => .error e

/-- `Tree._serialize` with the Rust `sorted_tree_items` loaded. -/
def serializeTreeObjRs (entries : List Entry) : Except Err Bytes :=
  match sortedTreeItemsRsE entries with
  | .ok es => serializeTree es
  | .error e => .error e

/-- `Tree._deserialize`. -/
def deserializeTreeObj (shaLen : Nat) (text : Bytes) : Except Err (List Entry) :=
  match parseTreePy shaLen text with
  | .ok es => .ok (dictOfList es)
  | .error e => .error e

def deserializeTreeObjRs (shaLen : Nat) (text : Bytes) : Except Err (List Entry) :=
  match parseTreeRs shaLen text with
  | .ok es => .ok (dictOfList es)
  | .error e => .error e

end Dulwich.Objects
