/-
  Model of `Tag`, `Commit` and of the caching state machine of `ShaFile` (dulwich/objects.py), C01.

  * `Tag._serialize/_deserialize`, `Commit._serialize/_deserialize/_parse_commit`: structures with
    exactly the attributes of the Python classes (`none` = attribute is `None`); the order in which
    headers are emitted is read from `OGen.commitOrder` / `OGen.tagOrder` (translator output).
    A commit's `mergetag` list holds the raw text of each `Tag` (what `mergetag.as_raw_string()` gives).
  * the cache: `_needs_serialization`, `_sha`, `_chunked_text` with the operations `sha()/id`,
    `as_raw_chunks()`, `set_raw_string()`, and the public setters.  What a setter does to the flags
    is its *kind*, read from the source by the translator (`OGen.setters`).  The hash is a parameter.
-/
import DulwichModel.Model.ObjectsTree

namespace Dulwich.Objects
open Dulwich

abbrev Headers := List (Bytes × Bytes)

/-- Run the header emitters for the slots in order; the first error wins (as in the Python code, where
the checks and the `headers.append` calls are interleaved in this order). -/
def collect {σ : Type} (f : σ → Except Err Headers) : List σ → Except Err Headers
  | [] => .ok []
  | s :: ss =>
    match f s with
    | .error e => .error e
    | .ok a =>
      match collect f ss with
      | .error e => .error e
      | .ok b => .ok (a ++ b)

/-- `value.index(pat)`: first occurrence. -/
def findSub (pat : Bytes) : Bytes → Option Nat
  | [] => if pat.isEmpty then some 0 else none
  | b :: r => if pat.isPrefixOf (b :: r) then some 0 else (findSub pat r).map (· + 1)

/-! ## Tag -/

structure Tag where
  objectSha : Option Bytes
  objectType : Option Bytes      -- `_object_class.type_name`
  name : Option Bytes
  tagger : Option Bytes
  tagTime : Option Int
  tagTz : Option Int
  tagNeg : Option Bool
  message : Option Bytes
  signature : Option Bytes
  deriving DecidableEq, Repr

/-- A fresh `Tag()` (unset slots are `none`). -/
def Tag.empty : Tag := ⟨none, none, none, none, none, none, some false, none, none⟩

inductive TSlot where
  | object | type | tag | tagger
  deriving DecidableEq, Repr

def TSlot.ofString : String → Option TSlot
  | "object" => some .object | "type" => some .type | "tag" => some .tag | "tagger" => some .tagger
  | _ => none

/-- Header slots of `Tag._serialize` in source order. -/
def tagSlots : List TSlot := OGen.tagOrder.filterMap TSlot.ofString

def tagSlot (t : Tag) : TSlot → Except Err Headers
  | .object => match t.objectSha with
    | none => .error .format | some s => .ok [(OGen.hdrObject, s)]
  | .type => match t.objectType with
    | none => .error .format | some s => .ok [(OGen.hdrType, s)]
  | .tag => match t.name with
    | none => .error .format | some s => .ok [(OGen.hdrTag, s)]
  | .tagger =>
    match t.tagger with
    | none => .ok []
    | some p =>
      if p.isEmpty then .ok []                      -- `if self._tagger:`
      else match t.tagTime with
        | none => .ok [(OGen.hdrTagger, p)]
        | some tm =>
          match t.tagTz, t.tagNeg with
          | some tz, some ng =>
            (match formatTimeEntry p tm tz ng with
             | .ok v => .ok [(OGen.hdrTagger, v)]
             | .error e => .error e)
          | _, _ => .error .format

def tagBody (t : Tag) : Option Bytes :=
  match t.message, t.signature with
  | none, none => none
  | m, s => some (m.getD [] ++ s.getD [])

/-- `Tag._serialize`. -/
def serializeTag (t : Tag) : Except Err Bytes :=
  match collect (tagSlot t) tagSlots with
  | .ok hs => .ok (formatMessage hs (tagBody t))
  | .error e => .error e

def tagField (t : Tag) (kv : Bytes × Bytes) : Except Err Tag :=
  if kv.1 = OGen.hdrObject then .ok { t with objectSha := some kv.2 }
  else if kv.1 = OGen.hdrType then
    (match typeNum? kv.2 with
     | none => .error .format
     | some _ => .ok { t with objectType := some kv.2 })
  else if kv.1 = OGen.hdrTag then .ok { t with name := some kv.2 }
  else if kv.1 = OGen.hdrTagger then
    (match parseTimeEntry kv.2 with
     | .ok ti => .ok { t with tagger := ti.person, tagTime := ti.time, tagTz := ti.tz, tagNeg := ti.neg }
     | .error e => .error e)
  else .error .format

def foldFields {α : Type} (f : α → Bytes × Bytes → Except Err α) : α → Headers → Except Err α
  | a, [] => .ok a
  | a, kv :: hs =>
    match f a kv with
    | .ok a' => foldFields f a' hs
    | .error e => .error e

def tagSetBody (t : Tag) : Option Bytes → Tag
  | none => { t with message := none, signature := none }
  | some v =>
    match (findSub OGen.pgpMarker v).orElse (fun _ => findSub OGen.sshMarker v) with
    | some i => { t with message := some (v.take i), signature := some (v.drop i) }
    | none => { t with message := some v, signature := none }

/-- The assignments at the top of `Tag._deserialize`: exactly the attributes the translator found there
(`OGen.tagResets`) are reset (`None`; `False` for the neg-utc flag), every other attribute keeps the value the
live object had. -/
def resetTag (prev : Tag) : Tag :=
  let r (a : String) : Bool := OGen.tagResets.contains a
  { objectSha := if r "_object_sha" then none else prev.objectSha
    objectType := if r "_object_class" then none else prev.objectType
    name := if r "_name" then none else prev.name
    tagger := if r "_tagger" then none else prev.tagger
    tagTime := if r "_tag_time" then none else prev.tagTime
    tagTz := if r "_tag_timezone" then none else prev.tagTz
    tagNeg := if r "_tag_timezone_neg_utc" then some false else prev.tagNeg
    message := if r "_message" then none else prev.message
    signature := if r "_signature" then none else prev.signature }

/-- `Tag._deserialize` on an object whose attributes are `prev` (a fresh object: `Tag.empty`).  Only
tagger/time/timezone are reset; the other attributes survive when their header is absent. -/
def deserializeTag (prev : Tag) (bs : Bytes) : Except Err Tag :=
  let p := parseMessageP bs
  match foldFields tagField (resetTag prev) p.1 with
  | .error e => .error e              -- a field handler raised before the generator got further
  | .ok t =>
    match p.2 with
    | .error e => .error e            -- the generator raised on a line without a space
    | .ok body => .ok (tagSetBody t body)

/-! ## Commit -/

structure Commit where
  tree : Option Bytes
  parents : List Bytes
  author : TimeInfo
  committer : TimeInfo
  encoding : Option Bytes
  mergetag : List Bytes
  extra : Headers
  gpgsig : Option Bytes
  message : Option Bytes
  deriving DecidableEq, Repr

def TimeInfo.none : TimeInfo := ⟨Option.none, Option.none, Option.none, Option.none⟩

/-- What `_parse_commit` starts from. -/
def Commit.empty : Commit := ⟨none, [], TimeInfo.none, TimeInfo.none, none, [], [], none, none⟩

inductive CSlot where
  | tree | parent | author | committer | encoding | mergetag | extra | gpgsig
  deriving DecidableEq, Repr

def CSlot.ofString : String → Option CSlot
  | "tree" => some .tree | "parent" => some .parent | "author" => some .author
  | "committer" => some .committer | "encoding" => some .encoding | "mergetag" => some .mergetag
  | "extra" => some .extra | "gpgsig" => some .gpgsig
  | _ => none

/-- Header slots of `Commit._serialize` in source order. -/
def commitSlots : List CSlot := OGen.commitOrder.filterMap CSlot.ofString

/-- `.other` = a failed `assert … is not None`; `.format` = `ValueError` from `format_timezone`. -/
def timeHeader (name : Bytes) (ti : TimeInfo) : Except Err Headers :=
  match ti.person, ti.time, ti.tz, ti.neg with
  | some p, some tm, some tz, some ng =>
    (match formatTimeEntry p tm tz ng with
     | .ok v => .ok [(name, v)]
     | .error e => .error e)
  | _, _, _, _ => .error .other

def optHeader (name : Bytes) : Option Bytes → Headers
  | none => []
  | some v => if v.isEmpty then [] else [(name, v)]          -- `if self.encoding:` / `if self.gpgsig:`

/-- The header value of a mergetag text: the text without its final LF.  Which cut the code performs is
read from the source: `if text.endswith(b"\n"): text = text[:-1]` (`OGen.mergetagStripConditional`), or
the older unconditional `text[:-1]`. -/
def mergetagValue (raw : Bytes) : Bytes :=
  if OGen.mergetagStripConditional then stripLastLF raw else raw.dropLast

def commitSlot (c : Commit) : CSlot → Except Err Headers
  | .tree => match c.tree with
    | none => .error .other | some t => .ok [(OGen.hdrTree, t)]
  | .parent => .ok (c.parents.map fun p => (OGen.hdrParent, p))
  | .author => timeHeader OGen.hdrAuthor c.author
  | .committer => timeHeader OGen.hdrCommitter c.committer
  | .encoding => .ok (optHeader OGen.hdrEncoding c.encoding)
  | .mergetag => .ok (c.mergetag.map fun raw => (OGen.hdrMergetag, mergetagValue raw))
  | .extra => .ok c.extra
  | .gpgsig => .ok (optHeader OGen.hdrGpgsig c.gpgsig)

/-- `Commit._serialize`. -/
def serializeCommit (c : Commit) : Except Err Bytes :=
  match collect (commitSlot c) commitSlots with
  | .ok hs => .ok (formatMessage hs c.message)
  | .error e => .error e

def commitField (c : Commit) (kv : Bytes × Bytes) : Except Err Commit :=
  if kv.1 = OGen.hdrTree then .ok { c with tree := some kv.2 }
  else if kv.1 = OGen.hdrParent then .ok { c with parents := c.parents ++ [kv.2] }
  else if kv.1 = OGen.hdrAuthor then
    (match parseTimeEntry kv.2 with
     | .ok ti => .ok { c with author := ti }
     | .error e => .error e)
  else if kv.1 = OGen.hdrCommitter then
    (match parseTimeEntry kv.2 with
     | .ok ti => .ok { c with committer := ti }
     | .error e => .error e)
  else if kv.1 = OGen.hdrEncoding then .ok { c with encoding := some kv.2 }
  else if kv.1 = OGen.hdrMergetag then
    (match deserializeTag Tag.empty (kv.2 ++ [10]) with          -- `Tag.from_string(value + b"\n")`
     | .ok _ => .ok { c with mergetag := c.mergetag ++ [kv.2 ++ [10]] }
     | .error e => .error e)
  else if kv.1 = OGen.hdrGpgsig then .ok { c with gpgsig := some kv.2 }
  else .ok { c with extra := c.extra ++ [kv] }

/-- `Commit._deserialize` (`_parse_commit` + attribute assignment: every attribute is overwritten). -/
def deserializeCommit (bs : Bytes) : Except Err Commit :=
  let p := parseMessageP bs
  match foldFields commitField Commit.empty p.1 with
  | .error e => .error e
  | .ok c =>
    match p.2 with
    | .error e => .error e
    | .ok body => .ok { c with message := body }

/-! ## the cache state machine of `ShaFile` -/

/-- The three cache attributes next to the field values. -/
structure St (F : Type) where
  fields : F
  needs : Bool                 -- `_needs_serialization`
  sha : Option Bytes           -- `_sha` (digest), `none` = `None`
  chunks : Option Bytes        -- `b"".join(_chunked_text)`, `none` = `None`

/-- What distinguishes the four classes for the cache. -/
structure Cls (F : Type) where
  typeNum : Nat
  ser : F → Option Bytes             -- `_serialize` (`none` = raises)
  deser : F → Bytes → Option F       -- `_deserialize` on an object with the given attributes
  alias : Bool                       -- Blob: the only field *is* `_chunked_text`

inductive Op (F : Type) where
  | set (kind : Nat) (upd : F → F)   -- a public setter; `kind` from `OGen.setters` (0, 1, 3; else: via set_raw_string)
  | setRaw (b : Bytes)               -- `set_raw_string(b)`
  | getId                            -- `.id` / `sha()`
  | asRaw                            -- `as_raw_string()`

variable {F : Type}

/-- `as_raw_chunks()`. -/
def asRawChunks (C : Cls F) (s : St F) : Option Bytes × St F :=
  if s.needs then
    match C.ser s.fields with
    | none => (none, { s with sha := none })
    | some b => (some b, { s with sha := none, chunks := some b, needs := false })
  else (s.chunks, s)

/-- `sha()` with the default object format (the cached path). -/
def shaStep (H : Bytes → Bytes) (C : Cls F) (s : St F) : Option Bytes × St F :=
  if s.sha.isNone || s.needs then
    match asRawChunks C s with
    | (none, s1) => (none, s1)
    | (some body, s1) =>
      match hashInput C.typeNum body with
      | none => (none, s1)
      | some inp => (some (H inp), { s1 with sha := some (H inp) })
  else (s.sha, s)

/-- `set_raw_string(b)`. -/
def setRawStep (C : Cls F) (b : Bytes) (s : St F) : St F :=
  match C.deser s.fields b with
  | some f => { fields := f, needs := false, sha := none, chunks := some b }
  | none => { s with sha := none, chunks := some b }      -- `_deserialize` raised

/-- A public setter of kind `kind` storing `upd fields`. -/
def setStep (C : Cls F) (kind : Nat) (upd : F → F) (s : St F) : St F :=
  let f' := upd s.fields
  let ch := if C.alias then C.ser f' else s.chunks
  match kind with
  | 0 => { s with fields := f', chunks := ch }
  | 1 => { s with fields := f', chunks := ch, needs := true }
  | 3 => { s with fields := f', chunks := ch, sha := none }        -- `self._sha = None`
  | _ => match C.ser f' with
    | some b => setRawStep C b s
    | none => s

def step (H : Bytes → Bytes) (C : Cls F) (s : St F) : Op F → St F
  | .set k u => setStep C k u s
  | .setRaw b => setRawStep C b s
  | .getId => (shaStep H C s).2
  | .asRaw => (asRawChunks C s).2

def run (H : Bytes → Bytes) (C : Cls F) (s : St F) (ops : List (Op F)) : St F :=
  ops.foldl (step H C) s

/-- What `as_raw_string()` would return now. -/
def content (C : Cls F) (s : St F) : Option Bytes :=
  if s.needs then C.ser s.fields else s.chunks

/-- `Blob`: the field is the chunk list itself. -/
def blobCls : Cls Bytes := { typeNum := 3, ser := some, deser := fun _ b => some b, alias := true }

/-- `Blob()`: `_chunked_text = []`, `_needs_serialization = False`. -/
def blobInit : St Bytes := { fields := [], needs := false, sha := none, chunks := some [] }

/-- A fresh `Commit()/Tag()/Tree()`: dirty, nothing cached. -/
def freshInit (f : F) : St F := { fields := f, needs := true, sha := none, chunks := none }

def Except.toOpt {α : Type} : Except Err α → Option α
  | .ok a => some a
  | .error _ => none

/-- `Commit` / `Tag` / `Tree` as instances of the cache machine (type numbers from the translator's table
are 1, 4, 2; `objectHeader` looks the name up there). -/
def commitCls : Cls Commit :=
  { typeNum := 1, ser := fun c => Except.toOpt (serializeCommit c),
    deser := fun _ b => Except.toOpt (deserializeCommit b), alias := false }

def tagCls : Cls Tag :=
  { typeNum := 4, ser := fun t => Except.toOpt (serializeTag t),
    deser := fun prev b => Except.toOpt (deserializeTag prev b), alias := false }

/-- `Tree` with the Python `sorted_tree_items` (the Rust one agrees on legal names, see Props). -/
def treeCls (shaLen : Nat) : Cls (List Entry) :=
  { typeNum := 2, ser := fun es => Except.toOpt (serializeTreeObj es),
    deser := fun _ b => Except.toOpt (deserializeTreeObj shaLen b), alias := false }

/-- kind of the setter `(cls, name)` in the translator's table (`none`: no such setter). -/
def setterKind (cls name : String) : Option Nat :=
  (OGen.setters.find? (fun e => e.1 == cls && e.2.1 == name)).map (·.2.2)

end Dulwich.Objects
