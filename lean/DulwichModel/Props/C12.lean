/-
  C12 — tree building, flattening, diffing and patching are mutually consistent.
  Property theorems about the model `DulwichModel/Model/TreeOps.lean` (lemmas: `Lemmas/TreeOps.lean`).

  Reading guide.  `Tree` is a directory (nested, children in name order); `Tree.WF` its decidable
  well-formedness; `commitTree` = commit_tree, `Tree.flatten` = iter_tree_contents, `Tree.body H` =
  the serialised tree object, `Tree.id H` its id for an arbitrary hash `H`; `treeChanges` = tree_changes,
  `applyChanges` = the patch semantics of a change list on a flat listing (specification),
  `commitTreeChanges` = commit_tree_changes, `renamePass` = any rename/copy detector run as a post-pass.
  Listings are ordered by path, component-wise (`SortedL`); `lookupL l p` is the entry a listing holds at `p`.
-/
import DulwichModel.Lemmas.TreeOps

namespace Dulwich.Props.C12
open Dulwich Dulwich.TreeOps

/-! ## tie to the generated constants -/

/-- What the model and the theorems below rely on, as extracted from the source by the translator on
this run: the directory sort suffix and every path separator are `/`; sub-trees get mode 040000 and
`S_IFMT` is the mask 0170000 (Python and Rust); iter_tree_contents and both `_merge_entries` walk in NAME
order while `Tree._serialize` uses tree (`key_entry`) order; the `_merge_entries` loop has the three
canonical branches; tree_changes prunes iff `not want_unchanged` and splits type changes unless
`change_type_same`; commit_tree_changes stores direct entries after the nested changes; empty sub-trees are deleted
by commit_tree_changes (checked by the translator). -/
theorem gen_tie :
    Gen.TreeOps.dirSuffix = 0x2f ∧ Gen.TreeOps.pathSep = 0x2f ∧
    Gen.TreeOps.sIFDIR = 0o040000 ∧ Gen.TreeOps.sIFMT = 0o170000 ∧ Gen.TreeOps.sIFGITLINK = 0o160000 ∧
    Gen.TreeOps.rsSIFDIR = Gen.TreeOps.sIFDIR ∧ Gen.TreeOps.rsSIFMT = Gen.TreeOps.sIFMT ∧
    Gen.TreeOps.modeOctWidth = 4 ∧
    Gen.TreeOps.flattenNameOrder = true ∧ Gen.TreeOps.mergeNameOrder = true ∧
    Gen.TreeOps.rsMergeNameOrder = true ∧ Gen.TreeOps.serializeNameOrder = false ∧
    Gen.TreeOps.mergeBranchesCanonical = true ∧ Gen.TreeOps.pruneIsNotWantUnchanged = true ∧
    Gen.TreeOps.typeChangeSplitsUnlessSame = true ∧ Gen.TreeOps.ctcDirectEntriesDeferred = true := by decide

/-! ## canonical order -/

/-- git's ordering key written out literally (`base_name_compare`: a directory compares as `name/`) -/
def gitKey (e : TEntry) : Bytes := if (e.mode &&& 0o170000) == 0o040000 then e.name ++ [0x2f] else e.name

theorem keyEntry_eq_gitKey (e : TEntry) : keyEntry e = gitKey e := rfl

/-- Every tree object the model produces (for any hash `H`, any tree — so every sub-tree as well) is the
serialisation of its entries rearranged into git's canonical order. -/
theorem canonical_order (H : Bytes → Id) (t : Tree) :
    ∃ es, t.body H = serializeEntries es ∧ es.Perm (t.entries H) ∧
      es.Pairwise (fun a b => ¬ gitKey b < gitKey a) := by
  refine ⟨sortCanon (t.entries H), rfl, perm_sortCanon _, ?_⟩
  have := canonSorted_sortCanon (t.entries H)
  exact this.imp (fun {a b} h => by rw [← keyEntry_eq_gitKey, ← keyEntry_eq_gitKey]; exact h)

/-! ## build ∘ flatten and flatten ∘ build -/

/-- `sortListing` really sorts: the result is strictly increasing by path and holds, at every path, the
last entry the input lists there (Python dict semantics for exact duplicates). -/
theorem sortListing_spec (L : List Entry) :
    SortedL (sortListing L) ∧ ∀ p, lookupL (sortListing L) p = lastAt L p :=
  ⟨sortedL_sortListing L, lookupL_sortListing L⟩

/-- flatten (build L) = sort L for every valid listing (non-empty paths, no directory modes, no path a
proper directory prefix of another): commit_tree succeeds, the tree is well-formed, and
iter_tree_contents returns the listing sorted by path. -/
theorem flatten_build (L : List Entry) (hv : validListing L = true) :
    ∃ t, commitTree L = some t ∧ t.WF = true ∧ t.flatten = sortListing L := by
  rcases buildFrom_succeeds (t0 := .nil) rfl hv (fun e he => by cases he) with ⟨t, ht⟩
  have hok : ∀ e ∈ L, isDirMode e.mode = false := by
    intro e he
    simp only [validListing, Bool.and_eq_true, List.all_eq_true] at hv
    have := hv.1 e he
    simp only [okEntry, Bool.and_eq_true, Bool.not_eq_true'] at this
    exact this.2
  have := buildFrom_flatten (t0 := .nil) rfl hok ht
  exact ⟨t, ht, this.1, this.2⟩

/-- the same through the public entry point, for any hash -/
theorem iterTreeContents_commitTree (H : Bytes → Id) (L : List Entry) (hv : validListing L = true) :
    (commitTree L).map (iterTreeContents H false) = some (sortListing L) := by
  rcases flatten_build L hv with ⟨t, ht, _, hf⟩
  simp [ht, iterTreeContents, hf]

/-- when the model reports a conflict the listing is not valid (so `conflict` is never a spurious answer) -/
theorem commitTree_none_invalid (L : List Entry) (h : commitTree L = none) : validListing L = false := by
  cases hv : validListing L with
  | false => rfl
  | true => rcases flatten_build L hv with ⟨t, ht, _⟩; rw [h] at ht; cases ht

/-- build (flatten t) = t for every well-formed tree — hence equal ids for every hash. -/
theorem build_flatten (t : Tree) (hwf : t.WF = true) : commitTree t.flatten = some t := by
  rcases flatten_build t.flatten (flatten_validListing hwf) with ⟨t', ht', hwf', hf⟩
  rw [sortListing_of_sorted (flatten_sorted hwf)] at hf
  rw [ht', flatten_inj hwf' hwf hf]

theorem build_flatten_id (H : Bytes → Id) (t : Tree) (hwf : t.WF = true) :
    (commitTree t.flatten).map (Tree.id H) = some (t.id H) := by
  rw [build_flatten t hwf]; rfl

/-- the flat listing of a well-formed tree is itself a valid, sorted listing -/
theorem flatten_valid_sorted (t : Tree) (hwf : t.WF = true) :
    validListing t.flatten = true ∧ SortedL t.flatten :=
  ⟨flatten_validListing hwf, flatten_sorted hwf⟩


/-! ## diff: sound, complete, each path at most once -/

/-- Exactness of the diff (tree_changes without tree entries; with or without `want_unchanged`, with or without
`change_type_same`).  When identical sub-trees are pruned (`want_unchanged = False`, the default) the hash `H` is
assumed to separate the sub-trees of `a` from the sub-trees of `b` — `IdInjectiveOn`, implied by `IdInjective H` —
which is what pruning by id equality needs; without pruning no assumption on `H` is made at all.
The entries the diff installs (add / modify new sides) are exactly the entries of `b` that `a` does not hold
identically, in path order, and the paths it removes (delete / modify old sides) are exactly those of the entries of
`a` that `b` does not hold identically.  So nothing unchanged is reported as a change, nothing changed is missed, and
mode-only and type-only changes are changes. -/
theorem diff_exact (H : Bytes → Id) (wu cts : Bool) (a b : Tree)
    (hH : wu = false → IdInjectiveOn H (a :: a.subtrees) (b :: b.subtrees)) (ha : a.WF = true) (hb : b.WF = true) :
    addedEntries (treeChanges H ⟨wu, false, cts⟩ none (some a) (some b)) =
      b.flatten.filter (fun e => lookupL a.flatten e.path != some e) ∧
    removedPaths (treeChanges H ⟨wu, false, cts⟩ none (some a) (some b)) =
      (a.flatten.filter (fun e => lookupL b.flatten e.path != some e)).map (·.path) :=
  treeChanges_spec H wu cts (some a) (some b) hH ha hb

/-- Soundness + completeness: the difference computed between two trees, applied to the first tree's flat listing,
yields exactly the second's. -/
theorem diff_sound_complete (H : Bytes → Id) (wu cts : Bool) (a b : Tree)
    (hH : wu = false → IdInjectiveOn H (a :: a.subtrees) (b :: b.subtrees)) (ha : a.WF = true) (hb : b.WF = true) :
    applyChanges (treeChanges H ⟨wu, false, cts⟩ none (some a) (some b)) a.flatten = b.flatten := by
  have h := diff_exact H wu cts a b hH ha hb
  exact apply_diff (flatten_sorted ha) (flatten_sorted hb) h.1 h.2

/-- without pruning (`want_unchanged = True`) this holds for EVERY function `H`, collisions included -/
theorem diff_unpruned_sound_complete (H : Bytes → Id) (cts : Bool) (a b : Tree) (ha : a.WF = true) (hb : b.WF = true) :
    applyChanges (treeChanges H ⟨true, false, cts⟩ none (some a) (some b)) a.flatten = b.flatten :=
  diff_sound_complete H true cts a b (fun h => by cases h) ha hb

/-- Pruning identical sub-trees changes nothing that matters: with a hash that separates the sub-trees involved, the
pruned walk installs and removes exactly what the full walk does. -/
theorem prune_identical_same_result (H : Bytes → Id) (cts : Bool) (a b : Tree)
    (hH : IdInjectiveOn H (a :: a.subtrees) (b :: b.subtrees)) (ha : a.WF = true) (hb : b.WF = true) :
    addedEntries (treeChanges H ⟨false, false, cts⟩ none (some a) (some b)) =
      addedEntries (treeChanges H ⟨true, false, cts⟩ none (some a) (some b)) ∧
    removedPaths (treeChanges H ⟨false, false, cts⟩ none (some a) (some b)) =
      removedPaths (treeChanges H ⟨true, false, cts⟩ none (some a) (some b)) := by
  have h1 := diff_exact H false cts a b (fun _ => hH) ha hb
  have h2 := diff_exact H true cts a b (fun h => by cases h) ha hb
  exact ⟨h1.1.trans h2.1.symm, h1.2.trans h2.2.symm⟩

/-- the same from / to "no tree" (`tree_changes(store, None, id)`, `tree_changes(store, id, None)`); no assumption on `H` -/
theorem diff_from_nothing (H : Bytes → Id) (wu cts : Bool) (b : Tree) (hb : b.WF = true) :
    applyChanges (treeChanges H ⟨wu, false, cts⟩ none none (some b)) [] = b.flatten := by
  have h := treeChanges_spec H wu cts none (some b) (fun _ _ hs => by cases hs) trivial hb
  exact apply_diff (la := []) List.Pairwise.nil (flatten_sorted hb) h.1 h.2

theorem diff_to_nothing (H : Bytes → Id) (wu cts : Bool) (a : Tree) (ha : a.WF = true) :
    applyChanges (treeChanges H ⟨wu, false, cts⟩ none (some a) none) a.flatten = [] := by
  have h := treeChanges_spec H wu cts (some a) none (fun _ _ _ _ hs => by cases hs) ha trivial
  exact apply_diff (lb := []) (flatten_sorted ha) List.Pairwise.nil h.1 h.2

/-- Each path is mentioned at most once: no path is installed twice and no path is removed twice (a type change
reported as delete + add names its path once on each side; with `change_type_same` it is one modify). -/
theorem each_path_once (H : Bytes → Id) (wu cts : Bool) (a b : Tree)
    (hH : wu = false → IdInjectiveOn H (a :: a.subtrees) (b :: b.subtrees)) (ha : a.WF = true) (hb : b.WF = true) :
    ((addedEntries (treeChanges H ⟨wu, false, cts⟩ none (some a) (some b))).map (·.path)).Nodup ∧
    (removedPaths (treeChanges H ⟨wu, false, cts⟩ none (some a) (some b))).Nodup := by
  have h := diff_exact H wu cts a b hH ha hb
  rw [h.1, h.2]
  exact ⟨(flatten_sorted hb).nodup_paths.sublist (List.filter_sublist.map _),
         (flatten_sorted ha).nodup_paths.sublist (List.filter_sublist.map _)⟩

/-- identical trees (equal ids suffice: the root pair is pruned) have an empty diff, whatever the other flags -/
theorem diff_of_equal_trees (H : Bytes → Id) (f : Flags) (hwu : f.wantUnchanged = false) (a : Tree) :
    treeChanges H f none (some a) (some a) = [] :=
  treeChanges_self H f hwu a

/-! ## rename / copy detection as a post-pass -/

/-- For ANY pairing function (any similarity score, threshold, max_files, copy detection on or off): replacing a
reported (delete p, add q) by rename(p, q), or re-labelling a reported add as a copy, preserves what the change list
does to every sorted listing — provided the input installs no path twice, which `each_path_once` gives for
`treeChanges`. -/
theorem rename_pass_preserves (pairing : List Change → List Pairing) (cs : List Change) (l : List Entry)
    (hs : SortedL l) (hnd : ((addedEntries cs).map (·.path)).Nodup) :
    applyChanges (renamePass pairing cs) l = applyChanges cs l := by
  have h := foldl_renameStep_perm (pairing cs) cs
  exact (applyChanges_congr hs h.1.symm h.2.symm hnd).symm

/-- diff, then any rename pass, still patches `a` into `b` -/
theorem diff_with_renames_sound_complete (H : Bytes → Id) (wu cts : Bool)
    (pairing : List Change → List Pairing) (a b : Tree)
    (hH : wu = false → IdInjectiveOn H (a :: a.subtrees) (b :: b.subtrees)) (ha : a.WF = true) (hb : b.WF = true) :
    applyChanges (renamePass pairing (treeChanges H ⟨wu, false, cts⟩ none (some a) (some b))) a.flatten = b.flatten := by
  rw [rename_pass_preserves pairing _ _ (flatten_sorted ha) (each_path_once H wu cts a b hH ha hb).1]
  exact diff_sound_complete H wu cts a b hH ha hb

section Examples
def idA : Id := List.replicate 20 0xaa
def idB : Id := List.replicate 20 0xbb
end Examples

/-! ## applying a change list to a tree = rebuilding from the changed listing -/

def ctcResult (r : Except CtcErr Tree) : Option Tree :=
  match r with
  | .ok t => some t
  | .error _ => none

/-- THE PROPERTY'S CLAUSE (code after the fix "commit_tree_changes applies a change list that replaces a directory
by a file"): the difference computed between two trees, handed to commit_tree_changes as its change list (normal form
`toTChanges`: every path once), turns the first tree into exactly the second — which is also what commit_tree rebuilds
from the patched flat listing.  For all well-formed trees, any nesting, files replaced by directories and directories
by files/gitlinks included; with or without `want_unchanged` / `change_type_same`; the hash assumption only when
identical sub-trees are pruned. -/
theorem apply_diff_equals_rebuild (H : Bytes → Id) (wu cts : Bool) (a b : Tree)
    (hH : wu = false → IdInjectiveOn H (a :: a.subtrees) (b :: b.subtrees)) (ha : a.WF = true) (hb : b.WF = true) :
    commitTreeChanges a (toTChanges (treeChanges H ⟨wu, false, cts⟩ none (some a) (some b))) = .ok b ∧
    commitTree (applyChanges (treeChanges H ⟨wu, false, cts⟩ none (some a) (some b)) a.flatten) = some b := by
  have h := diff_exact H wu cts a b hH ha hb
  constructor
  · rw [toTChanges_eq_specT (flatten_sorted ha) (flatten_sorted hb) h.1 h.2]
    exact commitTreeChanges_specT ha hb
  · rw [diff_sound_complete H wu cts a b hH ha hb]
    exact build_flatten b hb

/-- the same for ANY change list that is an exact diff of the two flat listings (whatever produced it, in whatever
order it lists removals and installations) -/
theorem apply_exact_diff_equals_rebuild (a b : Tree) (cs : List Change) (ha : a.WF = true) (hb : b.WF = true)
    (hA : addedEntries cs = b.flatten.filter (fun e => lookupL a.flatten e.path != some e))
    (hR : removedPaths cs = (a.flatten.filter (fun e => lookupL b.flatten e.path != some e)).map (·.path)) :
    commitTreeChanges a (toTChanges cs) = .ok b := by
  rw [toTChanges_eq_specT (flatten_sorted ha) (flatten_sorted hb) hA hR]
  exact commitTreeChanges_specT ha hb

/-- General statement for an arbitrary change list (not only a diff): for a well-formed tree and a change list that
installs no path twice, removes only paths the tree holds and whose patched listing is valid, commit_tree_changes
gives the tree commit_tree builds from the patched listing.  NOT proved in this generality (change lists that, e.g.,
re-install an identical entry are not literally a diff); proved: `apply_diff_equals_rebuild`,
`apply_exact_diff_equals_rebuild` and the two single-change theorems below. -/
def ApplyEqualsRebuildStatement : Prop :=
  ∀ (t : Tree) (cs : List Change), t.WF = true → ((addedEntries cs).map (·.path)).Nodup →
    (∀ p ∈ removedPaths cs, (lookupL t.flatten p).isSome) →
    validListing (applyChanges cs t.flatten) = true →
    ctcResult (commitTreeChanges t (toTChanges cs)) = commitTree (applyChanges cs t.flatten)

def cexTree : Tree := .dir [0x61] (.file [0x62] ⟨0o100644, idA⟩ .nil) .nil
/-- what tree_changes reports for {a/b} → {a}: add a, delete a/b -/
def cexChanges : List Change :=
  [⟨.add, none, some ⟨[[0x61]], 0o100644, idA⟩⟩, ⟨.delete, some ⟨[[0x61], [0x62]], 0o100644, idA⟩, none⟩]

/-- Regression witness (finding F-C12-ctc-dir-to-file, fixed): on the tree {a/b} the change list [add a, delete a/b]
made the code BEFORE the fix (`commitTreeChangesOld`: direct entries stored before the nested changes) fail — it loaded
the new blob `a` as if it were the old sub-tree — while the code after the fix returns {a}. -/
theorem apply_equals_rebuild_old_counterexample :
    ctcResult (commitTreeChangesOld cexTree (toTChanges cexChanges)) = none ∧
    ctcResult (commitTreeChanges cexTree (toTChanges cexChanges)) = some (.file [0x61] ⟨0o100644, idA⟩ .nil) ∧
    commitTree (applyChanges cexChanges cexTree.flatten) = some (.file [0x61] ⟨0o100644, idA⟩ .nil) := by decide

/-- the witness really is the diff of the two trees (so it is not an artefact of a hand-made change list) -/
example : treeChanges (fun b => b.take 20) ⟨false, false, false⟩ none (some cexTree)
    (some (.file [0x61] ⟨0o100644, idA⟩ .nil)) = cexChanges := by decide

/-- Single change, installation: installing ONE entry (a new file anywhere, creating directories as needed, or
overwriting an existing file) with commit_tree_changes gives exactly the tree commit_tree rebuilds from the patched
listing, whenever the entry does not collide with an existing file/directory of the other kind. -/
theorem apply_equals_rebuild_partial (t t1 : Tree) (e : Entry) (hwf : t.WF = true)
    (hmode : isDirMode e.mode = false) (hins : insertEntry t e = some t1) :
    commitTreeChanges t (toTChanges [⟨.add, none, some e⟩]) = .ok t1 ∧
    commitTree (applyChanges [⟨.add, none, some e⟩] t.flatten) = some t1 := by
  constructor
  · have := ctcAux_single_set ⟨e.mode, e.id⟩ (e.path.length + 1) e.path t t1 (by omega) hwf hins
    simpa [commitTreeChanges, toTChanges, addedEntries, removedPaths, maxLen] using this
  · have hfl := flatten_insert (l := ⟨e.mode, e.id⟩) hwf hmode hins
    have hwf1 := insert_WF (l := ⟨e.mode, e.id⟩) hwf hmode hins
    have : applyChanges [⟨.add, none, some e⟩] t.flatten = t1.flatten := by
      rw [hfl]
      have he : (⟨e.path, e.mode, e.id⟩ : Entry) = e := by cases e; rfl
      have hf : List.filter (fun (_ : Entry) => true) t.flatten = t.flatten := List.filter_eq_self.mpr (fun _ _ => rfl)
      simp [applyChanges, addedEntries, removedPaths, insertAll, he, hf]
    rw [this]
    exact build_flatten t1 hwf1

/-- Single change, removal: removing ONE existing entry with commit_tree_changes — emptied directories are pruned all
the way up — gives exactly the tree commit_tree rebuilds from the listing without that entry. -/
theorem apply_equals_rebuild_partial_delete (t : Tree) (e : Entry) (hwf : t.WF = true)
    (hmem : lookupL t.flatten e.path = some e) :
    ∃ t', commitTreeChanges t (toTChanges [⟨.delete, some e, none⟩]) = .ok t' ∧
      commitTree (applyChanges [⟨.delete, some e, none⟩] t.flatten) = some t' := by
  rcases ctcAux_single_del (e.path.length + 1) e.path t e (by omega) hwf hmem with ⟨t', hctc, hwf', hfl⟩
  refine ⟨t', ?_, ?_⟩
  · simpa [commitTreeChanges, toTChanges, addedEntries, removedPaths, maxLen] using hctc
  · have : applyChanges [⟨.delete, some e, none⟩] t.flatten = t'.flatten := by
      rw [hfl]
      simp only [applyChanges, addedEntries, removedPaths, insertAll, List.foldl_nil]
      apply List.filter_congr
      intro x _
      by_cases h : x.path = e.path <;> simp [h]
    rw [this]
    exact build_flatten t' hwf'

/-- deleting the only file below a/b/ prunes both directories -/
example : ctcResult (commitTreeChanges
    (.dir [0x61] (.dir [0x62] (.file [0x63] ⟨0o100644, idA⟩ .nil) .nil) (.file [0x62] ⟨0o100644, idB⟩ .nil))
    [([[0x61], [0x62], [0x63]], none)]) = some (.file [0x62] ⟨0o100644, idB⟩ .nil) := by decide

example : ∃ t1, insertEntry cexTree ⟨[[0x61], [0x63], [0x64]], 0o100755, idB⟩ = some t1 ∧ cexTree.WF = true := by decide

/-! ## a long-lived RenameDetector is stateless across calls -/

/-- translator obligation: no per-call attribute of RenameDetector can be read before it is (re)assigned on some path
through changes_with_renames (reset set ⊇ read set) -/
theorem detector_reset_before_read : Gen.TreeOps.detStaleReads = [] ∧
    ["_adds", "_deletes", "_changes", "_candidates"].all (Gen.TreeOps.detPerCallAttrs.contains ·) = true := by decide

/-- Call independence, for the code as written and for ANY phase contents (scores, thresholds, `max_files`, copy
detection, the tree pair): whatever state earlier calls left in the detector — content-rename candidates of another
pair included — the result of `changes_with_renames` is the result a fresh detector gives.  Every branch either
recomputes or clears the per-call fields; in particular the `max_files` cut-off is taken AFTER `_candidates` is cleared. -/
theorem changes_with_renames_stateless (P : DetPhases) (wantUnchanged includeTrees : Bool) (st : DetState) :
    (detRun P wantUnchanged includeTrees st).1 = (detRun P wantUnchanged includeTrees DetState.init).1 := by
  have h : ∀ a, detStale a = false := by
    intro a; simp [detStale, detector_reset_before_read.1]
  simp [detRun, h]

/-- hence any sequence of calls on one detector returns, call by call, what fresh detectors return -/
theorem detector_sequence_stateless (P : DetPhases) (calls : List (Bool × Bool)) (st : DetState) (wu inc : Bool) :
    (detRun P wu inc (calls.foldl (fun s c => (detRun P c.1 c.2 s).2) st)).1 = (detRun P wu inc DetState.init).1 :=
  changes_with_renames_stateless P wu inc _

/-- non-vacuity / what the theorem excludes: with phases whose cut-off trips and whose `choose` appends the candidates,
a detector that kept stale candidates would return them — the clean model returns none -/
example : (detRun { collect := fun _ _ s => s, exact := id, shouldFind := fun _ _ => false, score := fun _ _ => [],
                    choose := fun c s => (s.1, s.2.1, s.2.2 ++ c.map (·.2)), join := id,
                    pruneUnchanged := fun _ d => d, sorted := fun a d c => a ++ d ++ c } false false
      { candidates := [(-100, ⟨.rename, some ⟨[[0x61]], 0o100644, idA⟩, some ⟨[[0x62]], 0o100644, idA⟩⟩)] }).1 = [] := by
  decide

/-! ## _merge_entries, tree_lookup_path, byte paths -/

/-- The two-pointer merge, right view: on name-ordered inputs the merged pairs that have a right side are exactly
`ys`, in order, each paired with the left entry of the same name if there is one — -/
theorem merge_entries_right {α : Type} (xs ys : List (Name × α)) (hx : NameSorted xs) (hy : NameSorted ys) :
    (mergeEntries xs ys).flatMap (fun k => match k.2.2 with | some y => [(k.1, k.2.1, y)] | none => []) =
      ys.map (fun e => (e.1, assoc xs e.1, e.2)) := by
  unfold mergeEntries
  rw [mergeAux_right (fun n xo yo => match yo with | some y => [(n, xo, y)] | none => []) _ xs ys (by omega) hx hy
    (fun _ _ => rfl)]
  exact List.map_eq_flatMap.symm

/-- — and left view: those with a left side are exactly `xs`, in order, each paired with the right entry of the same
name if there is one.  Together: every name of either side exactly once, matched iff present on both sides. -/
theorem merge_entries_left {α : Type} (xs ys : List (Name × α)) (hx : NameSorted xs) (hy : NameSorted ys) :
    (mergeEntries xs ys).flatMap (fun k => match k.2.1 with | some x => [(k.1, x, k.2.2)] | none => []) =
      xs.map (fun e => (e.1, e.2, assoc ys e.1)) := by
  unfold mergeEntries
  rw [mergeAux_left (fun n xo yo => match xo with | some x => [(n, x, yo)] | none => []) _ xs ys (by omega) hx hy
    (fun _ _ => rfl)]
  exact List.map_eq_flatMap.symm

/-- tree_lookup_path finds every entry of the flat listing at its path, with its mode and id (any hash) -/
theorem lookup_path_agrees (H : Bytes → Id) (t : Tree) (hwf : t.WF = true) (p : Path) (e : Entry)
    (h : lookupL t.flatten p = some e) : t.lookupRel H p = .ok (e.mode, e.id) :=
  lookupRel_of_flatten H hwf h

/-- component paths ↔ dulwich's byte paths: joining valid names with `/` and splitting again is the identity -/
theorem path_bytes_roundtrip (p : Path) (hne : p ≠ []) (hv : p.all validName = true) :
    splitPath (joinPath p) = p :=
  splitPath_joinPath hne hv

example : splitPath (joinPath [[0x61], [0x61, 0x2e, 0x62], [0x61, 0x2d]]) = [[0x61], [0x61, 0x2e, 0x62], [0x61, 0x2d]] := by decide
example : mergeEntries [([0x61], 1), ([0x61, 0x2e, 0x62], 2), ([0x61, 0x30], 3)] [([0x61, 0x2d], 4), ([0x61, 0x2e, 0x62], 5)] =
    [([0x61], some 1, none), ([0x61, 0x2d], none, some 4), ([0x61, 0x2e, 0x62], some 2, some 5), ([0x61, 0x30], some 3, none)] := by decide

section Examples
/-- the conflict alphabet of the property: `a/b`, `a.b`, `a-`, `a0`, `b/x/y`, with a symlink and a gitlink -/
def exL : List Entry :=
  [⟨[[0x62], [0x78], [0x79]], 0o100644, idA⟩, ⟨[[0x61, 0x30]], 0o100755, idB⟩, ⟨[[0x61], [0x62]], 0o100644, idA⟩,
   ⟨[[0x61, 0x2e, 0x62]], 0o120000, idB⟩, ⟨[[0x61, 0x2d]], 0o160000, idA⟩]

example : validListing exL = true := by decide
example : (commitTree exL).map (fun t => t.flatten.map (·.path)) =
    some [[[0x61], [0x62]], [[0x61, 0x2d]], [[0x61, 0x2e, 0x62]], [[0x61, 0x30]], [[0x62], [0x78], [0x79]]] := by decide
example : ∃ t, commitTree exL = some t ∧ t.WF = true ∧ t.flatten.length = 5 := by
  rcases flatten_build exL (by decide) with ⟨t, h, hw, hf⟩
  exact ⟨t, h, hw, by rw [hf]; decide⟩
/-- a = {a/b, a/c (exec), a- (gitlink), d/x, d/y};  b = {a (file: directory replaced), a- (gitlink, new id),
a.b (symlink, new), d/x, d/y (identical sub-tree `d`, pruned)} -/
def exA : Tree :=
  .dir [0x61] (.file [0x62] ⟨0o100644, idA⟩ (.file [0x63] ⟨0o100755, idB⟩ .nil))
    (.file [0x61, 0x2d] ⟨0o160000, idA⟩
      (.dir [0x64] (.file [0x78] ⟨0o100644, idA⟩ (.file [0x79] ⟨0o100644, idB⟩ .nil)) .nil))
def exB : Tree :=
  .file [0x61] ⟨0o100644, idB⟩
    (.file [0x61, 0x2d] ⟨0o160000, idB⟩
      (.file [0x61, 0x2e, 0x62] ⟨0o120000, idA⟩
        (.dir [0x64] (.file [0x78] ⟨0o100644, idA⟩ (.file [0x79] ⟨0o100644, idB⟩ .nil)) .nil)))

/-- non-vacuity of `diff_sound_complete` / `each_path_once` / `diff_with_renames_sound_complete`: all hypotheses hold
on a non-trivial pair (with the identity as "hash"), and the diff has five changes -/
example : exA.WF = true ∧ exB.WF = true ∧ IdInjectiveOn id (exA :: exA.subtrees) (exB :: exB.subtrees) := by
  refine ⟨by decide, by decide, ?_⟩
  unfold IdInjectiveOn
  decide
example : (treeChanges id ⟨false, false, false⟩ none (some exA) (some exB)).map (·.type) =
    [.add, .delete, .delete, .modify, .add] := by decide
example : applyChanges (treeChanges id ⟨false, false, true⟩ none (some exA) (some exB)) exA.flatten = exB.flatten :=
  diff_sound_complete id false true exA exB (fun _ => by unfold IdInjectiveOn; decide) (by decide) (by decide)
/-- a pairing that turns (delete a/b, add a) into a rename and (add a.b) into a copy -/
example : applyChanges (renamePass (fun _ => [.rename ⟨[[0x61], [0x62]], 0o100644, idA⟩ ⟨[[0x61]], 0o100644, idB⟩,
      .copy ⟨[[0x64], [0x78]], 0o100644, idA⟩ ⟨[[0x61, 0x2e, 0x62]], 0o120000, idA⟩])
    (treeChanges id ⟨false, false, false⟩ none (some exA) (some exB))) exA.flatten = exB.flatten :=
  diff_with_renames_sound_complete id false false _ exA exB (fun _ => by unfold IdInjectiveOn; decide) (by decide) (by decide)
/-- with want_unchanged the two entries below `d/` are reported as unchanged and the patch image is the same -/
example : (treeChanges id ⟨true, false, false⟩ none (some exA) (some exB)).map (·.type) =
    [.add, .delete, .delete, .modify, .add, .unchanged, .unchanged] := by decide
example : (renamePass (fun _ => [.rename ⟨[[0x61], [0x62]], 0o100644, idA⟩ ⟨[[0x61]], 0o100644, idB⟩])
    (treeChanges id ⟨false, false, false⟩ none (some exA) (some exB))).map (·.type) =
    [.delete, .modify, .add, .rename] := by decide
example : build_flatten exA (by decide) = build_flatten exA (by decide) := rfl
example : commitTree exA.flatten = some exA := by decide
/-- non-vacuity of `apply_diff_equals_rebuild` on the pair exA → exB (directory `a` replaced by a file, gitlink bumped,
symlink added, identical sub-tree `d`) -/
example : ctcResult (commitTreeChanges exA (toTChanges (treeChanges id ⟨false, false, false⟩ none (some exA) (some exB)))) =
    some exB := by decide


/-- the file/directory conflict is outside the hypothesis and reported as such -/
example : commitTree [⟨[[0x61]], 0o100644, idA⟩, ⟨[[0x61], [0x62]], 0o100644, idB⟩] = none := by decide
end Examples

end Dulwich.Props.C12
