/-
  C05 — fetch, clone and push transfer a complete, byte-identical object closure.

  Only property theorems, non-vacuity examples and negation witnesses live here.  The model is
  Model/Graph.lean (object graph, `Reach`) + Model/Missing.lean (`_split_commits_and_tags`,
  `_collect_ancestors`, `_collect_filetree_revs`, `MissingObjectFinder` with an arbitrary pop order,
  thin-pack completion) + Model/Negotiate.lean (have/ack walkers); the structural facts the model
  depends on come from Gen/ObjGraph.lean, regenerated from /repo on every run.  Helper lemmas are in
  Lemmas/Missing.lean.

  Reading guide.  `s` is the sender's object store, `haves`/`wants` the arguments of
  `MissingObjectFinder`, `present s haves` the haves the sender actually has (the others are ignored),
  `pick` the pop order of `objects_to_send` (ANY function), `tagged` the `get_tagged()` map.
  `mof … = .ok sent` means the real iteration finished without an exception and yielded `sent`.
-/
import DulwichModel.Lemmas.Missing
import DulwichModel.Lemmas.Negotiate
import DulwichModel.Lemmas.Shallow

namespace Dulwich.Props.C05
open Dulwich Dulwich.Graph Dulwich.Missing

/-! ## 0. The executable closure (`closure`, what the driver computes) is exactly `Reach`. -/

theorem closure_eq_reach (s : Store) (fuel : Nat) (roots l : List Id)
    (h : closure s fuel roots = some l) : ∀ x, x ∈ l ↔ Reach s roots x := by
  intro x
  constructor
  · exact closureAux_sound s roots fuel roots [] l h (fun y hy => .root hy) (by simp) x
  · intro hx
    have hc := closureAux_complete s fuel roots [] l h (by simp)
    exact Reach.induct (P := fun x => x ∈ l) hc.2.1 (fun y o c hy hs hcm => hc.2.2 y hy o hs c hcm) hx

/-! ## 1. Soundness: nothing outside the closure of the wants is selected, apart from tags followed
automatically.  No hypothesis: any store (closed or not, well-typed or not), any haves, any
shallow set, any pop order, any fuel. -/

theorem mof_sound (s : Store) (tagged : List (Id × Id)) (pick : Nat → List (Id × Bool) → Nat)
    (fuel : Nat) (haves wants shallow sent : List Id)
    (h : mof s tagged pick fuel haves wants shallow = .ok sent) :
    ∀ x ∈ sent, Reach s wants x ∨ x ∈ tagged.map (·.2) := by
  unfold mof at h
  split at h
  · cases h
  · rename_i st0 h0
    split at h
    · cases h
    · rename_i st hrun
      cases h
      exact (run_sinv fuel st0 st (init_sinv tagged h0) hrun).2

/-- Without `include-tag` (empty `get_tagged`) the selection lies inside the closure of the wants. -/
theorem mof_sound_no_tags (s : Store) (pick : Nat → List (Id × Bool) → Nat)
    (fuel : Nat) (haves wants shallow sent : List Id)
    (h : mof s [] pick fuel haves wants shallow = .ok sent) : ∀ x ∈ sent, Reach s wants x := by
  intro x hx
  rcases mof_sound s [] pick fuel haves wants shallow sent h x hx with h1 | h1
  · exact h1
  · simp at h1

/-- What the sender assumes the receiver has (`get_remote_has()`, the initial `sha_done`) is
reachable from haves *the sender's store contains*: a have is never taken as common on the
client's word alone. -/
theorem remote_has_reachable_from_known_haves (s : Store) (fuel : Nat) (haves wants rh : List Id)
    (h : mofRemoteHas s fuel haves wants [] = .ok rh) : ∀ x ∈ rh, Reach s (present s haves) x := by
  unfold mofRemoteHas at h
  split at h
  · cases h
  · rename_i st0 h0
    cases h
    obtain ⟨p⟩ := init_parts h0
    have hhs := split_sound s true fuel haves p.hh p.hsplit
    have hanc := collectAncestors_sound s [] [] (Reach s (present s haves))
      (fun y t ps x hy hs hx => .step hy hs (by simp [children, hx])) fuel p.hh.1 [] [] p.anc p.hanc
      (fun x hx => (hhs.1 x hx).1) (by simp) (by simp)
    have hbases := collectAncestors_sound s p.anc.1 [] (fun _ => True) (fun _ _ _ _ _ _ _ => trivial)
      fuel p.w.1 [] [] p.mc p.hmc (by simp) (by simp) (by simp)
    have hrh := remoteHas_sound s _ (reach_edgeClosed s _) fuel p.mc.2 p.rh p.hrh
      (fun x hx => hanc.1 x (hbases.2 x hx).2)
    intro x hx
    rw [p.hdone] at hx
    simp only [List.mem_append] at hx
    rcases hx with hx | hx
    · exact (hhs.2.1 x hx).1
    · exact hrh x hx

/-! ## 2. Completeness: everything reachable from the wants is selected or reachable from a have
the sender knows.  Hypotheses: the store is well typed (tree-entry modes agree with object types —
true of every store of real objects), `get_tagged` maps a name to a tag *of that name* (direct
tags), no shallow cut.  Any pop order, any fuel for which the run ends. -/

theorem mof_complete (s : Store) (tagged : List (Id × Id)) (pick : Nat → List (Id × Bool) → Nat)
    (fuel : Nat) (haves wants sent : List Id) (hwt : WellTyped s) (htg : TaggedDirect s tagged)
    (h : mof s tagged pick fuel haves wants [] = .ok sent) :
    ∀ x, Reach s wants x → x ∈ sent ∨ Reach s (present s haves) x :=
  mof_complete_core hwt htg h

/-- Full statement of completeness (arbitrary `get_tagged`, with shallow cut relative to the
boundary); `mof_complete` proves it for direct-tag maps and `shallow = []`. -/
def MofCompleteStatement : Prop :=
  ∀ (s : Store) (tagged : List (Id × Id)) (pick : Nat → List (Id × Bool) → Nat) (fuel : Nat)
    (haves wants sent : List Id), WellTyped s →
    mof s tagged pick fuel haves wants [] = .ok sent →
    ∀ x, Reach s wants x → x ∈ sent ∨ Reach s (present s haves) x

/-! ## 3. Refinement to "receiver := receiver ∪ sent": after the transfer the receiver holds every
object reachable from the wants, identical to the sender's.

Hypotheses about the receiver `r` (exactly these):
 * `hR`  — for every have the sender knows, the receiver holds its whole closure, with the sender's
           contents (the receiver only claims commits whose closure it holds, and content
           addressing makes equal names equal objects);
 * `hA`  — on every other name both stores have, they agree (content addressing);
 and about the sender: `hS` — it holds the closure of the wants. -/

theorem transfer_complete (s r : Store) (tagged : List (Id × Id))
    (pick : Nat → List (Id × Bool) → Nat) (fuel : Nat) (haves wants sent : List Id)
    (hwt : WellTyped s) (htg : TaggedDirect s tagged)
    (h : mof s tagged pick fuel haves wants [] = .ok sent)
    (hS : ClosedFor s wants)
    (hR : ∀ x, Reach s (present s haves) x → r x = s x)
    (hA : ∀ x o o', r x = some o → s x = some o' → o = o') :
    (∀ x, Reach s wants x → union r (restrict s sent) x = s x ∧ (s x).isSome = true) ∧
    ClosedFor (union r (restrict s sent)) wants := by
  have key : ∀ x, Reach s wants x → union r (restrict s sent) x = s x ∧ (s x).isSome = true := by
    intro x hx
    have hsome := hS x hx
    refine ⟨?_, hsome⟩
    rcases mof_complete s tagged pick fuel haves wants sent hwt htg h x hx with h1 | h1
    · simp only [union, restrict, h1, if_true]
      cases hr : r x with
      | none => simp
      | some o =>
        cases hsx : s x with
        | none => simp [hsx] at hsome
        | some o' => simp [hA x o o' hr hsx]
    · simp only [union, hR x h1]
      cases hsx : s x with
      | none => simp [hsx] at hsome
      | some o => simp
  refine ⟨key, ?_⟩
  -- reachability in the receiver's new store stays inside the sender's closure of the wants
  have sub : ∀ x, Reach (union r (restrict s sent)) wants x → Reach s wants x := by
    intro x hx
    induction hx with
    | root hm => exact .root hm
    | step _ hs hc ih => exact .step ih ((key _ ih).1 ▸ hs) hc
  intro x hx
  have := key x (sub x hx)
  rw [this.1]; exact this.2

/-! ## 4. The selected SET does not depend on the order in which `objects_to_send.pop()` returns
entries (same hypotheses as completeness). -/

theorem mof_order_independent (s : Store) (tagged : List (Id × Id))
    (pick₁ pick₂ : Nat → List (Id × Bool) → Nat) (fuel : Nat) (haves wants sent₁ sent₂ : List Id)
    (hwt : WellTyped s) (htg : TaggedDirect s tagged)
    (h₁ : mof s tagged pick₁ fuel haves wants [] = .ok sent₁)
    (h₂ : mof s tagged pick₂ fuel haves wants [] = .ok sent₂) :
    ∀ x, x ∈ sent₁ ↔ x ∈ sent₂ := by
  unfold mof at h₁ h₂
  split at h₁
  · cases h₁
  rename_i st0 h0
  rw [h0] at h₂
  simp only at h₂
  split at h₁
  · cases h₁
  rename_i st1 hrun1
  split at h₂
  · cases h₂
  rename_i st2 hrun2
  cases h₁; cases h₂
  intro x
  rw [run_eq_sel hwt htg h0 hrun1 x, run_eq_sel hwt htg h0 hrun2 x]

/-- Nothing the sender believes the receiver has is sent again. -/
theorem mof_skips_remote_has (s : Store) (tagged : List (Id × Id))
    (pick : Nat → List (Id × Bool) → Nat) (fuel : Nat) (haves wants sent rh : List Id)
    (hwt : WellTyped s) (htg : TaggedDirect s tagged)
    (h : mof s tagged pick fuel haves wants [] = .ok sent)
    (hrh : mofRemoteHas s fuel haves wants [] = .ok rh) : ∀ x ∈ sent, x ∉ rh := by
  unfold mof at h
  unfold mofRemoteHas at hrh
  split at h
  · cases h
  rename_i st0 h0
  rw [h0] at hrh
  cases hrh
  split at h
  · cases h
  rename_i st hrun
  cases h
  intro x hx hd
  have := (run_eq_sel hwt htg h0 hrun x).mp hx
  cases this with
  | root _ hne => exact hne hd
  | kid _ _ _ hne => exact hne hd
  | tag _ _ hne => exact hne hd

/-! ## 5. Thin packs: after `extend_pack` has appended the external bases the pack is
self-contained (every delta base is in the pack). -/

theorem thin_pack_completion (have_ : Id → Bool) (p p' : List PackEntry)
    (h : completeThin have_ p = .ok p') : SelfContained p' :=
  completeThin_selfContained h

/-- …and completion fails (instead of installing an unusable pack) when a base is missing. -/
theorem thin_pack_missing_base (have_ : Id → Bool) (p : List PackEntry) (b : Id)
    (hb : b ∈ extRefs p) (hm : have_ b = false) : completeThin have_ p = .error .key := by
  unfold completeThin
  have : (extRefs p).all have_ = false := by
    rw [List.all_eq_false]
    exact ⟨b, hb, by simp [hm]⟩
  simp [this]

/-! ## 6. Negotiation only ever shrinks the haves to (what the client claimed) ∩ (what the server's
store contains), in every ack mode, for every client transcript. -/

open Dulwich.Negotiate in
theorem negotiation_sound (mode : AckMode) (stateless : Bool) (has : Id → Bool) (sat : List Id → Bool)
    (lines : List CLine) (r : NegoResult) (h : negotiate mode stateless has sat lines = .ok r) :
    ∀ x ∈ r.haves, has x = true ∧ CLine.have_ x ∈ lines :=
  negotiate_haves_sound mode stateless has sat lines r h

open Dulwich.Negotiate in
/-- A pack is sent only after `done`, unless `no-done` was negotiated and something is common. -/
theorem negotiation_pack_needs_done (mode : AckMode) (stateless : Bool) (has : Id → Bool)
    (sat : List Id → Bool) (lines : List CLine) (r : NegoResult)
    (_h : negotiate mode stateless has sat lines = .ok r) (noDone : Bool)
    (hp : sendsPack mode r noDone = true) : r.doneReceived = true ∨ (noDone = true ∧ r.common ≠ []) :=
  sendsPack_needs_done mode r noDone hp

/-- The server-side want validation the model of a served transfer presupposes is present in the
source (`determine_wants`: `if sha_result not in values: raise GitProtocolError`), as is the store
check on haves (`find_common_revisions`: `if sha in self`).  Regenerated from /repo on every run:
removing either check breaks this obligation. -/
theorem validation_checks_in_source :
    Gen.wantCheckedAgainstAdvertised = true ∧ Gen.haveCheckedAgainstStore = true := by decide

/-! ## 6b. Shallow boundaries on the wire.

A shallow receiver announces its whole boundary in every request — whatever the depth argument
(none, 0, finite, infinite), with or without deepen-since / deepen-not, protocol v0/v1 or v2.  The
sender can then never take history below the boundary for present. -/

open Dulwich.Shallow in
theorem request_announces_boundary (st : ClientSt) (wants : List Id) (depthOpt : Option Nat)
    (since exclude v2 : Bool) :
    shallowLines (mkRequest st wants depthOpt since exclude v2) = st.shallow := by
  have flat : ∀ l : List ReqLine, (∀ e ∈ l, ∀ x, e ≠ ReqLine.shallow x) → shallowLines l = [] := by
    intro l hl
    induction l with
    | nil => rfl
    | cons e es ih =>
      have he := hl e (by simp)
      have := ih (fun e' he' => hl e' (by simp [he']))
      cases e <;> simp_all [shallowLines]
  by_cases hs : st.shallow = []
  · -- nothing to announce: no line of the request is a shallow line
    rw [hs]
    apply flat
    intro e he x hx
    subst hx
    unfold mkRequest at he
    rw [hs] at he
    cases depthOpt <;> cases since <;> cases exclude <;> cases v2 <;> simp [deepening] at he <;>
      (try split at he) <;> simp at he
  · have hne : st.shallow.isEmpty = false := by
      cases h : st.shallow with
      | nil => exact absurd h hs
      | cons _ _ => rfl
    have hg : (deepening depthOpt since exclude || (Gen.headAnnouncesWhenShallow && !st.shallow.isEmpty)) = true := by
      simp [Gen.headAnnouncesWhenShallow, hne]
    unfold mkRequest
    rw [if_pos hg]
    simp only [shallowLines_append, shallowLines_want, shallowLines_shallow, List.nil_append]
    have r2 : shallowLines (if since = true then [ReqLine.deepenSince] else []) = [] := by cases since <;> rfl
    have r3 : shallowLines (if exclude = true then [ReqLine.deepenNot] else []) = [] := by cases exclude <;> rfl
    have r4 : shallowLines (if v2 = true then [] else [ReqLine.flush]) = [] := by cases v2 <;> rfl
    have r5 : shallowLines [ReqLine.done] = [] := rfl
    have r6 : shallowLines (if v2 = true then [ReqLine.flush] else []) = [] := by cases v2 <;> rfl
    simp only [r2, r3, r4, r5, r6, List.append_nil]
    cases depthOpt <;> simp [shallowLines]

open Dulwich.Shallow in
/-- The server never tells the client to unshallow a commit the wants do not reach, at any depth
(the infinite one included): every `unshallow X` names one of the client's shallow commits that is
reachable from this fetch's wants, so its ancestry is part of what this transfer covers. -/
theorem unshallow_sound (s : Store) (fuel : Nat) (wants clientShallow : List Id) (depth : Nat)
    (a : Answer) (h : shallowAnswer s fuel wants clientShallow depth = .ok a) :
    ∀ x ∈ a.unshallow, Reach s wants x ∧ x ∈ clientShallow := by
  unfold shallowAnswer at h
  split at h
  · cases h
  · rename_i r hr
    cases h
    have hs := findShallow_sound s fuel wants depth r hr
    intro x hx
    simp only [Gen.unshallowFromWalk, if_true, List.mem_filter] at hx
    exact ⟨hs.2 x hx.1, by simpa using hx.2⟩

open Dulwich.Shallow in
/-- …and a new boundary commit is reachable from the wants and was not a boundary of the client. -/
theorem new_shallow_sound (s : Store) (fuel : Nat) (wants clientShallow : List Id) (depth : Nat)
    (a : Answer) (h : shallowAnswer s fuel wants clientShallow depth = .ok a) :
    ∀ x ∈ a.newShallow, Reach s wants x ∧ x ∉ clientShallow := by
  unfold shallowAnswer at h
  split at h
  · cases h
  · rename_i r hr
    cases h
    have hs := findShallow_sound s fuel wants depth r hr
    intro x hx
    simp only [List.mem_filter] at hx
    exact ⟨hs.1 x hx.1.1, by simpa using hx.2⟩

/-! ## 7. Non-vacuity: a concrete history (root commit 2, child commit 5 sharing a subtree and
carrying a gitlink, a tag 6 of the commit, a tag 7 of the tag) on which all hypotheses hold. -/

def demo : List (Id × Obj) :=
  [(0, .blob), (1, .tree [(.file, 0)]), (2, .commit 1 []),
   (3, .blob), (4, .tree [(.file, 3), (.dir, 1), (.gitlink, 9)]), (5, .commit 4 [2]),
   (6, .tag 5), (7, .tag 6)]

/-- Infinite deepen of `main` (7 → commit 5) by a client shallow at 5 and at a commit the wants do not
reach (12, on another root): only 5 is unshallowed. -/
example :
    (Dulwich.Shallow.shallowAnswer (ofList (demo ++ [(10, .blob), (11, .tree [(.file, 10)]), (12, .commit 11 [])]))
      40 [7] [5, 12] 0x7FFFFFFF).map (·.unshallow) = .ok [5] := by decide

theorem demo_wellTyped : WellTyped (ofList demo) := wellTyped_ofList demo (by decide)

theorem demo_taggedDirect : TaggedDirect (ofList demo) [(5, 6)] := by
  intro x t h
  simp only [List.lookup] at h
  split at h
  · cases h
    rename_i heq
    have : x = 5 := by simpa using heq
    subst this
    exact .inl (by decide)
  · simp at h

/-- Receiver has the root commit; wants the outer tag: newest-first and oldest-first pop orders
yield the same set; the gitlink target 9 is not selected; the root tree 1 of the boundary commit is
selected again (`get_tree_objects` leaves the root out of `remote_has` — over-sending inside the
closure of the wants, which the property allows). -/
example : mof (ofList demo) [] (fun _ _ => 0) 40 [2] [7] [] = .ok [6, 7, 1, 3, 4, 5] := by decide
example : mof (ofList demo) [] (fun _ t => t.length - 1) 40 [2] [7] [] = .ok [3, 1, 4, 5, 7, 6] := by
  decide
/-- With `include-tag` the tag of the sent commit travels although only the commit was wanted. -/
example : mof (ofList demo) [(5, 6)] (fun _ _ => 0) 40 [2] [5] [] = .ok [1, 3, 4, 6, 5] := by decide

example : ∀ x, Reach (ofList demo) [7] x → x ∈ [6, 7, 1, 3, 4, 5] ∨ Reach (ofList demo) (present (ofList demo) [2]) x :=
  mof_complete (ofList demo) [] (fun _ _ => 0) 40 [2] [7] _ demo_wellTyped
    (by intro x t h; simp at h) (by decide)

/-! ## 8. Negation witnesses: what the hypotheses are for. -/

/-- `get_tagged` maps the *peeled* target of a tag chain to the outer tag (as
`UploadPackHandler.get_tagged` does): the outer tag 7 is queued as a leaf and yielded, the inner
tag 6 it points to is not — the yielded set is not closed.  (The wants' own closure is still
complete; this is why `TaggedDirect` is a hypothesis of the exact characterisation only.) -/
theorem autotag_chain_counterexample :
    mof (ofList demo) [(5, 7)] (fun _ _ => 0) 40 [2] [5] [] = .ok [1, 3, 4, 7, 5] ∧
    ofList demo 7 = some (.tag 6) ∧ 6 ∉ [1, 3, 4, 7, 5] := by decide

/-- A have whose closure the receiver does not hold: the receiver claims commit 2 but lacks its
tree 1's blob 0; the sender (rightly, by the protocol) does not send it and the receiver stays
incomplete.  This is hypothesis `hR` of `transfer_complete`. -/
theorem have_without_closure_counterexample :
    let s := ofList demo
    let r : Store := ofList [(2, .commit 1 []), (1, .tree [(.file, 0)])]
    mof s [] (fun _ _ => 0) 40 [2] [5] [] = .ok [1, 3, 4, 5] ∧
    Reach s [5] 0 ∧ union r (restrict s [1, 3, 4, 5]) 0 = none := by
  refine ⟨by decide, ?_, by decide⟩
  have h5 : Reach (ofList demo) [5] 5 := .root (by simp)
  have h4 : Reach (ofList demo) [5] 4 := .step h5 (o := .commit 4 [2]) (by decide) (by simp [children])
  have h1 : Reach (ofList demo) [5] 1 :=
    .step h4 (o := .tree [(.file, 3), (.dir, 1), (.gitlink, 9)]) (by decide) (by decide)
  exact .step h1 (o := .tree [(.file, 0)]) (by decide) (by decide)

/-- Gitlinks are not edges: the submodule commit 9 named by tree 4 is not reachable. -/
theorem gitlink_not_followed : ¬ Reach (ofList demo) [7] 9 := by
  intro h
  have hdec : ∀ y, y < 8 → ∀ c ∈ ((ofList demo y).map children).getD [], c < 8 := by decide
  have : ∀ x, Reach (ofList demo) [7] x → x < 8 := by
    intro x hx
    refine Reach.induct (P := fun x => x < 8) (by simp) ?_ hx
    intro y o c hy hs hc
    exact hdec y hy c (by simpa [hs] using hc)
  exact absurd (this 9 h) (by decide)

/-- The mode classification the walk uses agrees with `S_ISGITLINK` / `S_ISDIR` on git's modes. -/
theorem kind_of_git_modes :
    kindOfMode 0o160000 = .gitlink ∧ kindOfMode 0o040000 = .dir ∧ kindOfMode 0o100644 = .file ∧
    kindOfMode 0o100755 = .file ∧ kindOfMode 0o120000 = .file := by decide

end Dulwich.Props.C05
