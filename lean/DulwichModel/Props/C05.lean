/-
  C05 — fetch, clone and push transfer a complete, byte-identical object closure.
  (work in progress: theorems are added below)
-/
import DulwichModel.Model.Missing

namespace Dulwich.Props.C05
open Dulwich Dulwich.Graph Dulwich.Missing

theorem kind_gitlink : kindOfMode 0o160000 = Kind.gitlink := by decide

end Dulwich.Props.C05
