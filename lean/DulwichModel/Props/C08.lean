/-
  C08 — Ref updates are atomic compare-and-swap; concurrent commits are never lost.

  Only property theorems, non-vacuity examples and negation witnesses live here; the model is
  Model/RefsFS.lean (every operation of `DiskRefsContainer` as a program of system calls, any number of
  actors, interleaving semantics), helper lemmas are in Lemmas/RefsFS.lean, the ordering flags and the
  call/compare skeletons of the modelled methods come from Gen/RefsFS.lean (regenerated from /repo on every run).
-/
import DulwichModel.Lemmas.RefsFS

namespace Dulwich.Props.C08
open Dulwich Dulwich.RefsFS

/-! ## 0. The model was written against this code

The methods the model transcribes have the call/compare skeleton the model was written against, and the generated
ordering flags have the values of the repaired source: any reordering, dropped re-read, changed comparison,
changed argument of the swap — or the revert of one of the fixes — breaks one of these. -/

theorem skeleton_readers :
    Gen.RefsFS.skel_follow = [
      "call:read_ref", "cmp:depth > 5", "raise:SymrefLoop(name, depth)",
      "return:(refnames, ObjectID(contents) if contents else None)"] ∧
    Gen.RefsFS.skel_readRef = [
      "call:read_loose_ref", "call:get_packed_refs", "return:contents"] ∧
    Gen.RefsFS.skel_getPackedRefs = [
      "cmp:self._packed_refs is not None", "cmp:self._packed_refs_key != self._current_packed_refs_key()",
      "call:_invalidate_packed_refs_cache", "cmp:self._packed_refs is None", "call:GitFile", "return:{}",
      "cmp:b' peeled' in first_line", "return:self._packed_refs"] ∧
    Gen.RefsFS.skel_allKeys = [
      "call:exists", "call:get_packed_refs", "return:allkeys"] := by
  decide

theorem skeleton_setIfEquals :
    Gen.RefsFS.skel_setIfEquals = [
      "call:follow", "call:_check_packed_conflict", "call:get_packed_refs", "call:GitFile",
      "cmp:old_ref is not None", "call:read_loose_ref", "cmp:orig_ref is None", "call:get_packed_refs",
      "cmp:orig_ref != old_ref", "call:abort", "return:False", "call:abort", "raise:", "call:read_loose_ref",
      "cmp:current_ref is None", "cmp:current_ref is not None", "cmp:current_ref == new_ref", "call:abort",
      "return:True", "call:_remove_empty_directories", "call:write", "call:abort", "raise:", "return:True"] ∧
    Gen.RefsFS.skel_checkPackedConflict = [
      "call:get_packed_refs", "cmp:packed_refs.get(probe_ref, None) is not None",
      "raise:NotADirectoryError(filename)", "raise:IsADirectoryError(filename)"] := by
  decide

theorem skeleton_addIfNew :
    Gen.RefsFS.skel_addIfNew = [
      "call:follow", "cmp:contents is not None", "return:False", "call:_check_packed_conflict", "call:GitFile",
      "call:_remove_empty_directories", "call:exists", "cmp:realname in self.get_packed_refs()",
      "call:get_packed_refs", "call:abort", "return:False", "call:write", "call:abort", "raise:", "return:True"] ∧
    Gen.RefsFS.addIfNewChecksName = false := by
  decide

theorem skeleton_removeIfEquals :
    Gen.RefsFS.skel_removeIfEquals = [
      "call:GitFile", "cmp:old_ref is not None", "call:read_loose_ref", "cmp:orig_ref is None",
      "call:get_packed_refs", "cmp:orig_ref is None", "cmp:orig_ref != old_ref", "return:False",
      "call:lexists", "call:_remove_packed_ref", "call:isdir", "call:islink", "call:_remove_empty_directories",
      "call:remove", "call:abort", "cmp:parent == b'refs'", "return:True"] ∧
    Gen.RefsFS.rmLooseBeforePacked = false ∧
    Gen.RefsFS.skel_removePackedRef = [
      "cmp:name not in self.get_packed_refs()", "call:get_packed_refs", "return:", "call:GitFile",
      "call:_invalidate_packed_refs_cache", "call:copy", "call:get_packed_refs", "call:copy",
      "cmp:self._peeled_refs is not None", "cmp:name not in packed_refs", "call:abort", "return:",
      "cmp:peeled_refs is not None", "call:pop", "call:write_packed_refs", "call:close", "call:abort",
      "call:_invalidate_packed_refs_cache"] := by
  decide

theorem skeleton_packRefs :
    Gen.RefsFS.skel_addPackedRefs = [
      "return:", "call:GitFile", "call:copy", "call:get_packed_refs", "cmp:ref == HEADREF",
      "raise:ValueError('cannot pack HEAD')", "cmp:ref in packed_refs", "cmp:packed_refs[ref] != target",
      "call:pop", "cmp:target is not None", "call:pop", "call:write_packed_refs", "cmp:target is not None",
      "call:_prune_loose_ref", "call:remove", "call:_invalidate_packed_refs_cache"] ∧
    Gen.RefsFS.skel_packRefs = [
      "call:allkeys", "cmp:ref == HEADREF", "call:read_ref",
      "call:add_packed_refs(refs_to_pack, prune_only_if_unchanged=True)"] ∧
    Gen.RefsFS.skel_pruneLooseRef = [
      "call:GitFile", "return:", "call:read_loose_ref", "cmp:self.read_loose_ref(name) == expected",
      "call:remove", "call:abort"] ∧
    Gen.RefsFS.packRemovesLooseBeforeReplace = false ∧
    Gen.RefsFS.packPrunesUnderRefLock = true := by
  decide

theorem skeleton_setSymbolicRef :
    Gen.RefsFS.skel_setSymbolicRef = [
      "call:_check_packed_conflict", "call:GitFile", "call:_remove_empty_directories", "call:write",
      "call:follow", "call:abort", "raise:", "call:close"] := by
  decide

theorem skeleton_lockFile :
    Gen.RefsFS.skel_gitFileClose = [
      "return:", "call:close", "cmp:getattr(os, 'replace', None) is not None", "cmp:sys.platform != 'win32'",
      "call:abort"] ∧
    Gen.RefsFS.skel_gitFileAbort = [
      "return:", "call:close", "call:remove"] := by
  decide

theorem skeleton_commit :
    Gen.RefsFS.skel_worktreeCommit = [
      "assign:old_head = self._repo.refs[ref]", "getitem:self._repo.refs[ref]",
      "call:set_if_equals(ref, old_head, c.id)", "call:add_if_new(ref, c.id)"] ∧
    Gen.RefsFS.worktreeCommitHeadReads = 1 ∧
    Gen.RefsFS.skel_memoryDoCommit = [
      "assign:old_head = self.refs[ref]", "getitem:self.refs[ref]", "call:set_if_equals(ref, old_head, c.id)",
      "call:add_if_new(ref, c.id)"] ∧
    Gen.RefsFS.memoryCommitHeadReads = 1 ∧
    Gen.RefsFS.skel_dictSetIfEquals = [
      "cmp:old_ref is not None", "cmp:self._refs.get(name, ZERO_SHA) != old_ref", "return:False", "return:True"] ∧
    Gen.RefsFS.skel_dictAddIfNew = [
      "cmp:name in self._refs", "return:False", "return:True"] := by
  decide

/-! ## 1. Conditional updates over loose refs are linearizable

Setting: any number of actors, actor `a` performs `ops[a]`, one of {read_ref, set_if_equals (conditional,
create-only `ZERO_SHA`, or unconditional = `__setitem__`), add_if_new, remove_if_equals (conditional or
unconditional = `__delitem__`)} on refs that hold object ids (no symbolic refs, no packed-refs file: the LOOSE
fragment), under EVERY schedule (`sched` is an arbitrary list of actor numbers; one entry = one system call).

Linearization points (computed by the ghost `Phase` in Lemmas/RefsFS.lean): the `os.replace` of the lock file
for a successful set/create, the `os.remove` of the loose file for a delete, the release of the lock for an
operation that fails its comparison (or finds nothing to do), the failed `O_EXCL` open for a `FileLocked`
loser, the `open()` for a reader — each is one step of the operation itself, hence inside its interval. -/

/-- **cas_linearizable_loose.**  For every schedule:
(1) the run of the instrumented system is the run of the model (`runSched`);
(2) the sequence of linearization events is a legal sequential history of the map specification
    (`specRun` replays it from the initial map: every event returns what `specVal` says and changes the ref as
    `specVal` says; losers change nothing) and ends in exactly the ref map on disk;
(3) an operation that has returned `o` has a linearization event with outcome `o`;
(4) an operation that has no linearization event yet has not returned;
(5) no operation is linearized twice. -/
theorem cas_linearizable_loose (env : Env) (vr : Variant) (loose0 : Ref → Option Val) (ops : List Op)
    (hsha : ∀ r, IsSha (loose0 r)) (hops : ∀ op, op ∈ ops → LooseOp op) (sched : List Actor) :
    let s := irun env vr ops (IState.init env vr (FS.init loose0 none) ops) sched
    s.cfg = runSched env vr (Config.init env vr (FS.init loose0 none) (ops.map fun op => [op])) sched ∧
    (∃ m, specRun loose0 s.log = some m ∧ ∀ r, m r = s.cfg.fs.loose r) ∧
    (∀ a op o, ops[a]? = some op → s.cfg.outs a = [o] →
      ∃ e, e ∈ s.log ∧ e.actor = a ∧ e.op = op ∧ e.out = o) ∧
    (∀ a op, ops[a]? = some op → (∀ e, e ∈ s.log → e.actor ≠ a) → s.cfg.outs a = []) ∧
    (∀ a, evCount a s.log ≤ 1) := by
  intro s
  have h0 := inv_init env vr loose0 ops hsha hops
  have hinv : Inv loose0 ops s := inv_irun env vr loose0 ops _ sched h0
  have hu0 : Uniq (IState.init env vr (FS.init loose0 none) ops) := fun a => ⟨by simp [evCount, IState.init],
    fun _ => by simp [evCount, IState.init]⟩
  refine ⟨irun_cfg env vr loose0 ops _ sched h0, hinv.spec, ?_, ?_,
    fun a => (uniq_irun env vr loose0 ops _ sched h0 hu0 a).1⟩
  · intro a op o hop houts
    have hlog := hinv.logOut a op hop
    have halt : a < s.cfg.actors.length := by
      rw [hinv.lenA]
      exact (List.getElem?_eq_some_iff.mp hop).1
    have hst : s.cfg.actors[a]? = some s.cfg.actors[a] := List.getElem?_eq_getElem halt
    obtain ⟨_, hdisc, _, hret, hcall⟩ := hinv.act a op _ hop hst
    simp only [Config.outs, hst] at houts
    cases hp : (s.cfg.actors[a]).prog with
    | call c k =>
      rw [hcall c k hp] at houts
      cases houts
    | ret o' c =>
      rw [hret o' c hp] at houts
      simp only [List.cons.injEq, and_true] at houts
      subst houts
      rw [hp] at hdisc
      have hph := (disc_ret.mp hdisc).1
      rw [hph] at hlog
      exact hlog
  · intro a op hop hno
    have hlog := hinv.logOut a op hop
    have halt : a < s.cfg.actors.length := by
      rw [hinv.lenA]
      exact (List.getElem?_eq_some_iff.mp hop).1
    have hst : s.cfg.actors[a]? = some s.cfg.actors[a] := List.getElem?_eq_getElem halt
    obtain ⟨_, hdisc, _, hret, hcall⟩ := hinv.act a op _ hop hst
    simp only [Config.outs, hst]
    cases hp : (s.cfg.actors[a]).prog with
    | call c k => exact hcall c k hp
    | ret o' c =>
      rw [hp] at hdisc
      have hph := (disc_ret.mp hdisc).1
      rw [hph] at hlog
      obtain ⟨e, he, hea, _⟩ := hlog
      exact absurd hea (hno e he)

/-- What legality of the sequential history means for a conditional update: **it succeeds only if the ref held
the expected value at the instant of its linearization (its write step)**; and an unconditional write or a
failed operation never needs a precondition.  (`some none` is `ZERO_SHA`: "must not exist".) -/
theorem conditional_success_only_if_expected (m m' : Ref → Option Val) (e : LinEv) (h : specStep m e = some m') :
    (∀ n o v, e.op = .cas n (some o) v → e.out = .bool true → m n = o ∧ m' n = some v) ∧
    (∀ n v, e.op = .add n v → e.out = .bool true → m n = none ∧ m' n = some v) ∧
    (∀ n o, e.op = .rm n (some o) → e.out = .bool true → m n = o ∧ m' n = none) ∧
    (∀ n o v, e.op = .cas n (some o) v → e.out = .bool false → m n ≠ o ∧ m' = m) ∧
    (∀ r x, e.op = .read r → e.out = .val x → x = m r) := by
  obtain ⟨a, op, out⟩ := e
  simp only [specStep] at h
  refine ⟨?_, ?_, ?_, ?_, ?_⟩
  · rintro n o v rfl rfl
    simp only [Outcome.isExc, Bool.false_eq_true, if_false, Op.target, specVal] at h
    by_cases hx : m n = o
    · simp only [hx, if_true, Option.some.injEq] at h
      subst h
      exact ⟨hx, by simp⟩
    · simp [hx] at h
  · rintro n v rfl rfl
    simp only [Outcome.isExc, Bool.false_eq_true, if_false, Op.target, specVal] at h
    cases hx : m n with
    | some w => simp [hx] at h
    | none =>
      simp only [hx, Option.isSome_none, Bool.false_eq_true, if_false, if_true, Option.some.injEq] at h
      subst h
      exact ⟨rfl, by simp⟩
  · rintro n o rfl rfl
    simp only [Outcome.isExc, Bool.false_eq_true, if_false, Op.target, specVal] at h
    by_cases hx : m n = o
    · simp only [hx, if_true, Option.some.injEq] at h
      subst h
      exact ⟨hx, by simp⟩
    · simp [hx] at h
  · rintro n o v rfl rfl
    simp only [Outcome.isExc, Bool.false_eq_true, if_false, Op.target, specVal] at h
    by_cases hx : m n = o
    · simp [hx] at h
    · simp only [hx, if_false, if_true, Option.some.injEq] at h
      subst h
      refine ⟨hx, ?_⟩
      funext r
      by_cases hr : r = n
      · subst hr; simp
      · simp [upd, hr]
  · rintro r x rfl rfl
    simp only [Outcome.isExc, Bool.false_eq_true, if_false, Op.target, specVal] at h
    by_cases hx : Outcome.val (m r) = Outcome.val x
    · cases hx; rfl
    · simp [hx] at h

/-- **reader_never_torn** (loose fragment): what a reader returns is the value the ref map held at the
reader's linearization point — the initial value or the value written by the last linearized write before it,
never a mixture and never a value that was already deleted or overwritten at that point.  (Follows from (2)/(3)
of `cas_linearizable_loose` and the `read` clause above; stated here on the specification replay.) -/
theorem reader_never_torn (m0 : Ref → Option Val) (pre : List LinEv) (e : LinEv) (post : List LinEv)
    (m : Ref → Option Val) (r : Ref) (x : Option Val)
    (hrun : specRun m0 (pre ++ e :: post) = some m) (hop : e.op = .read r) (hout : e.out = .val x) :
    ∃ mid, specRun m0 pre = some mid ∧ x = mid r := by
  rw [specRun_append] at hrun
  cases hpre : specRun m0 pre with
  | none => simp [hpre] at hrun
  | some mid =>
    refine ⟨mid, rfl, ?_⟩
    simp only [hpre, specRun] at hrun
    cases hs : specStep mid e with
    | none => simp [hs] at hrun
    | some m' => exact (conditional_success_only_if_expected mid m' e hs).2.2.2.2 r x hop hout

/-- non-vacuity: two conditional updates with the same expected value, a create and a reader, on a concrete
schedule — the hypotheses are satisfiable, exactly one update wins, the loser re-reads under the lock and gets `False`, and the
final value is the winner's. -/
example :
    let env : Env := { heads := [1, 2], order := [0, 1, 2] }
    let loose0 : Ref → Option Val := fun r => if r = 1 then some (.sha 1) else none
    let ops : List Op := [.cas 1 (some (some (.sha 1))) (.sha 5), .cas 1 (some (some (.sha 1))) (.sha 6),
                          .add 2 (.sha 7), .read 1]
    let s := irun env Variant.coded ops (IState.init env Variant.coded (FS.init loose0 none) ops)
      [0, 1, 0, 1, 0, 1, 0, 0, 0, 0, 0, 0, 0, 1, 1, 1, 1, 1, 1, 2, 2, 2, 2, 2, 2, 2, 2, 2, 3, 3, 3]
    (∀ r, IsSha (loose0 r)) ∧ (∀ op, op ∈ ops → LooseOp op) ∧
    s.cfg.outs 0 = [.bool true] ∧ s.cfg.outs 1 = [.bool false] ∧ s.cfg.outs 2 = [.bool true] ∧
    s.cfg.outs 3 = [.val (some (.sha 5))] ∧ s.cfg.fs.loose 1 = some (.sha 5) ∧ s.log.length = 4 := by
  refine ⟨?_, ?_, by decide, by decide, by decide, by decide, by decide, by decide⟩
  · intro r
    by_cases h : r = 1 <;> simp [h, IsSha]
  · intro op hop
    simp only [List.mem_cons, List.mem_nil_iff, or_false] at hop
    rcases hop with rfl | rfl | rfl | rfl <;> simp [LooseOp]

/-! ## 2. The code as it is now: `Variant.coded`

`Variant.coded` is assembled from the flags the translator regenerates from the source on every run.  The source
now has every repaired order (fixes bb5afda, 7e0c6ae, 3fe26f6, 59021a9): the theorems of this section are stated
for `Variant.coded`, so reverting one of the fixes flips a flag and breaks them. -/

/-- the generated flags are exactly the repaired orders -/
theorem coded_variant_is_repaired : Variant.coded = Variant.repaired := by
  decide

/-- order of steps before fix bb5afda (loose files unlinked BEFORE the new packed-refs is renamed in;
`remove_if_equals` unlinks the loose file BEFORE dropping the packed entry; two reads in `WorkTree.commit`;
`add_if_new` re-checks `name`) -/
def Variant.old : Variant :=
  { rmLooseFirst := true, packRemovesLooseFirst := true, addChecksName := true, commitReads := 2 }

/-- order of steps after bb5afda and before 7e0c6ae / 3fe26f6 / 59021a9 -/
def Variant.bb5afda : Variant :=
  { rmLooseFirst := false, packRemovesLooseFirst := false, addChecksName := true, commitReads := 2 }

def env0 : Env := { heads := [1, 2], order := [2, 1, 0] }

/-- refs/heads/x = ref 1, HEAD = ref 0 → x -/
def fsLoose (v : Sha) : FS := FS.init (fun r => if r = 0 then some (.sym 1) else if r = 1 then some (.sha v) else none) none
/-- x loose `l`, packed `p` (an update after packing) -/
def fsBoth (l p : Sha) : FS :=
  FS.init (fun r => if r = 0 then some (.sym 1) else if r = 1 then some (.sha l) else none) (some [(1, p)])

def finalOuts (vr : Variant) (fs : FS) (progs : List (List Op)) (sched : List Actor) (a : Actor) : List Outcome :=
  (runSched env0 vr (Config.init env0 vr fs progs) sched).outs a

def finalVal (vr : Variant) (fs : FS) (progs : List (List Op)) (sched : List Actor) (r : Ref) : Option Val :=
  absVal (runSched env0 vr (Config.init env0 vr fs progs) sched).fs r

/-- "While refs are being packed a reader of a ref that exists (and that nobody writes or deletes) gets its
value": for every schedule the reader has not finished or returns the value. -/
def ReaderDuringPackStatement (vr : Variant) : Prop :=
  ∀ sched : List Actor,
    finalOuts vr (fsLoose 1) [[.pack], [.read 1]] sched 1 = [] ∨
    finalOuts vr (fsLoose 1) [[.pack], [.read 1]] sched 1 = [.val (some (.sha 1))]

/-- the same for a ref that was updated after it had been packed: the reader must see the current value 2. -/
def ReaderDuringPackOlderStatement (vr : Variant) : Prop :=
  ∀ sched : List Actor,
    finalOuts vr (fsBoth 2 1) [[.pack], [.read 1]] sched 1 = [] ∨
    finalOuts vr (fsBoth 2 1) [[.pack], [.read 1]] sched 1 = [.val (some (.sha 2))]

/-- **as coded, every schedule of at most 28 steps** (the two programs have at most 18 steps together, so this is
every interleaving): a reader concurrent with `pack_refs` sees the value of the ref — for the never-packed ref
and for the ref that was updated after it had been packed.  (Exhaustive evaluation of the model: `reachAll`
enumerates every configuration a schedule of that length can reach.) -/
theorem reader_during_pack_refs_ok_bounded (sched : List Actor) (hlen : sched.length ≤ 28) :
    (finalOuts Variant.coded (fsLoose 1) [[.pack], [.read 1]] sched 1 = [] ∨
     finalOuts Variant.coded (fsLoose 1) [[.pack], [.read 1]] sched 1 = [.val (some (.sha 1))]) ∧
    (finalOuts Variant.coded (fsBoth 2 1) [[.pack], [.read 1]] sched 1 = [] ∨
     finalOuts Variant.coded (fsBoth 2 1) [[.pack], [.read 1]] sched 1 = [.val (some (.sha 2))]) := by
  have h1 : ((reachAll env0 Variant.coded 28 (Config.init env0 Variant.coded (fsLoose 1) [[.pack], [.read 1]])).all
      fun cfg => cfg.outs 1 == [] || cfg.outs 1 == [.val (some (.sha 1))]) = true := by decide +kernel
  have h2 : ((reachAll env0 Variant.coded 28 (Config.init env0 Variant.coded (fsBoth 2 1) [[.pack], [.read 1]])).all
      fun cfg => cfg.outs 1 == [] || cfg.outs 1 == [.val (some (.sha 2))]) = true := by decide +kernel
  have m1 := List.all_eq_true.mp h1 _ (runSched_mem_reachAll env0 Variant.coded sched 28 _ hlen)
  have m2 := List.all_eq_true.mp h2 _ (runSched_mem_reachAll env0 Variant.coded sched 28 _ hlen)
  simp only [Bool.or_eq_true, beq_iff_eq] at m1 m2
  exact ⟨m1, m2⟩

/-- "A reader concurrent with the deletion of a ref sees its value or sees it gone" — never an older value. -/
def ReaderDuringRemoveStatement (vr : Variant) : Prop :=
  ∀ sched : List Actor,
    let o := finalOuts vr (fsBoth 2 1) [[.rm 1 (some (some (.sha 2)))], [.read 1]] sched 1
    o = [] ∨ o = [.val (some (.sha 2))] ∨ o = [.val none]

/-- **as coded, every schedule of at most 28 steps** (= every interleaving of the two programs): a reader
concurrent with the deletion of a loose+packed ref sees the current value 2 or sees the ref gone, never the
older packed value 1. -/
theorem reader_during_remove_ok_bounded (sched : List Actor) (hlen : sched.length ≤ 28) :
    let o := finalOuts Variant.coded (fsBoth 2 1) [[.rm 1 (some (some (.sha 2)))], [.read 1]] sched 1
    o = [] ∨ o = [.val (some (.sha 2))] ∨ o = [.val none] := by
  have h1 : ((reachAll env0 Variant.coded 28
      (Config.init env0 Variant.coded (fsBoth 2 1) [[.rm 1 (some (some (.sha 2)))], [.read 1]])).all
      fun cfg => cfg.outs 1 == [] || (cfg.outs 1 == [.val (some (.sha 2))] || cfg.outs 1 == [.val none])) = true := by
    decide +kernel
  have m1 := List.all_eq_true.mp h1 _ (runSched_mem_reachAll env0 Variant.coded sched 28 _ hlen)
  simp only [Bool.or_eq_true, beq_iff_eq] at m1
  exact m1

/-- "An operation that raises has had no effect." -/
def FailedRemoveHasNoEffectStatement (vr : Variant) : Prop :=
  ∀ sched : List Actor,
    let fs := FS.init (fun r => if r = 1 then some (.sha 2) else none) (some [(1, 1), (2, 3)])
    finalOuts vr fs [[.rm 1 (some (some (.sha 2)))], [.rm 2 none]] sched 0 = [.exc .locked] →
    finalVal vr fs [[.rm 1 (some (some (.sha 2)))], [.rm 2 none]] sched 1 = some (.sha 2)

/-- as coded: on the schedule that left the ref half-deleted before (packed-refs.lock busy in the middle of the
delete), the delete fails before anything has changed, and the rewrite of packed-refs by the other actor carries
the untouched third ref along -/
example :
    let fs := FS.init (fun r => if r = 1 then some (.sha 2) else none) (some [(1, 1), (2, 3), (3, 4)])
    let progs : List (List Op) := [[.rm 1 (some (some (.sha 2)))], [.rm 2 none]]
    let sched := [1, 1, 1, 1, 1, 0, 0, 0, 0, 0, 0, 0, 0, 1, 1, 1, 1]
    finalOuts Variant.coded fs progs sched 0 = [.exc .locked] ∧ finalVal Variant.coded fs progs sched 1 = some (.sha 2) ∧
    finalVal Variant.coded fs progs sched 2 = none ∧ finalVal Variant.coded fs progs sched 3 = some (.sha 4) := by
  decide

/-- "A conditional update that returned True is not lost: with no other writer, its value is the final value." -/
def UpdateSurvivesPackStatement (vr : Variant) : Prop :=
  ∀ sched : List Actor,
    finalOuts vr (fsLoose 1) [[.cas 1 (some (some (.sha 1))) (.sha 5)], [.pack]] sched 0 = [.bool true] →
    finalOuts vr (fsLoose 1) [[.cas 1 (some (some (.sha 1))) (.sha 5)], [.pack]] sched 1 = [.unit] →
    finalVal vr (fsLoose 1) [[.cas 1 (some (some (.sha 1))) (.sha 5)], [.pack]] sched 1 = some (.sha 5)

/-- as coded (59021a9: loose file pruned under the ref's own lock, only if unchanged): on the two schedules that
lost the update before (update between the read and the unlink; update between the rename and the unlink) the
loose 5 stays and overrides the packed 1 -/
example :
    finalVal Variant.coded (fsLoose 1) [[.cas 1 (some (some (.sha 1))) (.sha 5)], [.pack]]
      [1, 1, 1, 1, 1, 1, 1, 1, 1, 0, 0, 0, 0, 0, 0, 0, 0, 0, 0, 1, 1, 1, 1, 1] 1 = some (.sha 5) ∧
    finalVal Variant.coded (fsLoose 1) [[.cas 1 (some (some (.sha 1))) (.sha 5)], [.pack]]
      [1, 1, 1, 1, 1, 0, 0, 0, 0, 0, 0, 0, 0, 0, 1, 1, 1, 1, 1, 1, 1, 1, 1, 1] 1 = some (.sha 5) := by
  decide

/-- "add_if_new returns True only if the ref did not exist." -/
def AddIfNewStatement (vr : Variant) : Prop :=
  ∀ sched : List Actor,
    let fs := FS.init (fun r => if r = 0 then some (.sym 1) else none) none
    let progs : List (List Op) := [[.add 0 (.sha 5)], [.cas 1 none (.sha 6), .pack]]
    finalOuts vr fs progs sched 0 = [.bool true] → finalOuts vr fs progs sched 1 ≠ [.bool true, .unit] ∨
      finalVal vr fs progs sched 1 = some (.sha 6)

/-- as coded (3fe26f6: the resolved name is re-checked): on the schedule that overwrote the branch before,
add_if_new now returns False -/
example :
    let fs := FS.init (fun r => if r = 0 then some (.sym 1) else none) none
    finalOuts Variant.coded fs [[.add 0 (.sha 5)], [.cas 1 none (.sha 6), .pack]]
      ([0, 0, 0, 0] ++ List.replicate 24 1 ++ List.replicate 8 0) 0 = [.bool false] := by
  decide

/-! ## 3. What is still false for the code as it is now (negation witnesses on `Variant.coded`) -/

/-- "A ref whose deletion returned True stays deleted when nobody creates it again." -/
def DeleteSurvivesPackStatement (vr : Variant) : Prop :=
  ∀ sched : List Actor,
    finalOuts vr (fsLoose 1) [[.rm 1 (some (some (.sha 1)))], [.pack]] sched 0 = [.bool true] →
    finalOuts vr (fsLoose 1) [[.rm 1 (some (some (.sha 1)))], [.pack]] sched 1 = [.unit] →
    finalVal vr (fsLoose 1) [[.rm 1 (some (some (.sha 1)))], [.pack]] sched 1 = none

/-- **A deleted ref comes back.**  `pack_refs` read the value 1 (without the ref lock), the ref is deleted,
`pack_refs` writes the stale value into packed-refs; finding the loose file gone (or the ref lock busy) it merely
skips the pruning.  It needs the delete and the packing to exclude each other (git: both hold packed-refs.lock
for their whole critical section). -/
theorem pack_refs_resurrects_deleted_ref_counterexample : ¬ DeleteSurvivesPackStatement Variant.coded := by
  intro h
  have := h [1, 1, 1, 1, 1, 0, 0, 0, 0, 0, 0, 0, 0, 0, 1, 1, 1, 1, 1, 1, 1, 1]
  revert this
  decide

/-- "An update through HEAD, a re-pointing of HEAD and a reader behave as if executed in some order": if the
reader (started after the re-pointing finished) still saw the old value, the update was not yet done, so it came
after the re-pointing and must have gone to the new target. -/
def SymrefUpdateStatement (vr : Variant) : Prop :=
  ∀ sched : List Actor,
    let fs := FS.init (fun r => if r = 0 then some (.sym 1) else if r = 1 then some (.sha 1) else
      if r = 2 then some (.sha 3) else none) none
    let progs : List (List Op) := [[.cas 0 (some (some (.sha 1))) (.sha 5)], [.symref 0 2], [.read 1]]
    -- the schedule runs the re-pointing to completion before the reader starts (checked by the witness)
    finalOuts vr fs progs sched 0 = [.bool true] → finalOuts vr fs progs sched 2 = [.val (some (.sha 1))] →
    finalVal vr fs progs sched 1 = some (.sha 1)

/-- the symref is followed outside any lock: the update lands on the old target after HEAD was re-pointed -/
theorem symref_retarget_counterexample : ¬ SymrefUpdateStatement Variant.coded := by
  intro h
  have := h (List.replicate 9 0 ++ List.replicate 9 1 ++ [2, 2, 2, 2, 0, 0, 0])
  revert this
  decide

/-- "A create that returned True is not lost when the only other actor deletes the ref BEFORE it" — here: the
other actor is `add_packed_refs({x: None})`, which has dropped the packed entry before the create starts. -/
def CreateSurvivesUnpackStatement (vr : Variant) : Prop :=
  ∀ sched : List Actor,
    let fs := FS.init (fun r => if r = 0 then some (.sym 1) else none) (some [(1, 1)])
    let progs : List (List Op) := [[.add 1 (.sha 6)], [.unpack 1]]
    finalOuts vr fs progs sched 0 = [.bool true] → finalVal vr fs progs sched 1 = some (.sha 6)

/-- `add_packed_refs({x: None})` drops the packed entry and unlinks the loose file in two steps, without the
ref lock: the create that succeeds in between is destroyed -/
theorem add_packed_refs_none_loses_create_counterexample : ¬ CreateSurvivesUnpackStatement Variant.coded := by
  intro h
  have := h ([1, 1, 1, 1, 1] ++ List.replicate 11 0 ++ [1, 1, 1])
  revert this
  decide

/-! ## 4. Regression witnesses: the orders before the fixes (literal variants; the same schedules are in
corpus/C08 and must HOLD on the real code now) -/

/-- before bb5afda: between `os.remove(loose)` and the rename of the new packed-refs the reader finds the ref
MISSING -/
theorem reader_during_pack_refs_sees_missing_counterexample : ¬ ReaderDuringPackStatement Variant.old := by
  intro h
  have := h [0, 0, 0, 0, 0, 0, 0, 0, 1, 1, 1]
  revert this
  decide

/-- before bb5afda: in the same window the reader sees the OLDER packed value 1 -/
theorem reader_during_pack_refs_sees_older_counterexample :
    ¬ ReaderDuringPackOlderStatement Variant.old := by
  intro h
  have := h [0, 0, 0, 0, 0, 0, 0, 0, 1, 1, 1]
  revert this
  decide

/-- before bb5afda: `remove_if_equals` on a loose+packed ref removes the loose file first: the reader sees the
older packed value 1 come back -/
theorem remove_if_equals_resurrects_packed_counterexample : ¬ ReaderDuringRemoveStatement Variant.old := by
  intro h
  have := h [0, 0, 0, 0, 0, 1, 1, 1]
  revert this
  decide

/-- before bb5afda: `_remove_packed_ref` raises FileLocked (packed-refs.lock busy) after the loose file is gone:
the failed delete has changed the ref to its older packed value -/
theorem remove_if_equals_half_deleted_counterexample : ¬ FailedRemoveHasNoEffectStatement Variant.old := by
  intro h
  have := h [1, 1, 1, 1, 1, 0, 0, 0, 0, 0, 0, 0, 0, 1, 1, 1, 1]
  revert this
  decide

/-- before 59021a9 (after bb5afda): the loose file is unlinked unconditionally after the rename of packed-refs,
without the ref's own lock — the update 1 → 5 lands between the rename and the unlink, returns True, and the ref
ends at the stale packed value 1 -/
theorem pack_refs_overwrites_update_counterexample : ¬ UpdateSurvivesPackStatement Variant.bb5afda := by
  intro h
  have := h [1, 1, 1, 1, 1, 1, 1, 1, 1, 0, 0, 0, 0, 0, 0, 0, 0, 0, 0, 1, 1]
  revert this
  decide

/-- before bb5afda too (the update lands between the read and the unlink) -/
theorem pack_refs_overwrites_update_old_counterexample : ¬ UpdateSurvivesPackStatement Variant.old := by
  intro h
  have := h [1, 1, 1, 1, 1, 0, 0, 0, 0, 0, 0, 0, 0, 0, 1, 1, 1, 1, 1]
  revert this
  decide

/-- before 3fe26f6: `add_if_new(HEAD)` re-checks packed-refs for `HEAD` instead of the resolved name: the branch
was created (6) and packed in between, add_if_new overwrites it with 5 and reports True -/
theorem add_if_new_symref_packed_counterexample : ¬ AddIfNewStatement Variant.bb5afda := by
  intro h
  have := h ([0, 0, 0, 0] ++ List.replicate 21 1 ++ List.replicate 8 0)
  revert this
  decide

/-! ## 5. Concurrent commits -/

open Proto

/-- **commit_not_lost** (single-read protocol: `MemoryRepo.do_commit`, and `WorkTree.commit` once it reuses its
first read — over a linearizable compare-and-swap, which is what `cas_linearizable_loose` provides on disk).
Any number of actors committing to one branch, every schedule: the successful commits form a first-parent
chain from the final head down to the initial head (so every commit reported successful is in the final branch
history), every actor that returned a commit id is in that chain, and the others got `CommitError`. -/
theorem commit_not_lost (init : Option Sha) (cids : List Sha) (sched : List Nat) :
    let s := prun 1 (PState.init init cids) sched
    ChainOK init s.log s.reg ∧
    ∀ (a : Nat) (st : PActor), s.actors[a]? = some st → ∀ p, st.pc = .done true p → (st.cid, p) ∈ s.log := by
  intro s
  have hinit : PInv init (PState.init init cids) := by
    refine ⟨rfl, fun a st hst => ?_⟩
    simp only [PState.init, List.getElem?_map] at hst
    cases h : cids[a]? with
    | none => simp [h] at hst
    | some c =>
      simp only [h, Option.map_some, Option.some.injEq] at hst
      subst hst
      exact ⟨fun p => by simp, fun p o hp => by simp at hp, fun p hp => by simp at hp⟩
  have hrun : ∀ (sched : List Nat) (s0 : PState), PInv init s0 → PInv init (prun 1 s0 sched) := by
    intro sched
    induction sched with
    | nil => intro s0 h; exact h
    | cons a rest ih =>
      intro s0 h
      simp only [prun]
      cases hs : pstep 1 s0 a with
      | none => exact ih s0 h
      | some p =>
        obtain ⟨s1, e⟩ := p
        exact ih s1 (pinv_step init s0 s1 a e h hs)
  have := hrun sched _ hinit
  exact ⟨this.1, fun a st hst p hp => (this.2 a st hst).2.2 p hp⟩

/-- non-vacuity: three actors, an interleaving in which the second and third lose -/
example :
    let s := prun 1 (PState.init (some 1) [100, 101, 102]) [0, 1, 2, 1, 0, 2]
    s.reg = some 101 ∧ s.log = [(101, some 1)] ∧
    s.actors.map (·.pc) = [.done false (some 1), .done true (some 1), .done false (some 1)] := by
  decide

/-- **commit_not_lost for the protocols the source has NOW**: the number of head reads of `WorkTree.commit` and
of `MemoryRepo.do_commit` is regenerated from the source (both 1 since fix 7e0c6ae); for those protocols, every
schedule, any number of actors: the successful commits form a first-parent chain from the final head.
Re-introducing the second read flips the generated constant and breaks this theorem. -/
theorem commit_not_lost_as_coded (init : Option Sha) (cids : List Sha) (sched : List Nat) :
    ChainOK init (prun Gen.RefsFS.worktreeCommitHeadReads (PState.init init cids) sched).log
      (prun Gen.RefsFS.worktreeCommitHeadReads (PState.init init cids) sched).reg ∧
    ChainOK init (prun Gen.RefsFS.memoryCommitHeadReads (PState.init init cids) sched).log
      (prun Gen.RefsFS.memoryCommitHeadReads (PState.init init cids) sched).reg := by
  have h1 : Gen.RefsFS.worktreeCommitHeadReads = 1 := by decide
  have h2 : Gen.RefsFS.memoryCommitHeadReads = 1 := by decide
  rw [h1, h2]
  exact ⟨(commit_not_lost init cids sched).1, (commit_not_lost init cids sched).1⟩

/-- the statement of `commit_not_lost` for the protocol with `reads` reads -/
def CommitNotLostStatement (reads : Nat) : Prop :=
  ∀ (init : Option Sha) (cids : List Sha) (sched : List Nat),
    ChainOK init (prun reads (PState.init init cids) sched).log (prun reads (PState.init init cids) sched).reg

/-- **lost_commit_counterexample** (F9, the protocol of `WorkTree.commit` as written: parents from the first
read, swap conditioned on a second read).  Actor 1 commits between actor 0's two reads; actor 0's swap succeeds on
actor 1's commit while its own parent is the old head: commit 101 is reported successful and is not in the
history of the final head 100 (whose parent is 1). -/
theorem lost_commit_counterexample : ¬ CommitNotLostStatement 2 := by
  intro h
  have := h (some 1) [100, 101] [0, 1, 1, 1, 0, 0]
  revert this
  decide

/-- the same on the full file-system model with the two-read order of `WorkTree.commit` before fix 7e0c6ae: both commits report success with parent 1, the branch ends at 100, 101 is lost. -/
theorem lost_commit_disk_counterexample :
    let progs : List (List Op) := [[.commit 0 100], [.commit 0 101]]
    let sched := [0, 0, 0] ++ List.replicate 17 1 ++ List.replicate 16 0
    finalOuts Variant.bb5afda (fsLoose 1) progs sched 0 = [.committed 100 (some 1)] ∧
    finalOuts Variant.bb5afda (fsLoose 1) progs sched 1 = [.committed 101 (some 1)] ∧
    finalVal Variant.bb5afda (fsLoose 1) progs sched 1 = some (.sha 100) := by
  decide

/-- as coded now (single read) the same schedule makes actor 0 the loser (CommitError), nothing is lost -/
example :
    let progs : List (List Op) := [[.commit 0 100], [.commit 0 101]]
    let sched := [0, 0, 0] ++ List.replicate 17 1 ++ List.replicate 16 0
    finalOuts Variant.coded (fsLoose 1) progs sched 0 = [.exc .commit] ∧
    finalOuts Variant.coded (fsLoose 1) progs sched 1 = [.committed 101 (some 1)] ∧
    finalVal Variant.coded (fsLoose 1) progs sched 1 = some (.sha 101) := by
  decide

end Dulwich.Props.C08
