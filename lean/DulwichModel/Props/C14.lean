/-
  C14 — optional acceleration data never changes any answer.

  Only property theorems, non-vacuity examples and negation witnesses live here; helper lemmas are in
  Lemmas/Accel.lean.  Models: Model/Accel.lean (sound-cache refinement, layered lookups),
  Model/CommitGraphFmt.lean, Model/Ewah.lean, Model/Midx.lean; their constants come from Gen/Accel.lean,
  which the translator regenerates from /repo on every run.
-/
import DulwichModel.Lemmas.Accel

namespace Dulwich.Props.C14
open Dulwich Dulwich.Accel

/-! ## 1. the generic refinement: a sound cache is invisible (and only a sound one is) -/

theorem cache_transparent {κ ν : Type} (c : κ → Option ν) (base : κ → ν)
    (h : ∀ k v, c k = some v → base k = v) : withCache c base = base := by
  funext k
  unfold withCache
  cases hc : c k with
  | none => rfl
  | some v => simp [h k v hc]

/-- the converse: if the answers never change, every cache entry was right -/
theorem cache_transparent_only_if {κ ν : Type} (c : κ → Option ν) (base : κ → ν)
    (h : withCache c base = base) : Sound c base := by
  intro k v hc
  have := congrFun h k
  unfold withCache at this
  rw [hc] at this
  exact this.symm

example : withCache (fun k => if k = 1 then some 10 else none) (fun k : Nat => 10 * k) = fun k => 10 * k :=
  cache_transparent _ _ (by intro k v h; by_cases hk : k = 1 <;> simp_all)

/-! ## 2. commit-graph: staleness.  Commits are immutable (content addressed): a repository evolves by adding
and pruning objects, never by changing one. -/

/-- a graph that was correct when written stays correct for every commit that still exists -/
theorem stale_graph_sound {Oid : Type} (g s0 s1 : Oid → Option (List Oid))
    (hw : ∀ k v, g k = some v → s0 k = some v) (he : Evolves s0 s1) :
    ∀ k, s1 k ≠ none → parentsVia g s1 k = s1 k := by
  intro k hk
  cases hg : g k with
  | none => simp [parentsVia, withCache, hg]
  | some v =>
    rcases he k v (hw k v hg) with h | h
    · simp [parentsVia, withCache, hg, h]
    · exact absurd h hk

/-- … and the hypothesis `s1 k ≠ none` is needed: for a pruned commit the stale graph still answers
(confirmed on the real code: class `commit-graph-answers-for-absent-commit`) -/
theorem stale_graph_absent_counterexample :
    ∃ (g s0 s1 : Nat → Option (List Nat)), (∀ k v, g k = some v → s0 k = some v) ∧ Evolves s0 s1 ∧
      parentsVia g s1 ≠ s1 := by
  refine ⟨fun k => if k = 1 then some [0] else none, fun k => if k = 1 then some [0] else none,
          fun _ => none, ?_, ?_, ?_⟩
  · intro k v h; exact h
  · intro k v _; exact Or.inr rfl
  · intro h
    have := congrFun h 1
    simp [parentsVia, withCache] at this

/-! ## 3. commit-graph: the parent encoding of writer and reader -/

open Dulwich.CommitGraphFmt in
/-- the marker values the model's arithmetic relies on: "no parent" and "parent not in the file" are distinct
(they were the same value before the repair — the root cause of the open-set defect), both lie above every
position and below the flag bit; `& ~FLAG` = `- FLAG`, `& FLAG` = `≥ FLAG` below 2^32 -/
theorem markers_wf : NONE < MISSING ∧ MISSING < EXTRA ∧ EXTRA = 2 ^ 31 ∧ LAST = 2 ^ 31 := by
  decide

open Dulwich.CommitGraphFmt in
/-- FULL theorem: whatever set of commits is written — any number of parents per commit (EDGE chunk), parents
inside or outside the set — the reader of the written file answers for the commit at position `i` with its
FULL parent list if all of its parents are in the file, and with "unknown" (`get_parents` returns None, callers
read the commit object) otherwise.  Never a shortened list, never an error. -/
theorem commit_graph_parents_roundtrip (es : List (Bytes × List Bytes)) (i : Nat) (e : Bytes × List Bytes)
    (hn : es.length < NONE) (hi : es[i]? = some e) :
    roundTripParents es i = some (.ok (if (∀ p ∈ e.2, p ∈ es.map (·.1)) then some e.2 else none)) :=
  roundTrip_answer es i e hn hi

open Dulwich.CommitGraphFmt in
example : roundTripParents [([1], []), ([2], []), ([3], []), ([4], [[1], [2], [3]]), ([5], [[4], [3], [2], [1]])] 4
    = some (.ok (some [[4], [3], [2], [1]])) := by decide

open Dulwich.CommitGraphFmt in
/-- an entry with a parent outside the written set (`write_commit_graph(reachable=False)`) answers "unknown" -/
theorem commit_graph_open_set_unknown (es : List (Bytes × List Bytes)) (i : Nat) (e : Bytes × List Bytes)
    (hn : es.length < NONE) (hi : es[i]? = some e) (p : Bytes) (hp : p ∈ e.2) (hout : p ∉ es.map (·.1)) :
    roundTripParents es i = some (.ok none) := by
  rw [commit_graph_parents_roundtrip es i e hn hi, if_neg (fun h => hout (h p hp))]

open Dulwich.CommitGraphFmt in
/-- THE soundness statement for the file as a cache: every answer the graph gives (every non-None answer)
equals the commit's real parent list. -/
theorem commit_graph_answers_are_real (es : List (Bytes × List Bytes)) (i : Nat) (e : Bytes × List Bytes)
    (ans : List Bytes) (hn : es.length < NONE) (hi : es[i]? = some e)
    (h : roundTripParents es i = some (.ok (some ans))) : ans = e.2 := by
  rw [commit_graph_parents_roundtrip es i e hn hi] at h
  by_cases hc : ∀ p ∈ e.2, p ∈ es.map (·.1)
  · rw [if_pos hc] at h
    have h2 := Option.some.inj h
    have h3 := Except.ok.inj h2
    exact (Option.some.inj h3).symm
  · rw [if_neg hc] at h
    have h2 := Option.some.inj h
    have h3 := Except.ok.inj h2
    cases h3

open Dulwich.CommitGraphFmt in
/-- tips without their history: 3's parent 2 is not written ⇒ unknown; the root 7 and its child 8 are answered -/
example : (List.range 3).map (roundTripParents [([3], [[2]]), ([7], []), ([8], [[7]])]) =
    [some (.ok none), some (.ok (some [])), some (.ok (some [[7]]))] := by decide

open Dulwich.CommitGraphFmt in
/-- REGRESSION WITNESS on the writer as it originally was: an octopus merge kept only its first two parents
(reproduced on the real code at the time: corpus/C14/octopus.json, finding F-C14-octopus) -/
theorem octopus_counterexample_old :
    roundTripParentsOld [([1], []), ([2], []), ([3], []), ([4], [[1], [2], [3]])] 3 = some (.ok (some [[1], [2]])) ∧
    roundTripParents [([1], []), ([2], []), ([3], []), ([4], [[1], [2], [3]])] 3 = some (.ok (some [[1], [2], [3]])) := by
  decide

open Dulwich.CommitGraphFmt in
/-- REGRESSION WITNESS on the original writer: a parent outside the written set was written with the bits of "no
parent" and the commit read back as a root (corpus/C14/open-set.json, finding F-C14-open-set); now: unknown -/
theorem open_set_counterexample_old :
    roundTripParentsOld [([3], [[2]])] 0 = some (.ok (some [])) ∧
    roundTripParents [([3], [[2]])] 0 = some (.ok none) := by
  decide

open Dulwich.CommitGraphFmt in
/-- The READER on C git's encoding of a commit with three or more parents (first parent in slot 1, slot 2 =
`GRAPH_EXTRA_EDGES_NEEDED | k`, remaining parents from word `k` of the EDGE chunk, the last one flagged): every
parent comes back, in order. -/
theorem commit_graph_reader_edges (oids : List Bytes) (pre init junk : List Nat) (p1 last : Nat)
    (h1 : p1 < oids.length) (hn : oids.length < NONE)
    (hin : ∀ p ∈ init, p < oids.length) (hl : last < oids.length) :
    decodeParents oids (some (pre ++ (init ++ [last + LAST] ++ junk))) p1 (EXTRA + pre.length) =
      .ok (some ((p1 :: (init ++ [last])).filterMap (oids[·]?))) :=
  decodeParents_edges oids pre init junk p1 last h1 hn hin hl

open Dulwich.CommitGraphFmt in
example : decodeParents [[1], [2], [3], [4]] (some [9, 1, 2 + LAST]) 0 (EXTRA + 1) = .ok (some [[1], [2], [3]]) := by
  decide

/-! ## 4. multi-pack-index consumers -/

/-- `get_raw`: transparent as soon as packs are honest (an object found in a pack is the object the plain
lookup finds) — a stale MIDX naming a vanished pack falls back. -/
theorem midx_get_raw_transparent {Oid Pack Obj : Type} (midx : Oid → Option Pack)
    (packGet : Pack → Oid → Option Obj) (base : Oid → Option Obj)
    (h : ∀ p o x, packGet p o = some x → base o = some x) :
    getRawVia midx packGet base = base := by
  funext o
  cases hm : midx o with
  | none => simp [getRawVia, hm]
  | some p =>
    cases hp : packGet p o with
    | none => simp [getRawVia, hm, hp]
    | some x => simp [getRawVia, hm, hp, h p o x hp]

/-- the answer of `get_raw` does not depend on the OFFSET field of the multi-pack-index, only on which pack an
entry names: two indexes that name the same packs give the same answers, whatever offsets they hold (a pack
re-created under the same name with another layout, a MIDX from a sibling repository, …) -/
theorem midx_offset_irrelevant {Oid Pack Obj : Type} (m1 m2 : Oid → Option (Pack × Nat))
    (packGet : Pack → Oid → Option Obj) (base : Oid → Option Obj)
    (h : ∀ o, (m1 o).map (·.1) = (m2 o).map (·.1)) :
    getRawViaEntry m1 packGet base = getRawViaEntry m2 packGet base := by
  unfold getRawViaEntry
  have : (fun o => (m1 o).map (·.1)) = (fun o => (m2 o).map (·.1)) := funext h
  rw [this]

/-- … hence transparent for ANY offsets as soon as packs are honest -/
theorem midx_get_raw_transparent_any_offset {Oid Pack Obj : Type} (midx : Oid → Option (Pack × Nat))
    (packGet : Pack → Oid → Option Obj) (base : Oid → Option Obj)
    (h : ∀ p o x, packGet p o = some x → base o = some x) :
    getRawViaEntry midx packGet base = base :=
  midx_get_raw_transparent _ packGet base h

/-- NEGATION WITNESS for the variant that would trust the offset: pack 0 holds object 7 at offset 12 and object 8
at offset 40; the index still says "7 is at offset 40" (same pack name, other layout): reading at the stored
offset returns object 8's content for id 7, the re-lookup returns 7's -/
theorem midx_offset_trusted_counterexample :
    let midx : Nat → Option (Nat × Nat) := fun o => if o = 7 then some (0, 40) else none
    let readAt : Nat → Nat → Option Nat := fun _ off => if off = 12 then some 700 else if off = 40 then some 800 else none
    let packGet : Nat → Nat → Option Nat := fun _ o => if o = 7 then some 700 else if o = 8 then some 800 else none
    getRawAtOffset midx readAt (packGet 0) 7 = some 800 ∧
    getRawViaEntry midx packGet (packGet 0) 7 = some 700 := by
  decide

/-- `contains_packed` (FULL, since it checks the named pack like `get_raw` does): transparent as soon as packs are
honest — a stale or foreign MIDX entry whose pack is gone, or no longer has the object, falls back. -/
theorem midx_contains_transparent {Oid Pack : Type} (midx : Oid → Option Pack) (packHas : Pack → Oid → Bool)
    (base : Oid → Bool) (h : ∀ p o, packHas p o = true → base o = true) :
    containsVia midx packHas base = base := by
  funext o
  cases hm : midx o with
  | none => simp [containsVia, hm]
  | some p =>
    cases hp : packHas p o with
    | false => simp [containsVia, hm, hp]
    | true => simp [containsVia, hm, hp, h p o hp]

/-- REGRESSION WITNESS on `contains_packed` as it was before the repair: an entry naming a vanished pack was
trusted (corpus/C14/midx-stale.json, finding F-C14-midx-stale); the repaired lookup falls back -/
theorem midx_stale_counterexample_old :
    containsViaOld (fun o : Nat => if o = 7 then some 0 else none) (fun _ => false) 7 = true ∧
    containsVia (fun o : Nat => if o = 7 then some 0 else none) (fun (_ : Nat) _ => false) (fun _ => false) 7 = false ∧
    getRawVia (fun o : Nat => if o = 7 then some 0 else none) (fun (_ : Nat) _ => (none : Option Nat)) (fun _ => none) 7 = none := by
  decide

/-! ## 5. refs: loose files over packed-refs -/

/-- Transparency of packed-refs under loose precedence, as an instance of `cache_transparent`: whenever every
loose file holds the ref's logical value and every ref without a loose file has its logical value in
packed-refs (stale packed entries under a loose file are allowed), reads return the logical value. -/
theorem packed_refs_transparent {Name Val : Type} (loose packed logical : Name → Option Val)
    (hl : ∀ n v, loose n = some v → logical n = some v)
    (hp : ∀ n, loose n = none → packed n = logical n) :
    readRef loose packed = logical := by
  have e : ∀ base : Name → Option Val,
      readRef loose base = withCache (fun n => (loose n).map some) base := by
    intro base; funext n
    cases hk : loose n <;> simp [readRef, withCache, hk]
  -- reading through `packed` equals reading through `logical` (they agree wherever no loose file exists) …
  have h1 : readRef loose packed = readRef loose logical := by
    funext n
    cases hk : loose n with
    | none => simp [readRef, hk, hp n hk]
    | some w => simp [readRef, hk]
  -- … and over `logical` the loose layer is a sound cache
  rw [h1, e logical]
  exact cache_transparent _ _ (by
    intro k v h
    cases hk : loose k with
    | none => simp [hk] at h
    | some w => simp [hk] at h; rw [← h]; exact hl k w hk)

/-- `pack_refs` (any selection of refs) does not change any ref value -/
theorem pack_refs_preserves {Name Val : Type} (sel : Name → Bool) (loose packed : Name → Option Val) :
    readRef (packRefs sel loose packed).1 (packRefs sel loose packed).2 = readRef loose packed := by
  funext n
  unfold packRefs readRef
  by_cases h : sel n <;> simp [h]

/-- a loose write wins over whatever packed-refs says (stale packed entries are harmless) -/
theorem set_loose_overrides {Name Val : Type} [DecidableEq Name] (n0 : Name) (v : Val)
    (loose packed : Name → Option Val) (n : Name) :
    readRef (setLoose n0 v loose) packed n = if n = n0 then some v else readRef loose packed n := by
  unfold readRef setLoose
  by_cases h : n = n0 <;> simp [h]

/-- deleting removes the ref from both layers: a packed entry cannot resurrect it -/
theorem delete_ref_removes {Name Val : Type} [DecidableEq Name] (n0 : Name)
    (loose packed : Name → Option Val) (n : Name) :
    readRef (deleteRef n0 loose packed).1 (deleteRef n0 loose packed).2 n =
      if n = n0 then none else readRef loose packed n := by
  unfold readRef deleteRef
  by_cases h : n = n0 <;> simp [h]

/-! ## 6. bitmap header gate -/

theorem bitmap_checksum_gate (packChecksum stored : Bytes) :
    bitmapGate packChecksum stored = true ↔ stored = packChecksum := by
  unfold bitmapGate
  simp

/-! ## 6b. reachability providers: traversal vs bitmaps (F10) -/

/-- FULL statement (false for the code as it is): both providers give the same commit set. -/
def ReachProvidersAgreeStatement : Prop :=
  ∀ (parents : Nat → List Nat) (fuel : Nat) (pack heads exclude : List Nat),
    sameSet (traversalReach parents fuel heads exclude) (bitmapReach parents fuel pack heads exclude) = true

/-- with everything in one pack and nothing excluded the providers agree on the diamond … -/
example : sameSet (traversalReach diamond 16 [4] []) (bitmapReach diamond 16 [0, 1, 2, 3, 4] [4] []) = true := by
  decide

/-- … `exclude` means "stop at these commits" for the traversal but "subtract their whole ancestry" for the
bitmaps: reachable from 4 excluding 2 is {0, 3, 4} by traversal and {3, 4} by bitmaps
(confirmed on the real code: class `reachability-exclude-semantics-differ`) -/
theorem exclude_semantics_counterexample :
    traversalReach diamond 16 [4] [2] = [4, 3, 0] ∧ bitmapReach diamond 16 [0, 1, 2, 3, 4] [4] [2] = [4, 3] := by
  decide

/-- a pack that is not closed under reachability (commit 4 packed alone): its bitmap omits every ancestor
(confirmed on the real code: class `bitmap-pack-not-closed`) -/
theorem bitmap_multipack_counterexample :
    bitmapReach diamond 16 [4] [4] [] = [4] ∧
    sameSet (traversalReach diamond 16 [4] []) [0, 1, 2, 3, 4] = true := by
  decide

theorem reach_providers_statement_false : ¬ ReachProvidersAgreeStatement := by
  intro h
  have := h diamond 16 [4] [4] []
  revert this
  decide

/-! ## 6c. walks with a stop set (shallow boundary of the other side) over a cached parent source -/

/-- `cache_transparent` lifted to the ancestry walk with a stop set: when the commit-graph agrees with the object
store on every commit it knows, the walk over "graph, else store" equals the walk over the store — for EVERY
shallow set, every `common` set, every start and every fuel.  (The shallow test precedes both parent sources:
translator obligation on `_collect_ancestors` and `ParentsProvider.get_parents`.) -/
theorem walk_cache_transparent (c : Nat → Option (List Nat)) (store : Nat → List Nat)
    (h : ∀ k v, c k = some v → store k = v) (common shallow : List Nat) (fuel : Nat) (heads seen : List Nat) :
    collectAncestorsSh (withCache c store) common shallow fuel heads seen =
      collectAncestorsSh store common shallow fuel heads seen := by
  rw [cache_transparent c store h]

/-- with an empty stop set the walk is the plain `_collect_ancestors` -/
theorem walk_no_shallow (parentsOf : Nat → List Nat) (common : List Nat) :
    ∀ (fuel : Nat) (queue seen : List Nat),
      collectAncestorsSh parentsOf common [] fuel queue seen = collectAncestors parentsOf common fuel queue seen := by
  intro fuel
  induction fuel with
  | zero => intro q s; rfl
  | succ f ih =>
    intro q s
    cases q with
    | nil => rfl
    | cons e q =>
      simp only [collectAncestorsSh, collectAncestors, List.contains_nil, Bool.false_eq_true, if_false, ih]

/-- a shallow commit is reported, nothing below it is entered through it (diamond, boundary {2}: from 4 the walk
gives {4, 2, 3, 0}; commit 1 is only reachable through 2) -/
example : collectAncestorsSh diamond [] [2] 16 [4] [] = [4, 2, 3, 0] := by decide

/-- NEGATION WITNESS for a walk whose shallow test guards only the object-load branch: with a (correct!) graph
entry for the boundary commit 2 it walks below the boundary (and reports commit 1), the real order of tests
does not -/
theorem shallow_after_graph_counterexample :
    collectAncestorsShGraphFirst (fun k => if k = 2 then some [1] else none) diamond [] [2] 16 [4] [] = [4, 2, 3, 1, 0] ∧
    collectAncestorsSh (withCache (fun k => if k = 2 then some [1] else none) diamond) [] [2] 16 [4] [] = [4, 2, 3, 0] := by
  decide

/-! ## 7. EWAH codec -/

open Dulwich.Ewah in
/-- the word layout constants (regenerated from the source) are the ones the arithmetic model assumes:
encoder and decoder use the same shifts, the mask is 32 ones, a word is 64 ones -/
theorem ewah_layout_wf :
    Gen.Accel.ewahLitShiftEnc = Gen.Accel.ewahLitShiftDec ∧ Gen.Accel.ewahRunShiftEnc = Gen.Accel.ewahRunShiftDec ∧
    Gen.Accel.ewahRunMask + 1 = 2 ^ 32 ∧ Gen.Accel.ewahRunShiftDec + 32 = Gen.Accel.ewahLitShiftDec ∧
    allOnes + 1 = 2 ^ 64 ∧ maxLit + 1 = 2 ^ 31 := by
  decide

open Dulwich.Ewah in
/-- `decode ∘ encode = id` on word lists: for EVERY list of words (zero runs, one runs, literals, in any
order, any word values) shorter than 2^32 words (the width of the run-length field) and any declared
size that is large enough. -/
theorem ewah_words_roundtrip (ws : List Nat) (M : Nat) (hM : ws.length ≤ M) (h32 : ws.length < 2 ^ 32) :
    decodeWords M (encodeWords ws) = .ok ws := by
  unfold decodeWords encodeWords
  exact encode_decode_aux maxLit M ws.length ws 0 _ (Nat.le_refl _) (Nat.le_refl _) (by omega) h32

open Dulwich.Ewah in
example : decodeWords 7 (encodeWords [0, 0, 5, allOnes, allOnes, 7, 0]) = .ok [0, 0, 5, allOnes, allOnes, 7, 0] :=
  ewah_words_roundtrip _ 7 (by decide) (by decide)

open Dulwich.Ewah in
/-- the literal cap is only a chunking parameter: the round trip holds for every cap (so it holds for
`MAX_LITERAL_WORDS`, and for a decoder/encoder pair that disagrees about it) -/
theorem ewah_words_roundtrip_any_cap (mx : Nat) (ws : List Nat) (M : Nat) (hM : ws.length ≤ M)
    (h32 : ws.length < 2 ^ 32) :
    decodeWordsAux M (encodeWordsAux mx ws.length ws).length 0 (encodeWordsAux mx ws.length ws) = .ok ws :=
  encode_decode_aux mx M ws.length ws 0 _ (Nat.le_refl _) (Nat.le_refl _) (by omega) h32

open Dulwich.Ewah in
/-- for ANY compressed input (hostile run lengths, literal counts, truncation) the decoder either fails or
emits at most `M = ⌈bit_count/64⌉` words -/
theorem ewah_decode_words_bounded (M : Nat) (cw ws : List Nat) (h : decodeWords M cw = .ok ws) :
    ws.length ≤ M := by
  have := decodeWordsAux_bounded M cw.length 0 cw ws (Nat.zero_le _) h
  omega

open Dulwich.Ewah in
/-- byte level: whatever the bytes, a successful decode never sets a bit at or beyond ⌈bit_count/64⌉·64 -/
theorem ewah_decode_bounded (data : Bytes) (bc : Nat) (ws : List Nat) (h : decode data = .ok (bc, ws)) :
    ∀ p ∈ positions ws, p < 64 * ((bc + 63) / 64) := by
  intro p hp
  have hlen : ws.length ≤ (bc + 63) / 64 := by
    unfold decode at h
    by_cases h8 : data.length < 8
    · rw [if_pos h8] at h
      simp only [Except.ok.injEq, Prod.mk.injEq] at h
      obtain ⟨rfl, rfl⟩ := h
      simp
    · rw [if_neg h8] at h
      simp only at h
      cases hd : decodeWords ((beVal (data.take 4) + 63) / 64) (readWords (beVal ((data.drop 4).take 4)) (data.drop 8)) with
      | error e => rw [hd] at h; cases h
      | ok w =>
        rw [hd] at h
        simp only [Except.ok.injEq, Prod.mk.injEq] at h
        obtain ⟨rfl, rfl⟩ := h
        exact ewah_decode_words_bounded _ _ _ hd
  unfold positions at hp
  have := (List.mem_filter.mp hp).1
  have := List.mem_range.mp this
  have : 64 * ws.length ≤ 64 * ((bc + 63) / 64) := Nat.mul_le_mul_left 64 hlen
  omega

open Dulwich.Ewah in
/-- `EWAHBitmap(b.encode())` gives back `b`: for EVERY bitmap whose encoding succeeds (i.e. no `struct.error`:
fewer than 2^32 bits) the decoder returns the declared size `max(bits)+1` and a bitmap with exactly the same
bits set — through bits → 64-bit words → run-length words → bytes → words → bits. -/
theorem ewah_roundtrip (bits : List Bool) (bytes : Bytes) (h : encode bits = .ok bytes) :
    ∃ ws, decode bytes = .ok (bitCount bits, ws) ∧ ∀ p, bitAt ws p = bits.getD p false :=
  ⟨wordsOfBits bits, decode_encode bits bytes h, wordsOfBits_bitAt bits⟩

open Dulwich.Ewah in
/-- non-vacuity: bits {64, 66, 130} (a zero word, then two literal words) encode to the 36 bytes dulwich writes -/
example : encode (List.replicate 64 false ++ [true, false, true] ++ List.replicate 63 false ++ [true]) =
    .ok [0, 0, 0, 131, 0, 0, 0, 3, 0, 0, 0, 4, 0, 0, 0, 2, 0, 0, 0, 0, 0, 0, 0, 5, 0, 0, 0, 0, 0, 0, 0, 4, 0, 0, 0, 0] := by
  decide +kernel

/-! ## 8. multi-pack-index: fan-out + bisect lookup, large-offset spill -/

open Dulwich.Midx in
/-- `object_offset` over the table `write_midx` produces (ids strictly increasing, fan-out = cumulative counts
by first byte, `fb` monotone in the id as the first byte of a fixed-width big-endian id is): the lookup finds
exactly the ids that were written, never errs, never returns another id's position. -/
theorem midx_lookup_correct (oids : List Nat) (fb : Nat → Nat) (hs : oids.Pairwise (· < ·))
    (hmono : ∀ a b, a ≤ b → fb a ≤ fb b) (h256 : ∀ a, fb a < 256) (sha : Nat) :
    (∃ j, oids[j]? = some sha ∧ lookup (writeFanout (oids.map fb)) oids (fb sha) sha = .ok (some j)) ∨
    (sha ∉ oids ∧ lookup (writeFanout (oids.map fb)) oids (fb sha) sha = .ok none) :=
  lookup_writeFanout oids fb hs hmono h256 sha

open Dulwich.Midx in
example : lookup (writeFanout ([3, 300, 301, 70000].map (· / 256 % 256))) [3, 300, 301, 70000] 1 301 = .ok (some 2) := by
  decide

open Dulwich.Midx in
/-- bisect alone: correct on any window of a strictly increasing table -/
theorem midx_bisect_correct (oids : List Nat) (sha : Nat) (hs : oids.Pairwise (· < ·))
    (fuel lo hi : Nat) (hhi : hi ≤ oids.length) (hf : hi - lo < fuel) :
    (∃ j, lo ≤ j ∧ j < hi ∧ oids[j]? = some sha ∧ bisect oids sha fuel lo hi = .ok (some j)) ∨
    ((∀ j, lo ≤ j → j < hi → oids[j]? ≠ some sha) ∧ bisect oids sha fuel lo hi = .ok none) :=
  bisect_correct oids sha hs fuel lo hi hhi hf

open Dulwich.Midx in
/-- OOFF/LOFF: every pack offset (any size) is read back through the large-offset table as written, as long as
the number of entries fits the 31-bit index field -/
theorem midx_offset_roundtrip (os : List Nat) (i o : Nat) (hi : os[i]? = some o) (hn : os.length < 2 ^ 31) :
    ∃ w, (encodeOffsets os 0).1[i]? = some w ∧ decodeOffset w (some (encodeOffsets os 0).2) = .ok o := by
  have := decode_encodeOffsets os [] i o hi (by simpa using hn)
  simpa using this

end Dulwich.Props.C14
