/-
  C16 — ref backends obey one contract; the files backend matches git's own view; check_ref_format
  agrees with git-check-ref-format on every byte string.

  Only property theorems, non-vacuity examples and negation witnesses live here; helper lemmas are
  in Lemmas/{RefFormat,Refs,PackedRefs}.lean.  Models: Model/{RefFormat,Refs,PackedRefs}.lean; the
  sequence of tests of `check_ref_format`, BAD_REF_CHARS, SYMREF, the `_check_refname` constants, the
  symref depth limit and the packed-refs markers come from Gen/Refs.lean, which the translator
  regenerates from /repo on every run.
-/
import DulwichModel.Lemmas.Refs
import DulwichModel.Lemmas.PackedRefs

namespace Dulwich.Props.C16
open Dulwich Dulwich.RefFormat Dulwich.Refs Dulwich.Gen.Refs

/-! ## 1. `check_ref_format` ⇔ the rules of git-check-ref-format(1), for ALL byte strings -/

/-- "no slash-separated component can begin with a dot `.` or end with the sequence `.lock`";
components are non-empty ("cannot begin or end with a slash `/` or contain multiple consecutive
slashes") and, being components, contain no slash. -/
def ComponentOk (c : Bytes) : Prop :=
  (47 : UInt8) ∉ c ∧ c ≠ [] ∧ ¬ (b!"." <+: c) ∧ ¬ (b!".lock" <:+ c)

structure GitRefRules (n : Bytes) : Prop where
  comps : ∃ cs : List Bytes, 2 ≤ cs.length ∧ n = joinWith 47 cs ∧ ∀ c ∈ cs, ComponentOk c
  noDotDot : ¬ (b!".." <:+: n)
  chars : ∀ c ∈ n, 32 ≤ c.toNat ∧ c.toNat ≠ 127 ∧ c ∉ b!" ~^:?*["
  noEndDot : ¬ (b!"." <:+ n)
  noAtBrace : ¬ (b!"@{" <:+: n)
  notAt : n ≠ b!"@"
  noBackslash : (92 : UInt8) ∉ n

theorem check_ref_format_iff_rules (n : Bytes) : checkRefFormat n = some true ↔ GitRefRules n := by
  rw [checkRefFormat_unfold]
  constructor
  · rintro ⟨h1, h2, h3, h4, ⟨c, hc, hc'⟩, h6, h7, h8⟩
    refine ⟨⟨splitOnByte 47 n, split_length_of_mem 47 n h2, (join_split 47 n).symm, ?_⟩, h3, ?_, ?_, h6, h1, h7⟩
    · intro c hc
      exact ⟨split_no_sep 47 n c hc, h8 c hc⟩
    · intro c hc
      have := h4 c hc
      exact ⟨by omega, (badRefChars_iff c).mp this.2⟩
    · intro hs
      rw [← getLast?_eq_some_iff_suffix] at hs
      rw [hs] at hc
      simp at hc
      subst hc
      simp at hc'
  · rintro ⟨⟨cs, hlen, hn, hcs⟩, h3, h4, h5, h6, h1, h7⟩
    have hne : cs ≠ [] := by intro h; subst h; simp at hlen
    have hsplit : splitOnByte 47 n = cs := by
      rw [hn]; exact split_join 47 cs hne (fun c hc => (hcs c hc).1)
    have hslash : (47:UInt8) ∈ n := by rw [hn]; exact mem_join_of_length 47 cs hlen
    refine ⟨h1, hslash, h3, ?_, ?_, h6, h7, ?_⟩
    · intro c hc
      have := h4 c hc
      exact ⟨by omega, (badRefChars_iff c).mpr ⟨this.2.1, this.2.2⟩⟩
    · -- last character: exists (name non-empty since it contains a slash), not '/', not '.'
      cases hl : n.getLast? with
      | none => rw [List.getLast?_eq_none_iff] at hl; subst hl; simp at hslash
      | some c =>
        refine ⟨c, rfl, ?_⟩
        have hsuf : [c] <:+ n := (getLast?_eq_some_iff_suffix c n).mp hl
        simp only [List.mem_cons, List.not_mem_nil, or_false, not_or]
        constructor
        · -- ends with '/': the last component would be empty
          intro h; subst h
          obtain ⟨l, rfl⟩ := hsuf
          have := splitFirst_snoc_sep 47 l
          have hmem : [] ∈ splitOnByte 47 (l ++ [47]) := by simp [splitOnByte, this]
          rw [hsplit] at hmem
          exact (hcs [] hmem).2.1 rfl
        · intro h; subst h; exact h5 hsuf
    · rw [hsplit]; intro c hc; exact (hcs c hc).2


/-- `check_ref_format` never raises (the `refname[-1]` of an empty name is guarded by the earlier tests) -/
theorem check_ref_format_total (n : Bytes) : checkRefFormat n ≠ none := by
  cases n with
  | nil => decide
  | cons b r =>
    have hne : ∀ t, runTest (b :: r) t ≠ none := by
      intro t
      cases t <;> simp [runTest]
      · cases h : (b :: r).getLast? with
        | none => simp [List.getLast?_eq_none_iff] at h
        | some c => simp
    have : ∀ ts, runTests ts (b :: r) ≠ none := by
      intro ts
      induction ts with
      | nil => simp [runTests]
      | cons t ts ih =>
        simp only [runTests]
        split
        · rename_i h; exact absurd h (hne t)
        · simp
        · exact ih
    exact this _

example : GitRefRules b!"heads/master" := (check_ref_format_iff_rules _).mp (by decide)
example : ¬ GitRefRules b!"heads/a.lock" := fun h => absurd ((check_ref_format_iff_rules _).mpr h) (by decide)
example : ¬ GitRefRules b!"heads/a..b" := fun h => absurd ((check_ref_format_iff_rules _).mpr h) (by decide)
example : ¬ GitRefRules b!"master" := fun h => absurd ((check_ref_format_iff_rules _).mpr h) (by decide)

/-- `_check_refname` on names without `//`: HEAD, refs/stash, or `refs/` followed by a name git accepts -/
theorem check_refname_iff (name : Bytes) (hds : hasInfix doubleSlash name = false) :
    checkRefname name = true ↔
      (name = headRef ∨ name = stashRef ∨ ∃ rest, name = refsPrefix ++ rest ∧ GitRefRules rest) := by
  unfold checkRefname
  simp only [hds, Bool.false_and, Bool.or_eq_true, decide_eq_true_eq]
  constructor
  · intro h
    split at h
    · rename_i h'; rcases h' with h' | h'
      · exact Or.inl h'
      · exact Or.inr (Or.inl h')
    · split at h
      · cases h
      · rename_i hp
        simp only [Bool.not_eq_true', Bool.not_eq_false] at hp
        split at h
        · rename_i hf
          refine Or.inr (Or.inr ⟨name.drop refsPrefixLen, ?_, (check_ref_format_iff_rules _).mp hf⟩)
          obtain ⟨t, ht⟩ := List.isPrefixOf_iff_prefix.mp hp
          rw [← ht]
          simp [refsPrefix, refsPrefixLen]
        · cases h
  · intro h
    rcases h with h | h | ⟨rest, hr, hrules⟩
    · simp [h]
    · simp [h]
    · split
      · rfl
      · have hp : refsPrefix.isPrefixOf name = true := by
          rw [hr]; exact List.isPrefixOf_iff_prefix.mpr ⟨rest, rfl⟩
        have hd : name.drop refsPrefixLen = rest := by rw [hr]; simp [refsPrefix, refsPrefixLen]
        simp only [hp, Bool.not_true, Bool.false_eq_true, if_false, hd]
        simp [(check_ref_format_iff_rules rest).mpr hrules]

/-! ## 2. the files backend (loose + packed, loose precedence) refines the map `Name → Option Val`

The abstraction of a Disk state is `Disk.readRef` (the base-class `read_ref`: loose value, else packed
value).  Each theorem says: under the stated, decidable hypotheses on the state the operation starts
from, the operation returns what the two-line spec returns and commutes with the abstraction. -/

theorem disk_set_if_equals_refines (d : Disk) (hwf : d.WF) (name : Name) (old : Option Val) (new : Val)
    (hname : checkRefname name = true) (hval : validRefValue new = true)
    (hreal : checkRefname (realname d.readRef name) = true)
    (hclear : d.PathClear (realname d.readRef name)) :
    (d.setIfEquals name old new).1 = .ok (Spec.setIfEquals d.readRef name old new).1 ∧
    (d.setIfEquals name old new).2.readRef = (Spec.setIfEquals d.readRef name old new).2 := by
  obtain ⟨hanc, hdir⟩ := hclear
  have hnew : new ≠ [] := validRefValue_ne_nil hval
  unfold Disk.setIfEquals Spec.setIfEquals
  simp only [hname, hval, Bool.not_true, Bool.false_eq_true, if_false]
  generalize hr : realname d.readRef name = r at *
  have hprobe : (ancestors r).any (fun p => (d.packed.get p).isSome) = false := by
    rw [List.any_eq_false]
    intro p hp
    simp [(hanc p hp).2]
  simp only [hprobe, Bool.false_eq_true, if_false]
  rw [Disk.lockMkdirs_ok d r (fun p hp => (hanc p hp).1)]
  simp only
  have hrl : ({ d with dirs := Disk.addDirs d.dirs (ancestors r) } : Disk).origRef r = d.origRef r := rfl
  rw [hrl, ← Disk.readRef_eq d hwf r]
  by_cases hcas : casOk (d.readRef r) old
  · simp only [hcas, Bool.not_true, Bool.false_eq_true, if_false, if_true]
    by_cases hsame : (d.readRef r == some new) = true
    · simp only [hsame, if_true]
      refine ⟨trivial, ?_⟩
      funext n
      have : d.readRef r = some new := by simpa using hsame
      unfold RefMap.update
      by_cases hn : n = r
      · subst hn; simp [this, Disk.readRef_dirs]
      · simp [hn, Disk.readRef_dirs]
    · simp only [hsame, Bool.false_eq_true, if_false]
      have hnd : r ∉ Disk.addDirs d.dirs (ancestors r) := by
        rw [mem_addDirs]
        rintro (h | h)
        · exact hdir h
        · exact not_mem_ancestors_self r h
      simp only [Disk.commitFile, hnd, if_false]
      refine ⟨trivial, ?_⟩
      exact Disk.readRef_commit _ hwf r new hreal hnew
  · simp only [hcas, Bool.not_false, if_true, Bool.false_eq_true, if_false]
    exact ⟨trivial, rfl⟩

theorem disk_remove_if_equals_refines (d : Disk) (hwf : d.WF) (name : Name) (old : Option Val)
    (hname : checkRefname name = true)
    (hanc : ∀ p ∈ ancestors name, d.files.get p = none) (hdir : name ∉ d.dirs) :
    (d.removeIfEquals name old).1 = .ok (Spec.removeIfEquals d.readRef name old).1 ∧
    (d.removeIfEquals name old).2.readRef = (Spec.removeIfEquals d.readRef name old).2 := by
  unfold Disk.removeIfEquals Spec.removeIfEquals
  simp only [hname, Bool.not_true, Bool.false_eq_true, if_false]
  rw [Disk.lockMkdirs_ok d name hanc]
  simp only
  have hrl : ({ d with dirs := Disk.addDirs d.dirs (ancestors name) } : Disk).origRef name = d.origRef name := rfl
  rw [hrl, ← Disk.readRef_eq d hwf name]
  by_cases hcas : casOk (d.readRef name) old
  · simp only [hcas, Bool.not_true, Bool.false_eq_true, if_false, if_true]
    have hnd : name ∉ Disk.addDirs d.dirs (ancestors name) := by
      rw [mem_addDirs]
      rintro (h | h)
      · exact hdir h
      · exact not_mem_ancestors_self name h
    simp only [hnd, if_false]
    refine ⟨trivial, ?_⟩
    rw [Disk.cleanupParents_readRef]
    exact Disk.readRef_remove { d with dirs := Disk.addDirs d.dirs (ancestors name) } name
  · simp only [hcas, Bool.not_false, if_true, Bool.false_eq_true, if_false]
    exact ⟨trivial, rfl⟩

theorem disk_set_symbolic_ref_refines (d : Disk) (hwf : d.WF) (name other : Name)
    (hname : checkRefname name = true) (hother : checkRefname other = true)
    (hparent : d.lockNoMkdirs name = .ok ())            -- the parent directory exists (as coded: not created)
    (hnoloop : ∃ r, follow d.readRef name = .ok r)       -- as coded: the old value is followed for the reflog
    (hdir : name ∉ d.dirs) :
    (d.setSymbolicRef name other).1 = .ok () ∧
    (d.setSymbolicRef name other).2.readRef = Spec.setSymbolicRef d.readRef name other := by
  obtain ⟨r, hr⟩ := hnoloop
  unfold Disk.setSymbolicRef Spec.setSymbolicRef
  simp only [hname, hother, Bool.not_true, Bool.false_eq_true, if_false, hparent, hr, Disk.commitFile, hdir]
  refine ⟨trivial, ?_⟩
  refine Disk.readRef_commit d hwf name _ hname ?_
  simp [symref]

theorem disk_add_if_new_refines (d : Disk) (hwf : d.WF) (name : Name) (v : Val)
    (hval : validRefValue v = true)
    (hreal : ∀ names c, follow d.readRef name = .ok (names, c) →
      checkRefname ((names.getLast?).getD name) = true ∧ d.PathClear ((names.getLast?).getD name))
    -- as coded: in the creating branch the packed probe uses `name`, not the resolved name
    (hpk : ∀ names, follow d.readRef name = .ok (names, none) → d.packed.get name = none) :
    (d.addIfNew name v).1 = (Spec.addIfNew d.readRef name v).1 ∧
    (d.addIfNew name v).2.readRef = (Spec.addIfNew d.readRef name v).2 := by
  have hv : v ≠ [] := validRefValue_ne_nil hval
  unfold Disk.addIfNew Spec.addIfNew
  simp only [hval, Bool.not_true, Bool.false_eq_true, if_false]
  cases hf : follow d.readRef name with
  | error e => exact ⟨rfl, rfl⟩
  | ok res =>
    obtain ⟨names, contents⟩ := res
    simp only
    cases contents with
    | some c => simp
    | none =>
      simp only [Option.isSome_none, Bool.false_eq_true, if_false]
      obtain ⟨hck, ⟨hanc, hdir⟩⟩ := hreal names none hf
      obtain ⟨r, hlast, hread⟩ := followAux_none d.readRef _ _ _ _ hf
      simp only [hlast, Option.getD_some] at hck hanc hdir ⊢
      simp only [hck, Bool.not_true, Bool.false_eq_true, if_false]
      rw [Disk.lockMkdirs_ok d r (fun p hp => (hanc p hp).1)]
      simp only
      -- the chain ended at `r` without a value: `r` reads as absent, so there is no loose file `r`
      have hnofile : d.files.get r = none := by
        cases hg : d.files.get r with
        | none => rfl
        | some c =>
          have hc : c ≠ [] := hwf r c hg
          have : d.readRef r = some c := by
            unfold Disk.readRef Disk.readLoose
            simp only [hck, if_true, hg]
            exact readRefOf_some hc _
          rcases hread with h | h
          · rw [this] at h; cases h
          · rw [this] at h; injection h with h; exact absurd h hc
      have hnd : r ∉ Disk.addDirs d.dirs (ancestors r) := by
        rw [mem_addDirs]
        rintro (h | h)
        · exact hdir h
        · exact not_mem_ancestors_self r h
      simp only [Disk.pathExists, Disk.isFile, hnofile, Option.isSome_none, hnd, decide_false, Bool.or_self,
        hpk names hf, Bool.false_eq_true, if_false, Disk.commitFile]
      exact ⟨trivial, Disk.readRef_commit _ hwf r v hck hv⟩
/-- `pack_refs` is a stuttering step — provided no ref it packs is a symbolic ref (each packed value
is the ref's own raw value) and no symref loop makes the selection raise. -/
theorem pack_refs_stutter_partial (d : Disk) (all : Bool) (l : List (Name × Val))
    (hsel : Disk.packSelect d all d.allKeys = .ok l)
    (hdirect : ∀ p ∈ l, d.readRef p.1 = some p.2) :
    (d.packRefs all).1 = .ok () ∧ (d.packRefs all).2.readRef = d.readRef := by
  unfold Disk.packRefs
  simp only [hsel]
  exact ⟨trivial, Disk.readRef_addPacked l d hdirect⟩

/-- the same with the hypothesis on the state: no ref the container lists (other than HEAD, which is
never packed) is a symbolic ref -/
theorem pack_refs_stutter_no_symrefs (d : Disk) (all : Bool)
    (hnosym : ∀ k ∈ d.allKeys, k ≠ headRef → d.isSymrefAt k = false) :
    (d.packRefs all).1 = .ok () ∧ (d.packRefs all).2.readRef = d.readRef := by
  have h' : ∀ k ∈ d.allKeys, k ≠ headRef → ∀ c, d.readRef k = some c → ¬ symref.isPrefixOf c = true := by
    intro k hk hne c hc
    have := hnosym k hk hne
    simp only [Disk.isSymrefAt, hc] at this
    simp [this]
  cases hsel : Disk.packSelect d all d.allKeys with
  | ok l => exact pack_refs_stutter_partial d all l hsel (Disk.packSelect_direct d all _ l h' hsel)
  | error e =>
    obtain ⟨l, hl⟩ := Disk.packSelect_ok d all d.allKeys h'
    rw [hl] at hsel; cases hsel

/-! ## 3. operation sequences -/

/-- one step: under `StepOk` the Disk operation returns what the spec returns and commutes with the
abstraction; `pack_refs` and re-opening are stuttering steps -/
theorem disk_step_refines (d : Disk) (hwf : d.WF) (op : MOp) (hok : d.StepOk op) :
    (d.step op).1 = (Spec.step d.readRef op).1 ∧ (d.step op).2.readRef = (Spec.step d.readRef op).2 := by
  cases op with
  | setIfEquals n o v =>
    obtain ⟨h1, h2, h3, h4⟩ := hok
    have := disk_set_if_equals_refines d hwf n o v h1 h2 h3 h4
    simp only [Disk.step, Spec.step, this.1, this.2, Except.map]
    exact ⟨trivial, trivial⟩
  | addIfNew n v =>
    obtain ⟨h1, h2⟩ := hok
    have h2' : ∀ names c, follow d.readRef n = .ok (names, c) →
        checkRefname ((names.getLast?).getD n) = true ∧ d.PathClear ((names.getLast?).getD n) := by
      intro names c hf; rw [hf] at h2; exact ⟨h2.1, h2.2.1⟩
    have h3 : ∀ names, follow d.readRef n = .ok (names, none) → d.packed.get n = none := by
      intro names hf; rw [hf] at h2; exact h2.2.2 rfl
    have := disk_add_if_new_refines d hwf n v h1 h2' h3
    simp only [Disk.step, Spec.step, this.1, this.2]
    exact ⟨trivial, trivial⟩
  | removeIfEquals n o =>
    obtain ⟨h1, h2, h3⟩ := hok
    have := disk_remove_if_equals_refines d hwf n o h1 h2 h3
    simp only [Disk.step, Spec.step, this.1, this.2, Except.map]
    exact ⟨trivial, trivial⟩
  | setSymbolicRef n t =>
    obtain ⟨h1, h2, h3, h4, h5⟩ := hok
    have h4' : ∃ r, follow d.readRef n = .ok r := by
      cases hf : follow d.readRef n with
      | ok r => exact ⟨r, rfl⟩
      | error e => rw [hf] at h4; exact absurd h4 id
    have := disk_set_symbolic_ref_refines d hwf n t h1 h2 h3 h4' h5
    simp only [Disk.step, Spec.step, this.1, this.2, Except.map]
    exact ⟨trivial, trivial⟩
  | packRefs all =>
    have := pack_refs_stutter_no_symrefs d all hok
    simp only [Disk.step, Spec.step, this.1, this.2, Except.map]
    exact ⟨trivial, trivial⟩
  | reopen => exact ⟨rfl, rfl⟩

theorem disk_step_WF (d : Disk) (hwf : d.WF) (op : MOp) (hok : d.StepOk op) : (d.step op).2.WF := by
  cases op with
  | setIfEquals n o v => exact Disk.setIfEquals_WF d hwf n o v hok.2.1
  | addIfNew n v => exact Disk.addIfNew_WF d hwf n v hok.1
  | removeIfEquals n o => exact Disk.removeIfEquals_WF d hwf n o
  | setSymbolicRef n t => exact Disk.setSymbolicRef_WF d hwf n t
  | packRefs all => exact Disk.packRefs_WF d hwf all
  | reopen => exact hwf

/-- **Refinement over operation sequences.**  For every sequence of operations whose every step
satisfies `StepOk` on the concrete state it starts from, the files backend returns, step by step,
exactly what the map spec returns, and ends in a state whose abstraction is the spec's final map.
`_partial`: the full statement would take "a universe of non-colliding names" as its only hypothesis;
what is proved here carries the per-step side conditions explicitly (`Disk.StepOk`), because the code
does *not* maintain them by itself — see the `_counterexample`s below (stale empty directories, missing
parent directories for symrefs, symref loops, packed symrefs). -/
theorem disk_refines_map_partial : ∀ (ops : List MOp) (d : Disk), d.WF → d.AllOk ops →
    (d.run ops).1 = (Spec.run d.readRef ops).1 ∧ (d.run ops).2.readRef = (Spec.run d.readRef ops).2 := by
  intro ops
  induction ops with
  | nil => intro d _ _; exact ⟨rfl, rfl⟩
  | cons op ops ih =>
    intro d hwf hall
    obtain ⟨hok, hrest⟩ := hall
    obtain ⟨h1, h2⟩ := disk_step_refines d hwf op hok
    obtain ⟨i1, i2⟩ := ih (d.step op).2 (disk_step_WF d hwf op hok) hrest
    simp only [Disk.run, Spec.run, h1, ← h2, i1, i2]
    exact ⟨trivial, trivial⟩


/-! concrete values for the examples and negation witnesses -/
def shaA : Val := b!"aaaaaaaaaaaaaaaaaaaaaaaaaaaaaaaaaaaaaaaa"
def shaB : Val := b!"bbbbbbbbbbbbbbbbbbbbbbbbbbbbbbbbbbbbbbbb"
def baseDirs : List Bytes := [b!"refs", b!"refs/heads", b!"refs/tags"]

/-- HEAD attached to `refs/heads/m`, which exists only in packed-refs -/
def exampleDisk : Disk :=
  { files := [(b!"HEAD", b!"ref: refs/heads/m")], dirs := baseDirs,
    packed := [(b!"refs/heads/m", shaA)], peeled := [] }

/-- update through HEAD (lands loose on top of the packed value), conditional delete, re-create,
create in a new directory, re-open, pack everything, symref in an existing directory -/
def exampleOps : List MOp :=
  [.setIfEquals b!"HEAD" (some shaA) shaB, .removeIfEquals b!"refs/heads/m" (some shaB),
   .addIfNew b!"refs/heads/m" shaA, .setIfEquals b!"refs/remotes/o/m" (some zeroSha) shaB, .reopen,
   .packRefs true, .setSymbolicRef b!"HEAD" b!"refs/remotes/o/m", .setIfEquals b!"HEAD" none shaA]

set_option maxRecDepth 8000 in
/-- non-vacuity: the hypotheses of `disk_refines_map_partial` hold on a sequence that exercises symref
following, loose-over-packed, packing and directory creation -/
example : exampleDisk.WF ∧ exampleDisk.AllOk exampleOps := by
  constructor
  · intro k v h
    simp only [exampleDisk, Map.get] at h
    split at h
    · injection h with h; subst h; decide
    · cases h
  · decide

set_option maxRecDepth 8000 in
example : (exampleDisk.run exampleOps).1 =
    [.ok (some true), .ok (some true), .ok (some true), .ok (some true), .ok none, .ok none, .ok none, .ok (some true)] ∧
    (exampleDisk.run exampleOps).2.readRef b!"refs/remotes/o/m" = some shaA := by decide


def emptyDisk : Disk := { files := [], dirs := baseDirs, packed := [], peeled := [] }

/-! ## 4. conflict refusal as coded, and where it is not refused -/

/-- creating `a/b` when `a` exists loose or packed is refused by `set_if_equals` (the packed probe, or
`makedirs`/the lock file hitting the loose file): an `OSError`, state unchanged apart from nothing -/
theorem collision_refused_partial (d : Disk) (a r : Name) (old : Option Val) (new : Val)
    (hname : checkRefname r = true) (hval : validRefValue new = true)
    (hreal : realname d.readRef r = r) (hanc : a ∈ ancestors r)
    (hex : (d.packed.get a).isSome = true ∨ (d.files.get a).isSome = true) :
    d.setIfEquals r old new = (.error .os, d) := by
  unfold Disk.setIfEquals
  simp only [hname, hval, Bool.not_true, Bool.false_eq_true, if_false, hreal]
  by_cases hp : (ancestors r).any (fun p => (d.packed.get p).isSome) = true
  · simp [hp]
  · simp only [hp, if_false]
    have hf : (ancestors r).any d.isFile = true := by
      rw [List.any_eq_true]
      rcases hex with h | h
      · exact absurd (List.any_eq_true.mpr ⟨a, hanc, h⟩) hp
      · exact ⟨a, hanc, h⟩
    simp [Disk.lockMkdirs, hf]

/-- … and creating `a` when `a/b` exists *loose* is refused too: `a` is a directory, the final rename
raises `IsADirectoryError` (the state keeps the directories `makedirs` created, no ref changes) -/
theorem collision_with_loose_descendant_refused (d : Disk) (hwf : d.WF) (a : Name) (new : Val)
    (hname : checkRefname a = true) (hval : validRefValue new = true)
    (hreal : realname d.readRef a = a) (hdir : a ∈ d.dirs)
    (hclear : ∀ p ∈ ancestors a, d.files.get p = none ∧ d.packed.get p = none)
    (habsent : d.readRef a = none) :
    (d.setIfEquals a none new).1 = .error .os ∧ (d.setIfEquals a none new).2.readRef = d.readRef := by
  unfold Disk.setIfEquals
  simp only [hname, hval, Bool.not_true, Bool.false_eq_true, if_false, hreal]
  have hprobe : (ancestors a).any (fun p => (d.packed.get p).isSome) = false := by
    rw [List.any_eq_false]; intro p hp; simp [(hclear p hp).2]
  simp only [hprobe, Bool.false_eq_true, if_false]
  rw [Disk.lockMkdirs_ok d a (fun p hp => (hclear p hp).1)]
  simp only
  have hrl : ({ d with dirs := Disk.addDirs d.dirs (ancestors a) } : Disk).origRef a = d.origRef a := rfl
  rw [hrl, ← Disk.readRef_eq d hwf a, habsent]
  have hin : a ∈ Disk.addDirs d.dirs (ancestors a) := (mem_addDirs a _ _).mpr (Or.inl hdir)
  simp [casOk, Disk.commitFile, hin]
  rfl

/-- the layout `git pack-refs --all` (or a clone) leaves: `refs/heads/a/b` only in packed-refs, no
directory `refs/heads/a` -/
def packedOnlyDescendant : Disk := { emptyDisk with packed := [(b!"refs/heads/a/b", shaA)] }

set_option maxRecDepth 8000 in
/-- DESIGN §7-F16: with `refs/heads/a/b` only packed, creating `refs/heads/a` succeeds and both exist -/
theorem packed_descendant_counterexample :
    (packedOnlyDescendant.setIfEquals b!"refs/heads/a" none shaB).1 = .ok true ∧
    (packedOnlyDescendant.setIfEquals b!"refs/heads/a" none shaB).2.readRef b!"refs/heads/a" = some shaB ∧
    (packedOnlyDescendant.setIfEquals b!"refs/heads/a" none shaB).2.readRef b!"refs/heads/a/b" = some shaA := by
  decide

def packedOnlyAncestor : Disk := { emptyDisk with packed := [(b!"refs/heads/a", shaA)] }

set_option maxRecDepth 8000 in
/-- only `set_if_equals` probes packed ancestors: `add_if_new` and `set_symbolic_ref` create
`refs/heads/a/b` below the packed-only `refs/heads/a` -/
theorem packed_ancestor_counterexample :
    (packedOnlyAncestor.setIfEquals b!"refs/heads/a/b" none shaB).1 = .error .os ∧
    (packedOnlyAncestor.addIfNew b!"refs/heads/a/b" shaB).1 = .ok true ∧
    (packedOnlyAncestor.addIfNew b!"refs/heads/a/b" shaB).2.readRef b!"refs/heads/a/b" = some shaB ∧
    (packedOnlyAncestor.addIfNew b!"refs/heads/a/b" shaB).2.readRef b!"refs/heads/a" = some shaA := by
  decide

set_option maxRecDepth 8000 in
/-- a failed compare-and-swap on `a/b` leaves the empty directory `a` behind, and the unconditional
creation of `a` — which the map spec performs — then fails: `StepOk` is not an invariant of the code -/
theorem stale_directory_counterexample :
    let ops : List MOp := [.setIfEquals b!"refs/heads/a/b" (some shaA) shaB, .setIfEquals b!"refs/heads/a" none shaB]
    (emptyDisk.run ops).1 = [.ok (some false), .error .os] ∧
    (Spec.run emptyDisk.readRef ops).1 = [.ok (some false), .ok (some true)] := by
  decide

set_option maxRecDepth 8000 in
/-- `set_symbolic_ref` does not create parent directories; and it cannot re-point a name that is part of
a symref loop (it follows the old value first) -/
theorem set_symbolic_ref_counterexample :
    (emptyDisk.setSymbolicRef b!"refs/remotes/o/m" b!"refs/heads/m").1 = .error .os ∧
    (let d : Disk := { emptyDisk with files := [(b!"refs/heads/s", b!"ref: refs/heads/t"),
                                                 (b!"refs/heads/t", b!"ref: refs/heads/s")] }
     (d.setSymbolicRef b!"refs/heads/s" b!"refs/heads/m").1 = .error .symrefLoop ∧
     (Dict.setSymbolicRef d.files b!"refs/heads/s" b!"refs/heads/m").1 = .error .symrefLoop) := by
  decide

set_option maxRecDepth 8000 in
/-- `pack_refs(all=True)` is not a stuttering step when a symbolic ref lives under `refs/`: the symref is
replaced by the sha it resolves to; with a symref loop it raises -/
theorem pack_refs_symref_counterexample :
    (let d : Disk := { emptyDisk with files := [(b!"refs/heads/a", shaA), (b!"refs/heads/s", b!"ref: refs/heads/a")] }
     d.readRef b!"refs/heads/s" = some b!"ref: refs/heads/a" ∧
     (d.packRefs true).1 = .ok () ∧ (d.packRefs true).2.readRef b!"refs/heads/s" = some shaA) ∧
    (let d : Disk := { emptyDisk with files := [(b!"refs/heads/s", b!"ref: refs/heads/t"),
                                                 (b!"refs/heads/t", b!"ref: refs/heads/s")] }
     (d.packRefs true).1 = .error .symrefLoop) := by
  decide

set_option maxRecDepth 8000 in
/-- `add_if_new` through a dangling symref consults packed-refs under the symref's own name -/
theorem add_if_new_packed_name_counterexample :
    let d : Disk := { emptyDisk with files := [(b!"refs/heads/s", b!"ref: refs/heads/t")],
                                     packed := [(b!"refs/heads/s", shaA)] }
    (d.addIfNew b!"refs/heads/s" shaB).1 = .ok false ∧
    (Spec.addIfNew d.readRef b!"refs/heads/s" shaB).1 = .ok true := by
  decide

set_option maxRecDepth 8000 in
/-- `get_peeled` answers from the packed entry although a loose ref overrides it, and `add_packed_refs`
keeps the old peeled line when the value changes -/
theorem get_peeled_counterexample :
    let d : Disk := { emptyDisk with files := [(b!"refs/tags/v", shaB)],
                                     packed := [(b!"refs/tags/v", b!"cccccccccccccccccccccccccccccccccccccccc")],
                                     peeled := [(b!"refs/tags/v", shaA)] }
    d.readRef b!"refs/tags/v" = some shaB ∧ d.getPeeled b!"refs/tags/v" = .ok (some shaA) ∧
    (d.packRefs true).2.packed.get b!"refs/tags/v" = some shaB ∧
    (d.packRefs true).2.getPeeled b!"refs/tags/v" = .ok (some shaA) := by
  decide

/-! ## 5. DictRefsContainer ≡ the map spec (when not writing through a symref) -/

theorem dict_set_if_equals_spec (m : Map) (hwf : DictWF m) (name : Name) (old : Option Val) (new : Val)
    (hname : checkRefname name = true) (hval : validRefValue new = true)
    (hdirect : ∀ c, m.get name = some c → ¬ symref.isPrefixOf c = true) :
    (Dict.setIfEquals m name old new).1 = .ok (Spec.setIfEquals (Dict.readRef m) name old new).1 ∧
    Dict.readRef (Dict.setIfEquals m name old new).2 = (Spec.setIfEquals (Dict.readRef m) name old new).2 := by
  have hreal : realname (Dict.readRef m) name = name := by
    apply realname_direct
    rw [dict_readRef_eq m hwf]; exact hdirect
  unfold Dict.setIfEquals Spec.setIfEquals
  simp only [hval, hname, hreal, Bool.not_true, Bool.false_eq_true, if_false]
  rw [dict_readRef_eq m hwf]
  by_cases hcas : casOk (m.get name) old
  · simp only [hcas, Bool.not_true, Bool.false_eq_true, if_false, if_true]
    refine ⟨trivial, ?_⟩
    rw [← dict_readRef_eq m hwf]
    exact dict_readRef_set m hwf name new (validRefValue_ne_nil hval)
  · simp only [hcas, Bool.not_false, if_true, Bool.false_eq_true, if_false]
    exact ⟨trivial, (dict_readRef_eq m hwf)⟩

theorem dict_remove_if_equals_spec (m : Map) (hwf : DictWF m) (name : Name) (old : Option Val) :
    (Dict.removeIfEquals m name old).1 = .ok (Spec.removeIfEquals (Dict.readRef m) name old).1 ∧
    Dict.readRef (Dict.removeIfEquals m name old).2 = (Spec.removeIfEquals (Dict.readRef m) name old).2 := by
  unfold Dict.removeIfEquals Spec.removeIfEquals
  rw [dict_readRef_eq m hwf]
  by_cases hcas : casOk (m.get name) old
  · simp only [hcas, Bool.not_true, Bool.false_eq_true, if_false, if_true]
    refine ⟨trivial, ?_⟩
    funext n
    unfold RefMap.update Dict.readRef
    by_cases hn : n = name
    · subst hn; simp [Map.get_del_eq, readRefOf]
    · simp only [Map.get_del_ne _ _ _ hn, hn, if_false]
      cases h : m.get n with
      | none => rfl
      | some c => exact readRefOf_some (hwf n c h) _
  · simp only [hcas, Bool.not_false, if_true, Bool.false_eq_true, if_false]
    exact ⟨trivial, (dict_readRef_eq m hwf)⟩

theorem dict_add_if_new_spec (m : Map) (hwf : DictWF m) (name : Name) (v : Val)
    (hval : validRefValue v = true)
    (hdirect : ∀ c, m.get name = some c → ¬ symref.isPrefixOf c = true) :
    (Dict.addIfNew m name v).1 = (Spec.addIfNew (Dict.readRef m) name v).1 ∧
    Dict.readRef (Dict.addIfNew m name v).2 = (Spec.addIfNew (Dict.readRef m) name v).2 := by
  have hv := validRefValue_ne_nil hval
  unfold Dict.addIfNew Spec.addIfNew
  simp only [hval, Bool.not_true, Bool.false_eq_true, if_false]
  rw [dict_readRef_eq m hwf]
  cases hg : m.get name with
  | none =>
    have hf : follow m.get name = .ok ([name], none) := by
      unfold follow followAux; simp [hg]
    simp only [hf, Option.isSome_none, Bool.false_eq_true, if_false, List.getLast?_singleton, Option.getD_some]
    refine ⟨trivial, ?_⟩
    rw [← dict_readRef_eq m hwf]
    exact dict_readRef_set m hwf name v hv
  | some c =>
    have hc := hwf name c hg
    have hns := hdirect c hg
    have hf : follow m.get name = .ok ([name], some c) := by
      unfold follow followAux
      have he : c.isEmpty = false := by cases c with | nil => exact absurd rfl hc | cons _ _ => rfl
      simp only [hg, he, symrefMaxDepth]
      simp [hns]
    simp only [hf, Option.isSome_some, if_true]
    exact ⟨trivial, dict_readRef_eq m hwf⟩

theorem dict_set_symbolic_ref_spec (m : Map) (hwf : DictWF m) (name other : Name)
    (hnoloop : ∃ r, follow (Dict.readRef m) name = .ok r) :   -- as coded: the old value is followed first
    (Dict.setSymbolicRef m name other).1 = .ok () ∧
    Dict.readRef (Dict.setSymbolicRef m name other).2 = Spec.setSymbolicRef (Dict.readRef m) name other := by
  obtain ⟨r, hr⟩ := hnoloop
  unfold Dict.setSymbolicRef Spec.setSymbolicRef
  simp only [hr]
  exact ⟨trivial, dict_readRef_set m hwf name _ (by simp [symref])⟩

/-- Dict and Disk agree: from states with the same abstraction, an update that does not write through a
symref and meets no collision returns the same value on both and keeps the abstractions equal -/
theorem dict_equiv_disk (m : Map) (hwf : DictWF m) (d : Disk) (hdwf : d.WF) (habs : Dict.readRef m = d.readRef)
    (name : Name) (old : Option Val) (new : Val)
    (hname : checkRefname name = true) (hval : validRefValue new = true)
    (hdirect : ∀ c, m.get name = some c → ¬ symref.isPrefixOf c = true)
    (hclear : d.PathClear name) :
    (Dict.setIfEquals m name old new).1 = (d.setIfEquals name old new).1 ∧
    Dict.readRef (Dict.setIfEquals m name old new).2 = (d.setIfEquals name old new).2.readRef := by
  have hreal : realname d.readRef name = name := by
    apply realname_direct
    rw [← habs, dict_readRef_eq m hwf]; exact hdirect
  obtain ⟨a1, a2⟩ := dict_set_if_equals_spec m hwf name old new hname hval hdirect
  obtain ⟨b1, b2⟩ := disk_set_if_equals_refines d hdwf name old new hname hval (by rw [hreal]; exact hname)
    (by rw [hreal]; exact hclear)
  rw [a1, a2, b1, b2, habs]
  exact ⟨rfl, rfl⟩

/-! ## 6. reftable: conditional updates agree with the spec; `None`/`ZERO_SHA` do not (DESIGN §7-F17) -/

theorem reftable_set_if_equals_partial (m : Map) (name : Name) (o new : Val)
    (ho : o ≠ []) (hz : o ≠ zeroSha)
    (hdirect : ∀ c, m.get name = some c → ¬ symref.isPrefixOf c = true) :
    (Reftable.setIfEquals m name (some o) new).1 = .ok (Spec.setIfEquals m.get name (some o) new).1 ∧
    ((Reftable.setIfEquals m name (some o) new).2).get = (Spec.setIfEquals m.get name (some o) new).2 := by
  have hreal : realname m.get name = name := realname_direct _ _ hdirect
  unfold Reftable.setIfEquals Spec.setIfEquals Reftable.oldBytes
  have he : o.isEmpty = false := by cases o with | nil => exact absurd rfl ho | cons _ _ => rfl
  simp only [hreal, he, Bool.false_eq_true, if_false, casOk]
  cases hg : m.get name with
  | none =>
    have : (zeroSha == o) = false := by
      rw [beq_eq_false_iff_ne]; exact fun h => hz h.symm
    simp [this]
  | some c =>
    by_cases hco : c = o
    · subst hco
      simp only [bne_self_eq_false, Bool.false_eq_true, if_false, beq_self_eq_true, if_true]
      refine ⟨trivial, ?_⟩
      funext n
      unfold RefMap.update
      by_cases hn : n = name
      · subst hn; simp [Map.get_set_eq]
      · simp [Map.get_set_ne _ _ _ _ hn, hn]
    · have h1 : (some c != some o) = true := by simp [hco]
      have h2 : (c == o) = false := by simp [hco]
      simp [h1, h2]

set_option maxRecDepth 8000 in
theorem reftable_unconditional_counterexample :
    let m : Map := [(b!"refs/heads/m", shaA)]
    Reftable.setIfEquals m b!"refs/heads/m" none shaB = (.ok false, m) ∧
    (Spec.setIfEquals m.get b!"refs/heads/m" none shaB).1 = true ∧
    Reftable.removeIfEquals m b!"refs/heads/m" none = (.ok false, m) ∧
    (Spec.removeIfEquals m.get b!"refs/heads/m" none).1 = true ∧
    Reftable.setIfEquals [] b!"refs/heads/m" (some zeroSha) shaA = (.ok false, []) ∧
    (Spec.setIfEquals (Map.get []) b!"refs/heads/m" (some zeroSha) shaA).1 = true := by
  decide

/-! ## 7. NamespacedRefsContainer: a symref set through the namespace does not resolve through it -/

set_option maxRecDepth 8000 in
theorem namespaced_symref_counterexample :
    let o := namespaced dictOps (nsPrefix b!"foo")
    let m0 : Map := [(b!"refs/namespaces/foo/refs/heads/a", shaA)]
    o.getItem m0 b!"refs/heads/a" = .ok shaA ∧
    (o.setSymbolicRef m0 b!"refs/heads/s" b!"refs/heads/a").1 = .ok () ∧
    o.getItem (o.setSymbolicRef m0 b!"refs/heads/s" b!"refs/heads/a").2 b!"refs/heads/s" = .error .key ∧
    o.readRef (o.setSymbolicRef m0 b!"refs/heads/s" b!"refs/heads/a").2 b!"refs/heads/s"
      = some b!"ref: refs/namespaces/foo/refs/heads/a" := by
  decide

/-! ## 8. packed-refs: what `write_packed_refs` writes, `get_packed_refs` reads back — peeled lines included -/

open Dulwich.PackedRefs in
theorem packed_refs_roundtrip (es : List Entry) (h : ∀ e ∈ es, EntryOk e) : readFile (writeFile es) = some es := by
  obtain ⟨h0, hh0, h10⟩ : ∃ h0, packedHeader = h0 ++ [10] ∧ (10 : UInt8) ∉ h0 :=
    ⟨packedHeader.dropLast, by decide, by decide⟩
  have hl : lines (writeFile es) = packedHeader :: es.flatMap entryLines := by
    unfold writeFile
    have : packedHeader ++ writeEntries es = h0 ++ 10 :: writeEntries es := by rw [hh0]; simp
    rw [this, lines_append_nl _ _ h10, ← hh0, lines_writeEntries es h]
  unfold readFile
  rw [hl]
  have hprobe : (packedHeaderProbe1.isPrefixOf packedHeader && hasInfix packedHeaderProbe2 packedHeader) = true := by
    decide
  simp only [hprobe, if_true]
  exact readPeeled_entries es h

open Dulwich.PackedRefs in
set_option maxRecDepth 8000 in
example : ∀ e ∈ [({ name := b!"refs/tags/v", sha := shaA, peeled := some shaB } : Entry),
                 { name := b!"refs/heads/m", sha := shaB, peeled := none }], EntryOk e := by
  intro e he
  simp only [List.mem_cons, List.not_mem_nil, or_false] at he
  rcases he with rfl | rfl
  · refine ⟨by decide, by decide, ?_⟩
    intro p hp; injection hp with hp; subst hp; decide
  · exact ⟨by decide, by decide, fun p hp => by cases hp⟩


/-! ## 9. the statement over a universe of non-colliding names: true for the symref-free fragment
(packing included), false in general -/

/-- values written by an operation are hex shas -/
def opValuesOk : MOp → Prop
  | .setIfEquals _ _ v => validHexSha v = true
  | .addIfNew _ v => validHexSha v = true
  | _ => True

/-- **The full statement** of the refinement, as the property words it: starting from an empty
repository, for every universe of valid, pairwise non-colliding names and every sequence of operations
over it (values = hex shas), the files backend returns what the map spec returns and ends in a state
whose abstraction is the spec's map. -/
def disk_refines_map_Statement : Prop :=
  ∀ (U : List Name), (∀ n ∈ U, checkRefname n = true) → NonColliding U →
  ∀ (ops : List MOp), (∀ op ∈ ops, (∀ n ∈ op.names, n ∈ U) ∧ opValuesOk op) →
    (emptyDisk.run ops).1 = (Spec.run emptyDisk.readRef ops).1 ∧
    (emptyDisk.run ops).2.readRef = (Spec.run emptyDisk.readRef ops).2

set_option maxRecDepth 8000 in
/-- The full statement is **false for the code as it is**: `set_symbolic_ref` into a directory that
does not exist yet fails with an `OSError` where the spec succeeds (and, independently, `pack_refs`
turns a symref into a plain ref, see `pack_refs_symref_counterexample`). -/
theorem disk_refines_map_full_counterexample : ¬ disk_refines_map_Statement := by
  intro h
  have := h [b!"refs/remotes/o/m", b!"refs/heads/m"] (by decide) (by unfold NonColliding; decide)
    [.setSymbolicRef b!"refs/remotes/o/m" b!"refs/heads/m"]
    (by intro op hop; simp only [List.mem_singleton] at hop; subst hop; exact ⟨by decide, trivial⟩)
  exact absurd this.1 (by decide)

/-- **For every operation sequence over non-colliding names** — in the fragment without symbolic refs
(conditional and unconditional writes, creations, conditional and unconditional deletes, `pack_refs`
with either flag, re-opening; any interleaving, any length; refs end up loose, packed or both) — the
full statement holds with no side condition: from any state satisfying the invariant `Disk.Inv U` (only
names of `U` stored, hex-sha values, only directories on the way to names of `U`; in particular the
empty repository), every step returns what the map spec returns, `pack_refs` and re-opening are
stuttering steps, and the final abstraction is the spec's final map. -/
theorem disk_refines_map_direct (U : List Name) (hU : ∀ n ∈ U, checkRefname n = true) (hnc : NonColliding U) :
    ∀ (ops : List MOp) (d : Disk), d.Inv U → (∀ op ∈ ops, op.Direct ∧ ∀ n ∈ op.names, n ∈ U) →
    (d.run ops).1 = (Spec.run d.readRef ops).1 ∧ (d.run ops).2.readRef = (Spec.run d.readRef ops).2 := by
  intro ops d hi hops
  have hall : ∀ (ops : List MOp) (d : Disk), d.Inv U → (∀ op ∈ ops, op.Direct ∧ ∀ n ∈ op.names, n ∈ U) →
      d.AllOk ops := by
    intro ops
    induction ops with
    | nil => intro _ _ _; trivial
    | cons op ops ih =>
      intro d hi hops
      obtain ⟨hd, hn⟩ := hops op (by simp)
      exact ⟨hi.stepOk hU hnc op hd hn, ih _ (hi.step op hd hn) (fun o ho => hops o (by simp [ho]))⟩
  exact disk_refines_map_partial ops d hi.wf (hall ops d hi hops)

theorem emptyDisk_inv (U : List Name) : emptyDisk.Inv U := by
  refine ⟨?_, ?_, fun _ hx => Or.inl hx⟩
  · intro k v h; simp [emptyDisk, Map.get] at h
  · intro k v h; simp [emptyDisk, Map.get] at h

/-- non-vacuity: a universe with names at different depths (none on the way to another) -/
example : (∀ n ∈ [b!"refs/heads/a", b!"refs/heads/d/e/f", b!"refs/remotes/o/m", b!"refs/tags/v", b!"HEAD"],
      checkRefname n = true) ∧
    NonColliding [b!"refs/heads/a", b!"refs/heads/d/e/f", b!"refs/remotes/o/m", b!"refs/tags/v", b!"HEAD"] := by
  constructor
  · decide
  · unfold NonColliding; decide

set_option maxRecDepth 8000 in
/-- non-vacuity of `disk_refines_map_direct`: a sequence in the fragment that leaves `refs/heads/a`
packed with a newer loose value on top, then deletes it (loose and packed), while `refs/tags/v` stays
packed only -/
example :
    let U : List Name := [b!"refs/heads/a", b!"refs/heads/d/e/f", b!"refs/tags/v"]
    let ops : List MOp := [.setIfEquals b!"refs/heads/a" none shaA, .addIfNew b!"refs/tags/v" shaB, .packRefs true,
      .setIfEquals b!"refs/heads/a" (some shaA) shaB, .reopen, .packRefs false,
      .removeIfEquals b!"refs/heads/a" (some shaB), .addIfNew b!"refs/heads/d/e/f" shaA]
    (∀ op ∈ ops, op.Direct ∧ ∀ n ∈ op.names, n ∈ U) ∧
    (emptyDisk.run ops).1 = [.ok (some true), .ok (some true), .ok none, .ok (some true), .ok none, .ok none,
      .ok (some true), .ok (some true)] ∧
    (emptyDisk.run ops).2.readRef b!"refs/heads/a" = none ∧
    (emptyDisk.run ops).2.packed.get b!"refs/tags/v" = some shaB := by
  refine ⟨?_, by decide, by decide, by decide⟩
  intro op hop
  simp only [List.mem_cons, List.not_mem_nil, or_false] at hop
  rcases hop with rfl | rfl | rfl | rfl | rfl | rfl | rfl | rfl <;>
    exact ⟨by first | trivial | (show validHexSha _ = true; decide), by decide⟩

end Dulwich.Props.C16
