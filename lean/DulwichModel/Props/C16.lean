/-
  C16 — ref backends obey one contract; the files backend matches git's own view; check_ref_format
  agrees with git-check-ref-format on every byte string.

  Only property theorems, non-vacuity examples and (regression) witnesses live here; helper lemmas are
  in Lemmas/{RefFormat,Refs,PackedRefs}.lean.  Models: Model/{RefFormat,Refs,PackedRefs}.lean (the code
  after the C16 fix series) and Model/RefsOld.lean (the code before it, for the regression witnesses); the
  sequence of tests of `check_ref_format`, BAD_REF_CHARS, SYMREF, the `_check_refname` constants, the
  symref depth limit and the packed-refs markers come from Gen/Refs.lean, which the translator
  regenerates from /repo on every run.
-/
import DulwichModel.Lemmas.Refs
import DulwichModel.Lemmas.PackedRefs
import DulwichModel.Model.RefsOld

namespace Dulwich.Props.C16
open Dulwich Dulwich.RefFormat Dulwich.Refs Dulwich.Gen.Refs

/-! ## 1. `check_ref_format` ⇔ the rules of git-check-ref-format(1), for ALL byte strings -/

/-- "no slash-separated component can begin with a dot `.` or end with the sequence `.lock`";
components are non-empty ("cannot begin or end with a slash `/` or contain multiple consecutive
slashes") and, being components, contain no slash. -/
def ComponentOk (c : Bytes) : Prop :=
  (47 : UInt8) ∉ c ∧ c ≠ [] ∧ ¬ (b!"." <+: c) ∧ ¬ (b!".lock" <:+ c)

structure GitRefRules (n : Bytes) : Prop where
  comps : ∃ cs : List Bytes, 2 ≤ cs.length ∧ n = joinWith 47 cs ∧ ∀ c ∈ cs, ComponentOk c
  noDotDot : ¬ (b!".." <:+: n)
  chars : ∀ c ∈ n, 32 ≤ c.toNat ∧ c.toNat ≠ 127 ∧ c ∉ b!" ~^:?*["
  noEndDot : ¬ (b!"." <:+ n)
  noAtBrace : ¬ (b!"@{" <:+: n)
  notAt : n ≠ b!"@"
  noBackslash : (92 : UInt8) ∉ n

theorem check_ref_format_iff_rules (n : Bytes) : checkRefFormat n = some true ↔ GitRefRules n := by
  rw [checkRefFormat_unfold]
  constructor
  · rintro ⟨h1, h2, h3, h4, ⟨c, hc, hc'⟩, h6, h7, h8⟩
    refine ⟨⟨splitOnByte 47 n, split_length_of_mem 47 n h2, (join_split 47 n).symm, ?_⟩, h3, ?_, ?_, h6, h1, h7⟩
    · intro c hc
      exact ⟨split_no_sep 47 n c hc, h8 c hc⟩
    · intro c hc
      have := h4 c hc
      exact ⟨by omega, (badRefChars_iff c).mp this.2⟩
    · intro hs
      rw [← getLast?_eq_some_iff_suffix] at hs
      rw [hs] at hc
      simp at hc
      subst hc
      simp at hc'
  · rintro ⟨⟨cs, hlen, hn, hcs⟩, h3, h4, h5, h6, h1, h7⟩
    have hne : cs ≠ [] := by intro h; subst h; simp at hlen
    have hsplit : splitOnByte 47 n = cs := by
      rw [hn]; exact split_join 47 cs hne (fun c hc => (hcs c hc).1)
    have hslash : (47:UInt8) ∈ n := by rw [hn]; exact mem_join_of_length 47 cs hlen
    refine ⟨h1, hslash, h3, ?_, ?_, h6, h7, ?_⟩
    · intro c hc
      have := h4 c hc
      exact ⟨by omega, (badRefChars_iff c).mpr ⟨this.2.1, this.2.2⟩⟩
    · -- last character: exists (name non-empty since it contains a slash), not '/', not '.'
      cases hl : n.getLast? with
      | none => rw [List.getLast?_eq_none_iff] at hl; subst hl; simp at hslash
      | some c =>
        refine ⟨c, rfl, ?_⟩
        have hsuf : [c] <:+ n := (getLast?_eq_some_iff_suffix c n).mp hl
        simp only [List.mem_cons, List.not_mem_nil, or_false, not_or]
        constructor
        · -- ends with '/': the last component would be empty
          intro h; subst h
          obtain ⟨l, rfl⟩ := hsuf
          have := splitFirst_snoc_sep 47 l
          have hmem : [] ∈ splitOnByte 47 (l ++ [47]) := by simp [splitOnByte, this]
          rw [hsplit] at hmem
          exact (hcs [] hmem).2.1 rfl
        · intro h; subst h; exact h5 hsuf
    · rw [hsplit]; intro c hc; exact (hcs c hc).2


/-- `check_ref_format` never raises (the `refname[-1]` of an empty name is guarded by the earlier tests) -/
theorem check_ref_format_total (n : Bytes) : checkRefFormat n ≠ none := by
  cases n with
  | nil => decide
  | cons b r =>
    have hne : ∀ t, runTest (b :: r) t ≠ none := by
      intro t
      cases t <;> simp [runTest]
      · cases h : (b :: r).getLast? with
        | none => simp [List.getLast?_eq_none_iff] at h
        | some c => simp
    have : ∀ ts, runTests ts (b :: r) ≠ none := by
      intro ts
      induction ts with
      | nil => simp [runTests]
      | cons t ts ih =>
        simp only [runTests]
        split
        · rename_i h; exact absurd h (hne t)
        · simp
        · exact ih
    exact this _

example : GitRefRules b!"heads/master" := (check_ref_format_iff_rules _).mp (by decide)
example : ¬ GitRefRules b!"heads/a.lock" := fun h => absurd ((check_ref_format_iff_rules _).mpr h) (by decide)
example : ¬ GitRefRules b!"heads/a..b" := fun h => absurd ((check_ref_format_iff_rules _).mpr h) (by decide)
example : ¬ GitRefRules b!"master" := fun h => absurd ((check_ref_format_iff_rules _).mpr h) (by decide)

/-- `_check_refname` on names without `//`: HEAD, refs/stash, or `refs/` followed by a name git accepts -/
theorem check_refname_iff (name : Bytes) (hds : hasInfix doubleSlash name = false) :
    checkRefname name = true ↔
      (name = headRef ∨ name = stashRef ∨ ∃ rest, name = refsPrefix ++ rest ∧ GitRefRules rest) := by
  unfold checkRefname
  simp only [hds, Bool.false_and, Bool.or_eq_true, decide_eq_true_eq]
  constructor
  · intro h
    split at h
    · rename_i h'; rcases h' with h' | h'
      · exact Or.inl h'
      · exact Or.inr (Or.inl h')
    · split at h
      · cases h
      · rename_i hp
        simp only [Bool.not_eq_true', Bool.not_eq_false] at hp
        split at h
        · rename_i hf
          refine Or.inr (Or.inr ⟨name.drop refsPrefixLen, ?_, (check_ref_format_iff_rules _).mp hf⟩)
          obtain ⟨t, ht⟩ := List.isPrefixOf_iff_prefix.mp hp
          rw [← ht]
          simp [refsPrefix, refsPrefixLen]
        · cases h
  · intro h
    rcases h with h | h | ⟨rest, hr, hrules⟩
    · simp [h]
    · simp [h]
    · split
      · rfl
      · have hp : refsPrefix.isPrefixOf name = true := by
          rw [hr]; exact List.isPrefixOf_iff_prefix.mpr ⟨rest, rfl⟩
        have hd : name.drop refsPrefixLen = rest := by rw [hr]; simp [refsPrefix, refsPrefixLen]
        simp only [hp, Bool.not_true, Bool.false_eq_true, if_false, hd]
        simp [(check_ref_format_iff_rules rest).mpr hrules]

/-! ## 2. the files backend (loose + packed, loose precedence) refines the map `Name → Option Val`

The abstraction of a Disk state is `Disk.readRef` (the base-class `read_ref`: loose value, else packed
value).  Each theorem says: when no stored ref — loose or packed — collides with the ref the operation
writes (`Disk.NoCollision`, decidable), the operation returns what the two-line spec returns and commutes
with the abstraction.  Nothing is assumed about directories, symref loops or what `pack_refs` packs any
more (model of the code after the C16 fix series; the old side conditions are documented by the
`…_regression` witnesses of section 10). -/

theorem disk_set_if_equals_refines (d : Disk) (hwf : d.WF) (name : Name) (old : Option Val) (new : Val)
    (hname : checkRefname name = true) (hval : validRefValue new = true)
    (hreal : checkRefname (realname d.readRef name) = true)
    (hclear : d.NoCollision (realname d.readRef name)) :
    (d.setIfEquals name old new).1 = .ok (Spec.setIfEquals d.readRef name old new).1 ∧
    (d.setIfEquals name old new).2.readRef = (Spec.setIfEquals d.readRef name old new).2 := by
  have hnew : new ≠ [] := validRefValue_ne_nil hval
  unfold Disk.setIfEquals Spec.setIfEquals
  simp only [hname, hval, Bool.not_true, Bool.false_eq_true, if_false]
  generalize hr : realname d.readRef name = r at *
  simp only [Disk.packedConflict_false d r hclear, Bool.false_eq_true, if_false]
  rw [Disk.lockMkdirs_ok d r (fun p hp => (hclear.1 p hp).1)]
  simp only
  have hrl : ({ d with dirs := Disk.addDirs d.dirs (ancestors r) } : Disk).origRef r = d.origRef r := rfl
  rw [hrl, ← Disk.readRef_eq d hwf r]
  by_cases hcas : casOk (d.readRef r) old
  · simp only [hcas, Bool.not_true, Bool.false_eq_true, if_false, if_true]
    by_cases hsame : (d.readRef r == some new) = true
    · simp only [hsame, if_true]
      refine ⟨trivial, ?_⟩
      funext n
      have : d.readRef r = some new := by simpa using hsame
      unfold RefMap.update
      by_cases hn : n = r
      · subst hn; simp [this, Disk.readRef_dirs]
      · simp [hn, Disk.readRef_dirs]
    · simp only [hsame, Bool.false_eq_true, if_false]
      obtain ⟨d2, hc, hrr⟩ := Disk.write_ok d hwf r new hreal hnew hclear.2.1 (Disk.addDirs d.dirs (ancestors r))
      simp only [hc]
      exact ⟨trivial, hrr⟩
  · simp only [hcas, Bool.not_false, if_true, Bool.false_eq_true, if_false]
    exact ⟨trivial, rfl⟩

theorem disk_remove_if_equals_refines (d : Disk) (hwf : d.WF) (name : Name) (old : Option Val)
    (hname : checkRefname name = true)
    (hanc : ∀ p ∈ ancestors name, d.files.get p = none) :
    (d.removeIfEquals name old).1 = .ok (Spec.removeIfEquals d.readRef name old).1 ∧
    (d.removeIfEquals name old).2.readRef = (Spec.removeIfEquals d.readRef name old).2 := by
  unfold Disk.removeIfEquals Spec.removeIfEquals
  simp only [hname, Bool.not_true, Bool.false_eq_true, if_false]
  rw [Disk.lockMkdirs_ok d name hanc]
  simp only
  have hrl : ({ d with dirs := Disk.addDirs d.dirs (ancestors name) } : Disk).origRef name = d.origRef name := rfl
  rw [hrl, ← Disk.readRef_eq d hwf name]
  by_cases hcas : casOk (d.readRef name) old
  · simp only [hcas, Bool.not_true, Bool.false_eq_true, if_false, if_true]
    refine ⟨trivial, ?_⟩
    rw [Disk.cleanupParents_readRef]
    have hrm := Disk.readRef_remove { d with dirs := Disk.addDirs d.dirs (ancestors name) } name
    split
    · rw [Disk.pruneEmpty_readRef]; exact hrm
    · exact hrm
  · simp only [hcas, Bool.not_false, if_true, Bool.false_eq_true, if_false]
    exact ⟨trivial, rfl⟩

theorem disk_set_symbolic_ref_refines (d : Disk) (hwf : d.WF) (name other : Name)
    (hname : checkRefname name = true) (hother : checkRefname other = true)
    (hclear : d.NoCollision name) :
    (d.setSymbolicRef name other).1 = .ok () ∧
    (d.setSymbolicRef name other).2.readRef = Spec.setSymbolicRef d.readRef name other := by
  unfold Disk.setSymbolicRef Spec.setSymbolicRef
  simp only [hname, hother, Bool.not_true, Bool.false_eq_true, if_false, Disk.packedConflict_false d name hclear]
  rw [Disk.lockMkdirs_ok d name (fun p hp => (hclear.1 p hp).1)]
  simp only
  obtain ⟨d2, hc, hrr⟩ := Disk.write_ok d hwf name (symref ++ other) hname (by simp [symref]) hclear.2.1
    (Disk.addDirs d.dirs (ancestors name))
  simp only [hc]
  exact ⟨trivial, hrr⟩

theorem disk_add_if_new_refines (d : Disk) (hwf : d.WF) (name : Name) (v : Val)
    (hval : validRefValue v = true)
    (hreal : ∀ names c, follow d.readRef name = .ok (names, c) →
      checkRefname ((names.getLast?).getD name) = true ∧ d.NoCollision ((names.getLast?).getD name)) :
    (d.addIfNew name v).1 = (Spec.addIfNew d.readRef name v).1 ∧
    (d.addIfNew name v).2.readRef = (Spec.addIfNew d.readRef name v).2 := by
  have hv : v ≠ [] := validRefValue_ne_nil hval
  unfold Disk.addIfNew Spec.addIfNew
  simp only [hval, Bool.not_true, Bool.false_eq_true, if_false]
  cases hf : follow d.readRef name with
  | error e => exact ⟨rfl, rfl⟩
  | ok res =>
    obtain ⟨names, contents⟩ := res
    simp only
    cases contents with
    | some c => simp
    | none =>
      simp only [Option.isSome_none, Bool.false_eq_true, if_false]
      obtain ⟨hck, hclear⟩ := hreal names none hf
      obtain ⟨r, hlast, hread⟩ := followAux_none d.readRef _ _ _ _ hf
      simp only [hlast, Option.getD_some] at hck hclear ⊢
      simp only [hck, Bool.not_true, Bool.false_eq_true, if_false, Disk.packedConflict_false d r hclear]
      rw [Disk.lockMkdirs_ok d r (fun p hp => (hclear.1 p hp).1)]
      simp only
      -- the chain ended at `r` without a value: neither a loose file nor a packed entry `r`
      have hnofile : d.files.get r = none := by
        cases hg : d.files.get r with
        | none => rfl
        | some c =>
          have hc : c ≠ [] := hwf.1 r c hg
          have : d.readRef r = some c := by
            unfold Disk.readRef Disk.readLoose
            simp only [hck, if_true, hg]
            exact readRefOf_some hc _
          rcases hread with h | h
          · rw [this] at h; cases h
          · rw [this] at h; injection h with h; exact absurd h hc
      have hnopacked : d.packed.get r = none := by
        cases hg : d.packed.get r with
        | none => rfl
        | some c =>
          have hc : c ≠ [] := hwf.2 r c hg
          have : d.readRef r = some c := by
            unfold Disk.readRef Disk.readLoose
            simp only [hck, if_true, hnofile, hg]; rfl
          rcases hread with h | h
          · rw [this] at h; cases h
          · rw [this] at h; injection h with h; exact absurd h hc
      have hnd := Disk.not_mem_pruneEmpty { d with dirs := Disk.addDirs d.dirs (ancestors r) } r hclear.2.1
      obtain ⟨d2, hc, hrr⟩ := Disk.write_ok d hwf r v hck hv hclear.2.1 (Disk.addDirs d.dirs (ancestors r))
      have hpe : (({ d with dirs := Disk.addDirs d.dirs (ancestors r) } : Disk).pruneEmpty r).pathExists r = false := by
        simp only [Disk.pathExists, Disk.isFile, hnd, decide_false, Bool.or_false]
        show (d.files.get r).isSome = false
        simp [hnofile]
      simp only [hpe, hnopacked, Option.isSome_none, Bool.or_self, Bool.false_eq_true, if_false, hc]
      exact ⟨trivial, hrr⟩

/-- `pack_refs` is a stuttering step — unconditionally: it returns normally and no `read_ref` changes -/
theorem pack_refs_stutter (d : Disk) (all : Bool) :
    (d.packRefs all).1 = .ok () ∧ (d.packRefs all).2.readRef = d.readRef := by
  unfold Disk.packRefs
  exact ⟨rfl, Disk.readRef_addPacked _ d (fun p hp => (Disk.packSelect_direct d all _ p hp).1)⟩


/-! ## 3. operation sequences -/

/-- one step: under `StepOk` the Disk operation returns what the spec returns and commutes with the
abstraction; `pack_refs` and re-opening are stuttering steps -/
theorem disk_step_refines (d : Disk) (hwf : d.WF) (op : MOp) (hok : d.StepOk op) :
    (d.step op).1 = (Spec.step d.readRef op).1 ∧ (d.step op).2.readRef = (Spec.step d.readRef op).2 := by
  cases op with
  | setIfEquals n o v =>
    obtain ⟨h1, h2, h3, h4⟩ := hok
    have := disk_set_if_equals_refines d hwf n o v h1 h2 h3 h4
    simp only [Disk.step, Spec.step, this.1, this.2, Except.map]
    exact ⟨trivial, trivial⟩
  | addIfNew n v =>
    obtain ⟨h1, h2⟩ := hok
    have h2' : ∀ names c, follow d.readRef n = .ok (names, c) →
        checkRefname ((names.getLast?).getD n) = true ∧ d.NoCollision ((names.getLast?).getD n) := by
      intro names c hf; rw [hf] at h2; exact h2
    have := disk_add_if_new_refines d hwf n v h1 h2'
    simp only [Disk.step, Spec.step, this.1, this.2]
    exact ⟨trivial, trivial⟩
  | removeIfEquals n o =>
    obtain ⟨h1, h2⟩ := hok
    have := disk_remove_if_equals_refines d hwf n o h1 h2
    simp only [Disk.step, Spec.step, this.1, this.2, Except.map]
    exact ⟨trivial, trivial⟩
  | setSymbolicRef n t =>
    obtain ⟨h1, h2, h3⟩ := hok
    have := disk_set_symbolic_ref_refines d hwf n t h1 h2 h3
    simp only [Disk.step, Spec.step, this.1, this.2, Except.map]
    exact ⟨trivial, trivial⟩
  | packRefs all =>
    have := pack_refs_stutter d all
    simp only [Disk.step, Spec.step, this.1, this.2, Except.map]
    exact ⟨trivial, trivial⟩
  | reopen => exact ⟨rfl, rfl⟩

theorem disk_step_WF (d : Disk) (hwf : d.WF) (op : MOp) (hok : d.StepOk op) : (d.step op).2.WF := by
  cases op with
  | setIfEquals n o v => exact Disk.setIfEquals_WF d hwf n o v hok.2.1
  | addIfNew n v => exact Disk.addIfNew_WF d hwf n v hok.1
  | removeIfEquals n o => exact Disk.removeIfEquals_WF d hwf n o
  | setSymbolicRef n t => exact Disk.setSymbolicRef_WF d hwf n t
  | packRefs all => exact Disk.packRefs_WF d hwf all
  | reopen => exact hwf

/-- **Refinement over operation sequences, from any well-formed state.**  For every sequence of
operations whose every step meets no colliding ref (`StepOk` on the concrete state it starts from: valid
names and values, `NoCollision` for the ref written), the files backend returns, step by step, exactly
what the map spec returns, and ends in a state whose abstraction is the spec's final map.  (The
remaining side condition is the one the property itself makes — "names that collide are refused",
theorems of section 4; for a universe of non-colliding names it disappears: `disk_refines_map`.) -/
theorem disk_refines_map_guarded : ∀ (ops : List MOp) (d : Disk), d.WF → d.AllOk ops →
    (d.run ops).1 = (Spec.run d.readRef ops).1 ∧ (d.run ops).2.readRef = (Spec.run d.readRef ops).2 := by
  intro ops
  induction ops with
  | nil => intro d _ _; exact ⟨rfl, rfl⟩
  | cons op ops ih =>
    intro d hwf hall
    obtain ⟨hok, hrest⟩ := hall
    obtain ⟨h1, h2⟩ := disk_step_refines d hwf op hok
    obtain ⟨i1, i2⟩ := ih (d.step op).2 (disk_step_WF d hwf op hok) hrest
    simp only [Disk.run, Spec.run, h1, ← h2, i1, i2]
    exact ⟨trivial, trivial⟩

/-! concrete values for the examples and witnesses -/
def shaA : Val := b!"aaaaaaaaaaaaaaaaaaaaaaaaaaaaaaaaaaaaaaaa"
def shaB : Val := b!"bbbbbbbbbbbbbbbbbbbbbbbbbbbbbbbbbbbbbbbb"
def shaC : Val := b!"cccccccccccccccccccccccccccccccccccccccc"
def emptyDisk : Disk := { files := [], dirs := baseDirs, packed := [], peeled := [] }

/-- HEAD attached to `refs/heads/m`, which exists only in packed-refs; a symref loop s ↔ t -/
def exampleDisk : Disk :=
  { files := [(b!"HEAD", b!"ref: refs/heads/m"), (b!"refs/heads/s", b!"ref: refs/heads/t"),
              (b!"refs/heads/t", b!"ref: refs/heads/s")],
    dirs := baseDirs, packed := [(b!"refs/heads/m", shaA)], peeled := [] }

/-- update through HEAD (lands loose on top of the packed value), conditional delete, re-create, a symref
in a directory that does not exist yet, pack everything (symrefs and the loop stay), re-point a name that
is inside the loop, create through the now dangling `t`, re-open -/
def exampleOps : List MOp :=
  [.setIfEquals b!"HEAD" (some shaA) shaB, .removeIfEquals b!"refs/heads/m" (some shaB),
   .addIfNew b!"refs/heads/m" shaA, .setSymbolicRef b!"refs/remotes/o/HEAD" b!"refs/heads/m", .packRefs true,
   .setSymbolicRef b!"refs/heads/s" b!"refs/heads/x", .addIfNew b!"refs/heads/t" shaB, .reopen,
   .setIfEquals b!"refs/remotes/o/HEAD" none shaC]

set_option maxRecDepth 8000 in
/-- non-vacuity of `disk_refines_map_guarded` -/
example : exampleDisk.WF ∧ exampleDisk.AllOk exampleOps := by
  refine ⟨⟨?_, ?_⟩, by decide⟩
  · intro k v h
    simp only [exampleDisk, Map.get] at h
    repeat (split at h; · injection h with h; subst h; decide)
    cases h
  · intro k v h
    simp only [exampleDisk, Map.get] at h
    split at h
    · injection h with h; subst h; decide
    · cases h

set_option maxRecDepth 8000 in
example : (exampleDisk.run exampleOps).1 =
    [.ok (some true), .ok (some true), .ok (some true), .ok none, .ok none, .ok none, .ok (some true), .ok none,
     .ok (some true)] ∧
    (exampleDisk.run exampleOps).2.readRef b!"refs/heads/m" = some shaC ∧
    (exampleDisk.run exampleOps).2.readRef b!"refs/heads/x" = some shaB ∧
    (exampleDisk.run exampleOps).2.readRef b!"refs/remotes/o/HEAD" = some b!"ref: refs/heads/m" := by decide

set_option maxRecDepth 8000 in
/-- non-vacuity of `disk_refines_map`: a universe with names at different depths, none on the way to
another, and a sequence over it with symrefs, a loop, packing and deletes -/
example :
    let U : List Name := [b!"HEAD", b!"refs/heads/a", b!"refs/heads/d/e/f", b!"refs/heads/s", b!"refs/tags/v"]
    let ops : List MOp := [.setIfEquals b!"HEAD" none shaA, .setSymbolicRef b!"HEAD" b!"refs/heads/a",
      .setIfEquals b!"HEAD" none shaA, .addIfNew b!"refs/tags/v" shaB, .packRefs true,
      .setSymbolicRef b!"refs/heads/s" b!"refs/heads/s", .packRefs true,
      .setIfEquals b!"refs/heads/a" (some shaA) shaB, .reopen, .packRefs false,
      .setSymbolicRef b!"refs/heads/s" b!"refs/heads/d/e/f", .addIfNew b!"refs/heads/s" shaC,
      .removeIfEquals b!"refs/heads/a" (some shaB)]
    (∀ n ∈ U, checkRefname n = true) ∧ NonColliding U ∧
    (∀ op ∈ ops, (∀ n ∈ op.names, n ∈ U) ∧ op.ValuesOk) ∧
    (emptyDisk.run ops).2.readRef b!"refs/heads/d/e/f" = some shaC ∧
    (emptyDisk.run ops).2.readRef b!"refs/heads/a" = none ∧
    (emptyDisk.run ops).2.packed.get b!"refs/tags/v" = some shaB := by
  refine ⟨by decide, by unfold NonColliding; decide, ?_, by decide, by decide, by decide⟩
  intro op hop
  simp only [List.mem_cons, List.not_mem_nil, or_false] at hop
  rcases hop with rfl | rfl | rfl | rfl | rfl | rfl | rfl | rfl | rfl | rfl | rfl | rfl | rfl <;>
    exact ⟨by decide, by first | trivial | (show validHexSha _ = true; decide)⟩


/-! ## 4. conflict refusal: loose or packed, above or below -/

/-- every loose file sits in directories that exist (true of any real file system) -/
def DirsClosed (d : Disk) : Prop := ∀ k ∈ d.files.keys, ∀ p ∈ ancestors k, p ∈ d.dirs

/-- some stored ref — loose or packed — is a directory on the way to `r`, or lives below `r` -/
def Collides (d : Disk) (r : Name) : Prop :=
  (∃ p ∈ ancestors r, (d.files.get p).isSome = true ∨ (d.packed.get p).isSome = true) ∨
  (∃ k ∈ d.packed.keys, r ∈ ancestors k) ∨ (∃ k ∈ d.files.keys, r ∈ ancestors k)

/-- the write path shared by the three writers — `_check_packed_conflict`, `makedirs` + lock, prune,
rename — refuses a colliding name with an `OSError` and changes no ref -/
theorem write_refused (d : Disk) (hfs : DirsClosed d) (r : Name) (hc : Collides d r) :
    d.packedConflict r = true ∨
    (d.packedConflict r = false ∧ d.lockMkdirs r = .error .os) ∨
    (d.packedConflict r = false ∧ ∃ d1, d.lockMkdirs r = .ok d1 ∧ d1.readRef = d.readRef ∧
      ∀ v, (d1.pruneEmpty r).commitFile r v = .error .os) := by
  by_cases hpc : d.packedConflict r = true
  · exact Or.inl hpc
  · have hpc' : d.packedConflict r = false := by simpa using hpc
    unfold Disk.packedConflict at hpc'
    rw [Bool.or_eq_false_iff, List.any_eq_false, List.any_eq_false] at hpc'
    by_cases hfa : (ancestors r).any d.isFile = true
    · exact Or.inr (Or.inl ⟨by simpa using hpc, by simp [Disk.lockMkdirs, hfa]⟩)
    · refine Or.inr (Or.inr ⟨by simpa using hpc, { d with dirs := Disk.addDirs d.dirs (ancestors r) },
        by simp [Disk.lockMkdirs, hfa], rfl, ?_⟩)
      have hfa' : ∀ p ∈ ancestors r, d.isFile p = false := by
        intro p hp
        have := List.any_eq_false.mp (by simpa using hfa) p hp
        simpa using this
      -- the only collision left is a loose ref below `r`
      obtain ⟨k, hk, hrk⟩ : ∃ k ∈ d.files.keys, r ∈ ancestors k := by
        rcases hc with ⟨p, hp, h | h⟩ | ⟨k, hk, hrk⟩ | h
        · have := hfa' p hp; simp [Disk.isFile, h] at this
        · have := hpc'.1 p hp; simp [h] at this
        · have := hpc'.2 k hk; simp [hrk] at this
        · exact h
      intro v
      have hin : r ∈ (({ d with dirs := Disk.addDirs d.dirs (ancestors r) } : Disk).pruneEmpty r).dirs := by
        unfold Disk.pruneEmpty
        simp only [List.mem_filter]
        refine ⟨(mem_addDirs r _ _).mpr (Or.inl (hfs k hk r hrk)), ?_⟩
        have : d.files.keys.all (fun f => !decide (r ∈ ancestors f)) = false := by
          rw [List.all_eq_false]; exact ⟨k, hk, by simp [hrk]⟩
        simp [this]
      simp only [Disk.commitFile, hin, if_true]

theorem collision_refused_set_symbolic_ref (d : Disk) (hfs : DirsClosed d) (r t : Name)
    (hr : checkRefname r = true) (ht : checkRefname t = true) (hc : Collides d r) :
    (d.setSymbolicRef r t).1 = .error .os ∧ (d.setSymbolicRef r t).2.readRef = d.readRef := by
  unfold Disk.setSymbolicRef
  simp only [hr, ht, Bool.not_true, Bool.false_eq_true, if_false]
  rcases write_refused d hfs r hc with h | ⟨h1, h2⟩ | ⟨h1, d1, h2, h3, h4⟩
  · simp [h]
  · simp [h1, h2]
  · simp only [h1, Bool.false_eq_true, if_false, h2, h4]
    exact ⟨trivial, h3⟩

/-- **Conflict refusal** (full, after the fix series): whenever `set_if_equals` would write the ref `r`
it resolves to and some stored ref — loose *or packed*, above *or below* — collides with `r`, it raises an
`OSError` and no ref changes. -/
theorem collision_refused_set_if_equals (d : Disk) (hwf : d.WF) (hfs : DirsClosed d) (n : Name) (old : Option Val)
    (new : Val) (hn : checkRefname n = true) (hv : validRefValue new = true)
    (hc : Collides d (realname d.readRef n))
    (hcas : casOk (d.readRef (realname d.readRef n)) old = true)
    (hdiff : d.readRef (realname d.readRef n) ≠ some new) :
    (d.setIfEquals n old new).1 = .error .os ∧ (d.setIfEquals n old new).2.readRef = d.readRef := by
  unfold Disk.setIfEquals
  simp only [hn, hv, Bool.not_true, Bool.false_eq_true, if_false]
  generalize realname d.readRef n = r at *
  rcases write_refused d hfs r hc with h | ⟨h1, h2⟩ | ⟨h1, d1, h2, h3, h4⟩
  · simp [h]
  · simp [h1, h2]
  · simp only [h1, Bool.false_eq_true, if_false, h2]
    have ho : d1.origRef r = d.readRef r := by
      have : d1.WF := Disk.lockMkdirs_WF h2 hwf
      rw [← Disk.readRef_eq d1 this r, h3]
    have hne : (d.readRef r == some new) = false := by simpa using hdiff
    simp only [ho, hcas, Bool.not_true, Bool.false_eq_true, if_false, hne, h4]
    exact ⟨trivial, h3⟩

/-- … and `add_if_new` never creates a colliding ref: it raises or returns `False`, and no ref changes -/
theorem collision_refused_add_if_new (d : Disk) (hfs : DirsClosed d) (n : Name) (v : Val) (names : List Name) (r : Name)
    (hf : follow d.readRef n = .ok (names, none)) (hl : names.getLast? = some r) (hc : Collides d r) :
    (d.addIfNew n v).1 ≠ .ok true ∧ (d.addIfNew n v).2.readRef = d.readRef := by
  unfold Disk.addIfNew
  by_cases hv : validRefValue v = true
  · simp only [hv, Bool.not_true, Bool.false_eq_true, if_false, hf, Option.isSome_none, hl, Option.getD_some]
    by_cases hck : checkRefname r = true
    · simp only [hck, Bool.not_true, Bool.false_eq_true, if_false]
      rcases write_refused d hfs r hc with h | ⟨h1, h2⟩ | ⟨h1, d1, h2, h3, h4⟩
      · simp [h]
      · simp [h1, h2]
      · simp only [h1, Bool.false_eq_true, if_false, h2, h4]
        split
        · exact ⟨by simp, h3⟩
        · exact ⟨by simp, h3⟩
    · simp [hck]
  · simp [hv]


/-! ## 4b. collision refusal over the SET of packed names (no ordering, any siblings) -/

/-- `_check_packed_conflict`, the descendant half, over the SET of packed names: it fires exactly when SOME
packed name starts with `name + "/"` — wherever that name sits among the others, whatever else is packed
(siblings such as `topic-old`, `topic.bak`, `topic+1` sort between `topic` and `topic/x` because
`'-' '.' '+' ',' … < '/'`; they neither hide a descendant nor count as one) -/
theorem packed_descendant_conflict_iff (d : Disk) (name : Name) (hne : name ≠ []) :
    d.packed.keys.any (fun k => decide (name ∈ ancestors k)) = true ↔ ∃ r ∈ d.packed.keys, (name ++ [47]) <+: r := by
  rw [List.any_eq_true]
  constructor
  · rintro ⟨r, hr, h⟩
    exact ⟨r, hr, ((mem_ancestors_iff r name).mp (by simpa using h)).2⟩
  · rintro ⟨r, hr, h⟩
    exact ⟨r, hr, by simpa using (mem_ancestors_iff r name).mpr ⟨hne, h⟩⟩

theorem packed_conflict_of_descendant (d : Disk) (name : Name) (hne : name ≠ [])
    (h : ∃ r ∈ d.packed.keys, (name ++ [47]) <+: r) : d.packedConflict name = true := by
  unfold Disk.packedConflict
  rw [(packed_descendant_conflict_iff d name hne).mpr h]
  simp

/-- … and the ancestor half: some proper leading part `p` of `name` (`p + "/"` a prefix of `name`) is packed -/
theorem packed_conflict_of_ancestor (d : Disk) (name p : Name) (hp : p ≠ []) (hpre : (p ++ [47]) <+: name)
    (h : (d.packed.get p).isSome = true) : d.packedConflict name = true := by
  unfold Disk.packedConflict
  have : (ancestors name).any (fun q => (d.packed.get q).isSome) = true :=
    List.any_eq_true.mpr ⟨p, (mem_ancestors_iff name p).mpr ⟨hp, hpre⟩, h⟩
  rw [this]; rfl

/-- **Collision refusal over the set of packed names** — every writer, both directions, no ordering
involved: if some packed name lies below `name` (`name + "/"` is a prefix of it) or some packed name is a
leading part of `name`, then `set_symbolic_ref(name, …)` raises `OSError`; `set_if_equals` (hence
`__setitem__`, and a write through HEAD or any symref that resolves to `name`) raises whenever it would
write; `add_if_new` does not create `name`; and no ref changes. -/
theorem collision_refused_over_packed_set (d : Disk) (hwf : d.WF) (hfs : DirsClosed d) (name : Name)
    (hcoll : (∃ r ∈ d.packed.keys, (name ++ [47]) <+: r) ∨
             (∃ p, p ≠ [] ∧ (p ++ [47]) <+: name ∧ (d.packed.get p).isSome = true))
    (hn : checkRefname name = true) :
    (∀ t, checkRefname t = true →
      (d.setSymbolicRef name t).1 = .error .os ∧ (d.setSymbolicRef name t).2.readRef = d.readRef) ∧
    (∀ n old new, checkRefname n = true → validRefValue new = true → realname d.readRef n = name →
      casOk (d.readRef name) old = true → d.readRef name ≠ some new →
      (d.setIfEquals n old new).1 = .error .os ∧ (d.setIfEquals n old new).2.readRef = d.readRef) ∧
    (∀ n v names, follow d.readRef n = .ok (names, none) → names.getLast? = some name →
      (d.addIfNew n v).1 ≠ .ok true ∧ (d.addIfNew n v).2.readRef = d.readRef) := by
  have hne : name ≠ [] := by intro h; subst h; revert hn; decide
  have hc : Collides d name := by
    rcases hcoll with ⟨r, hr, hpre⟩ | ⟨p, hp, hpre, hsome⟩
    · exact Or.inr (Or.inl ⟨r, hr, (mem_ancestors_iff r name).mpr ⟨hne, hpre⟩⟩)
    · exact Or.inl ⟨p, (mem_ancestors_iff name p).mpr ⟨hp, hpre⟩, Or.inr hsome⟩
  refine ⟨?_, ?_, ?_⟩
  · intro t ht
    exact collision_refused_set_symbolic_ref d hfs name t hn ht hc
  · intro n old new hnn hv hreal hcas hdiff
    exact collision_refused_set_if_equals d hwf hfs n old new hnn hv (by rw [hreal]; exact hc)
      (by rw [hreal]; exact hcas) (by rw [hreal]; exact hdiff)
  · intro n v names hf hl
    exact collision_refused_add_if_new d hfs n v names name hf hl hc

set_option maxRecDepth 16000 in
/-- the seeded-change shape, concretely: with `topic-old`, `topic.bak`, `topic+1` packed next to
`topic/x/y` — in any position — writing `refs/heads/topic` is refused by all writers, directly and through
HEAD; with only the siblings packed it goes through -/
example :
    let sibs : Map := [(b!"refs/heads/topic-old", shaA), (b!"refs/heads/topic.bak", shaA), (b!"refs/heads/topic+1", shaA),
                       (b!"refs/heads/topic0", shaA), (b!"refs/heads/topicz", shaA)]
    let desc : Bytes × Bytes := (b!"refs/heads/topic/x/y", shaB)
    let hd : Map := [(b!"HEAD", b!"ref: refs/heads/topic")]
    let t := b!"refs/heads/topic"
    (∀ pk ∈ [desc :: sibs, sibs ++ [desc], sibs.take 2 ++ desc :: sibs.drop 2],
      let d : Disk := { emptyDisk with files := hd, packed := pk }
      (d.setIfEquals t none shaC).1 = .error .os ∧ (d.setIfEquals b!"HEAD" none shaC).1 = .error .os ∧
      (d.addIfNew t shaC).1 = .error .os ∧ (d.setSymbolicRef t b!"refs/heads/m").1 = .error .os) ∧
    (let d : Disk := { emptyDisk with files := hd, packed := sibs }
     (d.setIfEquals b!"HEAD" none shaC).1 = .ok true ∧ (d.addIfNew t shaC).1 = .ok true) := by
  decide


/-! ## 5. DictRefsContainer ≡ the map spec (when not writing through a symref) -/

theorem dict_set_if_equals_spec (m : Map) (hwf : DictWF m) (name : Name) (old : Option Val) (new : Val)
    (hname : checkRefname name = true) (hval : validRefValue new = true)
    (hdirect : ∀ c, m.get name = some c → ¬ symref.isPrefixOf c = true) :
    (Dict.setIfEquals m name old new).1 = .ok (Spec.setIfEquals (Dict.readRef m) name old new).1 ∧
    Dict.readRef (Dict.setIfEquals m name old new).2 = (Spec.setIfEquals (Dict.readRef m) name old new).2 := by
  have hreal : realname (Dict.readRef m) name = name := by
    apply realname_direct
    rw [dict_readRef_eq m hwf]; exact hdirect
  unfold Dict.setIfEquals Spec.setIfEquals
  simp only [hval, hname, hreal, Bool.not_true, Bool.false_eq_true, if_false]
  rw [dict_readRef_eq m hwf]
  by_cases hcas : casOk (m.get name) old
  · simp only [hcas, Bool.not_true, Bool.false_eq_true, if_false, if_true]
    refine ⟨trivial, ?_⟩
    rw [← dict_readRef_eq m hwf]
    exact dict_readRef_set m hwf name new (validRefValue_ne_nil hval)
  · simp only [hcas, Bool.not_false, if_true, Bool.false_eq_true, if_false]
    exact ⟨trivial, (dict_readRef_eq m hwf)⟩

theorem dict_remove_if_equals_spec (m : Map) (hwf : DictWF m) (name : Name) (old : Option Val) :
    (Dict.removeIfEquals m name old).1 = .ok (Spec.removeIfEquals (Dict.readRef m) name old).1 ∧
    Dict.readRef (Dict.removeIfEquals m name old).2 = (Spec.removeIfEquals (Dict.readRef m) name old).2 := by
  unfold Dict.removeIfEquals Spec.removeIfEquals
  rw [dict_readRef_eq m hwf]
  by_cases hcas : casOk (m.get name) old
  · simp only [hcas, Bool.not_true, Bool.false_eq_true, if_false, if_true]
    refine ⟨trivial, ?_⟩
    funext n
    unfold RefMap.update Dict.readRef
    by_cases hn : n = name
    · subst hn; simp [Map.get_del_eq, readRefOf]
    · simp only [Map.get_del_ne _ _ _ hn, hn, if_false]
      cases h : m.get n with
      | none => rfl
      | some c => exact readRefOf_some (hwf n c h) _
  · simp only [hcas, Bool.not_false, if_true, Bool.false_eq_true, if_false]
    exact ⟨trivial, (dict_readRef_eq m hwf)⟩

theorem dict_add_if_new_spec (m : Map) (hwf : DictWF m) (name : Name) (v : Val)
    (hval : validRefValue v = true)
    (hdirect : ∀ c, m.get name = some c → ¬ symref.isPrefixOf c = true) :
    (Dict.addIfNew m name v).1 = (Spec.addIfNew (Dict.readRef m) name v).1 ∧
    Dict.readRef (Dict.addIfNew m name v).2 = (Spec.addIfNew (Dict.readRef m) name v).2 := by
  have hv := validRefValue_ne_nil hval
  unfold Dict.addIfNew Spec.addIfNew
  simp only [hval, Bool.not_true, Bool.false_eq_true, if_false]
  rw [dict_readRef_eq m hwf]
  cases hg : m.get name with
  | none =>
    have hf : follow m.get name = .ok ([name], none) := by
      unfold follow followAux; simp [hg]
    simp only [hf, Option.isSome_none, Bool.false_eq_true, if_false, List.getLast?_singleton, Option.getD_some]
    refine ⟨trivial, ?_⟩
    rw [← dict_readRef_eq m hwf]
    exact dict_readRef_set m hwf name v hv
  | some c =>
    have hc := hwf name c hg
    have hns := hdirect c hg
    have hf : follow m.get name = .ok ([name], some c) := by
      unfold follow followAux
      have he : c.isEmpty = false := by cases c with | nil => exact absurd rfl hc | cons _ _ => rfl
      simp only [hg, he, symrefMaxDepth]
      simp [hns]
    simp only [hf, Option.isSome_some, if_true]
    exact ⟨trivial, dict_readRef_eq m hwf⟩

theorem dict_set_symbolic_ref_spec (m : Map) (hwf : DictWF m) (name other : Name) :
    (Dict.setSymbolicRef m name other).1 = .ok () ∧
    Dict.readRef (Dict.setSymbolicRef m name other).2 = Spec.setSymbolicRef (Dict.readRef m) name other := by
  unfold Dict.setSymbolicRef Spec.setSymbolicRef
  exact ⟨rfl, dict_readRef_set m hwf name _ (by simp [symref])⟩

/-- Dict and Disk agree: from states with the same abstraction, an update that does not write through a
symref and meets no collision returns the same value on both and keeps the abstractions equal -/
theorem dict_equiv_disk (m : Map) (hwf : DictWF m) (d : Disk) (hdwf : d.WF) (habs : Dict.readRef m = d.readRef)
    (name : Name) (old : Option Val) (new : Val)
    (hname : checkRefname name = true) (hval : validRefValue new = true)
    (hdirect : ∀ c, m.get name = some c → ¬ symref.isPrefixOf c = true)
    (hclear : d.NoCollision name) :
    (Dict.setIfEquals m name old new).1 = (d.setIfEquals name old new).1 ∧
    Dict.readRef (Dict.setIfEquals m name old new).2 = (d.setIfEquals name old new).2.readRef := by
  have hreal : realname d.readRef name = name := by
    apply realname_direct
    rw [← habs, dict_readRef_eq m hwf]; exact hdirect
  obtain ⟨a1, a2⟩ := dict_set_if_equals_spec m hwf name old new hname hval hdirect
  obtain ⟨b1, b2⟩ := disk_set_if_equals_refines d hdwf name old new hname hval (by rw [hreal]; exact hname)
    (by rw [hreal]; exact hclear)
  rw [a1, a2, b1, b2, habs]
  exact ⟨rfl, rfl⟩


/-! ## 6. reftable ≡ the map spec, `None` and `ZERO_SHA` included (DESIGN §7-F17 repaired) -/

theorem reftable_matchesOld_eq_casOk (cur old : Option Val) (hz : cur ≠ some zeroSha) :
    Reftable.matchesOld cur old = casOk cur old := by
  unfold Reftable.matchesOld casOk
  cases old with
  | none => rfl
  | some o =>
    simp only
    by_cases ho : o = zeroSha
    · subst ho
      cases cur with
      | none => simp
      | some c =>
        have : c ≠ zeroSha := fun h => hz (by rw [h])
        simp [this]
    · cases cur with
      | none =>
        have : (zeroSha == o) = false := by rw [beq_eq_false_iff_ne]; exact fun h => ho h.symm
        simp [ho, this]
      | some c => simp [ho]

/-- for every old value — a sha, `None` (unconditional) or `ZERO_SHA` (must be absent) — when `name` is
not a symbolic ref (reftable compares the raw value and does not write through symrefs) and does not hold
the all-zero id -/
theorem reftable_set_if_equals_spec (m : Map) (name : Name) (old : Option Val) (new : Val)
    (hdirect : ∀ c, m.get name = some c → ¬ symref.isPrefixOf c = true) (hz : m.get name ≠ some zeroSha) :
    (Reftable.setIfEquals m name old new).1 = .ok (Spec.setIfEquals m.get name old new).1 ∧
    ((Reftable.setIfEquals m name old new).2).get = (Spec.setIfEquals m.get name old new).2 := by
  have hreal : realname m.get name = name := realname_direct _ _ hdirect
  unfold Reftable.setIfEquals Spec.setIfEquals
  simp only [hreal, reftable_matchesOld_eq_casOk _ old hz]
  by_cases hc : casOk (m.get name) old = true
  · simp only [hc, Bool.not_true, Bool.false_eq_true, if_false, if_true]
    refine ⟨trivial, ?_⟩
    funext n
    unfold RefMap.update
    by_cases hn : n = name
    · subst hn; simp [Map.get_set_eq]
    · simp [Map.get_set_ne _ _ _ _ hn, hn]
  · simp only [hc, Bool.not_false, if_true, Bool.false_eq_true, if_false]
    exact ⟨trivial, trivial⟩

theorem reftable_remove_if_equals_spec (m : Map) (name : Name) (old : Option Val)
    (hz : m.get name ≠ some zeroSha) :
    (Reftable.removeIfEquals m name old).1 = .ok (Spec.removeIfEquals m.get name old).1 ∧
    ((Reftable.removeIfEquals m name old).2).get = (Spec.removeIfEquals m.get name old).2 := by
  unfold Reftable.removeIfEquals Spec.removeIfEquals
  simp only [reftable_matchesOld_eq_casOk _ old hz]
  by_cases hc : casOk (m.get name) old = true
  · simp only [hc, Bool.not_true, Bool.false_eq_true, if_false, if_true]
    refine ⟨trivial, ?_⟩
    funext n
    unfold RefMap.update
    by_cases hn : n = name
    · subst hn; simp [Map.get_del_eq]
    · simp [Map.get_del_ne _ _ _ hn, hn]
  · simp only [hc, Bool.not_false, if_true, Bool.false_eq_true, if_false]
    exact ⟨trivial, trivial⟩

set_option maxRecDepth 8000 in
example :
    let m : Map := [(b!"refs/heads/m", shaA)]
    Reftable.setIfEquals m b!"refs/heads/m" none shaB = (.ok true, [(b!"refs/heads/m", shaB)]) ∧
    Reftable.removeIfEquals m b!"refs/heads/m" none = (.ok true, []) ∧
    (Reftable.setIfEquals [] b!"refs/heads/m" (some zeroSha) shaA).1 = .ok true := by decide

/-! ## 7. NamespacedRefsContainer: a symref set through the namespace resolves through it -/

set_option maxRecDepth 8000 in
theorem namespaced_symref_resolves :
    let o := namespaced dictOps (nsPrefix b!"foo")
    let m0 : Map := [(b!"refs/namespaces/foo/refs/heads/a", shaA)]
    let m1 := (o.setSymbolicRef m0 b!"refs/heads/s" b!"refs/heads/a").2
    o.getItem m1 b!"refs/heads/s" = .ok shaA ∧
    o.readRef m1 b!"refs/heads/s" = some b!"ref: refs/heads/a" ∧
    m1.get b!"refs/namespaces/foo/refs/heads/s" = some b!"ref: refs/namespaces/foo/refs/heads/a" ∧
    o.getSymrefs m1 = [(b!"refs/heads/s", b!"refs/heads/a")] := by
  decide

/-! ## 7b. peeled values: the packed entry is not consulted under a loose ref, and re-packing drops a
peeled value that belongs to an old target -/

theorem get_peeled_loose_override (d : Disk) (n : Name) (h : (d.readLoose n).isSome = true) :
    d.getPeeled n = .ok none := by
  unfold Disk.getPeeled
  split
  · rfl
  · simp [h]

set_option maxRecDepth 8000 in
example :
    let d : Disk := { emptyDisk with files := [(b!"refs/tags/v", shaB)], packed := [(b!"refs/tags/v", shaC)],
                                     peeled := [(b!"refs/tags/v", shaA)] }
    d.getPeeled b!"refs/tags/v" = .ok none ∧
    (d.packRefs true).2.packed.get b!"refs/tags/v" = some shaB ∧
    (d.packRefs true).2.peeled.get b!"refs/tags/v" = none := by decide


/-! ## 8. packed-refs: what `write_packed_refs` writes, `get_packed_refs` reads back — peeled lines included -/

open Dulwich.PackedRefs in
theorem packed_refs_roundtrip (es : List Entry) (h : ∀ e ∈ es, EntryOk e) : readFile (writeFile es) = some es := by
  obtain ⟨h0, hh0, h10⟩ : ∃ h0, packedHeader = h0 ++ [10] ∧ (10 : UInt8) ∉ h0 :=
    ⟨packedHeader.dropLast, by decide, by decide⟩
  have hl : lines (writeFile es) = packedHeader :: es.flatMap entryLines := by
    unfold writeFile
    have : packedHeader ++ writeEntries es = h0 ++ 10 :: writeEntries es := by rw [hh0]; simp
    rw [this, lines_append_nl _ _ h10, ← hh0, lines_writeEntries es h]
  unfold readFile
  rw [hl]
  have hprobe : (packedHeaderProbe1.isPrefixOf packedHeader && hasInfix packedHeaderProbe2 packedHeader) = true := by
    decide
  simp only [hprobe, if_true]
  exact readPeeled_entries es h

open Dulwich.PackedRefs in
set_option maxRecDepth 8000 in
example : ∀ e ∈ [({ name := b!"refs/tags/v", sha := shaA, peeled := some shaB } : Entry),
                 { name := b!"refs/heads/m", sha := shaB, peeled := none }], EntryOk e := by
  intro e he
  simp only [List.mem_cons, List.not_mem_nil, or_false] at he
  rcases he with rfl | rfl
  · refine ⟨by decide, by decide, ?_⟩
    intro p hp; injection hp with hp; subst hp; decide
  · exact ⟨by decide, by decide, fun p hp => by cases hp⟩



/-! ## 9. the full statement: every operation sequence over a universe of non-colliding names -/

theorem emptyDisk_inv (U : List Name) : emptyDisk.Inv U := by
  refine ⟨?_, ?_, fun _ hx => Or.inl hx⟩
  · intro k v h; simp [emptyDisk, Map.get] at h
  · intro k v h; simp [emptyDisk, Map.get] at h

/-- **The full statement**, as the property words it: for every universe of valid, pairwise
non-colliding names and every sequence of operations over it — conditional and unconditional writes
(through symbolic refs or not), creations, conditional and unconditional deletes, `set_symbolic_ref`
(chains, loops, dangling targets, HEAD attached or detached), `pack_refs` with either flag, re-opening;
any interleaving, any length — the files backend, started from the empty repository, returns what the map
spec returns at every step and ends in a state whose abstraction (`read_ref`) is the spec's final map. -/
def disk_refines_map_Statement : Prop :=
  ∀ (U : List Name), (∀ n ∈ U, checkRefname n = true) → NonColliding U →
  ∀ (ops : List MOp), (∀ op ∈ ops, (∀ n ∈ op.names, n ∈ U) ∧ op.ValuesOk) →
    (emptyDisk.run ops).1 = (Spec.run emptyDisk.readRef ops).1 ∧
    (emptyDisk.run ops).2.readRef = (Spec.run emptyDisk.readRef ops).2

/-- the same from any state satisfying the invariant `Disk.Inv U` (only names of `U` stored — loose,
packed or both, hex shas or symrefs to names of `U` — and only directories on the way to names of `U`) -/
theorem disk_refines_map_inv (U : List Name) (hU : ∀ n ∈ U, checkRefname n = true) (hnc : NonColliding U) :
    ∀ (ops : List MOp) (d : Disk), d.Inv U → (∀ op ∈ ops, (∀ n ∈ op.names, n ∈ U) ∧ op.ValuesOk) →
    (d.run ops).1 = (Spec.run d.readRef ops).1 ∧ (d.run ops).2.readRef = (Spec.run d.readRef ops).2 := by
  intro ops d hi hops
  have hall : ∀ (ops : List MOp) (d : Disk), d.Inv U → (∀ op ∈ ops, (∀ n ∈ op.names, n ∈ U) ∧ op.ValuesOk) →
      d.AllOk ops := by
    intro ops
    induction ops with
    | nil => intro _ _ _; trivial
    | cons op ops ih =>
      intro d hi hops
      obtain ⟨hn, hv⟩ := hops op (by simp)
      exact ⟨hi.stepOk hU hnc op hv hn, ih _ (hi.step op hv hn) (fun o ho => hops o (by simp [ho]))⟩
  exact disk_refines_map_guarded ops d hi.wf (hall ops d hi hops)

/-- **The full statement holds** for the code after the fix series (it was false before:
`disk_refines_map_regression`). -/
theorem disk_refines_map : disk_refines_map_Statement :=
  fun U hU hnc ops hops => disk_refines_map_inv U hU hnc ops emptyDisk (emptyDisk_inv U) hops

/-! ## 9b. symbolic-ref chains are followed exactly as deep as C git follows them -/

/-- C git's `SYMREF_MAXDEPTH` (refs.c): `refs_resolve_ref_unsafe` reads at most this many refs, so it
resolves a chain of at most `gitSymrefMaxDepth - 1` symbolic refs in front of a direct ref
(`HEAD -> s1 -> s2 -> s3 -> refs/heads/main` resolves, one more link does not) -/
def gitSymrefMaxDepth : Nat := 5

/-- **`follow` goes exactly as deep as git.**  A chain `n₀ -> n₁ -> … -> n_k` of `k` symbolic refs in front of
a direct ref is followed to its end (all `k + 1` names reported, the value returned) when git resolves it —
`k + 1 ≤ SYMREF_MAXDEPTH` — and raises `SymrefLoop` as soon as git gives up on it.  The depth test of
`RefsContainer.follow` (comparison operator and constant) comes from Gen/Refs.lean: an off-by-one there
breaks this theorem. -/
theorem follow_depth_matches_git (read : Name → Option Val) (n : Name) (rest : List Name) (v : Val)
    (h : IsChain read (n :: rest) v) :
    (rest.length + 1 ≤ gitSymrefMaxDepth → follow read n = .ok (n :: rest, some v)) ∧
    (gitSymrefMaxDepth < rest.length + 1 → follow read n = .error .symrefLoop) := by
  unfold follow
  rw [followAux_chain read v rest symrefMaxDepth n [] h]
  have hd : symrefMaxDepth = gitSymrefMaxDepth := by decide
  rw [hd]
  constructor
  · intro hk
    have : rest.length < gitSymrefMaxDepth := by omega
    simp [this]
  · intro hk
    have : ¬ rest.length < gitSymrefMaxDepth := by omega
    simp [this]

set_option maxRecDepth 8000 in
/-- the boundary, concretely, through the files backend: `HEAD -> c3 -> c2 -> c1 -> refs/heads/m` (four symbolic
refs) resolves and an update through HEAD lands on `refs/heads/m`; with a fifth symbolic ref in front the
read raises `SymrefLoop` -/
example :
    let d : Disk := { emptyDisk with files := [(b!"HEAD", b!"ref: refs/heads/c3"), (b!"refs/heads/c3", b!"ref: refs/heads/c2"),
        (b!"refs/heads/c2", b!"ref: refs/heads/c1"), (b!"refs/heads/c1", b!"ref: refs/heads/m"),
        (b!"refs/heads/c4", b!"ref: HEAD")], packed := [(b!"refs/heads/m", shaA)] }
    diskOps.getItem d b!"HEAD" = .ok shaA ∧
    (d.setIfEquals b!"HEAD" (some shaA) shaB).1 = .ok true ∧
    (d.setIfEquals b!"HEAD" (some shaA) shaB).2.readRef b!"refs/heads/m" = some shaB ∧
    (d.setIfEquals b!"HEAD" (some shaA) shaB).2.readRef b!"HEAD" = some b!"ref: refs/heads/c3" ∧
    diskOps.getItem d b!"refs/heads/c4" = .error .symrefLoop := by decide


/-! ## 10. regression witnesses: what the code did before the fix series

Each theorem is `decide`d on Model/RefsOld.lean, the model of dulwich at bb5afda (before the C16 fix
series), and documents one repaired defect; the corresponding positive statement about the current
model is named in the doc-comment. -/

def oldEmptyDisk : RefsOld.Disk :=
  { files := [], dirs := [b!"refs", b!"refs/heads", b!"refs/tags"], packed := [], peeled := [] }

set_option maxRecDepth 8000 in
/-- DESIGN §7-F16 (fixed, PENDING-1): with `refs/heads/a/b` only packed, creating `refs/heads/a` succeeded and
both existed; with `refs/heads/a` only packed, `add_if_new` created `refs/heads/a/b`.
Now: `collision_refused_set_if_equals`, `collision_refused_add_if_new`, `collision_refused_set_symbolic_ref`. -/
theorem packed_collision_regression :
    (let d : RefsOld.Disk := { oldEmptyDisk with packed := [(b!"refs/heads/a/b", shaA)] }
     (d.setIfEquals b!"refs/heads/a" none shaB).1 = .ok true ∧
     (d.setIfEquals b!"refs/heads/a" none shaB).2.readRef b!"refs/heads/a" = some shaB ∧
     (d.setIfEquals b!"refs/heads/a" none shaB).2.readRef b!"refs/heads/a/b" = some shaA) ∧
    (let d : RefsOld.Disk := { oldEmptyDisk with packed := [(b!"refs/heads/a", shaA)] }
     (d.setIfEquals b!"refs/heads/a/b" none shaB).1 = .error .os ∧
     (d.addIfNew b!"refs/heads/a/b" shaB).1 = .ok true ∧
     (d.addIfNew b!"refs/heads/a/b" shaB).2.readRef b!"refs/heads/a/b" = some shaB ∧
     (d.addIfNew b!"refs/heads/a/b" shaB).2.readRef b!"refs/heads/a" = some shaA) := by
  decide

set_option maxRecDepth 8000 in
/-- (fixed, PENDING-3) a failed compare-and-swap on `a/b` left the empty directory `a` behind, and the
unconditional creation of `a` then failed.  Now `NoCollision` does not mention directories. -/
theorem stale_directory_regression :
    let r1 := oldEmptyDisk.setIfEquals b!"refs/heads/a/b" (some shaA) shaB
    r1.1 = .ok false ∧ (r1.2.setIfEquals b!"refs/heads/a" none shaB).1 = .error .os ∧
    (let r1' := emptyDisk.setIfEquals b!"refs/heads/a/b" (some shaA) shaB
     r1'.1 = .ok false ∧ (r1'.2.setIfEquals b!"refs/heads/a" none shaB).1 = .ok true) := by
  decide

set_option maxRecDepth 8000 in
/-- (fixed, PENDING-2 and PENDING-4) `set_symbolic_ref` did not create parent directories, and could not
re-point a name inside a symref loop (Disk and Dict).  Now: `disk_set_symbolic_ref_refines`,
`dict_set_symbolic_ref_spec` without such hypotheses. -/
theorem set_symbolic_ref_regression :
    (oldEmptyDisk.setSymbolicRef b!"refs/remotes/o/m" b!"refs/heads/m").1 = .error .os ∧
    (emptyDisk.setSymbolicRef b!"refs/remotes/o/m" b!"refs/heads/m").1 = .ok () ∧
    (let d : RefsOld.Disk := { oldEmptyDisk with files := [(b!"refs/heads/s", b!"ref: refs/heads/t"),
                                                           (b!"refs/heads/t", b!"ref: refs/heads/s")] }
     (d.setSymbolicRef b!"refs/heads/s" b!"refs/heads/m").1 = .error .symrefLoop ∧
     (RefsOld.Dict.setSymbolicRef d.files b!"refs/heads/s" b!"refs/heads/m").1 = .error .symrefLoop) := by
  decide

set_option maxRecDepth 8000 in
/-- (fixed, PENDING-5) `pack_refs(all=True)` replaced a symbolic ref under `refs/` by the sha it resolved
to, and raised on a symref loop.  Now: `pack_refs_stutter`, unconditional. -/
theorem pack_refs_symref_regression :
    (let d : RefsOld.Disk := { oldEmptyDisk with files := [(b!"refs/heads/a", shaA), (b!"refs/heads/s", b!"ref: refs/heads/a")] }
     d.readRef b!"refs/heads/s" = some b!"ref: refs/heads/a" ∧
     (d.packRefs true).1 = .ok () ∧ (d.packRefs true).2.readRef b!"refs/heads/s" = some shaA) ∧
    (let d : RefsOld.Disk := { oldEmptyDisk with files := [(b!"refs/heads/s", b!"ref: refs/heads/t"),
                                                           (b!"refs/heads/t", b!"ref: refs/heads/s")] }
     (d.packRefs true).1 = .error .symrefLoop) := by
  decide

set_option maxRecDepth 8000 in
/-- (fixed by 3fe26f6, C08 series) `add_if_new` through a dangling symref consulted packed-refs under the symref's own
name.  Now: `disk_add_if_new_refines` without the extra hypothesis. -/
theorem add_if_new_packed_name_regression :
    let d : RefsOld.Disk := { oldEmptyDisk with files := [(b!"refs/heads/s", b!"ref: refs/heads/t")],
                                                packed := [(b!"refs/heads/s", shaA)] }
    (d.addIfNew b!"refs/heads/s" shaB).1 = .ok false ∧
    (RefsOld.Spec.addIfNew d.readRef b!"refs/heads/s" shaB).1 = .ok true := by
  decide

set_option maxRecDepth 8000 in
/-- (fixed, PENDING-6 and PENDING-7) `get_peeled` answered from the packed entry under a loose override,
and re-packing kept the old peeled line.  Now: `get_peeled_loose_override` and the example after it. -/
theorem get_peeled_regression :
    let d : RefsOld.Disk := { oldEmptyDisk with files := [(b!"refs/tags/v", shaB)],
                                                packed := [(b!"refs/tags/v", shaC)],
                                                peeled := [(b!"refs/tags/v", shaA)] }
    d.readRef b!"refs/tags/v" = some shaB ∧ d.getPeeled b!"refs/tags/v" = .ok (some shaA) ∧
    (d.packRefs true).2.packed.get b!"refs/tags/v" = some shaB ∧
    (d.packRefs true).2.getPeeled b!"refs/tags/v" = .ok (some shaA) := by
  decide

set_option maxRecDepth 8000 in
/-- DESIGN §7-F17 (fixed, PENDING-8): reftable dropped unconditional overwrites and deletes, and did not
read `ZERO_SHA` as "absent".  Now: `reftable_set_if_equals_spec`, `reftable_remove_if_equals_spec`. -/
theorem reftable_unconditional_regression :
    let m : RefsOld.Map := [(b!"refs/heads/m", shaA)]
    RefsOld.Reftable.setIfEquals m b!"refs/heads/m" none shaB = (.ok false, m) ∧
    RefsOld.Reftable.removeIfEquals m b!"refs/heads/m" none = (.ok false, m) ∧
    RefsOld.Reftable.setIfEquals [] b!"refs/heads/m" (some zeroSha) shaA = (.ok false, []) := by
  decide

set_option maxRecDepth 8000 in
/-- (fixed, PENDING-9) a symref set through a `NamespacedRefsContainer` did not resolve through it.
Now: `namespaced_symref_resolves`. -/
theorem namespaced_symref_regression :
    let o := RefsOld.namespaced RefsOld.dictOps (RefsOld.nsPrefix b!"foo")
    let m0 : RefsOld.Map := [(b!"refs/namespaces/foo/refs/heads/a", shaA)]
    o.getItem (o.setSymbolicRef m0 b!"refs/heads/s" b!"refs/heads/a").2 b!"refs/heads/s" = .error .key ∧
    o.readRef (o.setSymbolicRef m0 b!"refs/heads/s" b!"refs/heads/a").2 b!"refs/heads/s"
      = some b!"ref: refs/namespaces/foo/refs/heads/a" := by
  decide


end Dulwich.Props.C16
