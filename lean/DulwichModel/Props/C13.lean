/-
  C13 — merge-base, ancestry and history walks are exact on every DAG and clock.

  Only property theorems, non-vacuity examples and negation witnesses live here; helper lemmas are in
  Lemmas/LCA.lean and Lemmas/Walk.lean.  The models are Model/LCA.lean (`_find_lcas`, find_merge_base,
  can_fast_forward, independent, find_octopus_base) and Model/Walk.lean (`_CommitTimeQueue`, Walker,
  `_topo_reorder`); the flag constants, the `min_stamp` default, which callers pass the `min_stamp` cut and
  `_MAX_EXTRA_COMMITS` come from Gen/Graph.lean, which the translator regenerates from /repo on every run.

  Vocabulary (defined at the end of Model/LCA.lean): `Anc g a c` = "a is c or an ancestor of c"; `SAnc` =
  strict ancestor; `CA g c1 c2s x` = "x is a common ancestor of c1 and of one of c2s"; `MaxCA` = "... and not a
  strict ancestor of another common ancestor" (the graph-theoretic merge base); `g.WF` = every parent is a
  commit `< g.n`; `g.StrictMono` = stamps strictly increase from every parent to its child.

  What holds for EVERY graph and EVERY clock: §1 soundness, §2 termination, §3 completeness, §5 walks without
  excludes.  What needs `StrictMono` (and is false without it — §6 witnesses, replayed on the real code by the
  harness): §4 exactness of merge base / fast-forward / independent.  `find_octopus_base` is not exact even
  under `StrictMono` (§6).
-/
import DulwichModel.Lemmas.LCA
import DulwichModel.Lemmas.Walk

namespace Dulwich.Props.C13
open Dulwich Dulwich.LCA

/-! ## 0. the Boolean record is a faithful reading of the integer flag words -/

/-- For every flag word `< 16`: reading the bits of `a & b`, `a | b` gives the intersection / union of the
readings, `toNat` inverts `ofNat`, and the three tests of `_find_lcas` — `(p & c) == c`,
`c & (_ANC_OF_1|_ANC_OF_2|_DNC)`, `c == _ANC_OF_1|_ANC_OF_2` — are `covers`, `ancMask`, `isBoth`.
Depends on the generated constants: fails to compile if they stop being four distinct bits. -/
theorem flag_encoding_faithful : ∀ a b : Fin 16,
    Flags.ofNat (a.val &&& b.val) = (Flags.ofNat a.val).inter (Flags.ofNat b.val) ∧
    Flags.ofNat (a.val ||| b.val) = (Flags.ofNat a.val).union (Flags.ofNat b.val) ∧
    (Flags.ofNat a.val).toNat = a.val ∧
    ((a.val &&& b.val == b.val) = (Flags.ofNat a.val).covers (Flags.ofNat b.val)) ∧
    Flags.ofNat (a.val &&& (Gen.lcaAncOf1 ||| Gen.lcaAncOf2 ||| Gen.lcaDnc)) = (Flags.ofNat a.val).ancMask ∧
    ((a.val &&& (Gen.lcaAncOf1 ||| Gen.lcaAncOf2 ||| Gen.lcaDnc) == (Gen.lcaAncOf1 ||| Gen.lcaAncOf2)) =
      (Flags.ofNat a.val).ancMask.isBoth) := by
  decide

/-! ## 1. soundness of the flags — every DAG, every assignment of stamps, any `min_stamp`, any fuel -/

/-- When the loop of `_find_lcas` stops, a commit carries `_ANC_OF_1` only if it is `c1` or an ancestor of
`c1`, `_ANC_OF_2` only if it is an ancestor-or-self of some `c2`, `_DNC` only if it is a strict ancestor of a
common ancestor. No hypothesis on the graph (not even acyclicity) or on the stamps. -/
theorem flags_sound (g : Graph) (c1 : Nat) (c2s : List Nat) (minStamp : Int) (fuel : Nat) (s : St)
    (h : loop g minStamp fuel (init g c1 c2s) = .ok s) (c : Nat) (f : Flags) (hf : s.fl.get c = some f) :
    (f.anc1 = true → Anc g c c1) ∧ (f.anc2 = true → ∃ c2, c2 ∈ c2s ∧ Anc g c c2) ∧
    (f.dnc = true → ∃ y, CA g c1 c2s y ∧ SAnc g c y) := by
  have := (loop_inv (SoundSt g c1 c2s)
    (fun s dt c rest f hI _ _ hf => stepWith_sound hI hf) fuel _ _ (init_sound g c1 c2s).1 h).1
  have hg := this.fl c f hf
  exact ⟨hg.a1, hg.a2, hg.dn⟩

/-- Every commit `_find_lcas` reports is a common ancestor of `c1` and one of `c2s` — every DAG, every clock. -/
theorem lcas_are_common_ancestors (g : Graph) (c1 : Nat) (c2s : List Nat) (minStamp : Int) (fuel : Nat)
    (r : List Nat) (h : findLcasFuel fuel g c1 c2s minStamp = .ok r) (x : Nat) (hx : x ∈ r) :
    CA g c1 c2s x := by
  unfold findLcasFuel at h
  split at h
  · cases h
  · rename_i s hs
    split at h
    · cases h
    · rename_i res hres
      cases h
      have hinv := (loop_inv (SoundSt g c1 c2s)
        (fun s dt c rest f hI _ _ hf => stepWith_sound hI hf) fuel _ _ (init_sound g c1 c2s).1 hs).1
      obtain ⟨e, he, rfl⟩ := List.mem_map.mp hx
      rw [mem_sortByStamp] at he
      rcases (finalFilter_mem _ _ _ hres e).mp he with h0 | ⟨hc, _⟩
      · cases h0
      · obtain ⟨f, hf, h1, h2⟩ := hinv.cands e hc
        have hg := hinv.fl e.2 f hf
        exact ⟨hg.a1 h1, hg.a2 h2⟩

/-- `find_merge_base([c1] + c2s)` only reports common ancestors. -/
theorem merge_base_sound (g : Graph) (c1 : Nat) (c2 : Nat) (c2s : List Nat) (r : List Nat)
    (h : findMergeBase g (c1 :: c2 :: c2s) = .ok r) (x : Nat) (hx : x ∈ r) : CA g c1 (c2 :: c2s) x := by
  simp only [findMergeBase] at h
  split at h
  · rename_i hmem
    cases h
    simp only [List.mem_singleton] at hx
    subst hx
    exact ⟨Anc.refl x, x, by simpa using hmem, Anc.refl x⟩
  · exact lcas_are_common_ancestors g c1 (c2 :: c2s) _ _ r h x hx

/-- `can_fast_forward(c1, c2) = True` only if `c1` is `c2` or an ancestor of `c2` — every DAG, every clock. -/
theorem ff_true_sound (g : Graph) (c1 c2 : Nat) (h : canFastForward g c1 c2 = .ok true) : Anc g c1 c2 := by
  unfold canFastForward at h
  split at h
  · rename_i heq; subst heq; exact Anc.refl c1
  · split at h
    · cases h
    · rename_i l hl
      simp only [Except.ok.injEq, beq_iff_eq] at h
      subst h
      obtain ⟨_, c2', hc2, ha⟩ := lcas_are_common_ancestors g c1 [c2] _ _ _ hl c1 (by simp)
      simp only [List.mem_singleton] at hc2
      subst hc2
      exact ha

/-! ## 2. termination: `3·n + |c2s| + 2` iterations always suffice, no `KeyError`, no empty-heap pop -/

/-- On a closed history (`WF`: every parent is a commit) `_find_lcas` returns a list: the loop ends within the
default fuel (each push sets a new one of the three propagating bits of some commit, so there are at most
`3·n` pushes after the `1 + |c2s|` initial ones), `cstates[cmt]` never raises and the heap is never popped
empty.  Any `min_stamp`, any stamps. -/
theorem lca_terminates (g : Graph) (hwf : g.WF) (c1 : Nat) (c2s : List Nat) (h1 : c1 < g.n)
    (h2 : ∀ c, c ∈ c2s → c < g.n) (minStamp : Int) : ∃ r, findLcas g c1 c2s minStamp = .ok r := by
  obtain ⟨hdom, hlen⟩ := init_dom (g := g) h1 h2
  have hmu : mu g (init g c1 c2s) ≤ defaultFuel g c2s := by
    unfold mu defaultFuel
    have := total_le (init g c1 c2s).fl g.n
    omega
  obtain ⟨s, hs⟩ := loop_ok (m := minStamp) hwf _ _ hdom hmu
  have hinv := (loop_all (m := minStamp) hwf h1 h2 hs).1
  obtain ⟨res, hres⟩ := finalFilter_ok s.cands [] (fun e he => (hinv.dom.cands e he).2)
  exact ⟨(sortByStamp res).map (·.2), by simp only [findLcas, findLcasFuel, hs, hres]⟩

/-! ## 3. completeness — every DAG, every assignment of stamps -/

/-- Every maximal common ancestor is reported, whatever the clocks say, as long as no commit from which it is
reachable is older than `min_stamp` (always true for the default `min_stamp = 0` and non-negative stamps).
So the only way `find_merge_base` can be wrong on a skewed clock is by reporting too much. -/
theorem lcas_complete (g : Graph) (hwf : g.WF) (c1 : Nat) (c2s : List Nat) (h1 : c1 < g.n)
    (h2 : ∀ c, c ∈ c2s → c < g.n) (minStamp : Int) (fuel : Nat) (r : List Nat)
    (h : findLcasFuel fuel g c1 c2s minStamp = .ok r) (x : Nat) (hx : MaxCA g c1 c2s x)
    (hcut : ∀ y, Anc g x y → minStamp ≤ g.ts y) : x ∈ r := by
  obtain ⟨s, res, hs, hres, rfl⟩ := findLcasFuel_ok h
  obtain ⟨hinv, hnc⟩ := loop_all (m := minStamp) hwf h1 h2 hs
  rw [mem_result hres]
  exact final_has_max hinv.sound hinv.live hnc hx (fun y hy => Int.not_lt.mpr (hcut y hy))

/-- Consequence for EVERY clock (closed acyclic history, non-negative stamps, no `min_stamp` cut): `c1` is in
`_find_lcas(c1, [c2])` exactly when `c1` is `c2` or an ancestor of `c2`.  So the *membership* test
`c1 in _find_lcas(c1, [c2])` is an exact ancestry test on any clock, whereas the equality test `lcas == [c1]`
with the `min_stamp` cut that `can_fast_forward` uses is not (§6) — this is the basis of the proposed fix. -/
theorem ancestor_iff_mem_lcas (g : Graph) (hwf : g.WF) (rk : Nat → Nat)
    (hrk : ∀ c p, p ∈ g.parents c → rk p < rk c) (hpos : ∀ z, 0 ≤ g.ts z) (c1 c2 : Nat) (h1 : c1 < g.n)
    (h2 : c2 < g.n) (fuel : Nat) (r : List Nat) (h : findLcasFuel fuel g c1 [c2] 0 = .ok r) :
    c1 ∈ r ↔ Anc g c1 c2 := by
  constructor
  · intro hc
    obtain ⟨_, c2', hc2, ha⟩ := lcas_are_common_ancestors g c1 [c2] 0 fuel r h c1 hc
    simp only [List.mem_singleton] at hc2
    subst hc2; exact ha
  · intro hanc
    apply lcas_complete g hwf c1 [c2] h1 (by simp [h2]) 0 fuel r h c1 _ (fun y _ => hpos y)
    refine ⟨⟨Anc.refl c1, c2, by simp, hanc⟩, ?_⟩
    rintro ⟨y, ⟨hy, _⟩, hsy⟩
    have := hsy.rk_lt hrk
    have := hy.rk_le hrk
    omega

/-! ## 4. exactness — full statements (false on the unchanged code) and what is proved -/

/-- The property as worded for merge bases: on every closed history with non-negative stamps
`find_merge_base` returns exactly the maximal common ancestors. **False** for the unchanged code
(`lca_nonmaximal_counterexample`); proved below under `StrictMono`. -/
def MergeBaseExactStatement : Prop :=
  ∀ (g : Graph), g.WF → (∀ z, 0 ≤ g.ts z) → ∀ (c1 c2 : Nat) (c2s : List Nat), c1 < g.n →
    (∀ c, c ∈ c2 :: c2s → c < g.n) → ∀ r, findMergeBase g (c1 :: c2 :: c2s) = .ok r →
      ∀ x, x ∈ r ↔ MaxCA g c1 (c2 :: c2s) x

/-- The property as worded for fast-forward tests. **False** for the unchanged code (`ff_skew_counterexample`). -/
def FfExactStatement : Prop :=
  ∀ (g : Graph), g.WF → ∀ (c1 c2 : Nat), c1 < g.n → c2 < g.n →
    ∀ b, canFastForward g c1 c2 = .ok b → (b = true ↔ Anc g c1 c2)

/-- `_find_lcas` is exact when stamps strictly increase from every parent to its child and nothing is cut off
by `min_stamp`: the result lists exactly the maximal common ancestors, each once.  (`StrictMono` is what the
proof needs: the queue then pops in an order in which nothing still queued is newer than a recorded candidate,
so every commit above a candidate has been fully processed.  Non-strict monotonicity is not enough — the
second witness has all stamps equal.) -/
theorem lcas_exact_partial (g : Graph) (hwf : g.WF) (hmono : g.StrictMono) (c1 : Nat) (c2s : List Nat)
    (h1 : c1 < g.n) (h2 : ∀ c, c ∈ c2s → c < g.n) (minStamp : Int) (hcut : ∀ z, minStamp ≤ g.ts z)
    (fuel : Nat) (r : List Nat) (h : findLcasFuel fuel g c1 c2s minStamp = .ok r) :
    (∀ x, x ∈ r ↔ MaxCA g c1 c2s x) ∧ r.Nodup :=
  findLcasFuel_exact hwf hmono h1 h2 hcut h

/-- `find_merge_base` returns exactly the graph-theoretic merge bases when stamps are non-negative and strictly
increase from parent to child. -/
theorem merge_base_exact_partial (g : Graph) (hwf : g.WF) (hmono : g.StrictMono) (hpos : ∀ z, 0 ≤ g.ts z)
    (c1 c2 : Nat) (c2s : List Nat) (h1 : c1 < g.n) (h2 : ∀ c, c ∈ c2 :: c2s → c < g.n) (r : List Nat)
    (h : findMergeBase g (c1 :: c2 :: c2s) = .ok r) (x : Nat) : x ∈ r ↔ MaxCA g c1 (c2 :: c2s) x := by
  simp only [findMergeBase] at h
  split at h
  · rename_i hmem
    cases h
    have hmem' : c1 ∈ c2 :: c2s := by simpa using hmem
    simp only [List.mem_singleton]
    constructor
    · rintro rfl
      refine ⟨⟨Anc.refl x, x, hmem', Anc.refl x⟩, ?_⟩
      rintro ⟨y, ⟨hy, _⟩, hs⟩
      have := hs.ts_lt hmono
      have := hy.ts_le hmono
      omega
    · rintro ⟨⟨hx1, _⟩, hmax⟩
      rcases hx1.eq_or_sanc with h | h
      · exact h
      · exact absurd ⟨c1, ⟨Anc.refl c1, c1, hmem', Anc.refl c1⟩, h⟩ hmax
  · have hm : (if Gen.mergeBasePassesMinStamp = true then g.ts c1 else Gen.lcaDefaultMinStamp) = 0 := rfl
    rw [hm] at h
    exact (lcas_exact_partial g hwf hmono c1 (c2 :: c2s) h1 h2 0 hpos _ r h).1 x

/-- `can_fast_forward(c1, c2)` answers the ancestry question exactly when stamps strictly increase from parent
to child (the `min_stamp = ts c1` cut then only removes strict ancestors of `c1`). -/
theorem ff_exact_partial (g : Graph) (hwf : g.WF) (hmono : g.StrictMono) (c1 c2 : Nat) (h1 : c1 < g.n)
    (h2 : c2 < g.n) (b : Bool) (h : canFastForward g c1 c2 = .ok b) : b = true ↔ Anc g c1 c2 := by
  constructor
  · rintro rfl; exact ff_true_sound g c1 c2 h
  · intro hanc
    unfold canFastForward at h
    split at h
    · cases h; rfl
    · rename_i hne
      split at h
      · cases h
      · rename_i l hl
        cases h
        have hm : (if Gen.ffPassesMinStamp = true then g.ts c1 else Gen.lcaDefaultMinStamp) = g.ts c1 := rfl
        rw [hm] at hl
        have h2' : ∀ c, c ∈ [c2] → c < g.n := by simp [h2]
        obtain ⟨s, res, hs, hres, rfl⟩ := findLcasFuel_ok hl
        obtain ⟨hinv, hnc⟩ := loop_all (m := g.ts c1) hwf h1 h2' hs
        have hca1 : CA g c1 [c2] c1 := ⟨Anc.refl c1, c2, by simp, hanc⟩
        have hmax1 : MaxCA g c1 [c2] c1 := by
          refine ⟨hca1, ?_⟩
          rintro ⟨y, ⟨hy, _⟩, hsy⟩
          have := hsy.ts_lt hmono
          have := hy.ts_le hmono
          omega
        have hin : c1 ∈ (sortByStamp res).map (·.2) := by
          rw [mem_result hres]
          exact final_has_max hinv.sound hinv.live hnc hmax1
            (fun y hy => Int.not_lt.mpr (hy.ts_le hmono))
        have hall : ∀ x, x ∈ (sortByStamp res).map (·.2) → x = c1 := by
          intro x hx
          rw [mem_result hres] at hx
          obtain ⟨dt, f, hc, hf, _⟩ := hx
          obtain ⟨f0, hf0, ha1, ha2⟩ := hinv.sound.cands _ hc
          simp only at hf0
          have hg := hinv.sound.fl x f0 hf0
          have hx1 := hg.a1 ha1
          rcases hx1.eq_or_sanc with heq | hsx
          · exact heq
          · exfalso
            have hlt := hsx.ts_lt hmono
            rcases hinv.cut x f hf with h | h | h
            · subst h; omega
            · simp only [List.mem_singleton] at h
              subst h
              have := hanc.ts_le hmono
              omega
            · exact h hlt
        have := eq_singleton_of_nodup (result_nodup hres hinv.cand.nodup) hin hall
        simp [this]

/-- The property as worded for independence filtering: on every closed history with non-negative stamps
`independent` returns exactly the ids not reachable from another (different) id.  **False** for the unchanged
code (`ff_equal_stamps_counterexample`, `independent_duplicate_counterexample`). -/
def IndependentExactStatement : Prop :=
  ∀ (g : Graph), g.WF → (∀ z, 0 ≤ g.ts z) → ∀ (ids : List Nat), (∀ c, c ∈ ids → c < g.n) →
    ∀ r, independent g ids = .ok r → ∀ x, x ∈ r ↔ x ∈ ids ∧ ¬ ∃ o, o ∈ ids ∧ o ≠ x ∧ Anc g x o

/-- `independent` is exact — the survivors are exactly the ids that are not reachable from another one of the
ids, kept in input order — when stamps are non-negative and strictly increase from parent to child and the ids
are pairwise distinct (an id given twice is dropped altogether: `independent_duplicate_counterexample`). -/
theorem independent_exact_partial (g : Graph) (hwf : g.WF) (hmono : g.StrictMono) (hpos : ∀ z, 0 ≤ g.ts z)
    (ids : List Nat) (hids : ∀ c, c ∈ ids → c < g.n) (hnd : ids.Nodup) (r : List Nat)
    (h : independent g ids = .ok r) :
    r.Sublist ids ∧ ∀ x, x ∈ r ↔ x ∈ ids ∧ ¬ ∃ o, o ∈ ids ∧ o ≠ x ∧ Anc g x o :=
  independent_exact hwf hmono hpos hids hnd h

/-! ## 5. history walks -/

/-- `_topo_reorder`, for every input order of distinct commits of an acyclic history (`rk` is any rank that
increases from parent to child): the loop finishes (every entry is taken from `todo` at most twice), the output
is a permutation of the input, and a commit never comes before one of its children. -/
theorem topo_reorder_correct (parents : Nat → List Nat) (entries : List Nat) (hnd : entries.Nodup)
    (rk : Nat → Nat) (hrk : ∀ c p, p ∈ parents c → rk p < rk c) :
    ∃ out, Walk.topoReorder parents entries = some out ∧ out.Perm entries ∧
      out.Pairwise (fun earlier later => earlier ∉ parents later) := by
  have hinit := Walk.topoReorder_init parents entries
  obtain ⟨out, hout⟩ := Walk.topoLoop_terminates hnd (2 * entries.length + 1) _ [] hinit (by
    unfold Walk.tmu
    have := Walk.wsum_le (Walk.countChildren parents entries) entries
    simp only [List.length_nil]
    omega)
  exact ⟨out, hout, Walk.topoLoop_correct hnd rk hrk _ _ _ _ hinit hout⟩

/-- walker options: start points and order only (no excludes, no window, no limit) -/
def plainWalk (incl : List Nat) (topo reverse : Bool) : Walk.Opts :=
  { incl := incl, excl := [], topo := topo, reverse := reverse, maxEntries := none, since := none, untl := none }

/-- A walk without excludes, `since`, `until`, `max_entries` over a closed acyclic history terminates and
yields exactly the commits reachable from the start points, each once — for every assignment of stamps, in
date or topo order, reversed or not; in topo order no commit comes before one of its children (after, when
reversed). -/
theorem walk_each_once (g : Graph) (hwf : g.WF) (incl : List Nat) (hincl : ∀ i, i ∈ incl → i < g.n)
    (topo reverse : Bool) (rk : Nat → Nat) (hrk : ∀ c p, p ∈ g.parents c → rk p < rk c) :
    ∃ out, Walk.walk g (plainWalk incl topo reverse) = some out ∧
      out.Nodup ∧ (∀ c, c ∈ out ↔ ∃ i, i ∈ incl ∧ Anc g c i) ∧
      (topo = true →
        (if reverse then out.reverse else out).Pairwise (fun earlier later => earlier ∉ g.parents later)) := by
  obtain ⟨hinv, hdone⟩ := Walk.qInit_inv g incl
  obtain ⟨⟨s, q⟩, hdrain⟩ := Walk.drain_terminates hwf hincl (g.n + 2) _ [] hinv (by omega)
  obtain ⟨hex, hnd, hmem⟩ := Walk.drain_correct _ _ _ _ _ hinv hdone.symm hdrain
  have hq : Walk.queueOutput g incl [] none = some (q, []) := by
    simp only [Walk.queueOutput, hdrain, List.isEmpty_nil, if_true, hex]
  have hfilter : ∀ o : Walk.Opts, o.since = none → o.untl = none →
      q.filter (Walk.shouldReturn g o []) = q := fun o h1 h2 => Walk.filter_shouldReturn_all g o h1 h2 q
  cases topo with
  | false =>
    refine ⟨if reverse then q.reverse else q, ?_, ?_, ?_, fun hf => by cases hf⟩
    · unfold Walk.walk
      have e1 : (plainWalk incl false reverse).incl = incl := rfl
      have e2 : (plainWalk incl false reverse).excl = [] := rfl
      have e3 : (plainWalk incl false reverse).since = none := rfl
      simp only [e1, e2, e3, hq, hfilter (plainWalk incl false reverse) rfl rfl]
      cases reverse <;> simp [plainWalk]
    · split
      · exact (List.Perm.nodup_iff (List.reverse_perm _)).mpr hnd
      · exact hnd
    · intro c
      split
      · rw [List.mem_reverse]; exact hmem c
      · exact hmem c
  | true =>
    obtain ⟨l, hl, hperm, hord⟩ := topo_reorder_correct g.parents q hnd rk hrk
    refine ⟨if reverse then l.reverse else l, ?_, ?_, ?_, fun _ => ?_⟩
    · unfold Walk.walk
      have e1 : (plainWalk incl true reverse).incl = incl := rfl
      have e2 : (plainWalk incl true reverse).excl = [] := rfl
      have e3 : (plainWalk incl true reverse).since = none := rfl
      simp only [e1, e2, e3, hq, hfilter (plainWalk incl true reverse) rfl rfl]
      cases reverse <;> simp [plainWalk, hl]
    · split
      · exact (List.Perm.nodup_iff ((List.reverse_perm _).trans hperm)).mpr hnd
      · exact (List.Perm.nodup_iff hperm).mpr hnd
    · intro c
      split
      · rw [List.mem_reverse, hperm.mem_iff]; exact hmem c
      · rw [hperm.mem_iff]; exact hmem c
    · split
      · rw [List.reverse_reverse]; exact hord
      · exact hord

/-- Soundness of a walk with EVERY option (excludes, since, until, max_entries, date/topo order, reverse) on
every acyclic history and EVERY clock: whenever the walk returns, its entries are pairwise distinct, at most
`max_entries`, each reachable from a start point, none of them an exclude start point, all inside the
`since..until` window.  (What is not proved for this general case — that nothing is missing and nothing
reachable from an exclude is left when stamps are monotone — rests on the correspondence and the oracle; the
property itself does not claim it for non-monotone stamps.) -/
theorem walk_sound (g : Graph) (o : Walk.Opts) (rk : Nat → Nat) (hrk : ∀ c p, p ∈ g.parents c → rk p < rk c)
    (out : List Nat) (h : Walk.walk g o = some out) :
    out.Nodup ∧ (∀ m, o.maxEntries = some m → out.length ≤ m) ∧
    ∀ c, c ∈ out → (∃ i, i ∈ o.incl ∧ Anc g c i) ∧ c ∉ o.excl ∧
      (∀ m, o.since = some m → m ≤ g.ts c) ∧ (∀ m, o.untl = some m → g.ts c ≤ m) :=
  Walk.walk_sound_all rk hrk h

/-! ## 6. negation witnesses (F14 and two more): the unchanged code is not exact on skewed / equal clocks -/

/-- chain `0 ← 1 ← 2` (1's parent is 0, 2's parent is 1) with stamps (1,0,0) -/
def chain3 : Graph := Graph.ofLists [[], [0], [1]] [1, 0, 0]

/-- `1←0, 2←1, 3←{0,2}` (3 merges 0 and 2), all stamps equal -/
def diamond4 : Graph := Graph.ofLists [[], [0], [1], [0, 2]] [0, 0, 0, 0]

/-- `can_fast_forward(0, 2)` is `False` on the chain although 0 is an ancestor of 2: commit 1 (stamp 0) is
older than `min_stamp = ts 0 = 1` and is never queued. -/
theorem ff_skew_counterexample :
    canFastForward chain3 0 2 = .ok false ∧ Anc chain3 0 2 := by
  refine ⟨by decide, ?_⟩
  exact Anc.step (p := 1) (by decide) (Anc.step (p := 0) (by decide) (Anc.refl 0))

/-- merge base of (2,3) is reported as `[0, 2]`; 0 is a parent of 1, which is a parent of 2: not maximal. -/
theorem lca_nonmaximal_counterexample :
    findMergeBase diamond4 [2, 3] = .ok [0, 2] ∧ ¬ MaxCA diamond4 2 [3] 0 := by
  refine ⟨by decide, ?_⟩
  intro h
  apply h.2
  refine ⟨2, ⟨Anc.refl 2, 3, by simp, Anc.step (p := 2) (by decide) (Anc.refl 2)⟩, 1, by decide, ?_⟩
  exact Anc.step (p := 0) (by decide) (Anc.refl 0)

/-- the same defect makes `can_fast_forward(2, 3)` false and `independent([2, 3])` keep both -/
theorem ff_equal_stamps_counterexample :
    canFastForward diamond4 2 3 = .ok false ∧ independent diamond4 [2, 3] = .ok [2, 3] := by
  decide

theorem chain3_wf : chain3.WF := by unfold Graph.WF; decide
theorem diamond4_wf : diamond4.WF := by unfold Graph.WF; decide

/-- the fast-forward statement as worded is false for the unchanged code -/
theorem ff_exact_fails : ¬ FfExactStatement := by
  intro h
  have := (h chain3 chain3_wf 0 2 (by decide) (by decide) false ff_skew_counterexample.1).mpr
    ff_skew_counterexample.2
  cases this

/-- the merge-base statement as worded is false for the unchanged code -/
theorem merge_base_exact_fails : ¬ MergeBaseExactStatement := by
  intro h
  have := (h diamond4 diamond4_wf (ofLists_nonneg _ _ (by decide)) 2 3 [] (by decide) (by decide) [0, 2]
    lca_nonmaximal_counterexample.1 0).mp (by simp)
  exact lca_nonmaximal_counterexample.2 this

/-- `r←x←y`, `a` on `x`, `b` on `y`, `c1 = c2 = merge(a, b)`, `c3` on `y`; commits numbered
`r=0 x=1 y=2 a=3 b=4 c1=5 c2=6 c3=7`, stamps strictly increasing -/
def octo8 : Graph := Graph.ofLists [[], [0], [1], [1], [2], [3, 4], [3, 4], [2]] [0, 1, 2, 3, 4, 5, 6, 7]

/-- `find_octopus_base([c1, c2, c3])` folds pairwise merge bases (`{a, b}` then `lcas(c3, a) ∪ lcas(c3, b)`)
and reports `[x, y]` although `x` is the parent of `y` — with strictly increasing stamps, so this defect is
independent of the clock (git reduces the union with `reduce_heads`). -/
theorem octopus_fold_counterexample :
    findOctopusBase octo8 [5, 6, 7] = .ok [1, 2] ∧ octo8.StrictMono ∧ 1 ∈ octo8.parents 2 := by
  refine ⟨by decide, ofLists_strictMono _ _ (by decide), by decide⟩

/-- `independent([A, A])` is empty: an id listed twice is dropped altogether. -/
theorem independent_duplicate_counterexample :
    independent (Graph.ofLists [[], [0]] [0, 1]) [1, 1] = .ok [] := by decide

/-- the independence statement as worded is false for the unchanged code (an id given twice) -/
theorem independent_exact_fails : ¬ IndependentExactStatement := by
  intro h
  have := (h (Graph.ofLists [[], [0]] [0, 1]) (by unfold Graph.WF; decide) (ofLists_nonneg _ _ (by decide))
    [1, 1] (by decide) [] independent_duplicate_counterexample 1).mpr
    ⟨by simp, by rintro ⟨o, ho, hne, _⟩; simp at ho; exact hne ho⟩
  cases this

/-- "the commits `find_octopus_base` reports are pairwise unrelated", for closed histories with non-negative,
strictly increasing stamps. **False** for the unchanged code. -/
def OctopusAntichainStatement : Prop :=
  ∀ (g : Graph), g.WF → g.StrictMono → (∀ z, 0 ≤ g.ts z) → ∀ (ids : List Nat), (∀ c, c ∈ ids → c < g.n) →
    ∀ r, findOctopusBase g ids = .ok r → ∀ x y, x ∈ r → y ∈ r → ¬ SAnc g x y

theorem octopus_antichain_fails : ¬ OctopusAntichainStatement := by
  intro h
  refine h octo8 (by unfold Graph.WF; decide) octopus_fold_counterexample.2.1 (ofLists_nonneg _ _ (by decide))
    [5, 6, 7] (by decide) [1, 2] octopus_fold_counterexample.1 1 2 (by simp) (by simp) ?_
  exact ⟨1, by decide, Anc.refl 1⟩

/-! ## 7. non-vacuity: the hypotheses of the theorems hold on non-trivial histories -/

/-- criss-cross: 1 and 2 on 0; 3 and 4 both merge 1 and 2 -/
def cross5 : Graph := Graph.ofLists [[], [0], [0], [1, 2], [1, 2]] [0, 1, 2, 3, 4]

example : cross5.WF ∧ cross5.StrictMono ∧ (∀ z, 0 ≤ cross5.ts z) ∧
    findMergeBase cross5 [3, 4] = .ok [1, 2] ∧ canFastForward cross5 1 4 = .ok true ∧
    canFastForward cross5 3 4 = .ok false ∧ independent cross5 [0, 1, 3, 4] = .ok [3, 4] :=
  ⟨by unfold Graph.WF; decide, ofLists_strictMono _ _ (by decide), ofLists_nonneg _ _ (by decide),
   by decide, by decide, by decide, by decide⟩

/-- hypotheses of `flags_sound` / `lcas_complete` on a skewed history where the answer is still exact -/
example : findLcas chain3 2 [1] 0 = .ok [1] ∧ chain3.WF := ⟨by decide, chain3_wf⟩

/-- walks: date order and topo order on the criss-cross with all stamps equal (ties by id) -/
example : Walk.walk (Graph.ofLists [[], [0], [0], [1, 2], [1, 2]] [7, 7, 7, 7, 7])
      { incl := [3, 4], excl := [], topo := false, reverse := false, maxEntries := none, since := none,
        untl := none } = some [3, 1, 0, 2, 4] ∧
    Walk.walk (Graph.ofLists [[], [0], [0], [1, 2], [1, 2]] [7, 7, 7, 7, 7])
      { incl := [3, 4], excl := [], topo := true, reverse := false, maxEntries := none, since := none,
        untl := none } = some [3, 4, 2, 1, 0] := by
  decide

/-- the hypotheses of `walk_each_once` / `topo_reorder_correct` are satisfiable (rank = commit number) and the
conclusion is about a non-trivial walk -/
example : ∃ out, Walk.walk cross5 (plainWalk [3, 4] true false) = some out ∧ out.Nodup ∧
    (∀ c, c ∈ out ↔ ∃ i, i ∈ [3, 4] ∧ Anc cross5 c i) ∧
    (true = true → (if false then out.reverse else out).Pairwise (fun a b => a ∉ cross5.parents b)) :=
  walk_each_once cross5 (by unfold Graph.WF; decide) [3, 4] (by decide) true false id
    (ofLists_rank _ _ id (by decide))

/-- a walk with an exclude, a window and a limit on a skewed history (hypotheses of `walk_sound`) -/
example : Walk.walk (Graph.ofLists [[], [0], [0], [1, 2], [1, 2]] [5, 9, 1, 4, 7])
    { incl := [3, 4], excl := [2], topo := true, reverse := true, maxEntries := some 2, since := some 4,
      untl := some 8 } = some [3, 4] := by decide

/-- `_topo_reorder` on an order that lists a parent first -/
example : Walk.topoReorder cross5.parents [0, 3, 1, 4, 2] = some [3, 4, 1, 2, 0] := by decide

end Dulwich.Props.C13
