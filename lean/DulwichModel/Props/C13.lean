/-
  C13 — merge-base, ancestry and history walks are exact on every DAG and clock.

  Only property theorems, non-vacuity examples and negation witnesses live here; helper lemmas are in
  Lemmas/LCA.lean and Lemmas/Walk.lean.  The models are Model/LCA.lean (`_find_lcas`, find_merge_base,
  can_fast_forward, independent, find_octopus_base) and Model/Walk.lean (`_CommitTimeQueue`, Walker,
  `_topo_reorder`); the flag constants, the `min_stamp` default, which callers pass the `min_stamp` cut and
  `_MAX_EXTRA_COMMITS` come from Gen/Graph.lean, which the translator regenerates from /repo on every run.

  Vocabulary (defined at the end of Model/LCA.lean): `Anc g a c` = "a is c or an ancestor of c"; `SAnc` =
  strict ancestor; `CA g c1 c2s x` = "x is a common ancestor of c1 and of one of c2s"; `MaxCA` = "... and not a
  strict ancestor of another common ancestor" (the graph-theoretic merge base); `g.WF` = every parent is a
  commit `< g.n`; `g.StrictMono` = stamps strictly increase from every parent to its child.

  The model is the code AFTER the C13 fix series (no default date cut in `_find_lcas`, `c1 in lcas` in
  `can_fast_forward`, `_remove_redundant` in `find_merge_base`/`find_octopus_base`, duplicate ids removed in
  `independent`).  For every closed acyclic history and EVERY clock: §1 soundness, §2 termination,
  §3 completeness of `_find_lcas`, §4 exactness of merge base / fast-forward / independent / octopus base,
  §5 walks.  §6 keeps, on the pre-fix functions (`LCA.Old`), the witnesses of the six defects the series repaired.
-/
import DulwichModel.Lemmas.LCA
import DulwichModel.Lemmas.Walk

namespace Dulwich.Props.C13
open Dulwich Dulwich.LCA

/-! ## 0. the Boolean record is a faithful reading of the integer flag words -/

/-- For every flag word `< 16`: reading the bits of `a & b`, `a | b` gives the intersection / union of the
readings, `toNat` inverts `ofNat`, and the three tests of `_find_lcas` — `(p & c) == c`,
`c & (_ANC_OF_1|_ANC_OF_2|_DNC)`, `c == _ANC_OF_1|_ANC_OF_2` — are `covers`, `ancMask`, `isBoth`.
Depends on the generated constants: fails to compile if they stop being four distinct bits. -/
theorem flag_encoding_faithful : ∀ a b : Fin 16,
    Flags.ofNat (a.val &&& b.val) = (Flags.ofNat a.val).inter (Flags.ofNat b.val) ∧
    Flags.ofNat (a.val ||| b.val) = (Flags.ofNat a.val).union (Flags.ofNat b.val) ∧
    (Flags.ofNat a.val).toNat = a.val ∧
    ((a.val &&& b.val == b.val) = (Flags.ofNat a.val).covers (Flags.ofNat b.val)) ∧
    Flags.ofNat (a.val &&& (Gen.lcaAncOf1 ||| Gen.lcaAncOf2 ||| Gen.lcaDnc)) = (Flags.ofNat a.val).ancMask ∧
    ((a.val &&& (Gen.lcaAncOf1 ||| Gen.lcaAncOf2 ||| Gen.lcaDnc) == (Gen.lcaAncOf1 ||| Gen.lcaAncOf2)) =
      (Flags.ofNat a.val).ancMask.isBoth) := by
  decide

/-! ## 1. soundness of the flags — every DAG, every assignment of stamps, any cut, any fuel -/

/-- When the loop of `_find_lcas` stops, a commit carries `_ANC_OF_1` only if it is `c1` or an ancestor of
`c1`, `_ANC_OF_2` only if it is an ancestor-or-self of some `c2`, `_DNC` only if it is a strict ancestor of a
common ancestor. No hypothesis on the graph (not even acyclicity) or on the stamps. -/
theorem flags_sound (g : Graph) (c1 : Nat) (c2s : List Nat) (cut : Nat → Bool) (fuel : Nat) (s : St)
    (h : loop g cut fuel (init g c1 c2s) = .ok s) (c : Nat) (f : Flags) (hf : s.fl.get c = some f) :
    (f.anc1 = true → Anc g c c1) ∧ (f.anc2 = true → ∃ c2, c2 ∈ c2s ∧ Anc g c c2) ∧
    (f.dnc = true → ∃ y, CA g c1 c2s y ∧ SAnc g c y) := by
  have := (loop_inv (SoundSt g c1 c2s)
    (fun s dt c rest f hI _ _ hf => stepWith_sound hI hf) fuel _ _ (init_sound g c1 c2s).1 h).1
  have hg := this.fl c f hf
  exact ⟨hg.a1, hg.a2, hg.dn⟩

/-- Every commit `_find_lcas` reports is a common ancestor of `c1` and one of `c2s` — every DAG, every clock. -/
theorem lcas_are_common_ancestors (g : Graph) (c1 : Nat) (c2s : List Nat) (cut : Nat → Bool) (fuel : Nat)
    (r : List Nat) (h : findLcasFuel fuel g c1 c2s cut = .ok r) (x : Nat) (hx : x ∈ r) :
    CA g c1 c2s x :=
  findLcasFuel_sound h hx

/-- `can_fast_forward(c1, c2) = True` only if `c1` is `c2` or an ancestor of `c2` — every graph, every clock. -/
theorem ff_true_sound (g : Graph) (c1 c2 : Nat) (h : canFastForward g c1 c2 = .ok true) : Anc g c1 c2 := by
  unfold canFastForward at h
  split at h
  · rename_i heq; subst heq; exact Anc.refl c1
  · split at h
    · cases h
    · rename_i l hl
      simp only [Except.ok.injEq, List.contains_eq_mem, decide_eq_true_eq] at h
      obtain ⟨_, c2', hc2, ha⟩ := findLcasFuel_sound hl h
      simp only [List.mem_singleton] at hc2
      subst hc2
      exact ha

/-! ## 2. termination: `3·n + |c2s| + 2` iterations always suffice, no `KeyError`, no empty-heap pop -/

/-- On a closed history (`WF`: every parent is a commit) `_find_lcas` returns a list: the loop ends within the
default fuel (each push sets a new one of the three propagating bits of some commit, so there are at most
`3·n` pushes after the `1 + |c2s|` initial ones), `cstates[cmt]` never raises and the heap is never popped
empty.  Any cut, any stamps. -/
theorem lca_terminates (g : Graph) (hwf : g.WF) (c1 : Nat) (c2s : List Nat) (h1 : c1 < g.n)
    (h2 : ∀ c, c ∈ c2s → c < g.n) (cut : Nat → Bool) : ∃ r, findLcas g c1 c2s cut = .ok r :=
  findLcas_terminates hwf h1 h2 cut

/-- `find_merge_base` and `can_fast_forward` return (no error result) on every closed history. -/
theorem merge_base_terminates (g : Graph) (hwf : g.WF) (ids : List Nat) (hids : ∀ c, c ∈ ids → c < g.n) :
    ∃ r, findMergeBase g ids = .ok r :=
  findMergeBase_terminates hwf hids

theorem ff_terminates (g : Graph) (hwf : g.WF) (c1 c2 : Nat) (h1 : c1 < g.n) (h2 : c2 < g.n) :
    ∃ b, canFastForward g c1 c2 = .ok b := by
  unfold canFastForward
  split
  · exact ⟨true, rfl⟩
  · obtain ⟨r, hr⟩ := findLcas_terminates hwf h1 (c2s := [c2]) (by simp [h2]) (defaultCut g)
    exact ⟨r.contains c1, by rw [hr]⟩

/-! ## 3. completeness of `_find_lcas` — every DAG, every assignment of stamps -/

/-- Every maximal common ancestor is reported, whatever the clocks say, as long as no commit from which it is
reachable is cut off (`cut` is constantly false since the fix: `min_stamp=None`).  So on any clock
`_find_lcas` can only over-report; `_remove_redundant` removes the excess. -/
theorem lcas_complete (g : Graph) (hwf : g.WF) (c1 : Nat) (c2s : List Nat) (h1 : c1 < g.n)
    (h2 : ∀ c, c ∈ c2s → c < g.n) (cut : Nat → Bool) (fuel : Nat) (r : List Nat)
    (h : findLcasFuel fuel g c1 c2s cut = .ok r) (x : Nat) (hx : MaxCA g c1 c2s x)
    (hcut : ∀ y, Anc g x y → cut y = false) : x ∈ r :=
  findLcasFuel_complete hwf h1 h2 h hx hcut

/-- `c1 ∈ _find_lcas(c1, [c2])` (no cut) exactly when `c1` is `c2` or an ancestor of `c2` — every clock. -/
theorem ancestor_iff_mem_lcas (g : Graph) (hwf : g.WF) (hac : g.Acyclic) (c1 c2 : Nat) (h1 : c1 < g.n)
    (h2 : c2 < g.n) (fuel : Nat) (r : List Nat) (h : findLcasFuel fuel g c1 [c2] (defaultCut g) = .ok r) :
    c1 ∈ r ↔ Anc g c1 c2 := by
  obtain ⟨rk, hrk⟩ := hac
  exact mem_lcas_iff_anc hwf hrk h1 h2 (defaultCut_false g) h

/-- The raw result of `_find_lcas` (before `_remove_redundant`) is already exact when stamps strictly increase
from every parent to its child and nothing is cut: exactly the maximal common ancestors, each once.
(`StrictMono` is what this needs; with equal stamps the raw result can contain a redundant entry, §6.) -/
theorem lcas_exact_partial (g : Graph) (hwf : g.WF) (hmono : g.StrictMono) (c1 : Nat) (c2s : List Nat)
    (h1 : c1 < g.n) (h2 : ∀ c, c ∈ c2s → c < g.n) (cut : Nat → Bool) (hcut : ∀ z, cut z = false)
    (fuel : Nat) (r : List Nat) (h : findLcasFuel fuel g c1 c2s cut = .ok r) :
    (∀ x, x ∈ r ↔ MaxCA g c1 c2s x) ∧ r.Nodup :=
  findLcasFuel_exact hwf hmono h1 h2 hcut h

/-! ## 4. exactness of the public functions — every closed acyclic history, EVERY assignment of stamps

No hypothesis on the stamps at all (negative, equal, running backwards): `Gen.lcaDefaultMinStamp = none`, so
nothing is cut (`defaultCut_false` is `rfl` on the generated constant). -/

/-- `find_merge_base([c1, c2, …])` returns exactly the maximal common ancestors of `c1` and (one of) the others,
each once. -/
theorem merge_base_exact (g : Graph) (hwf : g.WF) (hac : g.Acyclic) (c1 c2 : Nat) (c2s : List Nat)
    (h1 : c1 < g.n) (h2 : ∀ c, c ∈ c2 :: c2s → c < g.n) (r : List Nat)
    (h : findMergeBase g (c1 :: c2 :: c2s) = .ok r) :
    r.Nodup ∧ ∀ x, x ∈ r ↔ MaxCA g c1 (c2 :: c2s) x := by
  obtain ⟨rk, hrk⟩ := hac
  exact findMergeBase_exact hwf hrk h1 h2 h

/-- `can_fast_forward(c1, c2)` is `True` exactly when `c1` is `c2` or an ancestor of `c2`. -/
theorem ff_exact (g : Graph) (hwf : g.WF) (hac : g.Acyclic) (c1 c2 : Nat) (h1 : c1 < g.n) (h2 : c2 < g.n)
    (b : Bool) (h : canFastForward g c1 c2 = .ok b) : b = true ↔ Anc g c1 c2 := by
  constructor
  · rintro rfl; exact ff_true_sound g c1 c2 h
  · intro hanc
    unfold canFastForward at h
    split at h
    · cases h; rfl
    · split at h
      · cases h
      · rename_i l hl
        cases h
        have := (ancestor_iff_mem_lcas g hwf hac c1 c2 h1 h2 _ l hl).mpr hanc
        simpa using this

/-- `independent(ids)` returns exactly the ids that are not reachable from another (different) id, each once,
in the order of their first occurrence. -/
theorem independent_exact (g : Graph) (hwf : g.WF) (hac : g.Acyclic) (ids : List Nat)
    (hids : ∀ c, c ∈ ids → c < g.n) (r : List Nat) (h : independent g ids = .ok r) :
    r.Nodup ∧ r.Sublist (dedupe ids) ∧ ∀ x, x ∈ r ↔ x ∈ ids ∧ ¬ ∃ o, o ∈ ids ∧ o ≠ x ∧ Anc g x o := by
  obtain ⟨rk, hrk⟩ := hac
  exact LCA.independent_exact hwf hrk hids h

/-- `find_octopus_base(ids)` returns exactly the maximal common ancestors of ALL the ids, each once. -/
theorem octopus_exact (g : Graph) (hwf : g.WF) (hac : g.Acyclic) (ids : List Nat) (hne : ids ≠ [])
    (hids : ∀ c, c ∈ ids → c < g.n) (r : List Nat) (h : findOctopusBase g ids = .ok r) :
    r.Nodup ∧ ∀ x, x ∈ r ↔ MaxCAall g ids x := by
  obtain ⟨rk, hrk⟩ := hac
  exact findOctopusBase_exact hwf hrk hne hids h

/-- in particular no reported octopus base is an ancestor of another one -/
theorem octopus_antichain (g : Graph) (hwf : g.WF) (hac : g.Acyclic) (ids : List Nat) (hne : ids ≠ [])
    (hids : ∀ c, c ∈ ids → c < g.n) (r : List Nat) (h : findOctopusBase g ids = .ok r) (x y : Nat)
    (hx : x ∈ r) (hy : y ∈ r) : ¬ SAnc g x y := by
  obtain ⟨_, hmem⟩ := octopus_exact g hwf hac ids hne hids r h
  intro hs
  exact ((hmem x).mp hx).2 ⟨y, ((hmem y).mp hy).1, hs⟩

/-! ## 5. history walks -/

/-- `_topo_reorder`, for every input order of distinct commits of an acyclic history (`rk` is any rank that
increases from parent to child): the loop finishes (every entry is taken from `todo` at most twice), the output
is a permutation of the input, and a commit never comes before one of its children. -/
theorem topo_reorder_correct (parents : Nat → List Nat) (entries : List Nat) (hnd : entries.Nodup)
    (rk : Nat → Nat) (hrk : ∀ c p, p ∈ parents c → rk p < rk c) :
    ∃ out, Walk.topoReorder parents entries = some out ∧ out.Perm entries ∧
      out.Pairwise (fun earlier later => earlier ∉ parents later) := by
  have hinit := Walk.topoReorder_init parents entries
  obtain ⟨out, hout⟩ := Walk.topoLoop_terminates hnd (2 * entries.length + 1) _ [] hinit (by
    unfold Walk.tmu
    have := Walk.wsum_le (Walk.countChildren parents entries) entries
    simp only [List.length_nil]
    omega)
  exact ⟨out, hout, Walk.topoLoop_correct hnd rk hrk _ _ _ _ hinit hout⟩

/-- walker options: start points and order only (no excludes, no window, no limit) -/
def plainWalk (incl : List Nat) (topo reverse : Bool) : Walk.Opts :=
  { incl := incl, excl := [], topo := topo, reverse := reverse, maxEntries := none, since := none, untl := none }

/-- A walk without excludes, `since`, `until`, `max_entries` over a closed acyclic history terminates and
yields exactly the commits reachable from the start points, each once — for every assignment of stamps, in
date or topo order, reversed or not; in topo order no commit comes before one of its children (after, when
reversed). -/
theorem walk_each_once (g : Graph) (hwf : g.WF) (incl : List Nat) (hincl : ∀ i, i ∈ incl → i < g.n)
    (topo reverse : Bool) (rk : Nat → Nat) (hrk : ∀ c p, p ∈ g.parents c → rk p < rk c) :
    ∃ out, Walk.walk g (plainWalk incl topo reverse) = some out ∧
      out.Nodup ∧ (∀ c, c ∈ out ↔ ∃ i, i ∈ incl ∧ Anc g c i) ∧
      (topo = true →
        (if reverse then out.reverse else out).Pairwise (fun earlier later => earlier ∉ g.parents later)) := by
  obtain ⟨hinv, hdone⟩ := Walk.qInit_inv g incl
  obtain ⟨⟨s, q⟩, hdrain⟩ := Walk.drain_terminates hwf hincl (g.n + 2) _ [] hinv (by omega)
  obtain ⟨hex, hnd, hmem⟩ := Walk.drain_correct _ _ _ _ _ hinv hdone.symm hdrain
  have hq : Walk.queueOutput g incl [] none = some (q, []) := by
    simp only [Walk.queueOutput, hdrain, List.isEmpty_nil, if_true, hex]
  have hfilter : ∀ o : Walk.Opts, o.since = none → o.untl = none →
      q.filter (Walk.shouldReturn g o []) = q := fun o h1 h2 => Walk.filter_shouldReturn_all g o h1 h2 q
  cases topo with
  | false =>
    refine ⟨if reverse then q.reverse else q, ?_, ?_, ?_, fun hf => by cases hf⟩
    · unfold Walk.walk
      have e1 : (plainWalk incl false reverse).incl = incl := rfl
      have e2 : (plainWalk incl false reverse).excl = [] := rfl
      have e3 : (plainWalk incl false reverse).since = none := rfl
      simp only [e1, e2, e3, hq, hfilter (plainWalk incl false reverse) rfl rfl]
      cases reverse <;> simp [plainWalk]
    · split
      · exact (List.Perm.nodup_iff (List.reverse_perm _)).mpr hnd
      · exact hnd
    · intro c
      split
      · rw [List.mem_reverse]; exact hmem c
      · exact hmem c
  | true =>
    obtain ⟨l, hl, hperm, hord⟩ := topo_reorder_correct g.parents q hnd rk hrk
    refine ⟨if reverse then l.reverse else l, ?_, ?_, ?_, fun _ => ?_⟩
    · unfold Walk.walk
      have e1 : (plainWalk incl true reverse).incl = incl := rfl
      have e2 : (plainWalk incl true reverse).excl = [] := rfl
      have e3 : (plainWalk incl true reverse).since = none := rfl
      simp only [e1, e2, e3, hq, hfilter (plainWalk incl true reverse) rfl rfl]
      cases reverse <;> simp [plainWalk, hl]
    · split
      · exact (List.Perm.nodup_iff ((List.reverse_perm _).trans hperm)).mpr hnd
      · exact (List.Perm.nodup_iff hperm).mpr hnd
    · intro c
      split
      · rw [List.mem_reverse, hperm.mem_iff]; exact hmem c
      · rw [hperm.mem_iff]; exact hmem c
    · split
      · rw [List.reverse_reverse]; exact hord
      · exact hord

/-- Soundness of a walk with EVERY option (excludes, since, until, max_entries, date/topo order, reverse) on
every acyclic history and EVERY clock: whenever the walk returns, its entries are pairwise distinct, at most
`max_entries`, each reachable from a start point, none of them an exclude start point, all inside the
`since..until` window.  (What is not proved for this general case — that nothing is missing and nothing
reachable from an exclude is left when stamps are monotone — rests on the correspondence and the oracle; the
property itself does not claim it for non-monotone stamps.) -/
theorem walk_sound (g : Graph) (o : Walk.Opts) (rk : Nat → Nat) (hrk : ∀ c p, p ∈ g.parents c → rk p < rk c)
    (out : List Nat) (h : Walk.walk g o = some out) :
    out.Nodup ∧ (∀ m, o.maxEntries = some m → out.length ≤ m) ∧
    ∀ c, c ∈ out → (∃ i, i ∈ o.incl ∧ Anc g c i) ∧ c ∉ o.excl ∧
      (∀ m, o.since = some m → m ≤ g.ts c) ∧ (∀ m, o.untl = some m → g.ts c ≤ m) :=
  Walk.walk_sound_all rk hrk h

/-! ### laws between the walker's options (every history, every clock, every include / exclude / window) -/

/-- the options `o` with order, reverse and limit replaced -/
def withORM (o : Walk.Opts) (topo reverse : Bool) (mx : Option Nat) : Walk.Opts :=
  { o with topo := topo, reverse := reverse, maxEntries := mx }

theorem shouldReturn_withORM (g : Graph) (o : Walk.Opts) (topo reverse : Bool) (mx : Option Nat) (ex : List Nat) :
    Walk.shouldReturn g (withORM o topo reverse mx) ex = Walk.shouldReturn g o ex := by
  funext c; rfl

/-- `reverse=True` yields exactly the reverse of what `reverse=False` yields under the same other options — in
particular `max_entries` is applied BEFORE reversing (the N first entries, reversed). -/
theorem walk_reverse_commutes (g : Graph) (o : Walk.Opts) (topo : Bool) (mx : Option Nat) :
    Walk.walk g (withORM o topo true mx) = (Walk.walk g (withORM o topo false mx)).map List.reverse := by
  unfold Walk.walk
  simp only [shouldReturn_withORM]
  simp only [withORM]
  cases Walk.queueOutput g o.incl o.excl o.since with
  | none => rfl
  | some qe =>
    obtain ⟨q, ex⟩ := qe
    cases topo <;> cases mx <;> simp only [Bool.false_eq_true, if_false, if_true, Option.map_some]
    all_goals first | rfl | (split <;> simp_all)

/-- date order: `max_entries=N` yields the first `N` entries of the unlimited walk, in the same order. -/
theorem walk_limit_prefix (g : Graph) (o : Walk.Opts) (n : Nat) :
    Walk.walk g (withORM o false false (some n)) =
      (Walk.walk g (withORM o false false none)).map (·.take n) := by
  unfold Walk.walk
  simp only [shouldReturn_withORM]
  simp only [withORM]
  cases Walk.queueOutput g o.incl o.excl o.since with
  | none => rfl
  | some qe =>
    obtain ⟨q, ex⟩ := qe
    simp

/-- date order, `reverse=True`, `max_entries=N`: the first `N` entries of the unlimited forward walk, reversed. -/
theorem reverse_commutes_with_limit (g : Graph) (o : Walk.Opts) (n : Nat) :
    Walk.walk g (withORM o false true (some n)) =
      (Walk.walk g (withORM o false false none)).map (fun l => (l.take n).reverse) := by
  rw [walk_reverse_commutes, walk_limit_prefix]
  cases Walk.walk g (withORM o false false none) <;> rfl

/-- topo order is the `_topo_reorder` of the date-order walk under the same other options (the limit is applied
first, the remaining entries are sorted) … -/
theorem walk_topo_is_reorder (g : Graph) (o : Walk.Opts) (mx : Option Nat) :
    Walk.walk g (withORM o true false mx) =
      (Walk.walk g (withORM o false false mx)).bind (Walk.topoReorder g.parents) := by
  unfold Walk.walk
  simp only [shouldReturn_withORM]
  simp only [withORM]
  cases Walk.queueOutput g o.incl o.excl o.since with
  | none => rfl
  | some qe =>
    obtain ⟨q, ex⟩ := qe
    cases mx <;> simp only [Bool.false_eq_true, if_false, if_true, Option.bind_some]
    all_goals first | rfl | (split <;> simp_all)

/-- … hence on an acyclic history it yields the same commits as date order, each once: the order option only
permutes. -/
theorem walk_topo_same_commits (g : Graph) (o : Walk.Opts) (mx : Option Nat) (rk : Nat → Nat)
    (hrk : ∀ c p, p ∈ g.parents c → rk p < rk c) (out outd : List Nat)
    (h : Walk.walk g (withORM o true false mx) = some out)
    (hd : Walk.walk g (withORM o false false mx) = some outd) : out.Perm outd := by
  rw [walk_topo_is_reorder, hd] at h
  simp only [Option.bind_some] at h
  have hnd : outd.Nodup := (walk_sound g _ rk hrk outd hd).1
  exact (Walk.topoLoop_correct hnd rk hrk _ _ _ _ (Walk.topoReorder_init g.parents outd) h).1

/-! ### excludes on tied commit times: the catch-up test of `_step` (`n.commit_time >= self._last.commit_time`)

Family: an included tip `Y` directly on a commit `B`; an excluded tip `X` on a chain of `k` commits on the same
`B`; all commit times equal (or `Y` alone newer).  Roles are numbered `Y=0 B=1 X=2`, chain `3 … k+2` from `B`
upwards; the commits get their ids (which decide heap ties) from a layout: any order of `Y B X`, the chain
ascending or descending, placed after, before or in front of the last of them. -/

def tiePos (order : List Nat) (code : Nat) : Nat := (order.takeWhile (· != code)).length

def tieParents (k code : Nat) : List Nat :=
  if code = 0 then [1] else if code = 1 then [] else if code = 2 then (if k = 0 then [1] else [2 + k])
  else if code = 3 then [1] else [code - 1]

/-- the history, with the ids of `Y`, `X`, `B` -/
def tieGraph (k : Nat) (order : List Nat) (yNewer : Bool) : Graph × Nat × Nat × Nat :=
  (Graph.ofLists (order.map fun code => (tieParents k code).map (tiePos order))
     (order.map fun code => if yNewer && code == 0 then 6 else 5),
   tiePos order 0, tiePos order 2, tiePos order 1)

def tiePerms3 : List (List Nat) := [[0, 1, 2], [0, 2, 1], [1, 0, 2], [1, 2, 0], [2, 0, 1], [2, 1, 0]]

/-- all layouts for chain length `k` -/
def tieOrders (k : Nat) : List (List Nat) :=
  let up := (List.range k).map (· + 3)
  tiePerms3.flatMap fun p =>
    [up, up.reverse].flatMap fun ch =>
      [p ++ ch, ch ++ p, p.take 2 ++ ch ++ p.drop 2]

/-- every case with the excluded tip up to 10 commits above `B` -/
def tieCases : List (Graph × Nat × Nat × Nat) :=
  (List.range 11).flatMap fun k => (tieOrders k).flatMap fun o => [tieGraph k o false, tieGraph k o true]

/-- the walk `include=[Y], exclude=[X]` yields `Y` and nothing else -/
def tieWalkExact (c : Graph × Nat × Nat × Nat) : Bool :=
  Walk.walk c.1 { incl := [c.2.1], excl := [c.2.2.1], topo := false, reverse := false, maxEntries := none,
                  since := none, untl := none } == some [c.2.1]

/-- Bounded exhaustive (792 histories of 3 … 13 commits: every chain length 0 … 10 — the critical length is
`_MAX_EXTRA_COMMITS + 1 = 6` — times 36 layouts of the ids, times {all stamps equal, `Y` newer}): with the generated comparison (`>=`) the commit `B`, which is
reachable from the excluded tip, is never yielded on tied stamps; the walk is exactly `[Y]`. -/
theorem walk_ties_exact_bounded : tieCases.all tieWalkExact = true := by decide +kernel

/-- the 9-commit witness: `Y=0 B=1 X=2` and six commits `3…8` between `X` and `B`, all stamps equal -/
def tie9 : Graph := (tieGraph 6 [0, 1, 2, 3, 4, 5, 6, 7, 8] false).1

/-- With the strict comparison (`>` instead of `>=`) the countdown of `_MAX_EXTRA_COMMITS` ends the walk before the
exclusion reaches `B`: the queue yields `[Y, B]` although `B` is reachable from the excluded `X`.  With `>=`
(parameter `true`, and the real model) it yields `[Y]`. -/
theorem walk_ties_gt_counterexample :
    (Walk.Variant.queueOutput false tie9 [0] [2] none).map (·.1) = some [0, 1] ∧
    (Walk.Variant.queueOutput true tie9 [0] [2] none).map (·.1) = some [0] ∧
    (Walk.queueOutput tie9 [0] [2] none).map (·.1) = some [0] ∧
    Anc tie9 1 2 := by
  refine ⟨by decide +kernel, by decide +kernel, by decide +kernel, ?_⟩
  have h : ∀ i, i < 6 → Anc tie9 1 (3 + i) := by
    intro i hi
    induction i with
    | zero => exact Anc.step (p := 1) (by decide) (Anc.refl 1)
    | succ j ih =>
      have := ih (by omega)
      refine Anc.step (p := 3 + j) ?_ this
      have : j < 5 := by omega
      match j, this with
      | 0, _ | 1, _ | 2, _ | 3, _ | 4, _ => decide
  exact Anc.step (p := 8) (by decide) (h 5 (by omega))

/-! ## 6. regression witnesses: what the code did BEFORE the fix series (`LCA.Old`), and does now -/

/-- chain `0 ← 1 ← 2` (1's parent is 0, 2's parent is 1) with stamps (1,0,0) -/
def chain3 : Graph := Graph.ofLists [[], [0], [1]] [1, 0, 0]

/-- `1←0, 2←1, 3←{0,2}` (3 merges 0 and 2), all stamps equal -/
def diamond4 : Graph := Graph.ofLists [[], [0], [1], [0, 2]] [0, 0, 0, 0]

/-- `r←x←y`, `a` on `x`, `b` on `y`, `c1 = c2 = merge(a, b)`, `c3` on `y`; commits numbered
`r=0 x=1 y=2 a=3 b=4 c1=5 c2=6 c3=7`, stamps strictly increasing -/
def octo8 : Graph := Graph.ofLists [[], [0], [1], [1], [2], [3, 4], [3, 4], [2]] [0, 1, 2, 3, 4, 5, 6, 7]

/-- a root dated before 1970 and its child -/
def neg2 : Graph := Graph.ofLists [[], [0]] [-5, 3]

/-- before: `can_fast_forward(0, 2)` was `False` on the chain although 0 is an ancestor of 2 (commit 1, stamp 0,
is older than `min_stamp = ts 0 = 1` and was never queued); now `True`. -/
theorem ff_skew_counterexample :
    Old.canFastForward chain3 0 2 = .ok false ∧ canFastForward chain3 0 2 = .ok true ∧ Anc chain3 0 2 := by
  refine ⟨by decide, by decide, ?_⟩
  exact Anc.step (p := 1) (by decide) (Anc.step (p := 0) (by decide) (Anc.refl 0))

/-- before: merge base of (2,3) was `[0, 2]` although 0 is a parent of 1, which is a parent of 2; now `[2]`.
The raw `_find_lcas` still reports `[0, 2]` — `_remove_redundant` is what repairs it. -/
theorem lca_nonmaximal_counterexample :
    Old.findMergeBase diamond4 [2, 3] = .ok [0, 2] ∧ findLcas diamond4 2 [3] (defaultCut diamond4) = .ok [0, 2] ∧
    findMergeBase diamond4 [2, 3] = .ok [2] ∧ ¬ MaxCA diamond4 2 [3] 0 := by
  refine ⟨by decide, by decide, by decide, ?_⟩
  intro h
  apply h.2
  refine ⟨2, ⟨Anc.refl 2, 3, by simp, Anc.step (p := 2) (by decide) (Anc.refl 2)⟩, 1, by decide, ?_⟩
  exact Anc.step (p := 0) (by decide) (Anc.refl 0)

/-- before: the same defect made `can_fast_forward(2, 3)` false and `independent([2, 3])` keep both; now exact. -/
theorem ff_equal_stamps_counterexample :
    Old.canFastForward diamond4 2 3 = .ok false ∧ Old.independent diamond4 [2, 3] = .ok [2, 3] ∧
    canFastForward diamond4 2 3 = .ok true ∧ independent diamond4 [2, 3] = .ok [3] := by
  decide

/-- before: `find_octopus_base([c1, c2, c3])` folded pairwise merge bases and reported `[x, y]` although `x` is
the parent of `y` — with strictly increasing stamps; now `[y]`. -/
theorem octopus_fold_counterexample :
    Old.findOctopusBase octo8 [5, 6, 7] = .ok [1, 2] ∧ findOctopusBase octo8 [5, 6, 7] = .ok [2] ∧
    octo8.StrictMono ∧ 1 ∈ octo8.parents 2 := by
  refine ⟨by decide, by decide, ofLists_strictMono _ _ (by decide), by decide⟩

/-- before: `independent([A, A])` was empty; now `[A]`. -/
theorem independent_duplicate_counterexample :
    Old.independent (Graph.ofLists [[], [0]] [0, 1]) [1, 1] = .ok [] ∧
    independent (Graph.ofLists [[], [0]] [0, 1]) [1, 1] = .ok [1] := by decide

/-- before: a commit with a negative commit time was cut off by the default `min_stamp = 0`:
`find_merge_base([root, child])` was `[]`; now `[root]`. -/
theorem negative_stamp_counterexample :
    Old.findMergeBase neg2 [0, 1] = .ok [] ∧ findMergeBase neg2 [0, 1] = .ok [0] ∧
    canFastForward neg2 0 1 = .ok true := by decide

/-! ## 7. non-vacuity: the hypotheses of the theorems hold on non-trivial histories -/

/-- criss-cross: 1 and 2 on 0; 3 and 4 both merge 1 and 2 -/
def cross5 : Graph := Graph.ofLists [[], [0], [0], [1, 2], [1, 2]] [0, 1, 2, 3, 4]

example : cross5.WF ∧ cross5.Acyclic ∧ cross5.StrictMono ∧
    findMergeBase cross5 [3, 4] = .ok [1, 2] ∧ canFastForward cross5 1 4 = .ok true ∧
    canFastForward cross5 3 4 = .ok false ∧ independent cross5 [0, 1, 3, 4, 3] = .ok [3, 4] ∧
    findOctopusBase cross5 [3, 4, 2] = .ok [2] :=
  ⟨by unfold Graph.WF; decide, ⟨id, ofLists_rank _ _ id (by decide)⟩, ofLists_strictMono _ _ (by decide),
   by decide, by decide, by decide, by decide, by decide⟩

/-- the same history with a hostile clock (all hypotheses of §4 still hold: there is none on the stamps) -/
example : (Graph.ofLists [[], [0], [0], [1, 2], [1, 2]] [9, -3, 9, 0, 0]).WF ∧
    (Graph.ofLists [[], [0], [0], [1, 2], [1, 2]] [9, -3, 9, 0, 0]).Acyclic ∧
    findMergeBase (Graph.ofLists [[], [0], [0], [1, 2], [1, 2]] [9, -3, 9, 0, 0]) [3, 4] = .ok [1, 2] ∧
    canFastForward (Graph.ofLists [[], [0], [0], [1, 2], [1, 2]] [9, -3, 9, 0, 0]) 0 4 = .ok true :=
  ⟨by unfold Graph.WF; decide, ⟨id, ofLists_rank _ _ id (by decide)⟩, by decide, by decide⟩

/-- hypotheses of `flags_sound` / `lcas_complete` on a skewed history where the answer is still exact -/
example : findLcas chain3 2 [1] (defaultCut chain3) = .ok [1] ∧ chain3.WF :=
  ⟨by decide, by unfold Graph.WF; decide⟩

/-- walks: date order and topo order on the criss-cross with all stamps equal (ties by id) -/
example : Walk.walk (Graph.ofLists [[], [0], [0], [1, 2], [1, 2]] [7, 7, 7, 7, 7])
      { incl := [3, 4], excl := [], topo := false, reverse := false, maxEntries := none, since := none,
        untl := none } = some [3, 1, 0, 2, 4] ∧
    Walk.walk (Graph.ofLists [[], [0], [0], [1, 2], [1, 2]] [7, 7, 7, 7, 7])
      { incl := [3, 4], excl := [], topo := true, reverse := false, maxEntries := none, since := none,
        untl := none } = some [3, 4, 2, 1, 0] := by
  decide

/-- the hypotheses of `walk_each_once` / `topo_reorder_correct` are satisfiable (rank = commit number) and the
conclusion is about a non-trivial walk -/
example : ∃ out, Walk.walk cross5 (plainWalk [3, 4] true false) = some out ∧ out.Nodup ∧
    (∀ c, c ∈ out ↔ ∃ i, i ∈ [3, 4] ∧ Anc cross5 c i) ∧
    (true = true → (if false then out.reverse else out).Pairwise (fun a b => a ∉ cross5.parents b)) :=
  walk_each_once cross5 (by unfold Graph.WF; decide) [3, 4] (by decide) true false id
    (ofLists_rank _ _ id (by decide))

/-- a walk with an exclude, a window and a limit on a skewed history (hypotheses of `walk_sound`) -/
example : Walk.walk (Graph.ofLists [[], [0], [0], [1, 2], [1, 2]] [5, 9, 1, 4, 7])
    { incl := [3, 4], excl := [2], topo := true, reverse := true, maxEntries := some 2, since := some 4,
      untl := some 8 } = some [3, 4] := by decide

/-- `_topo_reorder` on an order that lists a parent first -/
example : Walk.topoReorder cross5.parents [0, 3, 1, 4, 2] = some [3, 4, 1, 2, 0] := by decide

end Dulwich.Props.C13
