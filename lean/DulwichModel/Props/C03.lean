/-
  C03 — Delta codec: apply(create(base,target),base) = target; bad deltas fail cleanly.

  Only property theorems, non-vacuity examples and negation witnesses live here; helper lemmas
  are in Lemmas/Delta.lean.  The model is Model/Delta.lean; its loop bounds and limits come from
  Gen/Delta.lean, which the translator regenerates from /repo on every run.
-/
import DulwichModel.Lemmas.Delta

namespace Dulwich.Props.C03
open Dulwich Dulwich.Delta

/-! ## 1. size varint round trip (all naturals, any trailing bytes) -/

theorem size_roundtrip (n : Nat) (rest : Bytes) :
    decodeSize (encodeSize n ++ rest) = some (n, rest) := by
  unfold decodeSize
  rw [decodeSizeAux_encodeSize]
  simp

/-! ## 2. copy-op round trip: every offset below 2^32, every length 1..0xFFFF, every mask -/

theorem copy_cmd_ge (off len : Nat) (ho : off < 2 ^ 32) (hl : len < 2 ^ 16) :
    ∃ cmd args, encodeCopy off len = UInt8.ofNat cmd :: args ∧ 128 ≤ cmd ∧ cmd < 256 ∧
      decodeCopy cmd (args ++ r) = some (off, (if len = 0 then Gen.copyZeroSize else len), r) := by
  have e4 : Gen.copyOffsetBytes = 4 := rfl
  have e2 : Gen.copyLengthBytes = 2 := rfl
  have a4 : Gen.applyOffsetBytes = 4 := rfl
  have a3 : Gen.applySizeBytes = 3 := rfl
  have lo := emitLE_flags_length 4 off
  have ll := emitLE_flags_length 2 len
  have bo := bitsVal_lt (emitLE 4 off).1
  have bl := bitsVal_lt (emitLE 2 len).1
  rw [lo] at bo; rw [ll] at bl
  refine ⟨128 + bitsVal (emitLE 4 off).1 + 16 * bitsVal (emitLE 2 len).1,
          (emitLE 4 off).2 ++ (emitLE 2 len).2, ?_, by omega, by omega, ?_⟩
  · simp [encodeCopy, e4, e2]
  · unfold decodeCopy
    rw [a4, a3]
    -- offset flags
    have h1 : bitsOf 4 (128 + bitsVal (emitLE 4 off).1 + 16 * bitsVal (emitLE 2 len).1)
        = (emitLE 4 off).1 := by
      have := bitsOf_bitsVal (emitLE 4 off).1 (8 + bitsVal (emitLE 2 len).1)
      rw [lo] at this
      have e : 128 + bitsVal (emitLE 4 off).1 + 16 * bitsVal (emitLE 2 len).1
          = bitsVal (emitLE 4 off).1 + 2 ^ 4 * (8 + bitsVal (emitLE 2 len).1) := by omega
      rw [e]; exact this
    -- size flags
    have h2 : bitsOf 3 ((128 + bitsVal (emitLE 4 off).1 + 16 * bitsVal (emitLE 2 len).1) / 16)
        = (emitLE 2 len).1 ++ [false] := by
      have hv : bitsVal ((emitLE 2 len).1 ++ [false]) = bitsVal (emitLE 2 len).1 := by
        generalize (emitLE 2 len).1 = fl
        induction fl with
        | nil => simp [bitsVal]
        | cons b fl ih => simp [bitsVal, ih]
      have := bitsOf_bitsVal ((emitLE 2 len).1 ++ [false]) 1
      simp only [List.length_append, ll, List.length_cons, List.length_nil, hv] at this
      have e : (128 + bitsVal (emitLE 4 off).1 + 16 * bitsVal (emitLE 2 len).1) / 16
          = bitsVal (emitLE 2 len).1 + 2 ^ (2 + (0 + 1)) * 1 := by omega
      rw [e]; exact this
    rw [h1, h2, List.append_assoc, readLE_emitLE 4 off _ (by omega)]
    simp only [readLE_append_false]
    rw [readLE_emitLE 2 len r (by omega)]

/-! ## 3. The opcode loop is fuel-independent (it is a total function of the delta) -/

theorem decodeCopy_length {cmd : Nat} {rest r2 : Bytes} {off sz : Nat}
    (h : decodeCopy cmd rest = some (off, sz, r2)) : r2.length ≤ rest.length := by
  unfold decodeCopy at h
  split at h
  · cases h
  · rename_i off' r1 h1
    split at h
    · cases h
    · rename_i sz0 r2' h2
      simp only [Option.some.injEq, Prod.mk.injEq] at h
      obtain ⟨_, _, rfl⟩ := h
      have := readLE_length h1
      have := readLE_length h2
      omega

theorem applyLoop_fuel (src : Bytes) (D : Nat) : ∀ (f : Nat) (d out : Bytes), d.length ≤ f →
    applyLoop src D f d out = applyLoop src D d.length d out := by
  intro f
  induction f using Nat.strongRecOn with
  | _ f ih =>
    intro d out hf
    cases d with
    | nil => cases f <;> simp [applyLoop]
    | cons cmd rest =>
      cases f with
      | zero => simp at hf
      | succ f =>
        simp only [List.length_cons, applyLoop]
        split
        · split
          · rfl
          · rename_i off sz r2 hdc
            have hl := decodeCopy_length hdc
            split
            · rfl
            · rw [ih f (by omega) r2 _ (by simp at hf; omega)]
              rw [ih rest.length (by simp at hf; omega) r2 _ hl]
        · split
          · split
            · rfl
            · have hl : (rest.drop cmd.toNat).length ≤ rest.length := by simp
              rw [ih f (by omega) _ _ (by simp at hf ⊢; omega)]
              rw [ih rest.length (by simp at hf; omega) _ _ hl]
          · rfl

/-! ## 4. apply ∘ create = id for every opcode list that stays inside the base -/

/-- Hypothesis on an opcode list (what difflib / `similar` / git guarantee and what the harness
checks on every list the real libraries return): copy blocks lie inside the base. -/
def OpsValid (base : Bytes) : List Op → Prop
  | [] => True
  | .copy off len :: ops => off + len ≤ base.length ∧ OpsValid base ops
  | .insert _ :: ops => OpsValid base ops

theorem applyLoop_encodeCopy (src : Bytes) (D f off n : Nat) (rest out : Bytes)
    (ho : off < 2 ^ 32) (hn0 : 0 < n) (hn : n < 2 ^ 16) (hs : off + n ≤ src.length) (hD : n ≤ D) :
    applyLoop src D (f + 1) (encodeCopy off n ++ rest) out
      = applyLoop src D f rest (out ++ (src.drop off).take n) := by
  obtain ⟨cmd, args, he, h128, h256, hdc⟩ := copy_cmd_ge (r := rest) off n ho hn
  rw [he]
  have ht : (UInt8.ofNat cmd).toNat = cmd := u8_toNat_ofNat h256
  have hne : ¬ n = 0 := by omega
  simp only [List.cons_append, applyLoop, ht, ge_iff_le, h128, if_true, hdc, hne, if_false]
  have : ¬ (off + n > src.length ∨ n > D) := by omega
  simp [this]

theorem applyLoop_emitCopy (src : Bytes) (D : Nat) : ∀ (fuel f off len : Nat) (rest out : Bytes),
    len ≤ fuel → off + len ≤ src.length → off + len ≤ 2 ^ 32 → len ≤ D →
    (emitCopy fuel off len ++ rest).length ≤ f →
    applyLoop src D f (emitCopy fuel off len ++ rest) out
      = applyLoop src D rest.length rest (out ++ (src.drop off).take len) := by
  intro fuel
  induction fuel with
  | zero =>
    intro f off len rest out hl _ _ _ hf
    have : len = 0 := by omega
    subst this
    simp only [emitCopy, List.nil_append] at hf ⊢
    simp [applyLoop_fuel src D f rest out hf]
  | succ fuel ih =>
    intro f off len rest out hl hs h32 hD hf
    unfold emitCopy
    split
    · rename_i h0; subst h0
      simp only [List.nil_append] at hf ⊢
      simp [applyLoop_fuel src D f rest out (by simpa [emitCopy] using hf)]
    · rename_i h0
      have hM : Gen.maxCopyLen = 65535 := rfl
      simp only [hM] at hf ⊢
      have hn0 : 0 < min len 65535 := by omega
      have hn : min len 65535 < 2 ^ 16 := by omega
      cases f with
      | zero =>
        exfalso
        unfold emitCopy at hf
        simp only [h0, if_false, hM] at hf
        obtain ⟨cmd, args, he, _⟩ := copy_cmd_ge (r := []) off (min len 65535) (by omega) hn
        rw [he] at hf; simp at hf
      | succ f =>
        rw [List.append_assoc, applyLoop_encodeCopy src D f off (min len 65535) _ out (by omega) hn0 hn
          (by omega) (by omega)]
        have hlen : (emitCopy fuel (off + min len 65535) (len - min len 65535) ++ rest).length ≤ f := by
          unfold emitCopy at hf
          simp only [h0, if_false, hM] at hf
          obtain ⟨cmd, args, he, _⟩ := copy_cmd_ge (r := []) off (min len 65535) (by omega) hn
          rw [he] at hf
          simp only [List.cons_append, List.length_cons, List.length_append] at hf ⊢
          omega
        rw [ih f (off + min len 65535) (len - min len 65535) rest _ (by omega) (by omega) (by omega)
          (by omega) hlen]
        congr 1
        rw [List.append_assoc]
        congr 1
        -- (src.drop off).take m ++ (src.drop (off+m)).take (len-m) = (src.drop off).take len
        have : src.drop (off + min len 65535) = (src.drop off).drop (min len 65535) := by
          rw [List.drop_drop]
        rw [this]
        have hsplit : len = min len 65535 + (len - min len 65535) := by omega
        conv => rhs; rw [hsplit, List.take_add]

theorem applyLoop_insertChunk (src : Bytes) (D f : Nat) (data rest out : Bytes)
    (h0 : 0 < data.length) (h127 : data.length ≤ 127) :
    applyLoop src D (f + 1) (UInt8.ofNat data.length :: data ++ rest) out
      = applyLoop src D f rest (out ++ data) := by
  have ht : (UInt8.ofNat data.length).toNat = data.length := u8_toNat_ofNat (by omega)
  have h1 : ¬ (data.length ≥ 128) := by omega
  have h2 : data.length ≠ 0 := by omega
  have h3 : ¬ (data.length > (data ++ rest).length) := by simp
  simp only [List.cons_append, applyLoop, ht, h1, if_false, h2, ne_eq, not_false_eq_true, if_true, h3]
  simp

theorem applyLoop_emitInsert (src : Bytes) (D : Nat) : ∀ (fuel f : Nat) (data rest out : Bytes),
    data.length ≤ fuel → 0 < data.length →
    (emitInsert (fuel + 1) data ++ rest).length ≤ f →
    applyLoop src D f (emitInsert (fuel + 1) data ++ rest) out
      = applyLoop src D rest.length rest (out ++ data) := by
  intro fuel
  induction fuel using Nat.strongRecOn with
  | _ fuel ih =>
    intro f data rest out hl h0 hf
    have hM : Gen.maxInsertLen = 127 := rfl
    unfold emitInsert at hf ⊢
    simp only [hM] at hf ⊢
    split
    · rename_i hbig
      simp only [hbig, if_true] at hf
      cases fuel with
      | zero => omega
      | succ fuel =>
        cases f with
        | zero => simp at hf
        | succ f =>
          have hlt : (data.take 127).length = 127 := by simp; omega
          have e1 : (UInt8.ofNat 127 : UInt8) = UInt8.ofNat (data.take 127).length := by rw [hlt]
          rw [e1]
          have : UInt8.ofNat (data.take 127).length :: data.take 127 ++ emitInsert (fuel + 1) (data.drop 127) ++ rest
              = UInt8.ofNat (data.take 127).length :: data.take 127 ++ (emitInsert (fuel + 1) (data.drop 127) ++ rest) := by
            simp
          rw [this, applyLoop_insertChunk src D f (data.take 127) _ out (by omega) (by omega)]
          have hdl : (data.drop 127).length = data.length - 127 := by simp
          rw [ih fuel (by omega) f (data.drop 127) rest _ (by omega) (by omega)
            (by simp only [List.cons_append, List.length_cons, List.length_append, List.append_assoc] at hf ⊢; omega)]
          rw [List.append_assoc, List.take_append_drop]
    · rename_i hsmall
      simp only [hsmall, if_false] at hf
      cases f with
      | zero => simp at hf
      | succ f =>
        rw [applyLoop_insertChunk src D f data rest out h0 (by omega)]
        exact applyLoop_fuel src D f rest _ (by simp at hf; omega)

/-- Length of what an opcode list denotes is at most … used for the `cp_size > dest_size` test. -/
theorem apply_emitOps (src : Bytes) (D : Nat) : ∀ (ops : List Op) (f : Nat) (out : Bytes),
    OpsValid src ops → src.length ≤ 2 ^ 32 →
    (∀ d, Op.insert d ∈ ops → 0 < d.length) →
    out.length + (opsTarget src ops).length = D →
    (emitOps ops).length ≤ f →
    applyLoop src D f (emitOps ops) out = .ok (out ++ opsTarget src ops) := by
  intro ops
  induction ops with
  | nil =>
    intro f out _ _ _ hD _
    simp only [emitOps, opsTarget, List.append_nil, List.length_nil, Nat.add_zero] at hD ⊢
    cases f <;> simp [applyLoop, finish, hD]
  | cons op ops ih =>
    intro f out hv h32 hins hD hf
    cases op with
    | copy off len =>
      obtain ⟨hs, hv'⟩ := hv
      have htl : ((src.drop off).take len).length = len := by simp; omega
      simp only [opsTarget, List.length_append, htl] at hD
      simp only [emitOps] at hf ⊢
      rw [applyLoop_emitCopy src D (len + 1) f off len (emitOps ops) out (by omega) hs (by omega) (by omega) hf]
      rw [ih _ _ hv' h32 (fun d hd => hins d (List.mem_cons_of_mem _ hd))
        (by simp only [List.length_append, htl]; omega) (Nat.le_refl _)]
      simp [opsTarget]
    | insert data =>
      have h0 := hins data (List.mem_cons_self)
      simp only [opsTarget, List.length_append] at hD
      simp only [emitOps] at hf ⊢
      rw [applyLoop_emitInsert src D data.length f data (emitOps ops) out (Nat.le_refl _) h0 hf]
      rw [ih _ _ hv h32 (fun d hd => hins d (List.mem_cons_of_mem _ hd))
        (by simp only [List.length_append]; omega) (Nat.le_refl _)]
      simp [opsTarget]

/-- **apply ∘ create = id.**  For every base shorter than 4 GiB and *every* opcode list whose copy
blocks lie inside the base and whose literal blocks are non-empty (difflib's, `similar`'s, git's —
any matcher whatsoever), the Python decoder applied to the emitted delta returns exactly the bytes
the opcode list denotes.  With `opsTarget base ops = target` (checked at run time on every opcode
list the real libraries return) this is `apply_delta(base, create_delta(base, target)) = target`. -/
theorem apply_create (base : Bytes) (ops : List Op)
    (hv : OpsValid base ops) (h32 : base.length ≤ 2 ^ 32)
    (hins : ∀ d, Op.insert d ∈ ops → 0 < d.length) :
    applyDelta base (createDelta base ops) = .ok (opsTarget base ops) := by
  unfold applyDelta createDelta
  rw [List.append_assoc, size_roundtrip]
  simp only
  rw [size_roundtrip]
  simp only [ne_eq, not_true_eq_false, if_false]
  have := apply_emitOps base (opsTarget base ops).length ops (emitOps ops).length [] hv h32 hins
    (by simp) (Nat.le_refl _)
  simpa using this

/-- Non-vacuity: a concrete opcode list with a copy, a long literal and a second copy. -/
example : OpsValid [1, 2, 3, 4, 5] [.copy 1 3, .insert [9, 9], .copy 0 5] ∧
    applyDelta [1, 2, 3, 4, 5] (createDelta [1, 2, 3, 4, 5] [.copy 1 3, .insert [9, 9], .copy 0 5])
      = .ok [2, 3, 4, 9, 9, 1, 2, 3, 4, 5] := by
  refine ⟨by simp [OpsValid], ?_⟩
  rw [apply_create _ _ (by simp [OpsValid]) (by simp) (by simp)]
  simp [opsTarget]

/-! ## 5. Every byte string offered as a delta: sized, built from base slices and literals, or error -/

/-- `out` is a concatenation of slices of `base` and slices of `delta`. -/
inductive Built (base delta : Bytes) : Bytes → Prop
  | nil : Built base delta []
  | base (out : Bytes) (off n : Nat) : Built base delta out → off + n ≤ base.length →
      Built base delta (out ++ (base.drop off).take n)
  | lit (out : Bytes) (i n : Nat) : Built base delta out → i + n ≤ delta.length →
      Built base delta (out ++ (delta.drop i).take n)

theorem applyLoop_sized_built (src delta : Bytes) (D : Nat) : ∀ (f : Nat) (d out res : Bytes) (pre : Bytes),
    delta = pre ++ d → Built src delta out →
    applyLoop src D f d out = .ok res → res.length = D ∧ Built src delta res := by
  intro f
  induction f with
  | zero =>
    intro d out res pre _ hb h
    cases d with
    | nil =>
      simp only [applyLoop, finish] at h
      split at h
      · cases h; exact ⟨by assumption, hb⟩
      · cases h
    | cons c r => simp [applyLoop] at h
  | succ f ih =>
    intro d out res pre hpre hb h
    cases d with
    | nil =>
      simp only [applyLoop, finish] at h
      split at h
      · cases h; exact ⟨by assumption, hb⟩
      · cases h
    | cons cmd rest =>
      simp only [applyLoop] at h
      split at h
      · split at h
        · cases h
        · rename_i off sz r2 hdc
          split at h
          · split at h
            · simp only [finish] at h
              split at h
              · cases h; exact ⟨by assumption, hb⟩
              · cases h
            · cases h
          · rename_i hok
            have hl := decodeCopy_length hdc
            -- r2 is a suffix of rest
            have hsuf : ∃ pre', delta = pre' ++ r2 := by
              have := decodeCopy_suffix hdc
              obtain ⟨m, hm⟩ := this
              exact ⟨pre ++ cmd :: m, by rw [hpre, hm]; simp⟩
            obtain ⟨pre', hpre'⟩ := hsuf
            exact ih r2 _ res pre' hpre' (Built.base out off sz hb (by omega)) h
      · split at h
        · split at h
          · cases h
          · rename_i hn0 hlen
            have hlit : Built src delta (out ++ rest.take cmd.toNat) := by
              have : rest.take cmd.toNat = (delta.drop (pre.length + 1)).take cmd.toNat := by
                rw [hpre]; simp
              rw [this]
              refine Built.lit out (pre.length + 1) cmd.toNat hb ?_
              rw [hpre]; simp only [List.length_append, List.length_cons]; omega
            refine ih (rest.drop cmd.toNat) _ res (pre ++ cmd :: rest.take cmd.toNat) ?_ hlit h
            rw [hpre]; simp
        · cases h
where
  decodeCopy_suffix {cmd : Nat} {rest r2 : Bytes} {off sz : Nat}
      (h : decodeCopy cmd rest = some (off, sz, r2)) : ∃ m, rest = m ++ r2 := by
    unfold decodeCopy at h
    split at h
    · cases h
    · rename_i off' r1 h1
      split at h
      · cases h
      · rename_i sz0 r2' h2
        simp only [Option.some.injEq, Prod.mk.injEq] at h
        obtain ⟨_, _, rfl⟩ := h
        obtain ⟨m1, hm1⟩ := readLE_suffix h1
        obtain ⟨m2, hm2⟩ := readLE_suffix h2
        exact ⟨m1 ++ m2, by rw [hm1, hm2]; simp⟩
  readLE_suffix {fl : List Bool} : ∀ {d r : Bytes} {v : Nat}, readLE fl d = some (v, r) → ∃ m, d = m ++ r := by
    induction fl with
    | nil => intro d r v h; simp [readLE] at h; exact ⟨[], by simp [h.2]⟩
    | cons b fl ih =>
      intro d r v h
      cases b with
      | false =>
        simp only [readLE, Option.map_eq_some_iff] at h
        obtain ⟨⟨v', r'⟩, h1, h2⟩ := h
        simp only [Prod.mk.injEq] at h2
        obtain ⟨_, rfl⟩ := h2
        exact ih h1
      | true =>
        cases d with
        | nil => simp [readLE] at h
        | cons x d =>
          simp only [readLE, Option.map_eq_some_iff] at h
          obtain ⟨⟨v', r'⟩, h1, h2⟩ := h
          simp only [Prod.mk.injEq] at h2
          obtain ⟨_, rfl⟩ := h2
          obtain ⟨m, hm⟩ := ih h1
          exact ⟨x :: m, by rw [hm]; simp⟩

/-- **Bad deltas fail cleanly (Python decoder).**  `applyDelta` is a total function on all pairs of
byte strings (no fuel parameter is exposed, no partiality); whenever it returns output, the output
has exactly the length the delta declares and consists only of slices of the base and of literal
bytes of the delta; every other outcome is the delta error. -/
theorem apply_sized_built (base delta out : Bytes) (h : applyDelta base delta = .ok out) :
    declaredDest delta = some out.length ∧ Built base delta out := by
  unfold applyDelta at h
  unfold declaredDest
  split at h
  · cases h
  · rename_i srcSize d1 h1
    split at h
    · cases h
    · rename_i destSize d2 h2
      split at h
      · cases h
      · simp only [h2, Option.map_some]
        obtain ⟨m1, hm1⟩ := decodeSize_suffix h1
        obtain ⟨m2, hm2⟩ := decodeSize_suffix h2
        have := applyLoop_sized_built base delta destSize d2.length d2 [] out (m1 ++ m2)
          (by rw [hm1, hm2]; simp) Built.nil h
        exact ⟨by rw [this.1], this.2⟩
where
  decodeSize_suffix {d r : Bytes} {n : Nat} (h : decodeSize d = some (n, r)) : ∃ m, d = m ++ r := by
    unfold decodeSize at h
    exact aux _ _ _ h
  aux : ∀ (d : Bytes) (s a : Nat) {r : Bytes} {n : Nat}, decodeSizeAux s a d = some (n, r) → ∃ m, d = m ++ r := by
    intro d
    induction d with
    | nil => intro s a r n h; simp [decodeSizeAux] at h
    | cons b d ih =>
      intro s a r n h
      simp only [decodeSizeAux] at h
      split at h
      · simp only [Option.some.injEq, Prod.mk.injEq] at h
        exact ⟨[b], by simp [h.2]⟩
      · obtain ⟨m, hm⟩ := ih _ _ h
        exact ⟨b :: m, by rw [hm]; simp⟩

theorem applyLoop_error_is_delta (e : Err) (src : Bytes) (D : Nat) : ∀ (f : Nat) (d out : Bytes), d.length ≤ f →
    applyLoop src D f d out = .error e → e = .delta := by
  intro f
  induction f with
  | zero =>
    intro d out hf h
    cases d with
    | nil => simp only [applyLoop, finish] at h; split at h <;> cases h; rfl
    | cons c r => simp at hf
  | succ f ih =>
    intro d out hf h
    cases d with
    | nil => simp only [applyLoop, finish] at h; split at h <;> cases h; rfl
    | cons cmd rest =>
      simp only [applyLoop] at h
      split at h
      · split at h
        · cases h; rfl
        · rename_i off sz r2 hdc
          have hl := decodeCopy_length hdc
          split at h
          · split at h
            · simp only [finish] at h; split at h <;> cases h; rfl
            · cases h; rfl
          · exact ih r2 _ (by simp at hf; omega) h
      · split at h
        · split at h
          · cases h; rfl
          · exact ih _ _ (by simp at hf ⊢; omega) h
        · cases h; rfl

/-- The only failure of the Python decoder is the delta error (never `other`: the fuel never runs out). -/
theorem apply_error_is_delta (base delta : Bytes) (e : Err) (h : applyDelta base delta = .error e) :
    e = .delta := by
  unfold applyDelta at h
  split at h
  · cases h; rfl
  · split at h
    · cases h; rfl
    · split at h
      · cases h; rfl
      · rename_i destSize d2 _ _
        exact applyLoop_error_is_delta e base destSize d2.length d2 [] (Nat.le_refl _) h

/-! ## 6. The Rust decoder agrees with the Python decoder on every input (also carries C15) -/

theorem rsDecodeSize_eq_py : ∀ (d : Bytes) (s a : Nat) {n : Nat} {r : Bytes},
    rsDecodeSizeAux s a d = some (n, r) → decodeSizeAux s a d = some (n, r) := by
  intro d
  induction d with
  | nil => intro s a n r h; simp [rsDecodeSizeAux] at h
  | cons b d ih =>
    intro s a n r h
    simp only [rsDecodeSizeAux] at h
    split at h
    · cases h
    · simp only [decodeSizeAux]
      split at h
      · rename_i hlt; simp only [hlt, if_true]; exact h
      · rename_i hlt; simp only [hlt, if_false]; exact ih _ _ h

/-- When the Rust header decoder rejects a header the Python decoder accepts, the value is ≥ 2^64. -/
theorem rsDecodeSize_none_py_big : ∀ (d : Bytes) (s a : Nat) {n : Nat} {r : Bytes},
    rsDecodeSizeAux s a d = none → decodeSizeAux s a d = some (n, r) → 2 ^ 64 ≤ n := by
  intro d
  induction d with
  | nil => intro s a n r _ h; simp [decodeSizeAux] at h
  | cons b d ih =>
    intro s a n r hr hp
    have hU : Gen.rsUsizeBits = 64 := rfl
    simp only [rsDecodeSizeAux, usizeMod, hU] at hr
    simp only [decodeSizeAux] at hp
    have mono : ∀ (d : Bytes) (s a : Nat) {n : Nat} {r : Bytes}, decodeSizeAux s a d = some (n, r) → a ≤ n := by
      intro d
      induction d with
      | nil => intro s a n r h; simp [decodeSizeAux] at h
      | cons b d ih2 =>
        intro s a n r h
        simp only [decodeSizeAux] at h
        split at h
        · simp only [Option.some.injEq, Prod.mk.injEq] at h; omega
        · have := ih2 _ _ h; omega
    split at hr
    · rename_i hbig
      obtain ⟨hne, hsh⟩ := hbig
      have hge : 2 ^ 64 ≤ b.toNat % 128 * 2 ^ s := by
        rcases hsh with h64 | h
        · have h1 : 2 ^ 64 ≤ 2 ^ s := Nat.pow_le_pow_right (by decide) h64
          have h2 : 1 ≤ b.toNat % 128 := by omega
          calc 2 ^ 64 ≤ 2 ^ s := h1
            _ = 1 * 2 ^ s := by rw [Nat.one_mul]
            _ ≤ b.toNat % 128 * 2 ^ s := Nat.mul_le_mul_right _ h2
        · exact h
      split at hp
      · simp only [Option.some.injEq, Prod.mk.injEq] at hp; omega
      · have := mono _ _ _ hp; omega
    · split at hr
      · cases hr
      · rename_i hlt
        simp only [hlt, if_false] at hp
        exact ih _ _ hr hp

theorem applyLoop_ok_prefix (src : Bytes) (D : Nat) : ∀ (f : Nat) (d out res : Bytes),
    applyLoop src D f d out = .ok res → out.length ≤ res.length := by
  intro f
  induction f with
  | zero =>
    intro d out res h
    cases d with
    | nil => simp only [applyLoop, finish] at h; split at h <;> cases h; exact Nat.le_refl _
    | cons c r => simp [applyLoop] at h
  | succ f ih =>
    intro d out res h
    cases d with
    | nil => simp only [applyLoop, finish] at h; split at h <;> cases h; exact Nat.le_refl _
    | cons cmd rest =>
      simp only [applyLoop] at h
      split at h
      · split at h
        · cases h
        · split at h
          · split at h
            · simp only [finish] at h; split at h <;> cases h; exact Nat.le_refl _
            · cases h
          · have := ih _ _ _ h; simp only [List.length_append] at this; omega
      · split at h
        · split at h
          · cases h
          · have := ih _ _ _ h; simp only [List.length_append] at this; omega
        · cases h

theorem applyLoop_ok_length (src : Bytes) (D : Nat) : ∀ (f : Nat) (d out res : Bytes),
    applyLoop src D f d out = .ok res → res.length = D := by
  intro f
  induction f with
  | zero =>
    intro d out res h
    cases d with
    | nil => simp only [applyLoop, finish] at h; split at h <;> cases h; assumption
    | cons c r => simp [applyLoop] at h
  | succ f ih =>
    intro d out res h
    cases d with
    | nil => simp only [applyLoop, finish] at h; split at h <;> cases h; assumption
    | cons cmd rest =>
      simp only [applyLoop] at h
      split at h
      · split at h
        · cases h
        · split at h
          · split at h
            · simp only [finish] at h; split at h <;> cases h; assumption
            · cases h
          · exact ih _ _ _ h
      · split at h
        · split at h
          · cases h
          · exact ih _ _ _ h
        · cases h

/-- Rust's `Option` result and Python's `Except` result on a common footing. -/
def ofRs : Option Bytes → Except Err Bytes
  | some r => .ok r
  | none => .error .delta

def normPy : Except Err Bytes → Except Err Bytes
  | .ok r => .ok r
  | .error _ => .error .delta

theorem rsLoop_eq_pyLoop (src : Bytes) (D : Nat) : ∀ (f : Nat) (d out : Bytes),
    ofRs (rsApplyLoop src D f d out) = normPy (applyLoop src D f d out) := by
  intro f
  induction f with
  | zero =>
    intro d out
    cases d with
    | nil => simp only [rsApplyLoop, applyLoop, finish]; split <;> simp [ofRs, normPy]
    | cons c r => simp [rsApplyLoop, applyLoop, ofRs, normPy]
  | succ f ih =>
    intro d out
    cases d with
    | nil => simp only [rsApplyLoop, applyLoop, finish]; split <;> simp [ofRs, normPy]
    | cons cmd rest =>
      have a4 : Gen.rsApplyOffsetBytes = Gen.applyOffsetBytes := rfl
      have a3 : Gen.rsApplySizeBytes = Gen.applySizeBytes := rfl
      have az : Gen.rsCopyZeroSize = Gen.copyZeroSize := rfl
      simp only [rsApplyLoop, applyLoop, decodeCopy, a4, a3, az]
      by_cases hc : cmd.toNat ≥ 128
      · -- copy
        simp only [hc, if_true]
        cases h1 : readLE (bitsOf Gen.applyOffsetBytes cmd.toNat) rest with
        | none => simp [ofRs, normPy]
        | some p1 =>
          obtain ⟨off, r1⟩ := p1
          simp only
          cases h2 : readLE (bitsOf Gen.applySizeBytes (cmd.toNat / 16)) r1 with
          | none => simp [ofRs, normPy]
          | some p2 =>
            obtain ⟨sz0, r2⟩ := p2
            simp only
            generalize (if sz0 = 0 then Gen.copyZeroSize else sz0) = sz
            by_cases hbrk : off + sz > src.length ∨ sz > D
            · have hrs : sz > src.length ∨ off > src.length ∨ off > src.length - sz ∨ sz > D := by omega
              simp only [hrs, hbrk, if_true, finish]
              by_cases he : r2.isEmpty = true
              · simp only [he, if_true]; split <;> simp [ofRs, normPy]
              · simp [he, ofRs, normPy]
            · have hrs : ¬ (sz > src.length ∨ off > src.length ∨ off > src.length - sz ∨ sz > D) := by omega
              simp only [hrs, hbrk, if_false]
              by_cases hov : out.length > D - sz
              · simp only [hov, if_true]
                -- the Python loop goes on but can no longer succeed
                cases hpy : applyLoop src D f r2 (out ++ List.take sz (List.drop off src)) with
                | error e => simp [ofRs, normPy]
                | ok res =>
                  exfalso
                  have hpre := applyLoop_ok_prefix src D f _ _ _ hpy
                  have hsz := applyLoop_ok_length src D f _ _ _ hpy
                  simp only [List.length_append, List.length_take, List.length_drop] at hpre
                  omega
              · simp only [hov, if_false]
                exact ih _ _
      · simp only [hc, if_false]
        by_cases hn0 : cmd.toNat ≠ 0
        · rw [if_pos hn0, if_pos hn0]
          by_cases hlen : cmd.toNat > rest.length
          · simp only [hlen, if_true]
            split
            · simp [ofRs, normPy]
            · split <;> simp [ofRs, normPy]
          · simp only [hlen, if_false]
            by_cases hov : cmd.toNat > D ∨ out.length + cmd.toNat > D
            · have : (if cmd.toNat > D then (none : Option Bytes) else if out.length + cmd.toNat > D then none
                  else rsApplyLoop src D f (List.drop cmd.toNat rest) (out ++ List.take cmd.toNat rest)) = none := by
                split
                · rfl
                · split
                  · rfl
                  · omega
              simp only [this]
              cases hpy : applyLoop src D f (List.drop cmd.toNat rest) (out ++ List.take cmd.toNat rest) with
              | error e => simp [ofRs, normPy]
              | ok res =>
                exfalso
                have hpre := applyLoop_ok_prefix src D f _ _ _ hpy
                have hsz := applyLoop_ok_length src D f _ _ _ hpy
                simp only [List.length_append, List.length_take] at hpre
                omega
            · have h1 : ¬ cmd.toNat > D := by omega
              have h2 : ¬ out.length + cmd.toNat > D := by omega
              simp only [h1, h2, if_false]
              exact ih _ _
        · simp [hn0, ofRs, normPy]

/-- **Rust ≡ Python for delta application** (the C15 clause for `apply_delta`).
For every base a 64-bit machine can hold and every byte string offered as a delta whose declared
result size is below 2^64 (a larger result cannot exist either), the Rust decoder as coded returns
exactly what the Python decoder returns: the same bytes, or the delta error in both. -/
theorem rs_equiv_py (src delta : Bytes) (hs : src.length < 2 ^ 64)
    (hd : ∀ n, declaredDest delta = some n → n < 2 ^ 64) :
    applyDeltaRs src delta = applyDelta src delta := by
  have hnorm : ∀ x : Except Err Bytes, (∀ e, x = .error e → e = .delta) → normPy x = x := by
    intro x hx
    cases x with
    | ok r => rfl
    | error e => rw [hx e rfl]; rfl
  unfold applyDeltaRs applyDelta
  unfold declaredDest decodeSize at hd
  cases hr1 : rsDecodeSizeAux 0 0 delta with
  | none =>
    simp only
    cases hp1 : decodeSizeAux 0 0 delta with
    | none => simp [decodeSize, hp1]
    | some p =>
      obtain ⟨n1, d1⟩ := p
      have hbig := rsDecodeSize_none_py_big delta 0 0 hr1 hp1
      simp only [decodeSize, hp1]
      cases hp2 : decodeSizeAux 0 0 d1 with
      | none => rfl
      | some p2 =>
        obtain ⟨n2, d2⟩ := p2
        have : n1 ≠ src.length := by omega
        simp [this]
  | some p =>
    obtain ⟨n1, d1⟩ := p
    have hp1 := rsDecodeSize_eq_py delta 0 0 hr1
    simp only [decodeSize, hp1]
    simp only [hp1] at hd
    by_cases hne : n1 ≠ src.length
    · simp only [if_pos hne]
      cases decodeSizeAux 0 0 d1 with
      | none => rfl
      | some p2 => rfl
    · simp only [hne, if_false]
      cases hr2 : rsDecodeSizeAux 0 0 d1 with
      | none =>
        simp only
        cases hp2 : decodeSizeAux 0 0 d1 with
        | none => rfl
        | some p2 =>
          obtain ⟨n2, d2⟩ := p2
          exfalso
          have hbig := rsDecodeSize_none_py_big d1 0 0 hr2 hp2
          have := hd n2 (by simp [hp2])
          omega
      | some p2 =>
        obtain ⟨n2, d2⟩ := p2
        have hp2 := rsDecodeSize_eq_py d1 0 0 hr2
        simp only [hp2]
        have h := rsLoop_eq_pyLoop src n2 d2.length d2 []
        rw [hnorm _ (fun e he => applyLoop_error_is_delta e src n2 d2.length d2 [] (Nat.le_refl _) he)] at h
        rw [← h]
        cases rsApplyLoop src n2 d2.length d2 [] <;> rfl

/-- Non-vacuity: both decoders on a delta with a copy and an insert. -/
example : applyDeltaRs [1, 2, 3] [3, 4, 0x91, 1, 2, 2, 7, 8] = .ok [2, 3, 7, 8] ∧
    applyDelta [1, 2, 3] [3, 4, 0x91, 1, 2, 2, 7, 8] = .ok [2, 3, 7, 8] := by decide

/-- Regression witnesses for the two repaired Rust defects (see KNOWN_FINDINGS.jsonl, `fixed`):
an 11-byte size varint and a declared size of 2^45 are plain delta errors now. -/
theorem rs_wide_varint_is_error :
    applyDeltaRs [] [0x80, 0x80, 0x80, 0x80, 0x80, 0x80, 0x80, 0x80, 0x80, 0x80, 0x01, 0x00] = .error .delta := by
  decide

theorem rs_last_op_overflow_is_error :
    applyDeltaRs [] [0x00, 0x00, 0x05] = .error .delta ∧
    applyDeltaRs [0x78] [1, 5, 5, 97, 98, 99, 100, 101, 0x90, 1] = .error .delta := by
  decide

end Dulwich.Props.C03
