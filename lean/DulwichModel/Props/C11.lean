/-
  C11 — Index file round trip, ordering, checksum, agreement with C git.

  Only property theorems, non-vacuity examples and negation witnesses live here; helper lemmas and
  the predicates used in the statements (`WFEntry`, `normEntry`, `Canonical`, `WFExt`, `foldAdd`,
  `fileBody`) are in Lemmas/Index.lean.  The model is Model/Index.lean; every constant it uses comes
  from Gen/Index.lean, which the translator regenerates from /repo on every run, so a change of a
  mask, a struct layout, a version threshold or a varint constant in the source re-checks (and, when
  it matters, breaks) the proofs below.
-/
import DulwichModel.Lemmas.Index

namespace Dulwich.Props.C11
open Dulwich Dulwich.Index Dulwich.Gen.Index

/-! ## 0. The layout facts the hand-written model hard-wires, as read from the source now -/

/-- The struct layouts, field order, header shape and thresholds that `Model/Index.lean` assumes
structurally (the numeric constants are imported, these shapes are not).  If the source changes one
of them this theorem stops compiling: the model no longer describes the code. -/
theorem gen_layout_as_modelled :
    entryWriteFmt = [4, 4, 4, 4, 4, 4, 20, 2] ∧ entryReadFmt = [4, 4, 4, 4, 4, 4, 20, 2] ∧
    entryReadLen = 46 ∧ timeWriteFmt = [4, 4] ∧ timeReadFmt = [4, 4] ∧
    extFlagsWriteFmt = [2] ∧ extFlagsReadFmt = [2] ∧ extLenWriteFmt = [4] ∧ extLenReadFmt = [4] ∧
    headerFmt = [4, 4] ∧ writeHeaderFmt = [4, 4] ∧ magic.length = 4 ∧
    writeStageOrder = [1, 2, 3, 0] ∧
    (readStageNormal, readStageAncestor, readStageThis, readStageOther) = (0, 1, 2, 3) ∧
    flagStageMask = 3 <<< flagStageShift ∧ flagStageShift = 12 ∧
    trailerLen = 20 ∧ shaReadLen = 20 ∧ skipHashZeros = 20 ∧
    wCompressFrom = wCompressFrom2 ∧ wCompressFrom = rCompressFrom ∧ rPadBelow = rCompressFrom ∧
    wExtendedFrom = rExtendedFrom ∧ bumpBelow = wExtendedFrom ∧ bumpTo = wExtendedFrom := by
  decide

/-! ## 1. v4 varint round trip (all naturals, any trailing bytes, both decoders) -/

theorem varint_roundtrip (n : Nat) (rest : Bytes) :
    readVarint (encodeVarint n ++ rest) = .ok (n, rest) :=
  readVarint_encode n rest

theorem varint_roundtrip_buffer (n : Nat) (rest : Bytes) :
    decodeVarint (encodeVarint n ++ rest) = (n, rest) :=
  decodeVarint_encode n rest

example : encodeVarint 300 = [172, 2] ∧ readVarint ([172, 2] ++ [9]) = .ok (300, [9]) := by decide

/-! ## 2. v4 path prefix compression round trip -/

/-- For every path without a NUL byte and *every* previous path (no relation between the two is
needed), decompressing what `_compress_path` produced gives the path back and consumes exactly
the encoding — stream reader (`_decompress_path_from_stream`, the one `read_cache_entry` uses). -/
theorem path_compress_roundtrip (path prev rest : Bytes) (h : (0 : UInt8) ∉ path) :
    decompressPathStream prev (compressPath path prev ++ rest) = .ok (path, rest) :=
  decompressPathStream_compress path prev rest h

/-- Same for the buffer reader `_decompress_path`. -/
theorem path_compress_roundtrip_buffer (path prev rest : Bytes) (h : (0 : UInt8) ∉ path) :
    decompressPath prev (compressPath path prev ++ rest) = .ok (path, rest) :=
  decompressPath_compress path prev rest h

example : compressPath [97, 47, 99] [97, 47, 98, 98] = [2, 99, 0] ∧
    decompressPathStream [97, 47, 98, 98] [2, 99, 0, 7] = .ok ([97, 47, 99], [7]) := by decide

/-- The NUL hypothesis is necessary: a path containing NUL does not survive (git paths never do). -/
theorem path_with_nul_counterexample :
    decompressPathStream [] (compressPath [97, 0, 98] []) ≠ .ok ([97, 0, 98], []) := by decide

/-! ## 3. Padding -/

/-- An entry of `n` bytes (fixed part + name) gets between 1 and 8 NUL bytes and ends on a multiple
of 8; reader and writer compute the same amount. -/
theorem pad_between_1_and_8 (n : Nat) :
    1 ≤ padLenWrite n ∧ padLenWrite n ≤ 8 ∧ (n + padLenWrite n) % 8 = 0 ∧ padLenRead n = padLenWrite n := by
  have h := padLenWrite_eq n
  exact ⟨by omega, by omega, by omega, padLenRead_eq n⟩

/-! ## 4. One entry: write then read, versions 2, 3 and 4 (and any other version number) -/

/-- Full statement of the property for one entry, *without* the bounds the code needs: every entry
with 32-bit-representable-by-git content round-trips.  False on the unchanged code, see the
counterexamples below; kept as the target. -/
def EntryRoundtripStatement : Prop :=
  ∀ (v : Nat) (prev : Bytes) (e : Entry), 2 ≤ v → v ≤ 4 → (0 : UInt8) ∉ e.name →
    timeOk e.ctime → timeOk e.mtime → e.mode < 4294967296 → e.uid < 4294967296 → e.gid < 4294967296 →
    e.sha.length = 20 → e.flags < 65536 → e.ext < 65536 →
    ((e.ext ≠ 0 ∨ e.flags &&& flagExtended ≠ 0) → 3 ≤ v) →
    ∃ b, writeCacheEntry v prev e = .ok b ∧
      ∀ rest, ∃ e', readCacheEntry v prev (b ++ rest) = .ok (e', rest) ∧ e'.name = e.name ∧
        e'.size = e.size % 4294967296 ∧ entryStage e' = entryStage e

/-- **Entry round trip (partial: under `WFEntry`).**  `write_cache_entry` succeeds and
`read_cache_entry` on its output followed by anything returns exactly the normal form of the entry
and leaves exactly the trailing bytes — for every version number, every previous path.
`WFEntry` is what the proof forced: `name.length < 0x1000` and `size < 2^32` (both narrower than the
property's quantifier — DESIGN F11), times/mode/uid/gid below 2^32, 20-byte id, 16-bit flag words,
no NUL in a v4 name, extended flags only from version 3.  `dev`/`ino` are unrestricted. -/
theorem entry_roundtrip_partial (v : Nat) (prev : Bytes) (e : Entry) (h : WFEntry v e) :
    ∃ b, writeCacheEntry v prev e = .ok b ∧
      ∀ rest, readCacheEntry v prev (b ++ rest) = .ok (normEntry e, rest) :=
  ⟨entryBytes v prev e, writeCacheEntry_ok prev h, fun rest => readCacheEntry_entryBytes prev rest h⟩

/-- The normal form only touches representation: name, mode, uid, gid, size, id and extended flags
are untouched; dev/ino are reduced modulo 2^32 (as git does); the stage and assume-valid bits of
the flags are kept, the name-length bits cleared, the "extended" bit set iff needed. -/
theorem normEntry_fields (e : Entry) (hl : e.name.length < 4096) :
    (normEntry e).name = e.name ∧ (normEntry e).mode = e.mode ∧ (normEntry e).uid = e.uid ∧
    (normEntry e).gid = e.gid ∧ (normEntry e).size = e.size ∧ (normEntry e).sha = e.sha ∧
    (normEntry e).ext = e.ext ∧ (normEntry e).dev = e.dev % 4294967296 ∧
    (normEntry e).ino = e.ino % 4294967296 ∧
    (normEntry e).flags = 4096 * (e.flags / 4096 ||| (if e.ext ≠ 0 then 4 else 0)) :=
  ⟨rfl, rfl, rfl, rfl, rfl, rfl, rfl, rfl, rfl, normFlags_eq hl⟩

/-- Entries that are already in the reader's form (what `Index.read` hands out) come back equal. -/
theorem entry_roundtrip_canonical (v : Nat) (prev : Bytes) (e : Entry) (h : WFEntry v e) (hc : Canonical e) :
    ∃ b, writeCacheEntry v prev e = .ok b ∧ ∀ rest, readCacheEntry v prev (b ++ rest) = .ok (e, rest) := by
  obtain ⟨b, hw, hr⟩ := entry_roundtrip_partial v prev e h
  refine ⟨b, hw, fun rest => ?_⟩
  rw [hr rest, normEntry_of_canonical h.1 h.2.2.2.2.2.2.2.2.2.1 hc]

/-- Non-vacuity: a 4095-byte non-UTF-8 name, all stat fields at 2^32-1, 64-bit inode, conflict
stage 2 with assume-valid, skip-worktree + intent-to-add, in versions 3 and 4. -/
def exEntry : Entry :=
  { name := List.replicate 4094 0xff ++ [0x2f], ctime := .pair 4294967295 999999999, mtime := .int 2147483648,
    dev := 4294967295, ino := 1099511627776 + 6, mode := 0o100755, uid := 4294967295, gid := 0,
    size := 4294967295, sha := List.replicate 20 0xab, flags := 0x8000 + 0x2000 + 0x4000, ext := 0x6000 }

example : WFEntry 3 exEntry ∧ WFEntry 4 exEntry ∧ ¬ WFEntry 2 exEntry := by decide +kernel
example : (normEntry exEntry).flags = 0xE000 ∧ (normEntry exEntry).ino = 6 := by decide +kernel

/-- **Names of 4096 bytes and more do not round-trip** (property: "names longer than 4095 bytes").
Version 2/3: the length is OR-ed into the flags unsaturated, 4096 = 0x1000 lands in the stage bits,
the reader takes `flags & 0xFFF = 0` bytes as the name. -/
theorem long_name_counterexample_v2 :
    (writeCacheEntry 2 [] { exEntry with name := List.replicate 4096 97, flags := 0, ext := 0 } >>= fun b =>
      readCacheEntry 2 [] b >>= fun r => pure (r.1.name, entryStage r.1)) = .ok ([], 1) := by
  decide +kernel

set_option maxRecDepth 100000 in
/-- Version 4: the name itself survives (it is NUL-terminated) but the entry comes back as stage 1,
i.e. as a *conflicted* entry. -/
theorem long_name_counterexample_v4 :
    entryStage { exEntry with name := List.replicate 4096 97, flags := 0, ext := 0 } = 0 ∧
    (writeCacheEntry 4 [] { exEntry with name := List.replicate 4096 97, flags := 0, ext := 0 } >>= fun b =>
      readCacheEntry 4 [] b >>= fun r => pure (r.1.name.length, entryStage r.1, r.2)) = .ok (4096, 1, []) := by
  decide +kernel

/-- **Sizes of 2^32 and more are not written at all** (property: "all stat values incl. >32-bit
sizes"): `struct.error`. -/
theorem big_size_counterexample :
    writeCacheEntry 2 [] { exEntry with name := [97], flags := 0, ext := 0, size := 4294967296 } = .error .struct := by
  decide +kernel

/-- Hence the full statement is false on the model of the unchanged code. -/
theorem entry_roundtrip_statement_false : ¬ EntryRoundtripStatement := by
  intro h
  have := h 2 [] { exEntry with name := [97], flags := 0, ext := 0, size := 4294967296 }
    (by decide) (by decide) (by decide) (by decide) (by decide) (by decide) (by decide) (by decide)
    (by decide) (by decide) (by decide) (by decide)
  obtain ⟨b, hb, _⟩ := this
  rw [big_size_counterexample] at hb
  cases hb

/-- `index_entry_from_stat` narrows nothing: a file of 4 GiB or more gives an entry that
`write_cache_entry` refuses, whatever the version (field widths, DESIGN "Limits"). -/
theorem from_stat_big_size_fails (v : Nat) (prev : Bytes) (c m dev ino mode uid gid size : Nat) (sha : Bytes)
    (hc : c < 4294967296 * 1000000000) (hm : m < 4294967296 * 1000000000) (hmode : mode < 4294967296)
    (hu : uid < 4294967296) (hg : gid < 4294967296) (hs : 4294967296 ≤ size) :
    writeCacheEntry v prev (entryFromStat c m dev ino mode uid gid size sha) = .error .struct := by
  have t1 : timeOk (entryFromStat c m dev ino mode uid gid size sha).ctime := by
    simp only [entryFromStat, timeOk]; omega
  have t2 : timeOk (entryFromStat c m dev ino mode uid gid size sha).mtime := by
    simp only [entryFromStat, timeOk]; omega
  have hflags : diskFlags (entryFromStat c m dev ino mode uid gid size sha) = 0 := by
    simp [diskFlags, entryFromStat, clearBits]
  unfold writeCacheEntry
  simp only [packTime_ok t1, packTime_ok t2, bind_ok, hflags]
  have h0 : ¬ ((0 : Nat) &&& flagExtended ≠ 0 ∧ v < wExtendedFrom) := by simp
  rw [if_neg h0]
  unfold packFixed
  simp only [maskOpt, devMask, inoMask, modeMask, uidMask, gidMask, sizeMask, and_u32]
  rw [packL_ok (Nat.mod_lt _ (by decide)), packL_ok (Nat.mod_lt _ (by decide))]
  have e1 : (entryFromStat c m dev ino mode uid gid size sha).mode = mode := rfl
  have e2 : (entryFromStat c m dev ino mode uid gid size sha).uid = uid := rfl
  have e3 : (entryFromStat c m dev ino mode uid gid size sha).gid = gid := rfl
  have e4 : (entryFromStat c m dev ino mode uid gid size sha).size = size := rfl
  rw [e1, e2, e3, e4, packL_ok hmode, packL_ok hu, packL_ok hg, packL_err hs]
  rfl

/-! ## 5. The entry loop and the whole file -/

/-- **Index round trip (partial: under `WFEntry` for every flattened entry).**
For a dictionary `d`, extensions `xs`, requested version `ver` (or none), skip-hash on or off and
*any* hash function `H` with 20-byte output: `Index.write` succeeds; `Index(path)` on the bytes
accepts the checksum, reports the version `write_index` chose (`effectiveVersion`: bumped to 3 iff an
extended flag is present and the request was below 3), reports the non-empty extensions in order
(`fromRaw`: TREE/REUC/sdir payloads parse to nothing, every other signature is carried opaquely),
and its dictionary is the reader's dictionary-building loop run over the *normal forms of the
entries in the order they were written* — path bytes ascending, then stage (see §6). -/
theorem index_roundtrip_partial (H : Bytes → Bytes) (hH : ∀ x, (H x).length = 20) (skipHash : Bool)
    (ver : Option Nat) (d : Dict) (xs : List Ext)
    (hv : versions.contains (effectiveVersion ver (flattenDict d)) = true)
    (hn : (flattenDict d).length < 4294967296)
    (hes : ∀ e ∈ flattenDict d, WFEntry (effectiveVersion ver (flattenDict d)) e)
    (hxs : ∀ x ∈ xs, WFExt x) :
    ∃ file, indexWrite H skipHash ver d xs = .ok file ∧
      indexRead H file =
        (match foldAdd [] ((flattenDict d).map normEntry) with
         | .ok dict => .ok (dict, effectiveVersion ver (flattenDict d),
                            (xs.filter fun x => !x.2.isEmpty).map fun x => fromRaw x.1 x.2)
         | .error x => .error x) := by
  have hxs' : ∀ x ∈ xs.filter (fun x => !x.2.isEmpty), WFExt x := fun x hx => hxs x (List.mem_filter.mp hx).1
  refine ⟨_, indexWrite_ok H skipHash hv hn hes hxs, ?_⟩
  cases skipHash with
  | true =>
    exact indexRead_body_trailer H hv hn hes hxs' (by simp [skipHashZeros]) (checkSha_zeros H _)
  | false =>
    exact indexRead_body_trailer H hv hn hes hxs' (hH _) (checkSha_hash H hH allowEmpty _)

/-- The version rule of `write_index`, spelled out. -/
theorem version_rule (ver : Option Nat) (es : List Entry) :
    effectiveVersion ver es =
      (if (∃ e ∈ es, e.ext ≠ 0) ∧ ver.getD 2 < 3 then 3 else ver.getD 2) := by
  simp only [effectiveVersion, defaultVersion, bumpBelow, bumpTo, List.any_eq_true, decide_eq_true_eq]

/-- **The dictionary that comes back** (closing the gap left by `index_roundtrip_partial`): for a
Python dictionary (distinct keys) whose keys are shorter than 4096 bytes, the reader's
dictionary-building loop over the written entries yields exactly the input dictionary *sorted by
path*, every value replaced by its normal form (`normVal`: entries normalised as in §4 with the
stage forced by the slot; a `ConflictedIndexEntry` keeps its three slots, missing stages stay
missing; a conflict with no stage at all contributes nothing and disappears).  In particular no
`AssertionError("Non-conflicted entry … exists")` can arise from what `write_index_dict` wrote. -/
theorem dict_roundtrip (d : Dict) (hnd : (keys d).Nodup) (hlen : ∀ k ∈ keys d, k.length < 4096) :
    foldAdd [] ((flattenDict d).map normEntry) = .ok ((sortDict d).filterMap fun kv => normVal kv.1 kv.2) :=
  dict_rebuilt d hnd hlen

/-- **Index round trip, dictionary level (partial: under `WFEntry`).**  `Index.write` then
`Index(path)`: same keys (minus empty conflicts) in git's order, every value in normal form, the
version of the `write_index` rule, the non-empty extensions — for every hash function with 20-byte
output, with and without skip-hash. -/
theorem index_roundtrip_dict_partial (H : Bytes → Bytes) (hH : ∀ x, (H x).length = 20) (skipHash : Bool)
    (ver : Option Nat) (d : Dict) (xs : List Ext) (hnd : (keys d).Nodup) (hlen : ∀ k ∈ keys d, k.length < 4096)
    (hv : versions.contains (effectiveVersion ver (flattenDict d)) = true)
    (hn : (flattenDict d).length < 4294967296)
    (hes : ∀ e ∈ flattenDict d, WFEntry (effectiveVersion ver (flattenDict d)) e)
    (hxs : ∀ x ∈ xs, WFExt x) :
    ∃ file, indexWrite H skipHash ver d xs = .ok file ∧
      indexRead H file = .ok ((sortDict d).filterMap (fun kv => normVal kv.1 kv.2),
        effectiveVersion ver (flattenDict d), (xs.filter fun x => !x.2.isEmpty).map fun x => fromRaw x.1 x.2) := by
  obtain ⟨file, hw, hr⟩ := index_roundtrip_partial H hH skipHash ver d xs hv hn hes hxs
  refine ⟨file, hw, ?_⟩
  rw [hr, dict_roundtrip d hnd hlen]

/-- Non-vacuity of §5: a three-way conflict with a missing stage next to a plain entry with
skip-worktree, version requested 2 (written as 3), one unknown and one TREE extension. -/
def exDict : Dict :=
  [([98], .normal { exEntry with name := [], flags := 0, ext := 0x4000 }),
   ([97, 47, 120], .conflict (some { exEntry with name := [], ext := 0 }) none
                              (some { exEntry with name := [], ext := 0, flags := 0, mode := 0o120000 }))]

example : effectiveVersion (some 2) (flattenDict exDict) = 3 ∧
    (∀ e ∈ flattenDict exDict, WFEntry 3 e) ∧
    (flattenDict exDict).map (fun e => (e.name, entryStage e)) = [([97, 47, 120], 1), ([97, 47, 120], 3), ([98], 0)] ∧
    WFExt ([65, 66, 67, 68], [1, 2, 3]) := by decide +kernel

example : (keys exDict).Nodup ∧ (∀ k ∈ keys exDict, k.length < 4096) ∧
    ((sortDict exDict).filterMap fun kv => normVal kv.1 kv.2).map (·.1) = [[97, 47, 120], [98]] := by
  decide +kernel

/-! ## 6. Order: path bytes, then stage -/

/-- `sorted(entries)` as modelled is a sorting function: its output is ordered by `bytes.__lt__`
(no later key is smaller than an earlier one) … -/
theorem order_is_git_order (d : Dict) :
    (sortDict d).Pairwise (fun a b => bytesLt b.1 a.1 = false) :=
  sortDict_sorted d

/-- … and it is a permutation of the dictionary (nothing lost, nothing invented). -/
theorem sort_is_permutation (d : Dict) : (sortDict d).Perm d :=
  sortDict_perm d

/-- Within one path the stages are written in increasing order 1, 2, 3 (present ones only), each
serialised entry carries the dictionary key as its name and exactly its stage — whatever stage bits
the caller left in `flags` — and a plain entry is written with stage 0. -/
theorem stages_in_order (k : Bytes) (a t o : Option Entry) :
    (flattenVal k (.conflict a t o)).map (fun x => (x.name, entryStage x)) =
      (a.map fun _ => (k, 1)).toList ++ (t.map fun _ => (k, 2)).toList ++ (o.map fun _ => (k, 3)).toList :=
  flattenVal_conflict_stages k a t o

theorem plain_entry_stage_zero (k : Bytes) (e : Entry) :
    (flattenVal k (.normal e)).map (fun x => (x.name, entryStage x)) = [(k, 0)] :=
  flattenVal_normal_stage k e

/-- `bytes.__lt__` as modelled is git's `cache_name_compare` order — memcmp on the common length,
then the shorter name first: it is a strict total order (asymmetric, transitive, trichotomous) in
which a proper prefix is smaller and the first differing byte decides. -/
theorem bytesLt_is_memcmp_then_length :
    (∀ a b, bytesLt a b = true → bytesLt b a = false) ∧
    (∀ a b c, bytesLt a b = true → bytesLt b c = true → bytesLt a c = true) ∧
    (∀ a b, a = b ∨ bytesLt a b = true ∨ bytesLt b a = true) ∧
    (∀ a y t, bytesLt a (a ++ y :: t) = true) ∧
    (∀ p x y s t, x < y → bytesLt (p ++ x :: s) (p ++ y :: t) = true) :=
  ⟨bytesLt_asymm, bytesLt_trans, bytesLt_trichotomy, bytesLt_prefix, bytesLt_diverge⟩

/-! ## 7. Checksum -/

/-- What acceptance by `Index.read` implies about the trailer — all that can be said without
assuming anything about `H`: the 20 bytes after the parsed part are the hash of exactly the bytes
that went through the reader, *or* they are 20 zero bytes (skip-hash), *or* — the defect — fewer
than 20 bytes were left. -/
theorem checksum_accept_cases (H : Bytes → Bytes) (file : Bytes) (r : Dict × Nat × List Ext)
    (h : indexRead H file = .ok r) :
    ∃ dict v exts rest hashed, readIndexDict file = .ok (dict, v, exts, rest, hashed) ∧
      (rest.take 20 = H hashed ∨ rest.take 20 = zeros20 ∨ (rest.take 20).length ≠ 20) := by
  unfold indexRead at h
  cases hr : readIndexDict file with
  | error e => rw [hr] at h; cases h
  | ok val =>
    obtain ⟨dict, v, exts, rest, hashed⟩ := val
    rw [hr] at h
    refine ⟨dict, v, exts, rest, hashed, rfl, ?_⟩
    simp only at h
    by_cases hc : checkSha H allowEmpty hashed rest = true
    · by_cases h1 : rest.take 20 = H hashed
      · exact Or.inl h1
      · by_cases h2 : (rest.take 20).length = 20
        · by_cases h3 : rest.take 20 = zeros20
          · exact Or.inr (Or.inl h3)
          · exfalso
            have : checkSha H allowEmpty hashed rest = false := by
              simp [checkSha, shaReadLen, allowEmpty, h1, h2, h3]
            rw [this] at hc; cases hc
        · exact Or.inr (Or.inr h2)
    · rw [if_neg hc] at h; cases h

/-- Full statement of "damage is detected" at the level that needs no assumption on `H`:
acceptance implies hash-or-zero trailer.  False on the unchanged code (next theorem). -/
def ChecksumStatement : Prop :=
  ∀ (H : Bytes → Bytes) (file : Bytes) (r : Dict × Nat × List Ext), indexRead H file = .ok r →
    ∃ dict v exts rest hashed, readIndexDict file = .ok (dict, v, exts, rest, hashed) ∧
      (rest.take 20 = H hashed ∨ rest.take 20 = zeros20)

/-- **A truncated trailer is accepted**, for every hash function: an empty version-2 index whose
20-byte checksum was cut to 19 bytes is read without error. -/
theorem short_trailer_counterexample (H : Bytes → Bytes) :
    indexRead H ([68, 73, 82, 67, 0, 0, 0, 2, 0, 0, 0, 0] ++ List.replicate 19 7) = .ok ([], 2, []) := by
  have h : readIndexDict ([68, 73, 82, 67, 0, 0, 0, 2, 0, 0, 0, 0] ++ List.replicate 19 7) =
      .ok ([], 2, [], List.replicate 19 7, [68, 73, 82, 67, 0, 0, 0, 2, 0, 0, 0, 0]) := rfl
  unfold indexRead
  rw [h]
  have hc : checkSha H allowEmpty [68, 73, 82, 67, 0, 0, 0, 2, 0, 0, 0, 0] (List.replicate 19 7) = true := by
    have hl : ¬ (((List.replicate 19 (7 : UInt8)).take shaReadLen).length = 20) := by decide
    unfold checkSha
    simp only [hl, decide_false, Bool.false_and, allowEmpty, Bool.not_true, Bool.false_or, Bool.and_false,
      Bool.not_false]
  simp only [hc, if_true]

theorem checksum_statement_false : ¬ ChecksumStatement := by
  intro h
  obtain ⟨dict, v, exts, rest, hashed, hr, hc⟩ :=
    h (fun _ => List.replicate 20 9) _ _ (short_trailer_counterexample _)
  have h' : readIndexDict ([68, 73, 82, 67, 0, 0, 0, 2, 0, 0, 0, 0] ++ List.replicate 19 7) =
      .ok ([], 2, [], List.replicate 19 7, [68, 73, 82, 67, 0, 0, 0, 2, 0, 0, 0, 0]) := rfl
  rw [h'] at hr
  cases hr
  revert hc
  decide

/-- An extension signature that is not four upper-case letters (git's `sdir` of a sparse index,
`link` of a split index) makes a file with a *correct* checksum fail: the four bytes are hashed and
then un-read, so the "trailer" the check sees starts at the signature.  Stated for any `H` whose
output is not the 20 bytes that happen to follow. -/
theorem lowercase_extension_counterexample (H : Bytes → Bytes)
    (hH : H ([68, 73, 82, 67, 0, 0, 0, 2, 0, 0, 0, 0] ++ [115, 100, 105, 114])
          ≠ [115, 100, 105, 114, 0, 0, 0, 0] ++ (H ([68, 73, 82, 67, 0, 0, 0, 2, 0, 0, 0, 0] ++ [115, 100, 105, 114, 0, 0, 0, 0])).take 12)
    (h20 : ∀ x, (H x).length = 20) :
    indexRead H ([68, 73, 82, 67, 0, 0, 0, 2, 0, 0, 0, 0] ++ [115, 100, 105, 114, 0, 0, 0, 0] ++
      H ([68, 73, 82, 67, 0, 0, 0, 2, 0, 0, 0, 0] ++ [115, 100, 105, 114, 0, 0, 0, 0])) = .error .checksum :=
  lowercase_ext_rejected H hH h20

/-! ## 8. Agreement with C git on the v4 varint -/

/-- dulwich's v4 varint is git's (varint.c `encode_varint`, modelled as `gitEncodeVarint` and tied
to C git by the `git.varint` stream) exactly below 128 … -/
theorem varint_agrees_with_git_partial (n : Nat) (h : n < 128) : encodeVarint n = gitEncodeVarint n := by
  rw [encodeVarint_small h]
  unfold gitEncodeVarint
  have h1 : n / 128 = 0 := by omega
  simp [gitEncodeVarintAux, h1, Nat.mod_eq_of_lt h]

/-- … and differs from 128 on: whenever v4 prefix compression strips 128 bytes or more, C git and
dulwich cannot read each other's index. -/
theorem varint_git_counterexample :
    encodeVarint 128 = [0x80, 0x01] ∧ gitEncodeVarint 128 = [0x80, 0x00] ∧
    gitDecodeVarint (encodeVarint 128) = some (129, []) := by decide

/-- The modelled git varint is itself a codec on a sample that covers the 1-, 2- and 3-byte
boundaries (sanity of the reference the streams compare with; C git itself is the arbiter). -/
theorem git_varint_roundtrip_sample :
    ∀ n ∈ [0, 1, 127, 128, 129, 255, 256, 16383, 16384, 16511, 16512, 16513, 2113663, 2113664, 4294967296],
      gitDecodeVarint (gitEncodeVarint n ++ [5]) = some (n, [5]) := by
  decide +kernel

end Dulwich.Props.C11
