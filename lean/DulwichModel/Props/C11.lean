/-
  C11 — Index file round trip, ordering, checksum, agreement with C git.

  Only property theorems, non-vacuity examples and negation witnesses live here; helper lemmas and
  the predicates used in the statements (`WFEntry`, `normEntry`, `Canonical`, `WFExt`, `foldAdd`,
  `fileBody`) are in Lemmas/Index.lean.  The model is Model/Index.lean; every constant it uses comes
  from Gen/Index.lean, which the translator regenerates from /repo on every run, so a change of a
  mask, a struct layout, a version threshold or a varint constant in the source re-checks (and, when
  it matters, breaks) the proofs below.
-/
import DulwichModel.Lemmas.Index

namespace Dulwich.Props.C11
open Dulwich Dulwich.Index Dulwich.Gen.Index

/-! ## 0. The layout facts the hand-written model hard-wires, as read from the source now -/

/-- The struct layouts, field order, header shape and thresholds that `Model/Index.lean` assumes
structurally (the numeric constants are imported, these shapes are not).  If the source changes one
of them this theorem stops compiling: the model no longer describes the code. -/
theorem gen_layout_as_modelled :
    entryWriteFmt = [4, 4, 4, 4, 4, 4, 20, 2] ∧ entryReadFmt = [4, 4, 4, 4, 4, 4, 20, 2] ∧
    entryReadLen = 46 ∧ timeWriteFmt = [4, 4] ∧ timeReadFmt = [4, 4] ∧
    extFlagsWriteFmt = [2] ∧ extFlagsReadFmt = [2] ∧ extLenWriteFmt = [4] ∧ extLenReadFmt = [4] ∧
    headerFmt = [4, 4] ∧ writeHeaderFmt = [4, 4] ∧ magic.length = 4 ∧
    writeStageOrder = [1, 2, 3, 0] ∧
    (readStageNormal, readStageAncestor, readStageThis, readStageOther) = (0, 1, 2, 3) ∧
    flagStageMask = 3 <<< flagStageShift ∧ flagStageShift = 12 ∧
    trailerLen = 20 ∧ shaReadLen = 20 ∧ skipHashZeros = 20 ∧
    shaZeroLen = 20 ∧ wCompressFrom = wCompressFrom2 ∧ wCompressFrom = rCompressFrom ∧
    wExtendedFrom = rExtendedFrom ∧ bumpBelow = wExtendedFrom ∧ bumpTo = wExtendedFrom := by
  decide

/-! ## 1. v4 varint: round trip, and it is git's varint -/

theorem varint_roundtrip (n : Nat) (rest : Bytes) :
    readVarint (encodeVarint n ++ rest) = .ok (n, rest) :=
  readVarint_encode n rest

theorem varint_roundtrip_buffer (n : Nat) (rest : Bytes) :
    decodeVarint (encodeVarint n ++ rest) = .ok (n, rest) :=
  decodeVarint_encode n rest

example : encodeVarint 300 = [129, 44] ∧ readVarint ([129, 44] ++ [9]) = .ok (300, [9]) := by decide

/-- **The encoder is git's** (`varint.c: encode_varint`, transcribed independently as `gitEncodeVarint`
and tied to C git itself by the `git.varint` stream): equality for every natural. -/
theorem varint_is_git_varint (n : Nat) : encodeVarint n = gitEncodeVarint n :=
  encodeVarint_eq_git n

/-- … and git's decoder (`decode_varint`, without its overflow check) reads what the code writes. -/
theorem git_reads_varint_sample :
    ∀ n ∈ [0, 1, 127, 128, 129, 255, 256, 16383, 16384, 16511, 16512, 16513, 2113663, 2113664, 4294967296],
      gitDecodeVarint (encodeVarint n ++ [5]) = some (n, [5]) := by
  decide +kernel

/-- Regression witness on the code before the repair: the plain little-endian base-128 varint differs
from git's from 128 on, and git decodes it to a different number. -/
theorem old_varint_git_counterexample :
    Old.encodeVarint 128 = [0x80, 0x01] ∧ gitEncodeVarint 128 = [0x80, 0x00] ∧
    gitDecodeVarint (Old.encodeVarint 128) = some (129, []) ∧ encodeVarint 128 = [0x80, 0x00] := by decide

/-! ## 2. v4 path prefix compression round trip -/

/-- For every path without a NUL byte and *every* previous path (no relation between the two is
needed), decompressing what `_compress_path` produced gives the path back and consumes exactly
the encoding — stream reader (`_decompress_path_from_stream`, the one `read_cache_entry` uses). -/
theorem path_compress_roundtrip (path prev rest : Bytes) (h : (0 : UInt8) ∉ path) :
    decompressPathStream prev (compressPath path prev ++ rest) = .ok (path, rest) :=
  decompressPathStream_compress path prev rest h

/-- Same for the buffer reader `_decompress_path`. -/
theorem path_compress_roundtrip_buffer (path prev rest : Bytes) (h : (0 : UInt8) ∉ path) :
    decompressPath prev (compressPath path prev ++ rest) = .ok (path, rest) :=
  decompressPath_compress path prev rest h

example : compressPath [97, 47, 99] [97, 47, 98, 98] = [2, 99, 0] ∧
    decompressPathStream [97, 47, 98, 98] [2, 99, 0, 7] = .ok ([97, 47, 99], [7]) ∧
    (compressPath [98] (List.replicate 200 97)).take 2 = [0x80, 0x48] := by decide +kernel

/-- The NUL hypothesis is necessary: a path containing NUL does not survive (git paths never do). -/
theorem path_with_nul_counterexample :
    decompressPathStream [] (compressPath [97, 0, 98] []) ≠ .ok ([97, 0, 98], []) := by decide

/-! ## 3. Padding -/

/-- An entry of `n` bytes (fixed part + name) gets between 1 and 8 NUL bytes and ends on a multiple
of 8; reader and writer compute the same amount. -/
theorem pad_between_1_and_8 (n : Nat) :
    1 ≤ padLenWrite n ∧ padLenWrite n ≤ 8 ∧ (n + padLenWrite n) % 8 = 0 ∧ padLenRead n = padLenWrite n := by
  have h := padLenWrite_eq n
  exact ⟨by omega, by omega, by omega, padLenRead_eq n⟩

/-! ## 4. One entry: write then read, versions 2, 3 and 4 (and any other version number) -/

/-- **Entry round trip.**  `write_cache_entry` succeeds and `read_cache_entry` on its output followed by
anything returns exactly the normal form of the entry and leaves exactly the trailing bytes — for every
version number, every previous path, **names of any length, sizes, times, dev and ino of any magnitude**.
`WFEntry` only asks for what a git index entry is: no NUL in the path, `mode`/`uid`/`gid` that fit their
32-bit fields, a 20-byte id, 16-bit flag words, extended flags only from version 3. -/
theorem entry_roundtrip (v : Nat) (prev : Bytes) (e : Entry) (h : WFEntry v e) :
    ∃ b, writeCacheEntry v prev e = .ok b ∧
      ∀ rest, readCacheEntry v prev (b ++ rest) = .ok (normEntry e, rest) :=
  ⟨entryBytes v prev e, writeCacheEntry_ok prev h, fun rest => readCacheEntry_entryBytes prev rest h⟩

/-- **Exactly what comes back.**  Name, mode, uid, gid, id and extended flags are untouched; size, dev,
ino and both halves of each time are reduced modulo 2^32 (what C git's `unsigned int` stat fields hold);
an `int` time `t` comes back as `(t mod 2^32, 0)`; the stage and assume-valid bits of the flags are kept,
the name-length bits cleared, the "extended" bit set iff there are extended flags. -/
theorem normEntry_fields (e : Entry) :
    (normEntry e).name = e.name ∧ (normEntry e).mode = e.mode ∧ (normEntry e).uid = e.uid ∧
    (normEntry e).gid = e.gid ∧ (normEntry e).sha = e.sha ∧ (normEntry e).ext = e.ext ∧
    (normEntry e).size = e.size % 4294967296 ∧ (normEntry e).dev = e.dev % 4294967296 ∧
    (normEntry e).ino = e.ino % 4294967296 ∧
    (normEntry e).ctime = normTime e.ctime ∧ (normEntry e).mtime = normTime e.mtime ∧
    (∀ t, normTime (.int t) = .pair (t % 4294967296) 0) ∧
    (∀ s n, normTime (.pair s n) = .pair (s % 4294967296) (n % 4294967296)) ∧
    (normEntry e).flags = 4096 * (e.flags / 4096 ||| (if e.ext ≠ 0 then 4 else 0)) :=
  ⟨rfl, rfl, rfl, rfl, rfl, rfl, rfl, rfl, rfl, rfl, rfl, fun _ => rfl, fun _ _ => rfl, normFlags_eq e⟩

/-- Entries that are already in the reader's form (what `Index.read` hands out: pairs, everything below
2^32) come back equal. -/
theorem entry_roundtrip_canonical (v : Nat) (prev : Bytes) (e : Entry) (h : WFEntry v e) (hc : Canonical e) :
    ∃ b, writeCacheEntry v prev e = .ok b ∧ ∀ rest, readCacheEntry v prev (b ++ rest) = .ok (e, rest) := by
  obtain ⟨b, hw, hr⟩ := entry_roundtrip v prev e h
  refine ⟨b, hw, fun rest => ?_⟩
  rw [hr rest, normEntry_of_canonical h.2.2.2.2.2.2.1 hc]

/-- The statement in the property's own terms (kept from the round in which it was false): every entry
with a NUL-free name of any length and stat values of any size round-trips in versions 2..4, the size
coming back modulo 2^32 and the stage unchanged. -/
def EntryRoundtripStatement : Prop :=
  ∀ (v : Nat) (prev : Bytes) (e : Entry), 2 ≤ v → v ≤ 4 → (0 : UInt8) ∉ e.name →
    e.mode < 4294967296 → e.uid < 4294967296 → e.gid < 4294967296 →
    e.sha.length = 20 → e.flags < 65536 → e.ext < 65536 →
    ((e.ext ≠ 0 ∨ e.flags &&& flagExtended ≠ 0) → 3 ≤ v) →
    ∃ b, writeCacheEntry v prev e = .ok b ∧
      ∀ rest, ∃ e', readCacheEntry v prev (b ++ rest) = .ok (e', rest) ∧ e'.name = e.name ∧
        e'.size = e.size % 4294967296 ∧ entryStage e' = entryStage e

/-- It now holds. -/
theorem entry_roundtrip_statement : EntryRoundtripStatement := by
  intro v prev e _ _ hnul hm hu hg hsha hf hx hv
  have hwf : WFEntry v e :=
    ⟨fun _ => hnul, fun _ hm' => hnul (List.mem_of_mem_drop hm'), hm, hu, hg, hsha, hf, hx, hv⟩
  obtain ⟨b, hw, hr⟩ := entry_roundtrip v prev e hwf
  exact ⟨b, hw, fun rest => ⟨normEntry e, hr rest, rfl, rfl, stage_normEntry e⟩⟩

/-- Non-vacuity: a 5000-byte non-UTF-8 name, size and time above 2^32, 64-bit inode, conflict stage 2
with assume-valid, skip-worktree + intent-to-add, in versions 3 and 4 (version 2 cannot hold extended
flags). -/
def exEntry : Entry :=
  { name := List.replicate 4999 0xff ++ [0x2f], ctime := .pair 4294967295 999999999, mtime := .int 8589934599,
    dev := 4294967295, ino := 1099511627776 + 6, mode := 0o100755, uid := 4294967295, gid := 0,
    size := 4294967296 + 9, sha := List.replicate 20 0xab, flags := 0x8000 + 0x2000 + 0x4000, ext := 0x6000 }

example : WFEntry 3 exEntry ∧ WFEntry 4 exEntry ∧ ¬ WFEntry 2 exEntry := by decide +kernel
example : (normEntry exEntry).flags = 0xE000 ∧ (normEntry exEntry).ino = 6 ∧ (normEntry exEntry).size = 9 ∧
    (normEntry exEntry).mtime = .pair 7 0 := by decide +kernel

set_option maxRecDepth 100000 in
/-- The same instance, evaluated: a 4096-byte name in versions 2 and 4 comes back whole, at stage 0. -/
theorem long_name_evaluated :
    (writeCacheEntry 2 [] { exEntry with name := List.replicate 4096 97, flags := 0, ext := 0 } >>= fun b =>
      readCacheEntry 2 [] b >>= fun r => pure (r.1.name.length, entryStage r.1, r.2)) = .ok (4096, 0, []) ∧
    (writeCacheEntry 4 [] { exEntry with name := List.replicate 4096 97, flags := 0, ext := 0 } >>= fun b =>
      readCacheEntry 4 [] b >>= fun r => pure (r.1.name.length, entryStage r.1, r.2)) = .ok (4096, 0, []) := by
  decide +kernel

/-! ### Regression witnesses on the code before the repair (`namespace Old`) -/

/-- A 4096-byte name with small stat values (so that the old writer gets as far as the name). -/
def exLongName : Entry :=
  { exEntry with name := List.replicate 4096 97, flags := 0, ext := 0, size := 9, mtime := .int 1 }

/-- Before: a 4096-byte name in version 2 was read back as an empty name at stage 1 … -/
theorem old_long_name_counterexample_v2 :
    (Old.writeCacheEntry 2 [] exLongName >>= fun b =>
      Old.readCacheEntry 2 [] b >>= fun r => pure (r.1.name, entryStage r.1)) = .ok ([], 1) := by
  decide +kernel

set_option maxRecDepth 100000 in
/-- … and in version 4 the name survived but the entry came back at stage 1 (conflicted). -/
theorem old_long_name_counterexample_v4 :
    (Old.writeCacheEntry 4 [] exLongName >>= fun b =>
      Old.readCacheEntry 4 [] b >>= fun r => pure (r.1.name.length, entryStage r.1, r.2)) = .ok (4096, 1, []) := by
  decide +kernel

/-- Before: a size of 2^32, or a time of 2^32, was not written at all (`struct.error`); now both are. -/
theorem old_big_size_counterexample :
    Old.writeCacheEntry 2 [] { exEntry with name := [97], flags := 0, ext := 0, mtime := .int 1, size := 4294967296 } = .error .struct ∧
    Old.writeCacheEntry 2 [] { exEntry with name := [97], flags := 0, ext := 0, mtime := .int 4294967296, size := 1 } = .error .struct ∧
    (writeCacheEntry 2 [] { exEntry with name := [97], flags := 0, ext := 0, mtime := .int 4294967296, size := 4294967296 }).toBool = true := by
  decide +kernel

/-- `index_entry_from_stat` narrows nothing, and does not need to: whatever the file size and the
timestamps, the entry it builds is written and comes back with size and times modulo 2^32. -/
theorem from_stat_roundtrip (v : Nat) (prev : Bytes) (c m dev ino mode uid gid size : Nat) (sha : Bytes)
    (hv : v < 4) (hmode : mode < 4294967296) (hu : uid < 4294967296) (hg : gid < 4294967296) (hsha : sha.length = 20) :
    ∃ b, writeCacheEntry v prev (entryFromStat c m dev ino mode uid gid size sha) = .ok b ∧
      ∀ rest, ∃ e', readCacheEntry v prev (b ++ rest) = .ok (e', rest) ∧ e'.size = size % 4294967296 ∧
        e'.mtime = .pair (m / 1000000000 % 4294967296) (m % 1000000000 % 4294967296) := by
  have hwf : WFEntry v (entryFromStat c m dev ino mode uid gid size sha) := by
    refine ⟨fun h => by omega, fun _ => by simp [entryFromStat], hmode, hu, hg, hsha, by simp [entryFromStat],
      by simp [entryFromStat], ?_⟩
    intro h
    rcases h with h | h
    · simp [entryFromStat] at h
    · simp [entryFromStat] at h
  obtain ⟨b, hw, hr⟩ := entry_roundtrip v prev _ hwf
  exact ⟨b, hw, fun rest => ⟨_, hr rest, rfl, rfl⟩⟩

/-! ### The (sec, nsec) of a nanosecond counter (`index_entry_from_stat`) -/

/-- `timespecOfNs ns` is **the unique** `(s, n)` with `0 ≤ n < 10^9` and `s·10^9 + n = ns` — for every
integer, negative ones (pre-1970) included.  So the whole second comes from the nanosecond counter
alone; no float view of the same timestamp (which rounds *up* within ~120 ns below a second at today's
dates) has a say. -/
theorem timespec_unique (ns s n : Int) :
    (0 ≤ n ∧ n < 1000000000 ∧ s * 1000000000 + n = ns) ↔ (s, n) = timespecOfNs ns := by
  unfold timespecOfNs
  constructor
  · rintro ⟨h0, h1, h2⟩
    have : s = ns / 1000000000 ∧ n = ns % 1000000000 := by omega
    rw [this.1, this.2]
  · intro h
    simp only [Prod.mk.injEq] at h
    omega

/-- Floor, not truncation: one nanosecond before the epoch is `(-1, 999999999)`, whereas truncating
gives `(0, -1)`, which is no timespec; and the instant `-1.5 s` is `(-2, 500000000)`, stored as
`(2^32 - 2, 500000000)`. -/
theorem timespec_floor_not_trunc_counterexample :
    timespecOfNs (-1) = (-1, 999999999) ∧ truncTimespecOfNs (-1) = (0, -1) ∧
    timespecOfNs (-1500000000) = (-2, 500000000) ∧ truncTimespecOfNs (-1500000000) = (-1, -500000000) ∧
    timeWords (timespecOfNs (-1500000000)) = (4294967294, 500000000) := by decide

example : timespecOfNs 1790000000999999900 = (1790000000, 999999900) := by decide

/-! ## 5. The entry loop and the whole file -/

/-- **Index round trip.**
For a dictionary `d`, extensions `xs`, requested version `ver` (or none), skip-hash on or off and
*any* hash function `H` with 20-byte output: `Index.write` succeeds; `Index(path)` on the bytes
accepts the checksum, reports the version `write_index` chose (`effectiveVersion`: bumped to 3 iff an
extended flag is present and the request was below 3), reports the non-empty extensions in order
(`fromRaw`: TREE/REUC/sdir payloads parse to nothing, every other signature is carried opaquely;
`WFExt`: a known signature or one that starts with `A..Z`),
and its dictionary is the reader's dictionary-building loop run over the *normal forms of the
entries in the order they were written* — path bytes ascending, then stage (see §6). -/
theorem index_roundtrip (H : Bytes → Bytes) (hH : ∀ x, (H x).length = 20) (skipHash : Bool)
    (ver : Option Nat) (d : Dict) (xs : List Ext)
    (hv : versions.contains (effectiveVersion ver (flattenDict d)) = true)
    (hn : (flattenDict d).length < 4294967296)
    (hes : ∀ e ∈ flattenDict d, WFEntry (effectiveVersion ver (flattenDict d)) e)
    (hxs : ∀ x ∈ xs, WFExt x) :
    ∃ file, indexWrite H skipHash ver d xs = .ok file ∧
      indexRead H file =
        (match foldAdd [] ((flattenDict d).map normEntry) with
         | .ok dict => .ok (dict, effectiveVersion ver (flattenDict d),
                            (xs.filter fun x => !x.2.isEmpty).map fun x => fromRaw x.1 x.2)
         | .error x => .error x) := by
  have hxs' : ∀ x ∈ xs.filter (fun x => !x.2.isEmpty), WFExt x := fun x hx => hxs x (List.mem_filter.mp hx).1
  refine ⟨_, indexWrite_ok H skipHash hv hn hes hxs, ?_⟩
  cases skipHash with
  | true =>
    exact indexRead_body_trailer H hv hn hes hxs' (by simp [skipHashZeros]) (checkSha_zeros H _)
  | false =>
    exact indexRead_body_trailer H hv hn hes hxs' (hH _) (checkSha_hash H hH allowEmpty _)

/-- The version rule of `write_index`, spelled out. -/
theorem version_rule (ver : Option Nat) (es : List Entry) :
    effectiveVersion ver es =
      (if (∃ e ∈ es, e.ext ≠ 0) ∧ ver.getD 2 < 3 then 3 else ver.getD 2) := by
  simp only [effectiveVersion, defaultVersion, bumpBelow, bumpTo, List.any_eq_true, decide_eq_true_eq]

/-- **The dictionary that comes back** (closing the gap left by `index_roundtrip`): for a
Python dictionary (distinct keys, of any length), the reader's
dictionary-building loop over the written entries yields exactly the input dictionary *sorted by
path*, every value replaced by its normal form (`normVal`: entries normalised as in §4 with the
stage forced by the slot; a `ConflictedIndexEntry` keeps its three slots, missing stages stay
missing; a conflict with no stage at all contributes nothing and disappears).  In particular no
`AssertionError("Non-conflicted entry … exists")` can arise from what `write_index_dict` wrote. -/
theorem dict_roundtrip (d : Dict) (hnd : (keys d).Nodup) :
    foldAdd [] ((flattenDict d).map normEntry) = .ok ((sortDict d).filterMap fun kv => normVal kv.1 kv.2) :=
  dict_rebuilt d hnd

/-- **Index round trip, dictionary level.**  `Index.write` then
`Index(path)`: same keys (minus empty conflicts) in git's order, every value in normal form, the
version of the `write_index` rule, the non-empty extensions — for every hash function with 20-byte
output, with and without skip-hash. -/
theorem index_roundtrip_dict (H : Bytes → Bytes) (hH : ∀ x, (H x).length = 20) (skipHash : Bool)
    (ver : Option Nat) (d : Dict) (xs : List Ext) (hnd : (keys d).Nodup)
    (hv : versions.contains (effectiveVersion ver (flattenDict d)) = true)
    (hn : (flattenDict d).length < 4294967296)
    (hes : ∀ e ∈ flattenDict d, WFEntry (effectiveVersion ver (flattenDict d)) e)
    (hxs : ∀ x ∈ xs, WFExt x) :
    ∃ file, indexWrite H skipHash ver d xs = .ok file ∧
      indexRead H file = .ok ((sortDict d).filterMap (fun kv => normVal kv.1 kv.2),
        effectiveVersion ver (flattenDict d), (xs.filter fun x => !x.2.isEmpty).map fun x => fromRaw x.1 x.2) := by
  obtain ⟨file, hw, hr⟩ := index_roundtrip H hH skipHash ver d xs hv hn hes hxs
  refine ⟨file, hw, ?_⟩
  rw [hr, dict_roundtrip d hnd]

/-- Non-vacuity of §5: a three-way conflict with a missing stage next to a plain entry with
skip-worktree, version requested 2 (written as 3), one unknown and one TREE extension. -/
def exDict : Dict :=
  [([98], .normal { exEntry with name := [], flags := 0, ext := 0x4000 }),
   ([97, 47, 120], .conflict (some { exEntry with name := [], ext := 0 }) none
                              (some { exEntry with name := [], ext := 0, flags := 0, mode := 0o120000 }))]

example : effectiveVersion (some 2) (flattenDict exDict) = 3 ∧
    (∀ e ∈ flattenDict exDict, WFEntry 3 e) ∧
    (flattenDict exDict).map (fun e => (e.name, entryStage e)) = [([97, 47, 120], 1), ([97, 47, 120], 3), ([98], 0)] ∧
    WFExt ([65, 66, 67, 68], [1, 2, 3]) ∧ WFExt (sdirSig, []) ∧ WFExt ([88, 121, 49, 122], [0]) ∧
    ¬ WFExt ([108, 105, 110, 107], [0]) := by decide +kernel

example : (keys exDict).Nodup ∧
    ((sortDict exDict).filterMap fun kv => normVal kv.1 kv.2).map (·.1) = [[97, 47, 120], [98]] := by
  decide +kernel

/-! ## 6. Order: path bytes, then stage -/

/-- `sorted(entries)` as modelled is a sorting function: its output is ordered by `bytes.__lt__`
(no later key is smaller than an earlier one) … -/
theorem order_is_git_order (d : Dict) :
    (sortDict d).Pairwise (fun a b => bytesLt b.1 a.1 = false) :=
  sortDict_sorted d

/-- … and it is a permutation of the dictionary (nothing lost, nothing invented). -/
theorem sort_is_permutation (d : Dict) : (sortDict d).Perm d :=
  sortDict_perm d

/-- Within one path the stages are written in increasing order 1, 2, 3 (present ones only), each
serialised entry carries the dictionary key as its name and exactly its stage — whatever stage bits
the caller left in `flags` — and a plain entry is written with stage 0. -/
theorem stages_in_order (k : Bytes) (a t o : Option Entry) :
    (flattenVal k (.conflict a t o)).map (fun x => (x.name, entryStage x)) =
      (a.map fun _ => (k, 1)).toList ++ (t.map fun _ => (k, 2)).toList ++ (o.map fun _ => (k, 3)).toList :=
  flattenVal_conflict_stages k a t o

theorem plain_entry_stage_zero (k : Bytes) (e : Entry) :
    (flattenVal k (.normal e)).map (fun x => (x.name, entryStage x)) = [(k, 0)] :=
  flattenVal_normal_stage k e

/-- `bytes.__lt__` as modelled is git's `cache_name_compare` order — memcmp on the common length,
then the shorter name first: it is a strict total order (asymmetric, transitive, trichotomous) in
which a proper prefix is smaller and the first differing byte decides. -/
theorem bytesLt_is_memcmp_then_length :
    (∀ a b, bytesLt a b = true → bytesLt b a = false) ∧
    (∀ a b c, bytesLt a b = true → bytesLt b c = true → bytesLt a c = true) ∧
    (∀ a b, a = b ∨ bytesLt a b = true ∨ bytesLt b a = true) ∧
    (∀ a y t, bytesLt a (a ++ y :: t) = true) ∧
    (∀ p x y s t, x < y → bytesLt (p ++ x :: s) (p ++ y :: t) = true) :=
  ⟨bytesLt_asymm, bytesLt_trans, bytesLt_trichotomy, bytesLt_prefix, bytesLt_diverge⟩

/-! ## 7. Checksum -/

/-- The statement "damage is detected" at the level that needs no assumption on `H`: when `Index.read`
accepts a file, the 20 bytes after the parsed part are the hash of exactly the bytes that went through the
reader, or they are 20 zero bytes (skip-hash).  (Kept from the round in which it was false.) -/
def ChecksumStatement : Prop :=
  ∀ (H : Bytes → Bytes) (file : Bytes) (r : Dict × Nat × List Ext), indexRead H file = .ok r →
    ∃ dict v exts rest hashed, readIndexDict file = .ok (dict, v, exts, rest, hashed) ∧
      hashed = file.take (file.length - rest.length) ∧
      (rest.take 20 = H hashed ∨ rest.take 20 = zeros20)

/-- It now holds: no third case.  In particular a file that lost any part of its trailer, or whose
parsed part swallowed some of it, is rejected — `rest.take 20` then has fewer than 20 bytes and can equal
neither a 20-byte hash nor 20 zeros. -/
theorem checksum_accept_cases : ChecksumStatement := by
  intro H file r h
  unfold indexRead at h
  cases hr : readIndexDict file with
  | error e => rw [hr] at h; cases h
  | ok val =>
    obtain ⟨dict, v, exts, rest, hashed⟩ := val
    rw [hr] at h
    simp only at h
    have hh : hashed = file.take (file.length - rest.length) := by
      unfold readIndexDict at hr
      split at hr
      · cases hr
      · split at hr
        · cases hr
        · split at hr
          · cases hr
          · simp only [Except.ok.injEq, Prod.mk.injEq] at hr
            obtain ⟨_, _, _, hrest, hhashed⟩ := hr
            rw [← hhashed, ← hrest]
    refine ⟨dict, v, exts, rest, hashed, rfl, hh, ?_⟩
    by_cases hc : checkSha H allowEmpty hashed rest = true
    · rcases (checkSha_true_iff H allowEmpty hashed rest).1 hc with h1 | ⟨_, h2⟩
      · exact Or.inl h1
      · exact Or.inr h2
    · rw [if_neg hc] at h; cases h

/-- A short trailer is rejected, for every hash function with 20-byte output (cf. the witness below). -/
theorem short_trailer_rejected (H : Bytes → Bytes) (hH : ∀ x, (H x).length = 20) :
    indexRead H ([68, 73, 82, 67, 0, 0, 0, 2, 0, 0, 0, 0] ++ List.replicate 19 7) = .error .checksum := by
  have h : readIndexDict ([68, 73, 82, 67, 0, 0, 0, 2, 0, 0, 0, 0] ++ List.replicate 19 7) =
      .ok ([], 2, [], List.replicate 19 7, [68, 73, 82, 67, 0, 0, 0, 2, 0, 0, 0, 0]) := rfl
  unfold indexRead
  rw [h]
  have hc : ¬ (checkSha H allowEmpty [68, 73, 82, 67, 0, 0, 0, 2, 0, 0, 0, 0] (List.replicate 19 7) = true) := by
    rw [checkSha_true_iff]
    intro hc
    rcases hc with h1 | ⟨_, h2⟩
    · have := congrArg List.length h1
      rw [hH] at this
      revert this; decide
    · revert h2; decide
  simp only
  rw [if_neg hc]

/-- Regression witness on the code before the repair: the same truncated file was accepted, whatever the
hash function. -/
theorem old_short_trailer_counterexample (H : Bytes → Bytes) :
    Old.indexRead H ([68, 73, 82, 67, 0, 0, 0, 2, 0, 0, 0, 0] ++ List.replicate 19 7) = .ok ([], 2, []) := by
  have h : Old.readIndexDict ([68, 73, 82, 67, 0, 0, 0, 2, 0, 0, 0, 0] ++ List.replicate 19 7) =
      .ok ([], 2, [], List.replicate 19 7, [68, 73, 82, 67, 0, 0, 0, 2, 0, 0, 0, 0]) := rfl
  unfold Old.indexRead
  rw [h]
  have hc : Old.checkSha H allowEmpty [68, 73, 82, 67, 0, 0, 0, 2, 0, 0, 0, 0] (List.replicate 19 7) = true := by
    have hl : ¬ (((List.replicate 19 (7 : UInt8)).take shaReadLen).length = 20) := by decide
    unfold Old.checkSha
    simp only [hl, decide_false, Bool.false_and, allowEmpty, Bool.not_true, Bool.false_or, Bool.and_false,
      Bool.not_false]
  simp only [hc, if_true]

/-- An index with git's `sdir` extension (sparse index) and a correct checksum is read, and the
extension is reported — for any hash function. -/
theorem lowercase_extension_read (H : Bytes → Bytes) (hH : ∀ x, (H x).length = 20) :
    indexRead H (fileBody 2 [] [(sdirSig, [])] ++ H (fileBody 2 [] [(sdirSig, [])])) =
      .ok ([], 2, [(sdirSig, [])]) := by
  have h := indexRead_body_trailer H (v := 2) (es := []) (xs := [(sdirSig, [])])
    (trailer := H (fileBody 2 [] [(sdirSig, [])])) (by decide) (by decide) (by intro e he; cases he)
    (by intro x hx; simp only [List.mem_singleton] at hx; subst hx; decide) (hH _)
    (checkSha_hash H hH allowEmpty _)
  rw [h]; rfl

/-- An unknown extension that is not optional (`link` of a split index) is refused with
`UnsupportedIndexExtension`, not with a checksum error and not silently. -/
theorem mandatory_extension_refused :
    indexRead (fun _ => List.replicate 20 9)
      (fileBody 2 [] [([108, 105, 110, 107], [1, 2])] ++ List.replicate 20 9) = .error .unsupportedExt := by
  decide +kernel

/-- Regression witness on the code before the repair: the correct sparse-index file above failed with
`ChecksumMismatch` (the four signature bytes were hashed, then un-read).  Evaluated with a stand-in hash. -/
theorem old_lowercase_extension_counterexample :
    Old.indexRead (fun _ => List.replicate 20 9) (fileBody 2 [] [(sdirSig, [])] ++ List.replicate 20 9)
      = .error .checksum ∧
    indexRead (fun _ => List.replicate 20 9) (fileBody 2 [] [(sdirSig, [])] ++ List.replicate 20 9)
      = .ok ([], 2, [(sdirSig, [])]) :=
  ⟨by decide +kernel, by decide +kernel⟩

end Dulwich.Props.C11
