/-
  C06 — A push reports success exactly for the refs it changed; server refs stay valid; atomic pushes are
  all-or-nothing.

  Only property theorems, non-vacuity examples and negation witnesses live here; helper lemmas are in
  Lemmas/ReceivePack.lean.  The model is Model/ReceivePack.lean (`applyPack` = `ReceivePackHandler._apply_pack`
  as coded, `localSendPack` = `LocalGitClient.send_pack`); literals, the exception tuple and the three
  behaviour switches `Flags.coded` come from Gen/ReceivePack.lean, regenerated from /repo on every run.

  The four full statements are `def …Statement (fl : Flags) : Prop`.  For the behaviour of the unchanged
  source (`Flags.unrepaired`; `coded_is_unrepaired_or_repaired` says which one the source is) each of them
  is FALSE — `…_counterexample` (finding F5).  What does hold for every command list is proved as
  `…_partial` for arbitrary flags; for `Flags.repaired` (the proposed fix: use the CAS result, reject
  missing objects, validate old values under atomic) the full statements are proved.
-/
import DulwichModel.Lemmas.ReceivePack

namespace Dulwich.Props.C06
open Dulwich Dulwich.ReceivePack
open Dulwich.Gen.ReceivePack (okMsg unpackName atomicCap)

/-- "the push reports success for ref `n`": no exception escaped the handler and the status entry for `n`
(after the `unpack` entry) is `ok`. -/
abbrev reportedOk (o : Outcome) (n : Name) : Prop :=
  o.raised = none ∧ (o.status.drop 1).lookup n = some okMsg

abbrev distinctNames (cmds : List Cmd) : Prop := (cmds.map (·.name)).Nodup

/-! ## 0. which behaviour the source has -/

/-- The translator found one of the two behaviours the theorems below talk about (all three switches off:
F5 present; all three on: repaired).  A half-applied fix breaks this obligation. -/
theorem coded_is_unrepaired_or_repaired : Flags.coded = Flags.unrepaired ∨ Flags.coded = Flags.repaired := by
  decide

/-! ## 1. status ok ⇔ the ref now holds the requested value -/

/-- Full statement.  (a) a ref reported `ok` holds the requested value; (b) a command that asked for a real
change (`old ≠ new`), named the right old value and whose ref now holds the new value is reported `ok`.
(For a command naming a stale old value see §2.) -/
def StatusIffChangedStatement (fl : Flags) : Prop :=
  ∀ (env : Env) (caps : List Bytes) (s : Srv) (u : Unpack) (cmds : List Cmd),
    HookSane env → distinctNames cmds → (applyPack fl env caps s u cmds).raised = none →
    ∀ c ∈ cmds,
      (reportedOk (applyPack fl env caps s u cmds) c.name → (applyPack fl env caps s u cmds).srv.refs c.name = c.target) ∧
      (c.old ≠ c.new → cur s.refs c.name = c.old →
        (applyPack fl env caps s u cmds).srv.refs c.name = c.target → reportedOk (applyPack fl env caps s u cmds) c.name)

/-- per-command relation between status, ref before and ref after, for `_apply_pack` -/
theorem applyPack_cmd (fl : Flags) (env : Env) (caps : List Bytes) (s : Srv) (u : Unpack) (cmds : List Cmd)
    (hs : HookSane env) (hnd : distinctNames cmds) (hr : (applyPack fl env caps s u cmds).raised = none) :
    ∀ c ∈ cmds,
      ((applyPack fl env caps s u cmds).srv.refs c.name = s.refs c.name ∧
        ¬ reportedOk (applyPack fl env caps s u cmds) c.name) ∨
      ∃ m, ((applyPack fl env caps s u cmds).status.drop 1).lookup c.name = some m ∧
        CmdResult fl s.refs (storeAfterUnpack s u cmds) ((applyPack fl env caps s u cmds).srv.refs c.name) c m := by
  intro c hc
  rcases applyPack_cases fl env caps s u cmds with h | ⟨h1, h2⟩
  · right
    rw [h] at hr ⊢
    simp only at hr
    exact refLoop_cmd fl env caps hs ⟨s.refs, storeAfterUnpack s u cmds⟩ cmds hnd hr c hc
  · left
    refine ⟨by rw [h1], ?_⟩
    rintro ⟨_, h⟩
    rw [h2] at h
    cases h

theorem target_ne_of_match {r : Refs} {c : Cmd} (hm : cur r c.name = c.old) (hne : c.old ≠ c.new) :
    r c.name ≠ c.target := by
  intro e
  unfold cur at hm
  unfold Cmd.target at e
  split at e
  · rename_i hz
    rw [e] at hm
    simp only at hm
    exact hne (by rw [← hm]; exact (by simpa [isZero] using hz : c.new = zeroSha).symm)
  · rw [e] at hm
    simp only at hm
    exact hne hm.symm

/-- (i) PARTIAL, any flags — in particular the code as it is: for a command whose old value matches the
ref, `ok` is reported exactly when the ref now holds the requested value.  Missing for the full statement:
part (a) for commands with a stale old value (false as coded: `status_iff_changed_counterexample`). -/
theorem status_iff_changed_partial (fl : Flags) (env : Env) (caps : List Bytes) (s : Srv) (u : Unpack)
    (cmds : List Cmd) (hs : HookSane env) (hnd : distinctNames cmds)
    (hr : (applyPack fl env caps s u cmds).raised = none) :
    ∀ c ∈ cmds, cur s.refs c.name = c.old →
      (reportedOk (applyPack fl env caps s u cmds) c.name → (applyPack fl env caps s u cmds).srv.refs c.name = c.target) ∧
      (c.old ≠ c.new → (applyPack fl env caps s u cmds).srv.refs c.name = c.target →
        reportedOk (applyPack fl env caps s u cmds) c.name) := by
  intro c hc hm
  rcases applyPack_cmd fl env caps s u cmds hs hnd hr c hc with ⟨h1, h2⟩ | ⟨m, hl, hres⟩
  · refine ⟨fun h => absurd h h2, fun hne ht => ?_⟩
    rw [h1] at ht
    exact absurd ht (target_ne_of_match hm hne)
  · rcases hres with ⟨h1, h2⟩ | ⟨_, h1, h2, _⟩
    · refine ⟨fun h => ?_, fun hne ht => ?_⟩
      · have : m = okMsg := by
          have := h.2; rw [hl] at this; exact Option.some.inj this
        exact absurd hm (h2 this).1
      · rw [h1] at ht
        exact absurd ht (target_ne_of_match hm hne)
    · exact ⟨fun _ => h1, fun _ _ => ⟨hr, by rw [hl, h2]⟩⟩

/-- FULL statement for every behaviour that uses the CAS result — in particular `Flags.repaired`. -/
theorem status_iff_changed_of_useCas (fl : Flags) (hcas : fl.useCas = true) : StatusIffChangedStatement fl := by
  intro env caps s u cmds hs hnd hr c hc
  rcases applyPack_cmd fl env caps s u cmds hs hnd hr c hc with ⟨h1, h2⟩ | ⟨m, hl, hres⟩
  · refine ⟨fun h => absurd h h2, fun hne hm ht => ?_⟩
    rw [h1] at ht
    exact absurd ht (target_ne_of_match hm hne)
  · rcases hres with ⟨h1, h2⟩ | ⟨_, h1, h2, _⟩
    · refine ⟨fun h => ?_, fun hne hm ht => ?_⟩
      · have : m = okMsg := by
          have := h.2; rw [hl] at this; exact Option.some.inj this
        have := (h2 this).2
        rw [hcas] at this
        cases this
      · rw [h1] at ht
        exact absurd ht (target_ne_of_match hm hne)
    · exact ⟨fun _ => h1, fun _ _ _ => ⟨hr, by rw [hl, h2]⟩⟩

theorem status_iff_changed_repaired : StatusIffChangedStatement Flags.repaired :=
  status_iff_changed_of_useCas Flags.repaired rfl

/-! ### witnesses (names `m`,`x`; ids `a`,`b`,`c`) -/

def nM : Name := [109]
def nX : Name := [120]
def idA : Id := [97]
def idB : Id := [98]
def idC : Id := [99]

/-- server: `m = b`; store = {a, b, c} -/
def srv1 : Srv := ⟨fun n => if n = nM then some idB else none, fun i => i = idA || i = idB || i = idC⟩
/-- stale update `m: a → c` (the server has `m = b`) -/
def staleCmd : Cmd := ⟨idA, idC, nM⟩
/-- create `x = c` -/
def createX : Cmd := ⟨zeroSha, idC, nX⟩

theorem quiet_sane : HookSane Env.quiet := fun _ => by simp [Env.quiet]

/-- As coded, the stale command `m: a → c` against `m = b` is answered `ok m` while `m` is still `b`
(F5, first part). -/
theorem status_iff_changed_counterexample : ¬ StatusIffChangedStatement Flags.unrepaired := by
  intro h
  have := (h Env.quiet [] srv1 (.ok []) [staleCmd] quiet_sane (by decide) (by decide) staleCmd
    List.mem_cons_self).1 (by decide)
  revert this
  decide

/-- non-vacuity of §1: an instance with hook, capability, pack and two commands satisfying all hypotheses,
where the matching command is applied and reported ok -/
example : distinctNames [staleCmd, createX] ∧
    (applyPack Flags.repaired Env.quiet [] srv1 (.ok []) [staleCmd, createX]).raised = none ∧
    reportedOk (applyPack Flags.repaired Env.quiet [] srv1 (.ok []) [staleCmd, createX]) nX ∧
    ¬ reportedOk (applyPack Flags.repaired Env.quiet [] srv1 (.ok []) [staleCmd, createX]) nM ∧
    (applyPack Flags.repaired Env.quiet [] srv1 (.ok []) [staleCmd, createX]).srv.refs nX = some idC := by
  decide

/-! ## 2. a stale old value: rejected and untouched -/

def StaleOldRejectedStatement (fl : Flags) : Prop :=
  ∀ (env : Env) (caps : List Bytes) (s : Srv) (u : Unpack) (cmds : List Cmd),
    HookSane env → distinctNames cmds →
    ∀ c ∈ cmds, cur s.refs c.name ≠ c.old →
      ¬ reportedOk (applyPack fl env caps s u cmds) c.name ∧
      (applyPack fl env caps s u cmds).srv.refs c.name = s.refs c.name

/-- PARTIAL, any flags (also when an exception escaped): the ref of a stale command is left untouched.
Missing: "reported as rejected" — false as coded (`stale_old_rejected_counterexample`). -/
theorem stale_old_untouched_partial (fl : Flags) (env : Env) (caps : List Bytes) (s : Srv) (u : Unpack)
    (cmds : List Cmd) (hs : HookSane env) (hnd : distinctNames cmds) :
    ∀ c ∈ cmds, cur s.refs c.name ≠ c.old →
      (applyPack fl env caps s u cmds).srv.refs c.name = s.refs c.name := by
  intro c hc hst
  rcases applyPack_cases fl env caps s u cmds with h | ⟨h1, _⟩
  · rw [h]
    rcases refLoop_ref fl env caps hs ⟨s.refs, storeAfterUnpack s u cmds⟩ cmds hnd c hc with h | ⟨h, _⟩
    · exact h
    · exact absurd h hst
  · rw [h1]

theorem stale_old_rejected_of_useCas (fl : Flags) (hcas : fl.useCas = true) : StaleOldRejectedStatement fl := by
  intro env caps s u cmds hs hnd c hc hst
  refine ⟨?_, stale_old_untouched_partial fl env caps s u cmds hs hnd c hc hst⟩
  intro hok
  rcases applyPack_cmd fl env caps s u cmds hs hnd hok.1 c hc with ⟨_, h2⟩ | ⟨m, hl, hres⟩
  · exact h2 hok
  · have hm : m = okMsg := by
      have := hok.2; rw [hl] at this; exact Option.some.inj this
    rcases hres with ⟨_, h2⟩ | ⟨h0, _⟩
    · have := (h2 hm).2
      rw [hcas] at this
      cases this
    · exact hst h0

theorem stale_old_rejected_repaired : StaleOldRejectedStatement Flags.repaired :=
  stale_old_rejected_of_useCas Flags.repaired rfl

theorem stale_old_rejected_counterexample : ¬ StaleOldRejectedStatement Flags.unrepaired := by
  intro h
  have := (h Env.quiet [] srv1 (.ok []) [staleCmd] quiet_sane (by decide) staleCmd
    List.mem_cons_self (by decide)).1
  revert this
  decide

example : cur srv1.refs staleCmd.name ≠ staleCmd.old ∧
    (applyPack Flags.unrepaired Env.quiet [] srv1 (.ok []) [staleCmd]).srv.refs nM = some idB := by decide

/-! ## 3. every ref target is in the object store -/

def RefsPointIntoStoreStatement (fl : Flags) : Prop :=
  ∀ (env : Env) (caps : List Bytes) (s : Srv) (u : Unpack) (cmds : List Cmd),
    HookSane env → RefsInStore s → RefsInStore (applyPack fl env caps s u cmds).srv

/-- general form: the invariant is preserved when every new value that is not checked by the code is in the
store after unpacking -/
theorem refs_point_into_store_gen (fl : Flags) (env : Env) (caps : List Bytes) (s : Srv) (u : Unpack)
    (cmds : List Cmd) (hs : HookSane env) (hi : RefsInStore s)
    (hnew : ∀ c ∈ cmds, isZero c.new = false → fl.checkNew = false → storeAfterUnpack s u cmds c.new = true) :
    RefsInStore (applyPack fl env caps s u cmds).srv := by
  rcases applyPack_cases fl env caps s u cmds with h | ⟨h1, _⟩
  · rw [h]
    apply refLoop_inStore fl env caps hs ⟨s.refs, storeAfterUnpack s u cmds⟩ cmds hnew
    intro n v hv
    exact storeAfterUnpack_mono s u cmds v (hi n v hv)
  · rw [h1]; exact hi

/-- PARTIAL, as coded: holds when the client only names new values that are in the store once its pack is
unpacked.  Missing: commands naming an object the server does not have (`refs_point_into_store_counterexample`). -/
theorem refs_point_into_store_partial (fl : Flags) (env : Env) (caps : List Bytes) (s : Srv) (u : Unpack)
    (cmds : List Cmd) (hs : HookSane env) (hi : RefsInStore s)
    (hnew : ∀ c ∈ cmds, isZero c.new = false → storeAfterUnpack s u cmds c.new = true) :
    RefsInStore (applyPack fl env caps s u cmds).srv :=
  refs_point_into_store_gen fl env caps s u cmds hs hi (fun c hc hz _ => hnew c hc hz)

theorem refs_point_into_store_of_checkNew (fl : Flags) (hck : fl.checkNew = true) :
    RefsPointIntoStoreStatement fl := by
  intro env caps s u cmds hs hi
  apply refs_point_into_store_gen fl env caps s u cmds hs hi
  intro c _ _ h
  rw [hck] at h
  cases h

theorem refs_point_into_store_repaired : RefsPointIntoStoreStatement Flags.repaired :=
  refs_point_into_store_of_checkNew Flags.repaired rfl

/-- empty server; the command creates `x = c` without sending the object (F5, second part) -/
def srv0 : Srv := ⟨fun _ => none, fun _ => false⟩

theorem refs_point_into_store_counterexample : ¬ RefsPointIntoStoreStatement Flags.unrepaired := by
  intro h
  have := h Env.quiet [] srv0 (.ok []) [createX] quiet_sane (fun _ _ hv => by cases hv) nX idC (by decide)
  revert this
  decide

/-- non-vacuity: the same command with the object in the pack keeps the invariant and sets the ref -/
example : (applyPack Flags.unrepaired Env.quiet [] srv0 (.ok [idC]) [createX]).srv.refs nX = some idC ∧
    (applyPack Flags.unrepaired Env.quiet [] srv0 (.ok [idC]) [createX]).srv.store idC = true := by decide

/-! ## 4. atomic: all or none -/

def AtomicAllOrNoneStatement (fl : Flags) : Prop :=
  ∀ (env : Env) (caps : List Bytes) (s : Srv) (u : Unpack) (cmds : List Cmd),
    caps.contains atomicCap = true → distinctNames cmds → (∀ c ∈ cmds, env.fault c.name = none) →
    (applyPack fl env caps s u cmds).srv.refs = s.refs ∨
      ∀ c ∈ cmds, (applyPack fl env caps s u cmds).srv.refs c.name = c.target

theorem atomic_gen (fl : Flags) (env : Env) (caps : List Bytes) (s : Srv) (u : Unpack) (cmds : List Cmd)
    (hat : caps.contains atomicCap = true) (hnd : distinctNames cmds) (hf : ∀ c ∈ cmds, env.fault c.name = none)
    (happ : (fl.atomicOld = true ∧ fl.checkNew = true) ∨
      ∀ c ∈ cmds, cur s.refs c.name = c.old ∧ (isZero c.new = false → storeAfterUnpack s u cmds c.new = true)) :
    (applyPack fl env caps s u cmds).srv.refs = s.refs ∨
      ∀ c ∈ cmds, (applyPack fl env caps s u cmds).srv.refs c.name = c.target := by
  rcases applyPack_cases fl env caps s u cmds with h | ⟨h1, _⟩
  · rw [h]
    exact refLoop_atomic fl env caps ⟨s.refs, storeAfterUnpack s u cmds⟩ cmds hat hnd hf happ
  · left; rw [h1]

/-- PARTIAL, any flags — the code as it is: all-or-nothing holds when every command names the current old
value and an object the server has after unpacking (then only hooks can fail, and those are validated
first).  Missing: a stale old value or a missing object among the commands
(`atomic_all_or_none_counterexample`). -/
theorem atomic_all_or_none_partial (fl : Flags) (env : Env) (caps : List Bytes) (s : Srv) (u : Unpack)
    (cmds : List Cmd) (hat : caps.contains atomicCap = true) (hnd : distinctNames cmds)
    (hf : ∀ c ∈ cmds, env.fault c.name = none)
    (happ : ∀ c ∈ cmds, cur s.refs c.name = c.old ∧ (isZero c.new = false → storeAfterUnpack s u cmds c.new = true)) :
    (applyPack fl env caps s u cmds).srv.refs = s.refs ∨
      ∀ c ∈ cmds, (applyPack fl env caps s u cmds).srv.refs c.name = c.target :=
  atomic_gen fl env caps s u cmds hat hnd hf (Or.inr happ)

/-- FULL statement for the repaired behaviour (old values and new objects validated before anything is
applied).  The hypothesis "no I/O failure while applying" (`env.fault … = none`) is part of the statement:
neither the code nor the proposed fix rolls back. -/
theorem atomic_all_or_none_repaired : AtomicAllOrNoneStatement Flags.repaired := by
  intro env caps s u cmds hat hnd hf
  exact atomic_gen Flags.repaired env caps s u cmds hat hnd hf (Or.inl ⟨rfl, rfl⟩)

/-- As coded, `atomic` with `[create x = c, stale m: a → c]` applies the first and not the second
(F5, third part). -/
theorem atomic_all_or_none_counterexample : ¬ AtomicAllOrNoneStatement Flags.unrepaired := by
  intro h
  have := h Env.quiet [atomicCap] srv1 (.ok []) [createX, staleCmd] (by decide) (by decide) (fun _ _ => rfl)
  rcases this with h | h
  · have := congrFun h nX
    revert this
    decide
  · have := h staleCmd (by decide)
    revert this
    decide

example : (applyPack Flags.unrepaired Env.quiet [atomicCap] srv1 (.ok []) [createX, staleCmd]).srv.refs nX = some idC ∧
    (applyPack Flags.unrepaired Env.quiet [atomicCap] srv1 (.ok []) [createX, staleCmd]).srv.refs nM = some idB := by
  decide

/-! ## 5. refs only change as commanded; one status entry per command, in order -/

/-- (ii) any flags, any command list (duplicates, escaping exceptions included): afterwards every ref either
is what it was or holds the value some command for that name asked for (`none` = deleted). -/
theorem refs_change_only_as_commanded (fl : Flags) (env : Env) (caps : List Bytes) (s : Srv) (u : Unpack)
    (cmds : List Cmd) (hs : HookSane env) (n : Name) :
    (applyPack fl env caps s u cmds).srv.refs n = s.refs n ∨
      ∃ c ∈ cmds, c.name = n ∧ (applyPack fl env caps s u cmds).srv.refs n = c.target := by
  rcases applyPack_cases fl env caps s u cmds with h | ⟨h1, _⟩
  · rw [h]
    exact refLoop_only_commanded fl env caps hs ⟨s.refs, storeAfterUnpack s u cmds⟩ cmds n
  · left; rw [h1]

/-- (iv) when no exception escapes, the status list is the `unpack` entry followed by exactly one entry per
command, in command order — or the single failed-unpack entry. -/
theorem status_one_entry_per_command (fl : Flags) (env : Env) (caps : List Bytes) (s : Srv) (u : Unpack)
    (cmds : List Cmd) (hr : (applyPack fl env caps s u cmds).raised = none) :
    (applyPack fl env caps s u cmds).status.map (·.1) = unpackName :: cmds.map (·.name) ∨
    (applyPack fl env caps s u cmds).status.drop 1 = [] := by
  rcases applyPack_cases fl env caps s u cmds with h | ⟨_, h2⟩
  · left
    rw [h] at hr ⊢
    simp only at hr
    simp only [List.map_cons]
    rw [refLoop_status_names fl env caps _ cmds hr]
  · right; exact h2

/-- An exception from the ref container that neither handler catches (as coded: `RefFormatError` for an
invalid ref name — it is not a `KeyError`) ends the handler after earlier commands were applied: `x` is
created, nothing is reported. -/
theorem bad_refname_aborts_counterexample :
    let env : Env := ⟨fun n => if n = nM then some [[82]] else none, fun _ => none⟩
    let o := applyPack Flags.unrepaired env [] srv0 (.ok [idC]) [createX, ⟨zeroSha, idC, nM⟩]
    o.raised = some .refError ∧ o.srv.refs nX = createX.target ∧ ¬ reportedOk o nX := by
  decide

end Dulwich.Props.C06
