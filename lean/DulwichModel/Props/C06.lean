/-
  C06 — A push reports success exactly for the refs it changed; server refs stay valid; atomic pushes are
  all-or-nothing.

  Only property theorems, non-vacuity examples and negation witnesses live here; helper lemmas are in
  Lemmas/ReceivePack.lean.  The model is Model/ReceivePack.lean (`applyPack` = `ReceivePackHandler._apply_pack`
  as coded, `localSendPack` = `LocalGitClient.send_pack`); literals, the exception tuple and the three
  behaviour switches `Flags.coded` come from Gen/ReceivePack.lean, regenerated from /repo on every run.

  The four full statements are `def …Statement (fl : Flags) : Prop`.  For the behaviour of the unchanged
  source (`Flags.unrepaired`: all three switches off — the evidence records which switches the translator
  found in the source) each of them is FALSE — `…_counterexample` (finding F5).  What does hold for every
  command list is proved as `…_partial` for ARBITRARY flags, so in particular for `Flags.coded` whatever the
  source does; the full statements are proved for every behaviour that has the relevant switch on
  (`…_of_useCas`, `…_of_checkNew`, `…_of_validation`).  §8 instantiates them at `Flags.coded`: those are the
  headline obligations about the source, and they break when a fix is reverted.
-/
import DulwichModel.Lemmas.ReceivePack

namespace Dulwich.Props.C06
open Dulwich Dulwich.ReceivePack
open Dulwich.Gen.ReceivePack (okMsg unpackName atomicCap)

/-! ## 1. status ok ⇔ the ref now holds the requested value -/

/-- Full statement.  (a) a ref reported `ok` holds the requested value; (b) a command that asked for a real
change (`old ≠ new`), named the right old value and whose ref now holds the new value is reported `ok`.
(For a command naming a stale old value see §2.) -/
def StatusIffChangedStatement (fl : Flags) : Prop :=
  ∀ (env : Env) (caps : List Bytes) (s : Srv) (u : Unpack) (cmds : List Cmd),
    HookSane env → distinctNames cmds → (applyPack fl env caps s u cmds).raised = none →
    ∀ c ∈ cmds,
      (reportedOk (applyPack fl env caps s u cmds) c.name → (applyPack fl env caps s u cmds).srv.refs c.name = c.target) ∧
      (c.old ≠ c.new → cur s.refs c.name = c.old →
        (applyPack fl env caps s u cmds).srv.refs c.name = c.target → reportedOk (applyPack fl env caps s u cmds) c.name)

/-- (i) PARTIAL, any flags — in particular the code as it is: for a command whose old value matches the
ref, `ok` is reported exactly when the ref now holds the requested value.  Missing for the full statement:
part (a) for commands with a stale old value (false as coded: `status_iff_changed_counterexample`). -/
theorem status_iff_changed_partial (fl : Flags) (env : Env) (caps : List Bytes) (s : Srv) (u : Unpack)
    (cmds : List Cmd) (hs : HookSane env) (hnd : distinctNames cmds)
    (hr : (applyPack fl env caps s u cmds).raised = none) :
    ∀ c ∈ cmds, cur s.refs c.name = c.old →
      (reportedOk (applyPack fl env caps s u cmds) c.name → (applyPack fl env caps s u cmds).srv.refs c.name = c.target) ∧
      (c.old ≠ c.new → (applyPack fl env caps s u cmds).srv.refs c.name = c.target →
        reportedOk (applyPack fl env caps s u cmds) c.name) := by
  intro c hc hm
  rcases applyPack_cmd fl env caps s u cmds hs hnd hr c hc with ⟨h1, h2⟩ | ⟨m, hl, hres⟩
  · refine ⟨fun h => absurd h h2, fun hne ht => ?_⟩
    rw [h1] at ht
    exact absurd ht (target_ne_of_match hm hne)
  · rcases hres with ⟨h1, h2⟩ | ⟨_, h1, h2⟩
    · refine ⟨fun h => ?_, fun hne ht => ?_⟩
      · have : m = okMsg := by
          have := h.2; rw [hl] at this; exact Option.some.inj this
        exact absurd hm (h2 this).1
      · rw [h1] at ht
        exact absurd ht (target_ne_of_match hm hne)
    · exact ⟨fun _ => h1, fun _ _ => ⟨hr, by rw [hl, h2]⟩⟩

/-- FULL statement for every behaviour that uses the CAS result — in particular `Flags.repaired`. -/
theorem status_iff_changed_of_useCas (fl : Flags) (hcas : fl.useCas = true) : StatusIffChangedStatement fl := by
  intro env caps s u cmds hs hnd hr c hc
  rcases applyPack_cmd fl env caps s u cmds hs hnd hr c hc with ⟨h1, h2⟩ | ⟨m, hl, hres⟩
  · refine ⟨fun h => absurd h h2, fun hne hm ht => ?_⟩
    rw [h1] at ht
    exact absurd ht (target_ne_of_match hm hne)
  · rcases hres with ⟨h1, h2⟩ | ⟨_, h1, h2⟩
    · refine ⟨fun h => ?_, fun hne hm ht => ?_⟩
      · have : m = okMsg := by
          have := h.2; rw [hl] at this; exact Option.some.inj this
        have := (h2 this).2
        rw [hcas] at this
        cases this
      · rw [h1] at ht
        exact absurd ht (target_ne_of_match hm hne)
    · exact ⟨fun _ => h1, fun _ _ _ => ⟨hr, by rw [hl, h2]⟩⟩

theorem status_iff_changed_repaired : StatusIffChangedStatement Flags.repaired :=
  status_iff_changed_of_useCas Flags.repaired rfl

/-! ### witnesses (names `m`,`x`; ids `a`,`b`,`c`) -/

def nM : Name := [109]
def nX : Name := [120]
def idA : Id := [97]
def idB : Id := [98]
def idC : Id := [99]

/-- server: `m = b`; store = {a, b, c} -/
def srv1 : Srv := ⟨fun n => if n = nM then some idB else none, fun i => i = idA || i = idB || i = idC⟩
/-- stale update `m: a → c` (the server has `m = b`) -/
def staleCmd : Cmd := ⟨idA, idC, nM⟩
/-- create `x = c` -/
def createX : Cmd := ⟨zeroSha, idC, nX⟩

/-- As coded, the stale command `m: a → c` against `m = b` is answered `ok m` while `m` is still `b`
(F5, first part). -/
theorem status_iff_changed_counterexample : ¬ StatusIffChangedStatement Flags.unrepaired := by
  intro h
  have := (h Env.quiet [] srv1 (.ok []) [staleCmd] quiet_sane (by decide) (by decide) staleCmd
    List.mem_cons_self).1 (by decide)
  revert this
  decide

/-- non-vacuity of §1: a two-command instance satisfying all hypotheses, where the matching command is applied
and reported ok and the stale one is rejected -/
example : distinctNames [staleCmd, createX] ∧
    (applyPack Flags.repaired Env.quiet [] srv1 (.ok []) [staleCmd, createX]).raised = none ∧
    reportedOk (applyPack Flags.repaired Env.quiet [] srv1 (.ok []) [staleCmd, createX]) nX ∧
    ¬ reportedOk (applyPack Flags.repaired Env.quiet [] srv1 (.ok []) [staleCmd, createX]) nM ∧
    (applyPack Flags.repaired Env.quiet [] srv1 (.ok []) [staleCmd, createX]).srv.refs nX = some idC := by
  decide

/-! ## 2. a stale old value: rejected and untouched -/

def StaleOldRejectedStatement (fl : Flags) : Prop :=
  ∀ (env : Env) (caps : List Bytes) (s : Srv) (u : Unpack) (cmds : List Cmd),
    HookSane env → distinctNames cmds →
    ∀ c ∈ cmds, cur s.refs c.name ≠ c.old →
      ¬ reportedOk (applyPack fl env caps s u cmds) c.name ∧
      (applyPack fl env caps s u cmds).srv.refs c.name = s.refs c.name

/-- PARTIAL, any flags (also when an exception escaped): the ref of a stale command is left untouched.
Missing: "reported as rejected" — false as coded (`stale_old_rejected_counterexample`). -/
theorem stale_old_untouched_partial (fl : Flags) (env : Env) (caps : List Bytes) (s : Srv) (u : Unpack)
    (cmds : List Cmd) (hs : HookSane env) (hnd : distinctNames cmds) :
    ∀ c ∈ cmds, cur s.refs c.name ≠ c.old →
      (applyPack fl env caps s u cmds).srv.refs c.name = s.refs c.name := by
  intro c hc hst
  rcases applyPack_cases fl env caps s u cmds with h | ⟨h1, _⟩
  · rw [h]
    rcases refLoop_ref fl env caps hs ⟨s.refs, storeAfterUnpack s u cmds⟩ cmds hnd c hc with h | ⟨h, _⟩
    · exact h
    · exact absurd h hst
  · rw [h1]

theorem stale_old_rejected_of_useCas (fl : Flags) (hcas : fl.useCas = true) : StaleOldRejectedStatement fl := by
  intro env caps s u cmds hs hnd c hc hst
  refine ⟨?_, stale_old_untouched_partial fl env caps s u cmds hs hnd c hc hst⟩
  intro hok
  rcases applyPack_cmd fl env caps s u cmds hs hnd hok.1 c hc with ⟨_, h2⟩ | ⟨m, hl, hres⟩
  · exact h2 hok
  · have hm : m = okMsg := by
      have := hok.2; rw [hl] at this; exact Option.some.inj this
    rcases hres with ⟨_, h2⟩ | ⟨h0, _⟩
    · have := (h2 hm).2
      rw [hcas] at this
      cases this
    · exact hst h0

theorem stale_old_rejected_repaired : StaleOldRejectedStatement Flags.repaired :=
  stale_old_rejected_of_useCas Flags.repaired rfl

theorem stale_old_rejected_counterexample : ¬ StaleOldRejectedStatement Flags.unrepaired := by
  intro h
  have := (h Env.quiet [] srv1 (.ok []) [staleCmd] quiet_sane (by decide) staleCmd
    List.mem_cons_self (by decide)).1
  revert this
  decide

example : cur srv1.refs staleCmd.name ≠ staleCmd.old ∧
    (applyPack Flags.unrepaired Env.quiet [] srv1 (.ok []) [staleCmd]).srv.refs nM = some idB := by decide

/-! ## 3. every ref target is in the object store -/

def RefsPointIntoStoreStatement (fl : Flags) : Prop :=
  ∀ (env : Env) (caps : List Bytes) (s : Srv) (u : Unpack) (cmds : List Cmd),
    HookSane env → RefsInStore s → RefsInStore (applyPack fl env caps s u cmds).srv

/-- PARTIAL, as coded: holds when the client only names new values that are in the store once its pack is
unpacked.  Missing: commands naming an object the server does not have (`refs_point_into_store_counterexample`). -/
theorem refs_point_into_store_partial (fl : Flags) (env : Env) (caps : List Bytes) (s : Srv) (u : Unpack)
    (cmds : List Cmd) (hs : HookSane env) (hi : RefsInStore s)
    (hnew : ∀ c ∈ cmds, isZero c.new = false → storeAfterUnpack s u cmds c.new = true) :
    RefsInStore (applyPack fl env caps s u cmds).srv :=
  applyPack_inStore_gen fl env caps s u cmds hs hi (fun c hc hz _ => hnew c hc hz) (fun c hc hz _ => hnew c hc hz)

theorem refs_point_into_store_of_checkNew (fl : Flags) (hck : fl.checkNew = true) (han : fl.atomicNew = true) :
    RefsPointIntoStoreStatement fl := by
  intro env caps s u cmds hs hi
  apply applyPack_inStore_gen fl env caps s u cmds hs hi
  · intro c _ _ h
    rw [hck] at h
    cases h
  · intro c _ _ h
    rw [han] at h
    cases h

theorem refs_point_into_store_repaired : RefsPointIntoStoreStatement Flags.repaired :=
  refs_point_into_store_of_checkNew Flags.repaired rfl rfl

/-- empty server; the command creates `x = c` without sending the object (F5, second part) -/
def srv0 : Srv := ⟨fun _ => none, fun _ => false⟩

theorem refs_point_into_store_counterexample : ¬ RefsPointIntoStoreStatement Flags.unrepaired := by
  intro h
  have := h Env.quiet [] srv0 (.ok []) [createX] quiet_sane (fun _ _ hv => by cases hv) nX idC (by decide)
  revert this
  decide

/-- non-vacuity: the same command with the object in the pack keeps the invariant and sets the ref -/
example : (applyPack Flags.unrepaired Env.quiet [] srv0 (.ok [idC]) [createX]).srv.refs nX = some idC ∧
    (applyPack Flags.unrepaired Env.quiet [] srv0 (.ok [idC]) [createX]).srv.store idC = true := by decide

/-! ## 4. atomic: all or none -/

def AtomicAllOrNoneStatement (fl : Flags) : Prop :=
  ∀ (env : Env) (caps : List Bytes) (s : Srv) (u : Unpack) (cmds : List Cmd),
    caps.contains atomicCap = true → distinctNames cmds → (∀ c ∈ cmds, env.fault c.name = none) →
    (applyPack fl env caps s u cmds).srv.refs = s.refs ∨
      ∀ c ∈ cmds, (applyPack fl env caps s u cmds).srv.refs c.name = c.target

/-- PARTIAL, any flags — the code as it is: all-or-nothing holds when every command names the current old
value and an object the server has after unpacking (then only hooks can fail, and those are validated
first).  Missing: a stale old value or a missing object among the commands
(`atomic_all_or_none_counterexample`). -/
theorem atomic_all_or_none_partial (fl : Flags) (env : Env) (caps : List Bytes) (s : Srv) (u : Unpack)
    (cmds : List Cmd) (hat : caps.contains atomicCap = true) (hnd : distinctNames cmds)
    (hf : ∀ c ∈ cmds, env.fault c.name = none)
    (happ : ∀ c ∈ cmds, cur s.refs c.name = c.old ∧ (isZero c.new = false → storeAfterUnpack s u cmds c.new = true)) :
    (applyPack fl env caps s u cmds).srv.refs = s.refs ∨
      ∀ c ∈ cmds, (applyPack fl env caps s u cmds).srv.refs c.name = c.target :=
  applyPack_atomic_gen fl env caps s u cmds hat hnd hf (Or.inr happ)

/-- FULL statement for the repaired behaviour (old values and new objects validated before anything is
applied).  The hypothesis "no I/O failure while applying" (`env.fault … = none`) is part of the statement:
neither the code nor the proposed fix rolls back. -/
theorem atomic_all_or_none_of_validation (fl : Flags) (ha : fl.atomicOld = true) (hn : fl.atomicNew = true) :
    AtomicAllOrNoneStatement fl := by
  intro env caps s u cmds hat hnd hf
  exact applyPack_atomic_gen fl env caps s u cmds hat hnd hf (Or.inl ⟨ha, hn⟩)

theorem atomic_all_or_none_repaired : AtomicAllOrNoneStatement Flags.repaired :=
  atomic_all_or_none_of_validation Flags.repaired rfl rfl

/-- As coded, `atomic` with `[create x = c, stale m: a → c]` applies the first and not the second
(F5, third part). -/
theorem atomic_all_or_none_counterexample : ¬ AtomicAllOrNoneStatement Flags.unrepaired := by
  intro h
  have := h Env.quiet [atomicCap] srv1 (.ok []) [createX, staleCmd] (by decide) (by decide) (fun _ _ => rfl)
  rcases this with h | h
  · have := congrFun h nX
    revert this
    decide
  · have := h staleCmd (by decide)
    revert this
    decide

example : (applyPack Flags.unrepaired Env.quiet [atomicCap] srv1 (.ok []) [createX, staleCmd]).srv.refs nX = some idC ∧
    (applyPack Flags.unrepaired Env.quiet [atomicCap] srv1 (.ok []) [createX, staleCmd]).srv.refs nM = some idB := by
  decide

/-! ## 5. refs only change as commanded; one status entry per command, in order -/

/-- (ii) any flags, any command list (duplicates, escaping exceptions included): afterwards every ref either
is what it was or holds the value some command for that name asked for (`none` = deleted). -/
theorem refs_change_only_as_commanded (fl : Flags) (env : Env) (caps : List Bytes) (s : Srv) (u : Unpack)
    (cmds : List Cmd) (hs : HookSane env) (n : Name) :
    (applyPack fl env caps s u cmds).srv.refs n = s.refs n ∨
      ∃ c ∈ cmds, c.name = n ∧ (applyPack fl env caps s u cmds).srv.refs n = c.target := by
  rcases applyPack_cases fl env caps s u cmds with h | ⟨h1, _⟩
  · rw [h]
    exact refLoop_only_commanded fl env caps hs ⟨s.refs, storeAfterUnpack s u cmds⟩ cmds n
  · left; rw [h1]

/-- (iv) when no exception escapes, the status list is the `unpack` entry followed by exactly one entry per
command, in command order — or the single failed-unpack entry. -/
theorem status_one_entry_per_command (fl : Flags) (env : Env) (caps : List Bytes) (s : Srv) (u : Unpack)
    (cmds : List Cmd) (hr : (applyPack fl env caps s u cmds).raised = none) :
    (applyPack fl env caps s u cmds).status.map (·.1) = unpackName :: cmds.map (·.name) ∨
    (applyPack fl env caps s u cmds).status.drop 1 = [] := by
  rcases applyPack_cases fl env caps s u cmds with h | ⟨_, h2⟩
  · left
    rw [h] at hr ⊢
    simp only at hr
    simp only [List.map_cons]
    rw [refLoop_status_names fl env caps _ cmds hr]
  · right; exact h2

/-- The hypothesis `raised = none` of §1 follows from a condition on the inputs alone: deletions are not
refused, every exception the ref container raises for a commanded name is of a class one of the two handlers
catches (`FileLocked`, `all_exceptions`, or `KeyError`/`RefFormatError`), and a failing unpack raises something in
`all_exceptions`. -/
theorem no_exception_escapes (fl : Flags) (env : Env) (caps : List Bytes) (s : Srv) (u : Unpack) (cmds : List Cmd)
    (h : NoEscape env caps cmds)
    (hu : ∀ mro, u = .raises mro → catches Gen.ReceivePack.allExceptions mro = true) :
    (applyPack fl env caps s u cmds).raised = none :=
  applyPack_no_raise fl env caps s u cmds h hu

/-- non-vacuity: with the source's own capability list the condition holds for a quiet environment -/
example : NoEscape Env.quiet [atomicCap] [createX, staleCmd] :=
  ⟨by decide, fun _ _ _ h => by simp [Env.quiet] at h⟩

/-- An exception from the ref container that neither handler catches (as coded: `RefFormatError` for an
invalid ref name — it is not a `KeyError`) ends the handler after earlier commands were applied: `x` is
created, nothing is reported. -/
theorem bad_refname_aborts_counterexample :
    let env : Env := ⟨fun n => if n = nM then some [[82]] else none, fun _ => none⟩
    let o := applyPack Flags.unrepaired env [] srv0 (.ok [idC]) [createX, ⟨zeroSha, idC, nM⟩]
    o.raised = some .refError ∧ o.srv.refs nX = createX.target ∧ ¬ reportedOk o nX := by
  decide

/-! ## 6. the status report: what `_report_status` writes is what `ReportStatusParser` reads -/

/-- For every status list `_apply_pack` can yield after a successful unpack — ref names without whitespace,
messages `ok` or with non-blank ends — the client's `check()` on the lines `_report_status` writes returns
exactly one entry per status, in order, `None` for `ok` and the message otherwise.  The line formats, the
`unpack`/`ok`/`ng` keywords and the separator are the literals read from the source; changing any of them
on one side only breaks this proof. -/
theorem report_parse_roundtrip (st : List (Bytes × Bytes))
    (h : ∀ p ∈ st, CleanName p.1 ∧ (p.2 = okMsg ∨ CleanMsg p.2)) :
    clientParse (reportStatus ((unpackName, okMsg) :: st)) = .ok (st.map clientStatus) := by
  unfold clientParse reportStatus
  have h0 : Parser.feed {} (((unpackName, okMsg) :: st).map (fun p => some (statusLine p)) ++ [none]) =
      .ok { done := true, packStatus := some Gen.ReceivePack.parserUnpackOk,
            refStatuses := st.map (fun p => strip (statusLine p)) } := by
    simp only [List.map_cons, List.cons_append, Parser.feed]
    have hp : Parser.handlePacket {} (some (statusLine (unpackName, okMsg))) =
        .ok { done := false, packStatus := some Gen.ReceivePack.parserUnpackOk, refStatuses := [] } := by decide
    rw [hp]
    simp only
    have := feed_lines ⟨false, some Gen.ReceivePack.parserUnpackOk, []⟩ Gen.ReceivePack.parserUnpackOk rfl rfl
      (st.map statusLine)
    simp only [List.map_map, Function.comp_def, List.nil_append] at this
    exact this
  rw [h0]
  simp only [Parser.check]
  exact checkStatuses_report st h

/-- non-vacuity: a two-entry report with an `ng` line -/
example : clientParse (reportStatus [(unpackName, okMsg), (nM, okMsg), (nX, Gen.ReceivePack.failedWriteMsg)]) =
    .ok [(nM, none), (nX, some Gen.ReceivePack.failedWriteMsg)] := by decide

/-- `handle` writes the report exactly when the client asked for report-status and no exception escaped; a
failed unpack is reported as such and read by the client as SendPackError. -/
theorem unpack_failure_reported :
    clientParse (reportStatus [(unpackName, unpackErrorMsg)]) = .error .sendPack := by decide

/-! ## 7. the in-process path `LocalGitClient.send_pack` -/

abbrev distinctLocal (cmds : List (Name × Id)) : Prop := (cmds.map (·.1)).Nodup

/-- (iii) On the local path the recorded status is exact, for every behaviour `lf` that takes the status from
the compare-and-swap, every snapshot `snap` the client read, every target state `t` at the time of the
updates (so also when a second pusher moved refs in between), atomic or not: when a status list is
returned, each command has one entry; success (`none`) is recorded only when the current value equals the
old value the client read, and then the ref holds the requested value; otherwise the ref is untouched. -/
theorem local_status_exact (lf : LocalFlags) (hcas : lf.usesCas = true) (snap : Refs) (t : LocalRepo)
    (atomic : Bool) (packIds have_ : List Id)
    (cmds : List (Name × Id)) (hnd : distinctLocal cmds) (st : List (Name × Option LocalMsg))
    (hst : (localSendPack lf snap t atomic packIds have_ cmds).2 = some st) :
    ∀ c ∈ cmds, ∃ m, st.lookup c.1 = some m ∧
        ((m = none ∧ cur t.refs c.1 = snapOld snap c.1 ∧
            (localSendPack lf snap t atomic packIds have_ cmds).1.refs c.1 = localTarget c) ∨
         (m ≠ none ∧ (localSendPack lf snap t atomic packIds have_ cmds).1.refs c.1 = t.refs c.1)) := by
  unfold localSendPack at hst ⊢
  simp only at hst ⊢
  split at hst
  · cases hst
  · rename_i h1
    rw [if_neg h1]
    split at hst
    · -- atomic pre-check failed: every entry is a failure, nothing applied
      rename_i h2
      rw [if_pos h2]
      simp only [Option.some.injEq] at hst
      subst hst
      intro c hc
      have hmem : c.1 ∈ (cmds.map (fun c => (c.1, localPrecheck lf snap { t with store := t.store.add packIds } c))).map (·.1) := by
        simp only [List.map_map]
        exact List.mem_map_of_mem (f := fun c => c.1) hc
      obtain ⟨m, hm⟩ := lookup_map_some (fun (o : Option LocalMsg) => match o with | some m => m | none => LocalMsg.atomicFailed)
        _ c.1 hmem
      exact ⟨some m, hm, Or.inr ⟨by simp, rfl⟩⟩
    · rename_i h2
      rw [if_neg h2]
      simp only [Option.some.injEq] at hst
      subst hst
      intro c hc
      obtain ⟨m, hm, hres⟩ := localApply_exact lf hcas snap { t with store := t.store.add packIds } cmds hnd c hc
      refine ⟨m, hm, ?_⟩
      rcases hres with ⟨h1, h2, h3⟩ | ⟨h2, h3⟩
      · exact Or.inl ⟨h2, h1, h3⟩
      · exact Or.inr ⟨h2, h3⟩

/-- the early return (`ref_status={}`: nothing to do) leaves the target untouched -/
theorem local_early_return_untouched (lf : LocalFlags) (snap : Refs) (t : LocalRepo) (atomic : Bool)
    (packIds have_ : List Id)
    (cmds : List (Name × Id)) (hst : (localSendPack lf snap t atomic packIds have_ cmds).2 = none) :
    (localSendPack lf snap t atomic packIds have_ cmds).1.refs = t.refs := by
  unfold localSendPack at hst ⊢
  simp only at hst ⊢
  split at hst
  · rename_i h1
    rw [if_pos h1]
  · split at hst <;> cases hst

/-- a stale command on the local path is rejected and its ref untouched -/
theorem local_stale_rejected (lf : LocalFlags) (hcas : lf.usesCas = true) (snap : Refs) (t : LocalRepo)
    (cmds : List (Name × Id)) (hnd : distinctLocal cmds) :
    ∀ c ∈ cmds, cur t.refs c.1 ≠ snapOld snap c.1 →
      ∃ m, (localApply lf snap t cmds).2.lookup c.1 = some (some m) ∧
        (localApply lf snap t cmds).1.refs c.1 = t.refs c.1 :=
  localApply_stale lf hcas snap t cmds hnd

/-- FULL, local path, for every behaviour that tests the object store in the apply loop: the target never ends
up with a ref naming an object it does not have — whatever `generate_pack_data` supplied, racing or not. -/
theorem local_refs_point_into_store_of_checksNew (lf : LocalFlags) (hcas : lf.usesCas = true)
    (hk : lf.checksNew = true) (snap : Refs) (t : LocalRepo) (atomic : Bool) (packIds have_ : List Id)
    (cmds : List (Name × Id)) (hi : LocalInStore t) :
    LocalInStore (localSendPack lf snap t atomic packIds have_ cmds).1 := by
  have hi1 : LocalInStore { t with store := t.store.add packIds } := by
    intro n v hv
    have := hi n v hv
    simp [Store.add, this]
  unfold localSendPack
  simp only
  split
  · exact hi
  · split
    · exact hi1
    · exact localApply_inStore lf hcas hk snap _ cmds hi1

/-- FULL, local path, sequential reading of "atomic": when the pre-check reads the value the compare-and-swap
will see and tests the object store, `atomic=True` is all-or-nothing for every snapshot and every target
state at the time of the call (in particular when a second pusher moved refs after the client read them).
NOT covered — and not true of the code: a writer acting between the pre-check and the last update (no lock is
held across the batch). -/
theorem local_atomic_all_or_none_of_precheck (lf : LocalFlags) (hcas : lf.usesCas = true)
    (hp : lf.precheckPeeled = false) (hn : lf.precheckNew = true)
    (snap : Refs) (t : LocalRepo) (packIds have_ : List Id) (cmds : List (Name × Id)) (hnd : distinctLocal cmds) :
    (localSendPack lf snap t true packIds have_ cmds).1.refs = t.refs ∨
      ∀ c ∈ cmds, (localSendPack lf snap t true packIds have_ cmds).1.refs c.1 = localTarget c := by
  unfold localSendPack
  simp only
  split
  · exact Or.inl rfl
  · split
    · exact Or.inl rfl
    · rename_i hpre
      right
      apply localApply_all lf hcas snap _ cmds hnd
      intro c hc
      apply localPrecheck_pass lf hp hn snap _ c
      -- no entry of the pre-check list is a failure
      simp only [Bool.true_and, List.any_map, List.any_eq_true, Function.comp, not_exists, not_and] at hpre
      have := hpre c hc
      cases h : localPrecheck lf snap { t with store := t.store.add packIds } c with
      | none => rfl
      | some m => simp [h] at this

/-- witnesses for the local path: the client read `m = b`; meanwhile a second pusher set `m = a` (loose ref) -/
def snapB : Refs := fun n => if n = nM then some idB else none
def racedRepo : LocalRepo := ⟨fun n => if n = nM then some idA else none, fun i => i = idA || i = idB || i = idC, fun _ => false⟩

/-- Before the fix, `atomic=True` on the local path is not all-or-nothing when a second pusher moved a LOOSE
ref between the client's read and its update: the pre-check asks `get_peeled`, which knows nothing about
loose refs; `x` is created, `m` is rejected. -/
theorem local_atomic_counterexample :
    let r := localSendPack LocalFlags.unrepaired snapB racedRepo true [] [idB] [(nX, idC), (nM, idC)]
    r.1.refs nX = some idC ∧ r.1.refs nM = some idA ∧
    r.2 = some [(nX, none), (nM, some .unableToSet)] := by decide

/-- the same race with the repaired pre-check: everything is rejected, nothing changes -/
example :
    let r := localSendPack LocalFlags.repaired snapB racedRepo true [] [idB] [(nX, idC), (nM, idC)]
    r.1.refs nX = none ∧ r.1.refs nM = some idA ∧
    r.2 = some [(nX, some .atomicFailed), (nM, some .unableToSet)] := by decide

/-- Before the fix, the local path sets a ref to an object the target does not have when the caller's pack
lacks it. -/
theorem local_refs_point_into_store_counterexample :
    let t : LocalRepo := ⟨fun _ => none, fun _ => false, fun _ => false⟩
    let r := localSendPack LocalFlags.unrepaired (fun _ => none) t false [] [] [(nX, idC)]
    r.1.refs nX = some idC ∧ r.1.store idC = false := by decide

/-! ## 8. HEADLINE: the source as it is (`Flags.coded`, `LocalFlags.coded` — switches read from /repo)

These are the obligations about the code itself.  Each one is the full statement instantiated at the
switches the translator found, and each needs a particular switch to be ON (`rfl` on the generated
constant): reverting the corresponding fix in /repo flips the switch and BREAKS the proof — the intended
regression signal.  The `…_counterexample` theorems above show what then goes wrong. -/

/-- a push reports `ok` for a ref exactly when the ref now holds the requested value (needs: the status comes
from the compare-and-swap) -/
theorem status_iff_changed : StatusIffChangedStatement Flags.coded :=
  status_iff_changed_of_useCas Flags.coded rfl

/-- a stale old value is reported as rejected and the ref is untouched (needs the same switch) -/
theorem stale_old_rejected : StaleOldRejectedStatement Flags.coded :=
  stale_old_rejected_of_useCas Flags.coded rfl

/-- no ref ever names an object the server does not have (needs: the new object is tested in the non-atomic
loop and in the atomic validation loop) -/
theorem refs_point_into_store : RefsPointIntoStoreStatement Flags.coded :=
  refs_point_into_store_of_checkNew Flags.coded rfl rfl

/-- atomic is all-or-nothing (needs: old values and new objects validated before anything is applied).
Honest hypothesis inside the statement: the ref container raises for none of the commanded names while
applying — neither an I/O failure (directory/file conflict: there is no rollback, known finding) nor an
invalid name (`bad ref` is only discovered in the apply loop, known finding). -/
theorem atomic_all_or_none : AtomicAllOrNoneStatement Flags.coded :=
  atomic_all_or_none_of_validation Flags.coded rfl rfl

/-- an invalid ref name no longer kills the handler: `RefFormatError` is among the classes the outer handler
catches, so the condition `NoEscape` holds for a container that raises it (needs: the `except` clause names
RefFormatError) -/
theorem bad_refname_is_caught :
    catches Gen.ReceivePack.badRefCatches [[82, 101, 102, 70, 111, 114, 109, 97, 116, 69, 114, 114, 111, 114]] = true := by
  decide

/-- a ref whose lock is held by another writer (`FileLocked`: another push, a concurrent pack-refs) no longer kills
the handler after earlier commands were applied: the class is caught by the handler in front of
`except all_exceptions`, so it falls under `NoEscape` and gets a status (needs: that `except FileLocked` clause) -/
theorem lock_contention_is_caught :
    catches Gen.ReceivePack.lockCatches [[70, 105, 108, 101, 76, 111, 99, 107, 101, 100]] = true := by
  decide

/-- local path: the recorded status is exact -/
theorem local_status_exact_coded (snap : Refs) (t : LocalRepo) (atomic : Bool) (packIds have_ : List Id)
    (cmds : List (Name × Id)) (hnd : distinctLocal cmds) (st : List (Name × Option LocalMsg))
    (hst : (localSendPack LocalFlags.coded snap t atomic packIds have_ cmds).2 = some st) :
    ∀ c ∈ cmds, ∃ m, st.lookup c.1 = some m ∧
        ((m = none ∧ cur t.refs c.1 = snapOld snap c.1 ∧
            (localSendPack LocalFlags.coded snap t atomic packIds have_ cmds).1.refs c.1 = localTarget c) ∨
         (m ≠ none ∧ (localSendPack LocalFlags.coded snap t atomic packIds have_ cmds).1.refs c.1 = t.refs c.1)) :=
  local_status_exact LocalFlags.coded rfl snap t atomic packIds have_ cmds hnd st hst

/-- local path: no ref names an object the target lacks -/
theorem local_refs_point_into_store (snap : Refs) (t : LocalRepo) (atomic : Bool) (packIds have_ : List Id)
    (cmds : List (Name × Id)) (hi : LocalInStore t) :
    LocalInStore (localSendPack LocalFlags.coded snap t atomic packIds have_ cmds).1 :=
  local_refs_point_into_store_of_checksNew LocalFlags.coded rfl rfl snap t atomic packIds have_ cmds hi

/-- local path: `atomic=True` is all-or-nothing for any state at the time of the call (see the limits in
`local_atomic_all_or_none_of_precheck`) -/
theorem local_atomic_all_or_none (snap : Refs) (t : LocalRepo) (packIds have_ : List Id)
    (cmds : List (Name × Id)) (hnd : distinctLocal cmds) :
    (localSendPack LocalFlags.coded snap t true packIds have_ cmds).1.refs = t.refs ∨
      ∀ c ∈ cmds, (localSendPack LocalFlags.coded snap t true packIds have_ cmds).1.refs c.1 = localTarget c :=
  local_atomic_all_or_none_of_precheck LocalFlags.coded rfl rfl rfl snap t packIds have_ cmds hnd

end Dulwich.Props.C06
