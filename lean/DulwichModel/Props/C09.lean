/-
  C09 — a crash at any instant leaves a repository that opens and is consistent.

  Model: Model/Crash.lean (abstract file system, dulwich's reading of it, `Recoverable`, the executable
  checker `checkProgram`).  Helper lemmas: Lemmas/Crash.lean.  The recorded system-call programs of the
  real operations are in Gen/Traces.lean, their per-scenario obligations in Gen/TracesChecked.lean
  (both regenerated from /repo on every run).

  Only property theorems, non-vacuity examples and negation witnesses live here.
-/
import DulwichModel.Lemmas.Crash
import DulwichModel.Gen.TracesChecked

namespace Dulwich.Props.C09
open Dulwich Dulwich.Crash

/-! ## 1. Soundness of the checker — once, for every crash point and every start state -/

/-- If the checker accepts a program, then from EVERY start state that satisfies the program's
precondition (it agrees with the spec's facts on the listed paths — anything may exist elsewhere —, is
consistent and well-typed, and the objects the spec calls garbage are unreachable), EVERY prefix of
the program (= every crash point) leaves a `Recoverable` state. -/
theorem crashSafe_of_check (spec : Spec) (p : List Call) (h : checkProgram spec p = true)
    (G GP : Nat → List Nat) (s : FS) (hpre : Pre spec G GP s) (k : Nat) :
    Recoverable spec G GP s (run (p.take k) s) :=
  inv_recoverable (go_sound hpre p spec.known s hpre.agrees (inv_init hpre) h k)

/-- The recorded start state of a scenario (closed world: what is not listed is absent) satisfies the
precondition whenever the executable `preK` says so — used to show that the hypotheses of
`crashSafe_of_check` are satisfiable on every recorded scenario. -/
theorem pre_of_check (spec : Spec) (h : preK spec = true) :
    Pre spec (graphOf spec) (parentsOf spec) (toFS spec.known) := pre_of_preK h

/-- A violated ref clause refutes `Recoverable` (used by the generated counterexamples). -/
theorem not_recoverable_of_ref {spec : Spec} {G GP : Nat → List Nat} {s0 s : FS} {r : Nat}
    (h : ¬ RefOldOrNew spec s0 s r) : ¬ Recoverable spec G GP s0 s := fun hr => h (hr.refs r)

/-! ## 2. The recorded programs of the real operations -/

/-- Every recorded scenario whose real crash states satisfied the oracle is accepted by the checker,
hence crash safe from every start state satisfying its precondition, at every crash point. -/
theorem recorded_programs_crash_safe :
    ∀ e ∈ Gen.TracesChecked.safe, ∀ (G GP : Nat → List Nat) (s : FS), Pre e.1 G GP s →
      ∀ k, Recoverable e.1 G GP s (run (e.2.take k) s) := by
  intro e he G GP s hpre k
  have := Gen.TracesChecked.safe_checked
  rw [List.all_eq_true] at this
  exact crashSafe_of_check e.1 e.2 (this e he) G GP s hpre k

/-- Non-vacuity on the recorded scenarios: the recorded start states themselves satisfy the
precondition, so the statement above says something about each of them. -/
theorem recorded_start_states_satisfy_pre :
    ∀ e ∈ Gen.TracesChecked.safe ++ Gen.TracesChecked.flagged,
      Pre e.1 (graphOf e.1) (parentsOf e.1) (toFS e.1.known) := by
  intro e he
  have := Gen.TracesChecked.all_pre
  rw [List.all_eq_true] at this
  exact pre_of_check e.1 (this e he)

/-! ## 3. Pattern lemmas (literal instances: ids are arbitrary names) and their negative twins -/

section patterns

/-- write `<sha>.lock`, then rename onto the object path (`DiskObjectStore.add_object`). -/
def specLoose : Spec :=
  { edges := [(1, [], [])], known := [(.tmp 1, none), (.loose 1, none), (.shallow, none)],
    newRefs := [], newPlain := [], garbage := [] }

def progLoose : List Call :=
  [.write (.tmp 1) .junk, .write (.tmp 1) (.obj 1), .rename (.tmp 1) (.loose 1)]

theorem write_temp_then_rename_safe (G GP : Nat → List Nat) (s : FS) (hpre : Pre specLoose G GP s) (k : Nat) :
    Recoverable specLoose G GP s (run (progLoose.take k) s) :=
  crashSafe_of_check _ _ (by decide) G GP s hpre k

example : Pre specLoose (graphOf specLoose) (parentsOf specLoose) (toFS specLoose.known) := pre_of_check _ (by decide)

/-- Negative twin: writing the object in place leaves a half-written file at the object's path. -/
theorem write_in_place_counterexample :
    ∃ G GP s, Pre specLoose G GP s ∧
      ¬ Recoverable specLoose G GP s (run ([Call.write (.loose 1) .junk, .write (.loose 1) (.obj 1)].take 1) s) := by
  refine ⟨graphOf specLoose, parentsOf specLoose, toFS specLoose.known, pre_of_check _ (by decide), fun h => ?_⟩
  have := h.typed (.loose 1) .junk (by decide)
  exact absurd this (by decide)

/-- objects first (temp-then-rename each), the ref last (`WorkTree.commit`, receive-pack). -/
def specCommit : Spec :=
  { edges := [(1, [2], []), (2, [], [])],
    known := [(.tmp 1, none), (.tmp 2, none), (.tmp 3, none), (.loose 1, none), (.loose 2, none),
              (.ref 1, none), (.packedRefs, none), (.shallow, none)],
    newRefs := [(1, some (.sha 1))], newPlain := [], garbage := [] }

def progCommit : List Call :=
  [.write (.tmp 1) (.obj 2), .rename (.tmp 1) (.loose 2),
   .write (.tmp 2) (.obj 1), .rename (.tmp 2) (.loose 1),
   .write (.tmp 3) (.refSha 1), .rename (.tmp 3) (.ref 1)]

theorem objects_before_ref_safe (G GP : Nat → List Nat) (s : FS) (hpre : Pre specCommit G GP s) (k : Nat) :
    Recoverable specCommit G GP s (run (progCommit.take k) s) :=
  crashSafe_of_check _ _ (by decide) G GP s hpre k

example : Pre specCommit (graphOf specCommit) (parentsOf specCommit) (toFS specCommit.known) := pre_of_check _ (by decide)

/-- Negative twin: the checker rejects the ref-first order … -/
def progRefFirst : List Call :=
  [.write (.tmp 3) (.refSha 1), .rename (.tmp 3) (.ref 1),
   .write (.tmp 1) (.obj 2), .rename (.tmp 1) (.loose 2),
   .write (.tmp 2) (.obj 1), .rename (.tmp 2) (.loose 1)]

theorem ref_before_objects_rejected : checkProgram specCommit progRefFirst = false := by decide

/-- … and rightly so: after the rename the ref names an object that is not there. -/
theorem ref_before_objects_counterexample :
    ∃ G GP s, Pre specCommit G GP s ∧ ¬ Recoverable specCommit G GP s (run (progRefFirst.take 2) s) := by
  refine ⟨graphOf specCommit, parentsOf specCommit, toFS specCommit.known, pre_of_check _ (by decide), fun h => ?_⟩
  have hv := h.consistent 1 ⟨1, 1, by decide, ReachFrom.refl 1⟩
  rcases hv with hv | ⟨p, k, objs, hp, _, _⟩
  · exact absurd hv (by decide)
  · simp [run, step, upd, toFS, lk, specCommit, progRefFirst] at hp

/-- pack renamed in first (invisible without its index), the index last (`_complete_pack`). -/
def specPack : Spec :=
  { edges := [(1, [], []), (2, [], [])],
    known := [(.tmp 1, none), (.tmp 2, none), (.pack 1, none), (.idx 1, none), (.shallow, none)],
    newRefs := [], newPlain := [], garbage := [] }

def progPack : List Call :=
  [.write (.tmp 1) .junk, .write (.tmp 1) (.packData 1), .rename (.tmp 1) (.pack 1),
   .write (.tmp 2) .junk, .write (.tmp 2) (.idxData 1 [1, 2]), .rename (.tmp 2) (.idx 1)]

theorem pack_then_idx_safe (G GP : Nat → List Nat) (s : FS) (hpre : Pre specPack G GP s) (k : Nat) :
    Recoverable specPack G GP s (run (progPack.take k) s) :=
  crashSafe_of_check _ _ (by decide) G GP s hpre k

example : Pre specPack (graphOf specPack) (parentsOf specPack) (toFS specPack.known) := pre_of_check _ (by decide)

/-- A pack is read only when BOTH files are present (`_update_pack_cache`), so on a start state with no
file of that name the index-first order passes too … -/
theorem idx_then_pack_without_orphan_accepted :
    checkProgram specPack
      [.write (.tmp 2) (.idxData 1 [1, 2]), .rename (.tmp 2) (.idx 1),
       .write (.tmp 1) (.packData 1), .rename (.tmp 1) (.pack 1)] = true := by decide

/-- … but NOT when an earlier crash of the same operation left an orphaned `.pack` of the same name
(same object set, other bytes: checksum 9): pack-first overwrites the orphan before the index appears, -/
def specPackOrphan : Spec :=
  { specPack with known := (.pack 1, some (.packData 9)) :: specPack.known }

theorem pack_then_idx_over_orphan_safe (G GP : Nat → List Nat) (s : FS) (hpre : Pre specPackOrphan G GP s)
    (k : Nat) : Recoverable specPackOrphan G GP s (run (progPack.take k) s) :=
  crashSafe_of_check _ _ (by decide) G GP s hpre k

example : Pre specPackOrphan (graphOf specPackOrphan) (parentsOf specPackOrphan) (toFS specPackOrphan.known) :=
  pre_of_check _ (by decide)

/-- index-first pairs the new index with the orphan's bytes: `Pack.data` raises `ChecksumMismatch`
on every read that walks the packs. -/
def progIdxFirst : List Call :=
  [.write (.tmp 2) (.idxData 1 [1, 2]), .rename (.tmp 2) (.idx 1),
   .write (.tmp 1) (.packData 1), .rename (.tmp 1) (.pack 1)]

theorem idx_before_pack_over_orphan_rejected : checkProgram specPackOrphan progIdxFirst = false := by
  decide

theorem idx_before_pack_over_orphan_counterexample :
    ∃ G GP s, Pre specPackOrphan G GP s ∧
      ¬ Recoverable specPackOrphan G GP s (run (progIdxFirst.take 2) s) := by
  refine ⟨graphOf specPackOrphan, parentsOf specPackOrphan, toFS specPackOrphan.known, pre_of_check _ (by decide), fun h => ?_⟩
  have := h.paired 1 9 1 [1, 2] (by decide) (by decide)
  exact absurd this (by decide)

theorem pack_in_place_rejected :
    checkProgram specPack
      [.write (.pack 1) .junk, .write (.pack 1) (.packData 1),
       .write (.tmp 2) (.idxData 1 [1, 2]), .rename (.tmp 2) (.idx 1)] = false := by decide

/-- new pack (pack + index) in place before the loose objects and the old pack are removed
(`pack_loose_objects`, `repack`). -/
def specRepack : Spec :=
  { edges := [(1, [2], []), (2, [], []), (3, [], [])],
    known := [(.loose 1, some (.obj 1)), (.pack 1, some (.packData 1)), (.idx 1, some (.idxData 1 [2, 3])),
              (.ref 1, some (.refSha 1)), (.packedRefs, none),
              (.tmp 1, none), (.tmp 2, none), (.pack 2, none), (.idx 2, none), (.shallow, none)],
    newRefs := [], newPlain := [], garbage := [3] }

def progRepack : List Call :=
  [.write (.tmp 1) (.packData 2), .rename (.tmp 1) (.pack 2),
   .write (.tmp 2) (.idxData 2 [1, 2]), .rename (.tmp 2) (.idx 2),
   .unlink (.loose 1), .unlink (.pack 1), .unlink (.idx 1)]

theorem new_pack_before_old_removed_safe (G GP : Nat → List Nat) (s : FS) (hpre : Pre specRepack G GP s)
    (k : Nat) : Recoverable specRepack G GP s (run (progRepack.take k) s) :=
  crashSafe_of_check _ _ (by decide) G GP s hpre k

example : Pre specRepack (graphOf specRepack) (parentsOf specRepack) (toFS specRepack.known) := pre_of_check _ (by decide)

/-- Negative twin: loose object removed before the new pack's index is in place. -/
def progRepackEarly : List Call :=
  [.write (.tmp 1) (.packData 2), .rename (.tmp 1) (.pack 2),
   .unlink (.loose 1),
   .write (.tmp 2) (.idxData 2 [1, 2]), .rename (.tmp 2) (.idx 2),
   .unlink (.pack 1), .unlink (.idx 1)]

theorem loose_removed_before_idx_rejected : checkProgram specRepack progRepackEarly = false := by decide

theorem loose_removed_before_idx_counterexample :
    ∃ G GP s, Pre specRepack G GP s ∧ ¬ Recoverable specRepack G GP s (run (progRepackEarly.take 3) s) := by
  refine ⟨graphOf specRepack, parentsOf specRepack, toFS specRepack.known, pre_of_check _ (by decide), fun h => ?_⟩
  have hv := h.kept 1 ⟨1, 1, by decide, ReachFrom.refl 1⟩
  rcases hv with hv | ⟨p, k, objs, hp, hi, ho⟩
  · exact absurd hv (by decide)
  · -- the only index present is that of pack 1, which does not list object 1
    simp [run, step, upd, toFS, lk, specRepack, progRepackEarly] at hi
    split at hi
    · simp at hi
      obtain ⟨_, rfl⟩ := hi
      simp at ho
    · split at hi <;> simp at hi

end patterns

/-! ## 4. Packed refs (F8, fixed in /repo by bb5afda): the order as coded now is crash safe; the old
order is kept as a regression witness -/

section f8

/-- `DiskRefsContainer.add_packed_refs` as coded: lock `packed-refs`, write the new `packed-refs` and
rename it in, and only THEN remove the loose ref. -/
def specPackRefs : Spec :=
  { edges := [(1, [], [])],
    known := [(.ref 1, some (.refSha 1)), (.loose 1, some (.obj 1)), (.packedRefs, none), (.tmp 1, none),
              (.shallow, none)],
    newRefs := [], newPlain := [], garbage := [] }

def progPackRefsAsCoded : List Call :=
  [.write (.tmp 1) .junk, .write (.tmp 1) (.packed [(1, 1)]), .rename (.tmp 1) .packedRefs, .unlink (.ref 1)]

theorem add_packed_refs_safe (G GP : Nat → List Nat) (s : FS) (hpre : Pre specPackRefs G GP s)
    (k : Nat) : Recoverable specPackRefs G GP s (run (progPackRefsAsCoded.take k) s) :=
  crashSafe_of_check _ _ (by decide) G GP s hpre k

example : Pre specPackRefs (graphOf specPackRefs) (parentsOf specPackRefs) (toFS specPackRefs.known) := pre_of_check _ (by decide)

/-- Regression witness — the order before bb5afda: the loose ref was REMOVED while the lock was held,
before the new `packed-refs` was written and renamed in. -/
def progPackRefsOldOrder : List Call :=
  [.write (.tmp 1) .junk, .unlink (.ref 1), .write (.tmp 1) (.packed [(1, 1)]), .rename (.tmp 1) .packedRefs]

theorem add_packed_refs_old_order_rejected : checkProgram specPackRefs progPackRefsOldOrder = false := by
  decide

/-- In the old order a crash after the loose ref has been removed and before the new `packed-refs` is
renamed in loses the ref (it is neither loose nor packed). -/
theorem add_packed_refs_old_order_counterexample :
    ∃ G GP s, Pre specPackRefs G GP s ∧
      ¬ Recoverable specPackRefs G GP s (run (progPackRefsOldOrder.take 2) s) :=
  ⟨graphOf specPackRefs, parentsOf specPackRefs, toFS specPackRefs.known, pre_of_check _ (by decide),
    not_recoverable_of_ref (r := 1) (by decide)⟩

/-- `remove_if_equals` on a ref that is both loose (value 2, newer) and packed (value 1, older), as
coded: lock the ref, rewrite `packed-refs` without the ref, and only THEN remove the loose file. -/
def specRemove : Spec :=
  { edges := [(1, [], []), (2, [], [1])],
    known := [(.ref 1, some (.refSha 2)), (.packedRefs, some (.packed [(1, 1)])),
              (.loose 1, some (.obj 1)), (.loose 2, some (.obj 2)), (.tmp 1, none), (.tmp 2, none),
              (.shallow, none)],
    newRefs := [(1, none)], newPlain := [], garbage := [] }

def progRemoveAsCoded : List Call :=
  [.write (.tmp 1) .junk, .write (.tmp 2) .junk, .write (.tmp 2) (.packed []),
   .rename (.tmp 2) .packedRefs, .unlink (.ref 1), .unlink (.tmp 1)]

theorem remove_if_equals_safe (G GP : Nat → List Nat) (s : FS) (hpre : Pre specRemove G GP s)
    (k : Nat) : Recoverable specRemove G GP s (run (progRemoveAsCoded.take k) s) :=
  crashSafe_of_check _ _ (by decide) G GP s hpre k

example : Pre specRemove (graphOf specRemove) (parentsOf specRemove) (toFS specRemove.known) := pre_of_check _ (by decide)

/-- Regression witness — the order before bb5afda: the LOOSE file was removed first, `packed-refs`
rewritten second. -/
def progRemoveOldOrder : List Call :=
  [.write (.tmp 1) .junk, .unlink (.ref 1), .write (.tmp 2) .junk, .write (.tmp 2) (.packed []),
   .rename (.tmp 2) .packedRefs, .unlink (.tmp 1)]

theorem remove_if_equals_old_order_rejected : checkProgram specRemove progRemoveOldOrder = false := by
  decide

/-- In the old order a crash between the two removals resurrects the older packed value: neither the
old value (2) nor the new one (deleted). -/
theorem remove_if_equals_old_order_counterexample :
    ∃ G GP s, Pre specRemove G GP s ∧ ¬ Recoverable specRemove G GP s (run (progRemoveOldOrder.take 2) s) :=
  ⟨graphOf specRemove, parentsOf specRemove, toFS specRemove.known, pre_of_check _ (by decide),
    not_recoverable_of_ref (r := 1) (by decide)⟩

/-- When loose and packed hold the SAME value even the old order was harmless (the window shows the
old value): the defect was specific to a stale packed entry. -/
theorem remove_if_equals_old_order_same_value_accepted :
    checkProgram { specRemove with known := (.ref 1, some (.refSha 1)) :: specRemove.known }
      progRemoveOldOrder = true := by decide

end f8

/-! ## 5. The `shallow` file is repository state: new objects visible BEFORE the shallow set shrinks -/

section shallow

/-- A shallow clone of depth 1: commit 1 (tree 3, parent 2) is a graft point, its parent 2 (tree 4) is not
there.  Deepening / unshallowing must install the pack holding 2 and 4 first and only then rewrite
`shallow`.  This is the order as coded on every path: `GitClient.fetch` (smart transports) and `Repo.fetch` /
`LocalGitClient` both drop commits from `shallow` only after the pack is stored (3798ec6); NEW graft points,
on the other hand, are written BEFORE the pack (§7 below); all recorded deepen / unshallow programs in
Gen/Traces.lean have this shape and are accepted. -/
def specUnshallow : Spec :=
  { edges := [(1, [3], [2]), (2, [4], []), (3, [], []), (4, [], [])],
    known := [(.ref 1, some (.refSha 1)), (.loose 1, some (.obj 1)), (.loose 3, some (.obj 3)),
              (.shallow, some (.shallowSet [1])), (.packedRefs, none),
              (.tmp 1, none), (.tmp 2, none), (.tmp 3, none), (.pack 1, none), (.idx 1, none)],
    newRefs := [], newPlain := [], garbage := [] }

def progUnshallow : List Call :=
  [.write (.tmp 1) (.packData 1), .rename (.tmp 1) (.pack 1),
   .write (.tmp 2) (.idxData 1 [2, 4]), .rename (.tmp 2) (.idx 1),
   .unlink .shallow]

theorem objects_before_unshallow_safe (G GP : Nat → List Nat) (s : FS) (hpre : Pre specUnshallow G GP s)
    (k : Nat) : Recoverable specUnshallow G GP s (run (progUnshallow.take k) s) :=
  crashSafe_of_check _ _ (by decide) G GP s hpre k

example : Pre specUnshallow (graphOf specUnshallow) (parentsOf specUnshallow) (toFS specUnshallow.known) :=
  pre_of_check _ (by decide)

/-- Deepening by one: the graft point moves from 1 to 2 (whose own parent stays cut off): same discipline,
the new `shallow` is written to `shallow.lock` and renamed in after the pack. -/
theorem objects_before_deepen_safe (G GP : Nat → List Nat) (s : FS) (hpre : Pre specUnshallow G GP s)
    (k : Nat) : Recoverable specUnshallow G GP s
      (run (List.take k [.write (.tmp 1) (.packData 1), .rename (.tmp 1) (.pack 1),
                         .write (.tmp 2) (.idxData 1 [2, 4]), .rename (.tmp 2) (.idx 1),
                         .write (.tmp 3) (.shallowSet [2]), .rename (.tmp 3) .shallow]) s) :=
  crashSafe_of_check _ _ (by decide) G GP s hpre k

/-- An initial shallow fetch ADDS graft points: safe in either order as long as the refs come last
(objects, `shallow`, ref). -/
theorem shallow_grows_then_ref_safe :
    checkProgram
      { edges := [(1, [3], [2]), (3, [], [])],
        known := [(.ref 1, none), (.shallow, none), (.packedRefs, none), (.loose 1, none), (.loose 3, none),
                  (.tmp 1, none), (.tmp 2, none), (.tmp 3, none), (.tmp 4, none)],
        newRefs := [(1, some (.sha 1))], newPlain := [], garbage := [] }
      [.write (.tmp 1) (.obj 3), .rename (.tmp 1) (.loose 3), .write (.tmp 2) (.obj 1), .rename (.tmp 2) (.loose 1),
       .write (.tmp 3) (.shallowSet [1]), .rename (.tmp 3) .shallow,
       .write (.tmp 4) (.refSha 1), .rename (.tmp 4) (.ref 1)] = true := by decide

/-- Negative twin and regression witness: `update_shallow` BEFORE the pack is stored — the order
`Repo.fetch` used before /repo PENDING-1 (via `find_missing_objects`), and what moving `update_shallow`
before `commit()` in `GitClient.fetch` would give. -/
def progUnshallowEarly : List Call :=
  [.unlink .shallow,
   .write (.tmp 1) (.packData 1), .rename (.tmp 1) (.pack 1),
   .write (.tmp 2) (.idxData 1 [2, 4]), .rename (.tmp 2) (.idx 1)]

theorem unshallow_before_objects_rejected : checkProgram specUnshallow progUnshallowEarly = false := by
  decide

/-- A crash after the shallow file is gone and before the pack is installed: the ref's tip is no longer
a graft point, its parent is missing (dulwich: KeyError walking the history; git fsck: broken link). -/
theorem unshallow_before_objects_counterexample :
    ∃ G GP s, Pre specUnshallow G GP s ∧
      ¬ Recoverable specUnshallow G GP s (run (progUnshallowEarly.take 1) s) := by
  refine ⟨graphOf specUnshallow, parentsOf specUnshallow, toFS specUnshallow.known,
    pre_of_check _ (by decide), fun h => ?_⟩
  have hv := h.consistent 2 ⟨1, 1, by decide,
    ReachFrom.par (by decide) (by decide) (ReachFrom.refl 2)⟩
  rcases hv with hv | ⟨p, k, objs, hp, _, _⟩
  · exact absurd hv (by decide)
  · simp [run, step, upd, toFS, lk, specUnshallow, progUnshallowEarly] at hp
    split at hp <;> simp at hp

end shallow

/-! ## 6. After the crash: retries.  A lock file is never evidence of presence -/

section retry

/-- Running an operation AGAIN on what a crash left: if the checker accepts the program `p` and, for every
crash prefix `k`, accepts the program `qs[k]` the re-run issued from there (recorded from the real code; a re-run
that stops with an error — `FileLocked` on a stale lock — contributes the calls it made before the error, so in
particular it stops before any ref write it did not get to), then every state the re-run passes through,
and the state it ends in, is `Recoverable` — for every start state satisfying the precondition. -/
theorem retry_after_crash_safe (spec : Spec) (p : List Call) (qs : List (List Call))
    (hc : checkProgram spec p = true) (hq : retryOK spec p qs = true)
    (G GP : Nat → List Nat) (s : FS) (hpre : Pre spec G GP s) (k : Nat) (hk : k < qs.length) (j : Nat) :
    Recoverable spec G GP s (run ((qs.getD k []).take j) (run (p.take k) s)) :=
  inv_recoverable (retry_sound hpre hc hq k hk j)

/-- The recorded re-runs (every crash prefix of the loose-object scenarios) are accepted, hence safe. -/
theorem recorded_retries_crash_safe :
    ∀ e ∈ Gen.TracesChecked.retried, ∀ (G GP : Nat → List Nat) (s : FS), Pre e.1 G GP s →
      ∀ k, k < e.2.2.length → ∀ j,
        Recoverable e.1 G GP s (run ((e.2.2.getD k []).take j) (run (e.2.1.take k) s)) := by
  intro e he G GP s hpre k hk j
  have h1 := Gen.TracesChecked.retried_checked
  rw [List.all_eq_true] at h1
  have := h1 e he
  rw [Bool.and_eq_true] at this
  exact retry_after_crash_safe e.1 e.2.1 e.2.2 this.1 this.2 G GP s hpre k hk j

/-- `DiskObjectStore.add_object` lets a held/stale `<sha>.lock` surface as `FileLocked` (AST of the code and a
recorded run under an existing lock, both regenerated every run). -/
theorem add_object_lock_propagates :
    Gen.TracesChecked.addObjectSwallowsLock = false ∧ Gen.TracesChecked.addObjectUnderLockRaises = true :=
  Gen.TracesChecked.add_object_lock_propagates

/-- The crash left `<o1>.lock` (tmp 1) behind; the commit that wanted object 1 is retried. -/
def specStaleLock : Spec :=
  { edges := [(1, [], [])],
    known := [(.tmp 1, some .junk), (.loose 1, none), (.ref 1, none), (.packedRefs, none), (.shallow, none),
              (.tmp 2, none)],
    newRefs := [(1, some (.sha 1))], newPlain := [], garbage := [] }

/-- As coded: the retry fails with `FileLocked` before doing anything — trivially safe, … -/
theorem retry_stops_at_stale_lock_accepted : checkProgram specStaleLock [] = true := by decide

/-- … skipping the write is accepted only on the evidence of the FINAL path (here: once it is there), -/
theorem skip_on_final_path_accepted :
    checkProgram { specStaleLock with known := (.loose 1, some (.obj 1)) :: specStaleLock.known }
      [.skip 1 (.loose 1), .write (.tmp 2) (.refSha 1), .rename (.tmp 2) (.ref 1)] = true := by decide

/-- … and NEVER on the evidence of the lock file ("somebody is writing it, so it will be there"): -/
def progLockAsPresence : List Call :=
  [.skip 1 (.tmp 1), .write (.tmp 2) (.refSha 1), .rename (.tmp 2) (.ref 1)]

theorem lock_is_not_presence_rejected : checkProgram specStaleLock progLockAsPresence = false := by decide

/-- the checker rejects it at the skip itself, before any ref is touched -/
theorem lock_is_not_presence_rejected_at_skip : firstUnsafe specStaleLock progLockAsPresence = some 0 := by
  decide

/-- and rightly so: the ref ends up naming an object that nobody ever wrote. -/
theorem lock_as_presence_counterexample :
    ∃ G GP s, Pre specStaleLock G GP s ∧
      ¬ Recoverable specStaleLock G GP s (run (progLockAsPresence.take 3) s) := by
  refine ⟨graphOf specStaleLock, parentsOf specStaleLock, toFS specStaleLock.known,
    pre_of_check _ (by decide), fun h => ?_⟩
  have hv := h.consistent 1 ⟨1, 1, by decide, ReachFrom.refl 1⟩
  rcases hv with hv | ⟨p, k, objs, hp, _, _⟩
  · exact absurd hv (by decide)
  · simp [run, step, upd, toFS, lk, specStaleLock, progLockAsPresence] at hp

end retry

/-! ## 7. New graft points BEFORE the pack: a retried depth fetch must not lose them -/

section depthretry

/-- An initial fetch at depth 1: commit 1 (tree 3) arrives, its parent 2 does not; `shallow` must list 1. -/
def specDepthInit : Spec :=
  { edges := [(1, [3], [2]), (3, [], [])],
    known := [(.ref 1, none), (.shallow, none), (.packedRefs, none), (.pack 1, none), (.idx 1, none),
              (.tmp 1, none), (.tmp 2, none), (.tmp 3, none), (.tmp 4, none)],
    newRefs := [(1, some (.sha 1))], newPlain := [], garbage := [] }

/-- The order as coded now (`GitClient.fetch`, `Repo.fetch`): `shallow` with the new graft point, the pack, its
index, `shallow` again (commits to drop: none here), and finally — the caller — the ref. -/
def progDepthNow : List Call :=
  [.write (.tmp 3) (.shallowSet [1]), .rename (.tmp 3) .shallow,
   .write (.tmp 1) (.packData 1), .rename (.tmp 1) (.pack 1),
   .write (.tmp 2) (.idxData 1 [1, 3]), .rename (.tmp 2) (.idx 1),
   .write (.tmp 3) (.shallowSet [1]), .rename (.tmp 3) .shallow,
   .write (.tmp 4) (.refSha 1), .rename (.tmp 4) (.ref 1)]

/-- What the re-run does from each crash prefix: everything again while the tip is not in the store; nothing
when a stale lock is in the way; and once pack and index are there — nothing is wanted any more — only the
(empty) shallow update and the ref. -/
def retriesDepthNow : List (List Call) :=
  [progDepthNow, [], progDepthNow, progDepthNow, progDepthNow, [],
   [.write (.tmp 3) (.shallowSet [1]), .rename (.tmp 3) .shallow, .write (.tmp 4) (.refSha 1), .rename (.tmp 4) (.ref 1)],
   [],
   [.write (.tmp 3) (.shallowSet [1]), .rename (.tmp 3) .shallow, .write (.tmp 4) (.refSha 1), .rename (.tmp 4) (.ref 1)],
   []]

theorem retry_depth_fetch_safe (G GP : Nat → List Nat) (s : FS) (hpre : Pre specDepthInit G GP s)
    (k : Nat) (hk : k < retriesDepthNow.length) (j : Nat) :
    Recoverable specDepthInit G GP s
      (run ((retriesDepthNow.getD k []).take j) (run (progDepthNow.take k) s)) :=
  retry_after_crash_safe _ _ _ (by decide) (by decide) G GP s hpre k hk j

example : Pre specDepthInit (graphOf specDepthInit) (parentsOf specDepthInit) (toFS specDepthInit.known) :=
  pre_of_check _ (by decide)

/-- Regression witness — the order before /repo PENDING-1: pack and index first, `shallow` afterwards.  Crash
safe in itself … -/
def progDepthOld : List Call :=
  [.write (.tmp 1) (.packData 1), .rename (.tmp 1) (.pack 1),
   .write (.tmp 2) (.idxData 1 [1, 3]), .rename (.tmp 2) (.idx 1),
   .write (.tmp 3) (.shallowSet [1]), .rename (.tmp 3) .shallow,
   .write (.tmp 4) (.refSha 1), .rename (.tmp 4) (.ref 1)]

theorem depth_fetch_old_order_crash_safe_in_itself : checkProgram specDepthInit progDepthOld = true := by
  decide

/-- … but NOT under retry: after a crash with pack and index in place and `shallow` not yet written, the
re-run finds the tip in the store, wants nothing, is told no graft point, writes no `shallow` — and the
caller sets the ref. -/
def retryDepthOld4 : List Call := [.write (.tmp 4) (.refSha 1), .rename (.tmp 4) (.ref 1)]

theorem retry_depth_fetch_old_order_rejected :
    retryOK specDepthInit progDepthOld [[], [], [], [], retryDepthOld4] = false := by decide

theorem retry_depth_fetch_old_order_counterexample :
    ∃ G GP s, Pre specDepthInit G GP s ∧
      ¬ Recoverable specDepthInit G GP s (run (retryDepthOld4.take 2) (run (progDepthOld.take 4) s)) := by
  refine ⟨graphOf specDepthInit, parentsOf specDepthInit, toFS specDepthInit.known,
    pre_of_check _ (by decide), fun h => ?_⟩
  -- the ref names commit 1, which is not a graft point, so its parent 2 is reachable — and is nowhere
  have hv := h.consistent 2 ⟨1, 1, by decide,
    ReachFrom.par (by decide) (by decide) (ReachFrom.refl 2)⟩
  rcases hv with hv | ⟨p, k, objs, hp, hi, ho⟩
  · exact absurd hv (by decide)
  · simp [run, step, upd, toFS, lk, specDepthInit, progDepthOld, retryDepthOld4] at hi
    split at hi
    · simp only [Option.some.injEq, Content.idxData.injEq] at hi
      obtain ⟨_, rfl⟩ := hi
      simp at ho
    · split at hi <;> simp at hi

end depthretry

end Dulwich.Props.C09
