/-
  C19 — pkt-line and side-band framing round-trips under any read chunking.

  Only property theorems, non-vacuity examples and negation witnesses live here; helper lemmas
  are in Lemmas/PktLine.lean.  The model is Model/PktLine.lean; every constant it uses comes from
  Gen/PktLine.lean, which the translator regenerates from /repo on every run.
-/
import DulwichModel.Lemmas.PktLine

namespace Dulwich.Props.C19
open Dulwich Dulwich.PktLine

/-! ## 1. Frames: `pkt_line` frames what fits one pkt-line and refuses the rest -/

/-- `f` is a four-byte length prefix that `_parse_pkt_line_length` reads as `|p| + 4`, followed by `p`. -/
def WellFramed (f p : Bytes) : Prop :=
  ∃ pre, pre.length = 4 ∧ f = pre ++ p ∧ parseLen pre = .ok (p.length + 4)

/-- The formatting step `f"{len(p) + 4:04x}" + p` on its own yields a well-formed frame exactly when
`|p| + 4 ≤ 0xFFFF` (the format pads, it never truncates): why the size check in `pkt_line` is needed. -/
theorem frame_well_formed (p : Bytes) : WellFramed (frame (some p)) p ↔ p.length + 4 ≤ 0xFFFF := by
  constructor
  · intro ⟨pre, hl, he, _⟩
    by_cases h : p.length + 4 ≤ 0xFFFF
    · exact h
    · exfalso
      have hlong := fmtHex_long 4 (p.length + 4) (by omega)
      have := congrArg List.length he
      rw [frame_data] at this
      simp only [List.length_append] at this
      omega
  · intro h
    exact ⟨fmtHex 4 (p.length + 4), fmtHex_length _ (by omega), frame_data p, parseLen_fmtHex _ (by omega)⟩

/-- **Frame statement (full).**  "Payloads too large for one frame are split or refused, never
emitted as a malformed frame": for EVERY payload `pkt_line` either raises (ValueError) — exactly
when the frame would exceed git's `LARGE_PACKET_MAX` — or returns a well-formed frame no longer
than `LARGE_PACKET_MAX`.  (Depends on `MAX_PKT_LINE_DATA_LEN = 65516` from the source.) -/
theorem frame_statement (p : Bytes) :
    (pktLine (some p) = none ∧ gitLargePacketMax < p.length + 4) ∨
    (∃ f, pktLine (some p) = some f ∧ WellFramed f p ∧ f.length ≤ gitLargePacketMax) := by
  have hg : gitLargePacketMax = 65520 := rfl
  rw [hg]
  by_cases h : 65516 < p.length
  · exact Or.inl ⟨(pktLine_none_iff p).mpr h, by omega⟩
  · refine Or.inr ⟨_, pktLine_some p (by omega), (frame_well_formed p).mpr (by omega), ?_⟩
    rw [frame_data, List.length_append, fmtHex_length _ (by omega)]
    omega

/-- `pkt_line` refuses exactly the payloads that do not fit one frame of git's maximum size -/
theorem pkt_line_refuses_iff (p : Bytes) : pktLine (some p) = none ↔ gitLargePacketMax < p.length + 4 := by
  have hg : gitLargePacketMax = 65520 := rfl
  rw [pktLine_none_iff, hg]
  omega

example : ∃ f, pktLine (some [104, 105]) = some f ∧ WellFramed f [104, 105] := by
  rcases frame_statement [104, 105] with ⟨h, _⟩ | ⟨f, h1, h2, _⟩
  · exact absurd h (by decide)
  · exact ⟨f, h1, h2⟩

/-- Regression witness (fixed F19a, PENDING-1): the old, total `pkt_line` gave a 65532-byte payload the
five-digit prefix `10000` — for every such payload the output was not a frame. -/
theorem old_pkt_line_five_digit_prefix_witness (p : Bytes) (h : p.length = 65532) :
    (Old.pktLine (some p)).take 5 = [49, 48, 48, 48, 48] ∧ ¬ WellFramed (Old.pktLine (some p)) p ∧
    pktLine (some p) = none := by
  refine ⟨?_, fun hw => ?_, (pktLine_none_iff p).mpr (by omega)⟩
  · show (frame (some p)).take 5 = _
    rw [frame_data, h]
    have : fmtHex 4 (65532 + 4) = [49, 48, 48, 48, 48] := by decide
    rw [this]; rfl
  · have := (frame_well_formed p).mp hw
    omega

/-- Regression witness (fixed F19b, PENDING-1): the old `pkt_line` framed a 65517-byte payload in one
65521-byte frame, longer than git's `LARGE_PACKET_MAX`; the new one refuses it. -/
theorem old_pkt_line_over_git_max_witness (p : Bytes) (h : p.length = 65517) :
    gitLargePacketMax < (Old.pktLine (some p)).length ∧ pktLine (some p) = none := by
  have : (Old.pktLine (some p)).length = 65521 := by
    show (frame (some p)).length = _
    rw [frame_data, List.length_append, fmtHex_length _ (by omega)]; omega
  rw [this]
  exact ⟨by decide, (pktLine_none_iff p).mpr (by omega)⟩

/-! ## 2. Every byte string offered as a length prefix is classified -/

/-- **Length-prefix totality**, all byte strings (in particular all 2^32 four-byte prefixes): either a
protocol error — wrong length or some byte outside `_HEX_DIGITS` — or exactly four hex digits and
a length below 16^4.  Nothing else (no other exception class, no negative or huge length).  The
proof lifts a `decide` over the 256-entry per-byte table (`digit_table`). -/
theorem parseLen_total (s : Bytes) :
    (parseLen s = .protocol ∧ (s.length ≠ 4 ∨ ∃ b ∈ s, Gen.PktLine.hexDigits.contains b.toNat = false)) ∨
    (∃ n, n < 65536 ∧ parseLen s = .ok n ∧ s.length = 4 ∧
      ∀ b ∈ s, Gen.PktLine.hexDigits.contains b.toNat = true) :=
  parseLen_classified s

/-- the length field round-trips for every length that fits -/
theorem prefix_roundtrip (n : Nat) (h : n < 65536) : parseLen (fmtHex 4 n) = .ok n :=
  parseLen_fmtHex n h

example : parseLen [48, 48, 97, 70] = .ok 175 ∧ parseLen [45, 48, 48, 49] = .protocol ∧
    parseLen [48, 48, 48] = .protocol := by decide

/-! ## 3. `read_pkt_line`: round trip over a blocking read, and over `ReceivableProtocol` for
EVERY fragmentation of the byte stream -/

/-- **Round trip, blocking reader** (`Protocol` over a file-like `read`): every sequence of
flush-pkts and payloads that fit comes back, followed by a clean hang-up. -/
theorem protocol_roundtrip (ps : List Pkt) (h : ∀ x ∈ ps, Fits x) :
    readAll bytesRead (ps.length + 1) ⟨none, encode ps⟩ = (ps, .hangup) :=
  readAll_roundtrip bytesRead_spec ps (ps.length + 1) (encode ps) trivial rfl h (Nat.lt_succ_self _)

/-- **Encode-then-decode, blocking reader, no size hypothesis**: whatever `pkt_line` accepts (every
call returned, none raised) reads back as the original sequence. -/
theorem pkt_roundtrip_protocol (ps : List Pkt) (w : Bytes) (hw : wire ps = some w) :
    readAll bytesRead (ps.length + 1) ⟨none, w⟩ = (ps, .hangup) := by
  obtain ⟨rfl, hf⟩ := wire_eq_some ps w hw
  exact protocol_roundtrip ps hf

/-- Non-vacuity: `0005a`, flush, the empty pkt-line `0004`, `0006bc`. -/
example : readAll bytesRead 5 ⟨none, encode [some [97], none, some [], some [98, 99]]⟩
    = ([some [97], none, some [], some [98, 99]], .hangup) := by decide

/-- **`ReceivableProtocol.read` is a blocking read of the stream, whatever the fragments.**  For any
buffer state and any list of non-empty fragments still to be delivered by `recv`, `read(n)`
(`n > 0`) returns exactly the next `n` bytes of the concatenated stream (fewer only at EOF) and
leaves a state whose remaining stream is the rest. -/
theorem receivable_read_is_blocking_read (n : Nat) (st : RP) (hn : 0 < n) (hv : ∀ c ∈ st.src, c ≠ []) :
    ∃ st', rpRead n st = some (st.stream.take n, st') ∧ st'.stream = st.stream.drop n ∧
      (∀ c ∈ st'.src, c ≠ []) := by
  obtain ⟨out, st', h1, h2, h3, h4⟩ := rpRead_spec n st hv hn
  refine ⟨st', ?_, ?_, h4⟩
  · rw [h1, ← h2]
    congr 2
    by_cases hc : out.length = n
    · exact (List.take_left' hc).symm
    · have hlen : st'.stream.length = 0 := by
        have := congrArg List.length h2
        simp only [List.length_append] at this
        omega
      have : st'.stream = [] := List.eq_nil_of_length_eq_zero hlen
      rw [this, List.append_nil, List.take_of_length_le (by omega)]
  · rw [← h2]
    by_cases hc : out.length = n
    · exact (List.drop_left' hc).symm
    · have hlen : st'.stream.length = 0 := by
        have := congrArg List.length h2
        simp only [List.length_append] at this
        omega
      have : st'.stream = [] := List.eq_nil_of_length_eq_zero hlen
      rw [this, List.append_nil, List.drop_of_length_le (by omega)]

/-- **Round trip under every chunking, `ReceivableProtocol` (full).**  For every sequence of
flush-pkts and payloads that fit the length field — the empty payload included — and EVERY way
`recv` may cut the encoded byte stream into non-empty fragments, repeated `read_pkt_line` returns
the original sequence and then hangs up cleanly. -/
theorem receivable_roundtrip_any_chunking (ps : List Pkt) (cs : List Bytes)
    (h : ∀ x ∈ ps, Fits x) (hcs : ∀ c ∈ cs, c ≠ []) (hflat : cs.flatten = encode ps) :
    readAll rpRead (ps.length + 1) ⟨none, ⟨[], cs⟩⟩ = (ps, .hangup) :=
  readAll_roundtrip rpRead_spec ps (ps.length + 1) ⟨[], cs⟩ hcs (by simpa [RP.stream] using hflat)
    h (Nat.lt_succ_self _)

/-- **Encode-then-decode under every chunking, `ReceivableProtocol`, no size hypothesis**: the bytes
`pkt_line` produced for ANY payload sequence it accepted, cut into non-empty fragments in ANY way,
read back as the original sequence. -/
theorem pkt_roundtrip_receivable_any_chunking (ps : List Pkt) (w : Bytes) (cs : List Bytes)
    (hw : wire ps = some w) (hcs : ∀ c ∈ cs, c ≠ []) (hflat : cs.flatten = w) :
    readAll rpRead (ps.length + 1) ⟨none, ⟨[], cs⟩⟩ = (ps, .hangup) := by
  obtain ⟨rfl, hf⟩ := wire_eq_some ps w hw
  exact receivable_roundtrip_any_chunking ps cs hf hcs hflat

/-- Non-vacuity: `0005a` `0000` `0006bc` delivered as `00|05a00|0|0000|6bc`. -/
example : readAll rpRead 4 ⟨none, ⟨[], [[48, 48], [48, 53, 97, 48, 48], [48], [48, 48, 48, 48], [54, 98, 99]]⟩⟩
    = ([some [97], none, some [98, 99]], .hangup) := by decide

/-- Non-vacuity with the empty payload: `0004` `0005a` delivered as `000|4000|5a`. -/
example : readAll rpRead 3 ⟨none, ⟨[], [[48, 48, 48], [52, 48, 48, 48], [53, 97]]⟩⟩
    = ([some [], some [97]], .hangup) := by decide

/-- Regression witness (fixed F-C19-rp-empty-pkt-line, PENDING-2): the old `read_pkt_line` called
`read(0)` for the empty pkt-line `0004` (= `pkt_line(b"")`), which trips `assert size > 0` in
`ReceivableProtocol.read`: neither the payload nor a protocol error.  The new one returns `b""`. -/
theorem old_receivable_empty_payload_witness :
    (match Old.readCore rpRead ⟨[], [frame (some [])]⟩ with | .otherErr => true | _ => false) = true ∧
    (match readCore rpRead ⟨[], [frame (some [])]⟩ with | .pkt (some []) _ => true | _ => false) = true := by
  decide

/-- A transport `read` that returns short (socket `recv` used directly): outside `Protocol`'s contract. -/
def shortRead : Reader (List Bytes) := fun n s => some (srcRecv n s)

/-- The blocking hypothesis is necessary: over a `read` that may return short, a perfectly valid
stream (`0005a` delivered as `00|05a`) is a protocol error.  `Protocol` must be given a blocking
`read`; `ReceivableProtocol` is what provides one over `recv`. -/
theorem unbuffered_short_read_counterexample :
    readAll shortRead 3 ⟨none, [[48, 48], [48, 53, 97]]⟩ = ([], .protoErr) := by decide

/-! ## 4. `PktLineParser`: chunking independence and round trip under every chunking -/

/-- **Chunking independence**, every byte string (well-formed or not) and every fragmentation
(empty fragments included): feeding the fragments one `parse()` call each delivers exactly the
packets, and ends in exactly the tail / protocol error, of a single call on the whole string. -/
theorem parser_chunking_independent (cs : List Bytes) : feedAll [] cs = parse cs.flatten := by
  have := feedAll_eq_parse cs [] parse_nil
  simpa using this

/-- **Round trip under every chunking, `PktLineParser`.**  Every sequence of flush-pkts and payloads
that fit (the empty payload included), however the encoded stream is cut, is handed to the
callback unchanged, and nothing is left in the read-ahead buffer. -/
theorem parser_roundtrip_any_chunking (ps : List Pkt) (cs : List Bytes)
    (h : ∀ x ∈ ps, Fits x) (hflat : cs.flatten = encode ps) :
    feedAll [] cs = (ps, .tail []) := by
  rw [parser_chunking_independent, hflat, parse_encode ps h]

/-- **Encode-then-decode under every chunking, `PktLineParser`, no size hypothesis.** -/
theorem pkt_roundtrip_parser_any_chunking (ps : List Pkt) (w : Bytes) (cs : List Bytes)
    (hw : wire ps = some w) (hflat : cs.flatten = w) : feedAll [] cs = (ps, .tail []) := by
  obtain ⟨rfl, hf⟩ := wire_eq_some ps w hw
  exact parser_roundtrip_any_chunking ps cs hf hflat

example : feedAll [] [[48], [48, 48, 52, 48, 48], [48, 48, 48, 48, 48], [54, 98], [99, 48, 48]]
    = ([some [], none, some [98, 99]], .tail [48, 48]) := by decide

/-! ## 5. Decoder totality: frames, then a clean end or a protocol error — nothing else -/

/-- The incremental parser never ends in anything but a tail or a protocol error, for every
byte string and (by §4) every fragmentation. -/
theorem parser_total : ∀ (n : Nat) (buf : Bytes), buf.length ≤ n → (parse buf).2 ≠ .otherErr := by
  intro n
  induction n using Nat.strongRecOn with
  | _ n ih =>
    intro buf hn
    rw [parse_unfold]
    by_cases h4 : buf.length < 4
    · simp [h4]
    · simp only [h4, if_false]
      rcases parseLen_classified (buf.take 4) with ⟨hp, _⟩ | ⟨size, _, hp, _, _⟩
      · simp [hp]
      · simp only [hp]
        by_cases h0 : size = 0
        · simp only [h0, if_true]
          exact ih (buf.length - 4) (by omega) _ (by simp)
        · simp only [h0, if_false]
          by_cases h1 : size < 4
          · simp [h1]
          · simp only [h1, if_false]
            by_cases h2 : size ≤ buf.length
            · simp only [h2, if_true]
              exact ih (buf.length - size) (by omega) _ (by simp)
            · simp [h2]

theorem parser_total_any_chunking (cs : List Bytes) : (feedAll [] cs).2 ≠ .otherErr := by
  rw [parser_chunking_independent]
  exact parser_total _ _ (Nat.le_refl _)

/-- `read_pkt_line` over a blocking read, repeated until it raises: for EVERY byte string the run
ends in a hang-up (clean EOF at a frame boundary) or a protocol error; the fuel `|s| + 1` is never
exhausted (each returned packet consumed at least four bytes). -/
theorem reader_total : ∀ (n : Nat) (s : Bytes), s.length < n →
    (readAll bytesRead n ⟨none, s⟩).2 = .hangup ∨ (readAll bytesRead n ⟨none, s⟩).2 = .protoErr := by
  have c1 : Gen.PktLine.rdPrefix = 4 := rfl
  have c2 : Gen.PktLine.rdFlush = 0 := rfl
  have c3 : Gen.PktLine.rdDelim = 1 := rfl
  have c4 : Gen.PktLine.rdMin = 4 := rfl
  have c5 : Gen.PktLine.rdHdr = 4 := rfl
  have c6 : Gen.PktLine.rdChk = 4 := rfl
  have c7 : Gen.PktLine.rdEmpty = 4 := rfl
  intro n
  induction n using Nat.strongRecOn with
  | _ n ih =>
    intro s hn
    cases n with
    | zero => omega
    | succ f =>
      simp only [readAll, readPktLine, readCore, bytesRead, c1, c2, c3, c4, c5, c6, c7]
      by_cases he : s.take 4 = []
      · simp [he]
      · simp only [he, if_false]
        rcases parseLen_classified (s.take 4) with ⟨hp, _⟩ | ⟨size, _, hp, hl4, _⟩
        · simp [hp]
        · simp only [hp]
          have hs4 : 4 ≤ s.length := by
            simp only [List.length_take] at hl4; omega
          by_cases h0 : size = 0 ∨ size = 1
          · simp only [h0, if_true]
            exact ih f (by omega) (s.drop 4) (by simp only [List.length_drop]; omega)
          · simp only [h0, if_false]
            by_cases h1 : size < 4
            · simp [h1]
            · simp only [h1, if_false]
              by_cases h3 : size > 4
              · simp only [h3, if_true]
                by_cases h2 : ((s.drop 4).take (size - 4)).length + 4 = size
                · simp only [h2, ne_eq, not_true_eq_false, if_false]
                  exact ih f (by omega) ((s.drop 4).drop (size - 4))
                    (by simp only [List.length_drop]; omega)
                · simp only [List.length_take, List.length_drop] at h2
                  simp [h2]
              · have h4 : size = 4 := by omega
                subst h4
                simp only [h3, if_false, List.length_nil, Nat.zero_add, ne_eq, not_true_eq_false]
                exact ih f (by omega) (s.drop 4) (by simp only [List.length_drop]; omega)

/-! ## 6. `eof()` / `unread_pkt_line` are transparent -/

/-- Probing `eof()` before a read changes neither what `read_pkt_line` returns next nor what is
left on the transport (any conforming reader, any frame that fits the length field — so also a
peer's frame longer than what `pkt_line` would send; the empty payload included); on an
exhausted stream `eof()` answers `True`. -/
theorem eof_transparent {τ : Type} {rd : Reader τ} {abs : τ → Bytes} {Valid : τ → Prop}
    (hrd : ReadSpec rd abs Valid) (s : τ) (x : Pkt) (rest : Bytes) (hv : Valid s)
    (habs : abs s = frame x ++ rest) (hf : Fits x) :
    ∃ st' s', eof rd ⟨none, s⟩ = .ok false st' ∧ readPktLine rd st' = .pkt x ⟨none, s'⟩ ∧
      abs s' = rest ∧ Valid s' := by
  obtain ⟨s', h1, h2, h3⟩ := readCore_frame hrd s x rest hv habs hf
  obtain ⟨b', g1, _, _⟩ := readCore_frame bytesRead_spec (frame x) x [] trivial (by simp) hf
  refine ⟨⟨some (frame x), s'⟩, s', ?_, ?_, h2, h3⟩
  · have k1 : Gen.PktLine.unHdr = 4 := rfl
    have k2 : Gen.PktLine.unMax = 65535 := rfl
    have k3 : Gen.PktLine.unWidth = 4 := rfl
    cases x with
    | none => simp [eof, readPktLine, h1, unreadPktLine, pktLine]
    | some d =>
      have hfit : d.length + 4 < 65536 := hf
      have : ¬ d.length + 4 > 65535 := by omega
      simp [eof, readPktLine, h1, unreadPktLine, k1, k2, k3, this, frame_data]
  · simp [readPktLine, g1]

theorem eof_at_end {τ : Type} {rd : Reader τ} {abs : τ → Bytes} {Valid : τ → Prop}
    (hrd : ReadSpec rd abs Valid) (s : τ) (hv : Valid s) (habs : abs s = []) :
    ∃ st', eof rd ⟨none, s⟩ = .ok true st' := by
  obtain ⟨s', h⟩ := readCore_eof hrd s hv habs
  exact ⟨⟨none, s'⟩, by simp [eof, readPktLine, h]⟩

example : ∃ st', eof bytesRead ⟨none, [48, 48, 48, 53, 97, 48]⟩ = .ok false st' ∧
    readPktLine bytesRead st' = .pkt (some [97]) ⟨none, [48]⟩ :=
  ⟨⟨some [48, 48, 48, 53, 97], [48]⟩, by rfl, by rfl⟩

/-! ## 7. `ReceivableProtocol.recv` -/

/-- `recv(n)` (`n > 0`, `_rbufsize > 0`) returns a prefix of the remaining stream of at most `n`
bytes — non-empty unless the stream is exhausted — and leaves exactly the rest: `read` and `recv`
calls can be mixed freely without losing, duplicating or reordering a byte. -/
theorem receivable_recv_prefix (rb n : Nat) (st : RP) (hn : 0 < n) (hrb : 0 < rb)
    (hv : ∀ c ∈ st.src, c ≠ []) :
    ∃ out st', rpRecv rb n st = some (out, st') ∧ out ++ st'.stream = st.stream ∧ out.length ≤ n ∧
      (st.stream ≠ [] → out ≠ []) ∧ (∀ c ∈ st'.src, c ≠ []) := by
  unfold rpRecv
  have hn0 : ¬ n = 0 := by omega
  simp only [hn0, if_false]
  by_cases hb : st.rbuf = []
  · simp only [hb, if_true]
    cases hs : st.src with
    | nil =>
      simp only [srcRecv, List.length_nil]
      by_cases h0 : 0 = n
      · omega
      · simp only [h0, if_false]
        exact ⟨_, _, rfl, by simp [RP.stream, hb, hs], by simp, by simp [RP.stream, hb, hs], by simp⟩
    | cons c cs =>
      have hc : c ≠ [] := hv c (by rw [hs]; exact List.mem_cons_self)
      have hcl : 0 < c.length := by cases c with | nil => exact absurd rfl hc | cons _ _ => simp
      have hcs : ∀ c' ∈ cs, c' ≠ [] := fun c' h => hv c' (by rw [hs]; exact List.mem_cons_of_mem _ h)
      simp only [srcRecv]
      have hst : st.stream = c ++ cs.flatten := by simp [RP.stream, hb, hs]
      rw [hst]
      by_cases h1 : c.length ≤ rb
      · simp only [h1, if_true]
        by_cases h2 : c.length = n
        · simp only [h2, if_true]
          exact ⟨_, _, rfl, by simp [RP.stream], by omega, fun _ => hc, hcs⟩
        · simp only [h2, if_false]
          refine ⟨_, _, rfl, ?_, by simp only [List.length_take]; omega, fun _ h => ?_, hcs⟩
          · simp only [RP.stream]
            rw [← List.append_assoc, List.take_append_drop]
          · have := congrArg List.length h
            simp only [List.length_take, List.length_nil] at this; omega
      · simp only [h1, if_false]
        have hv' : ∀ c' ∈ c.drop rb :: cs, c' ≠ [] := by
          intro c' hc'
          simp only [List.mem_cons] at hc'
          rcases hc' with rfl | h
          · intro h0
            have := congrArg List.length h0
            simp only [List.length_drop, List.length_nil] at this; omega
          · exact hcs _ h
        by_cases h2 : (c.take rb).length = n
        · simp only [h2, if_true]
          refine ⟨_, _, rfl, ?_, by omega, fun _ h => ?_, hv'⟩
          · simp only [RP.stream, List.nil_append, List.flatten_cons]
            rw [← List.append_assoc, List.take_append_drop]
          · have := congrArg List.length h
            simp only [List.length_take, List.length_nil] at this; omega
        · simp only [h2, if_false]
          refine ⟨_, _, rfl, ?_, by simp only [List.length_take]; omega, fun _ h => ?_, hv'⟩
          · simp only [RP.stream, List.flatten_cons]
            rw [← List.append_assoc, List.take_append_drop, ← List.append_assoc, List.take_append_drop]
          · have := congrArg List.length h
            simp only [List.length_take, List.length_nil] at this; omega
  · simp only [hb, if_false]
    refine ⟨_, _, rfl, ?_, by simp only [List.length_take]; omega, fun _ h => ?_, hv⟩
    · simp only [RP.stream]
      rw [← List.append_assoc, List.take_append_drop]
    · have hl : 0 < st.rbuf.length := by
        cases hr : st.rbuf with | nil => exact absurd hr hb | cons _ _ => simp
      have := congrArg List.length h
      simp only [List.length_take, List.length_nil] at this; omega

/-! ## 8. side-band: split at 65515, every frame within git's limit, reassembly per channel -/

/-- **`write_sideband` never raises and never exceeds git's frame limit**: `pkt_line` accepts every
slice (the result is `some (sbFrames …)`), every write is one well-formed frame of at most 65520
bytes carrying the channel byte and a non-empty slice of the blob, and the slices concatenate to
the blob.  (Depends on `blob[:65515]` and `MAX_PKT_LINE_DATA_LEN`: 65515 + 1 = 65516.) -/
theorem sideband_split_ok (ch : UInt8) (blob : Bytes) :
    writeSideband ch blob = some (sbFrames ch blob) ∧
    (∀ f ∈ sbFrames ch blob, f.length ≤ gitLargePacketMax ∧ ∃ c, c ≠ [] ∧ WellFramed f (ch :: c)) ∧
    (sbChunks blob.length blob).flatten = blob := by
  refine ⟨writeSideband_eq ch blob, fun f hf => ?_, sbChunks_flatten _ _ (Nat.le_refl _)⟩
  simp only [sbFrames, List.mem_map] at hf
  obtain ⟨c, hc, rfl⟩ := hf
  obtain ⟨b1, b2⟩ := sbChunks_bounds _ _ c hc
  have k : Gen.PktLine.sbChunk = 65515 := rfl
  have hlen : (ch :: c).length ≤ 65516 := by simp only [List.length_cons]; omega
  rcases frame_statement (ch :: c) with ⟨h, _⟩ | ⟨f, h1, h2, h3⟩
  · rw [pktLine_some _ hlen] at h; cases h
  · rw [pktLine_some _ hlen] at h1
    cases h1
    refine ⟨h3, c, ?_, h2⟩
    intro h; rw [h] at b1; simp at b1

/-- **Side-band round trip, blocking reader**: any sequence of writes on any channels, followed by
a flush-pkt and anything else: `read_pkt_seq` + `_read_side_band64k_data` yield exactly the
`(channel, slice)` pairs, in order, and leave the transport right after the flush-pkt. -/
theorem sideband_roundtrip (writes : List (UInt8 × Bytes)) (rest : Bytes) :
    ∃ pk, readPktSeq bytesRead ((sbPackets writes).length + 1)
        ⟨none, (writes.flatMap (fun w => sbFrames w.1 w.2)).flatten ++ (frame none ++ rest)⟩
      = (pk, none, ⟨none, rest⟩) ∧ sidebandDemux pk = some (sbPairs writes) := by
  have hw := sideband_wire writes
  obtain ⟨s', h1, h2, _⟩ := readPktSeq_roundtrip bytesRead_spec rest (sbPackets writes)
    ((sbPackets writes).length + 1)
    ((writes.flatMap (fun w => sbFrames w.1 w.2)).flatten ++ (frame none ++ rest)) trivial
    (by simp only [hw]) (sbPackets_ok writes) (Nat.lt_succ_self _)
  have h2' : s' = rest := h2
  subst h2'
  exact ⟨_, h1, sidebandDemux_packets writes⟩

/-- **Side-band round trip under every chunking** (`ReceivableProtocol`): the same, for every way
`recv` may fragment the wire bytes. -/
theorem sideband_roundtrip_any_chunking (writes : List (UInt8 × Bytes)) (cs : List Bytes)
    (hcs : ∀ c ∈ cs, c ≠ [])
    (hflat : cs.flatten = (writes.flatMap (fun w => sbFrames w.1 w.2)).flatten ++ frame none) :
    ∃ pk st', readPktSeq rpRead ((sbPackets writes).length + 1) ⟨none, ⟨[], cs⟩⟩ = (pk, none, ⟨none, st'⟩) ∧
      st'.stream = [] ∧ sidebandDemux pk = some (sbPairs writes) := by
  obtain ⟨s', h1, h2, _⟩ := readPktSeq_roundtrip rpRead_spec [] (sbPackets writes) _ ⟨[], cs⟩ hcs
    (by simp only [RP.stream, List.nil_append, hflat, sideband_wire, List.append_nil])
    (sbPackets_ok writes) (Nat.lt_succ_self _)
  exact ⟨_, s', h1, h2, sidebandDemux_packets writes⟩

/-- **Reassembly per channel**: what a reader collects on channel `ch` is the concatenation of the
blobs written to `ch`, for every interleaving of writes on the three (indeed all 256) channels. -/
theorem sideband_reassembly (writes : List (UInt8 × Bytes)) (ch : UInt8) :
    (((sbPairs writes).filter (fun x => x.1 = ch)).map (·.2)).flatten
      = ((writes.filter (fun w => w.1 = ch)).map (·.2)).flatten := by
  induction writes with
  | nil => simp [sbPairs]
  | cons w ws ih =>
    simp only [sbPairs, List.flatMap_cons, List.filter_append, List.map_append, List.flatten_append] at ih ⊢
    rw [ih, sbPairs_channel]
    by_cases h : w.1 = ch
    · simp [h, sbChunks_flatten _ _ (Nat.le_refl _)]
    · simp [h]

example : writeSideband 2 [104, 105] = some [[48, 48, 48, 55, 2, 104, 105]] := by decide

/-! ## 9. `BufferedPktLineWriter`: what reaches the underlying writer is the pkt-line stream -/

/-- **Buffered writer stream equality**, for every buffer size, every starting value of the
`_buflen` counter (which `flush` never resets — the `_len` slip — and the model reproduces) and
every sequence of writes that `pkt_line` accepts: no write raises, and the blobs handed to the
underlying writer, with the final `flush`, concatenate to `pkt_line(d1) ++ pkt_line(d2) ++ …`.
(Slice identity `l[:k] + l[k:] = l` for every integer `k`, negative ones included.) -/
theorem buffered_writer_stream_eq (bufsize buflen : Nat) (ds : List Bytes) (h : ∀ d ∈ ds, d.length ≤ 65516) :
    ∃ outs, bwRun bufsize ⟨[], buflen⟩ ds = some outs ∧ wire (ds.map some) = some outs.flatten := by
  obtain ⟨outs, h1, h2⟩ := bwRun_stream bufsize ds ⟨[], buflen⟩ h
  refine ⟨outs, h1, ?_⟩
  have : (ds.map some).mapM pktLine = some ((ds.map some).map frame) :=
    mapM_some_of_forall pktLine frame _ (fun x hx => by
      obtain ⟨d, hd, rfl⟩ := List.mem_map.mp hx
      exact pktLine_some d (h d hd))
  simp only [wire, this, Option.map_some, h2, List.nil_append, encode]

/-- a write that does not fit one pkt-line is refused (the ValueError of `pkt_line` propagates) -/
theorem buffered_writer_refuses (bufsize : Nat) (st : BW) (d : Bytes) (ds : List Bytes) (h : 65516 < d.length) :
    bwRun bufsize st (d :: ds) = none :=
  bwRun_refuses bufsize st d ds h

example : bwRun 12 ⟨[], 0⟩ [[97, 98], [99], [100, 101, 102, 103, 104], []]
    = some [[48, 48, 48, 54, 97, 98, 48, 48, 48, 53, 99, 48], [48, 48, 57, 100, 101, 102, 103, 104], [48, 48, 48, 52]] := by
  decide

/-! ## 10. `PackStreamReader._read`: the checksum trailer is tracked under any read sizes -/

/-- **Trailer tracking**: after any sequence of reads (any sizes, empty reads included) everything
read so far is `hashed ++ trailer`, and the trailer is the last `min(hash_size, total)` bytes. -/
theorem trailer_tracking (h : Nat) (hh : 0 < h) (cs : List Bytes) :
    (trailerRun h ⟨[], []⟩ cs).hashed ++ (trailerRun h ⟨[], []⟩ cs).trailer = cs.flatten ∧
    (trailerRun h ⟨[], []⟩ cs).trailer.length = min h cs.flatten.length := by
  simpa using trailerRun_inv h hh cs ⟨[], []⟩ [] rfl (by simp)

/-- hence the hashed prefix and the trailer do not depend on how the stream was cut into reads -/
theorem trailer_chunking_independent (h : Nat) (hh : 0 < h) (cs cs' : List Bytes)
    (hflat : cs.flatten = cs'.flatten) : trailerRun h ⟨[], []⟩ cs = trailerRun h ⟨[], []⟩ cs' := by
  obtain ⟨a1, a2⟩ := trailer_tracking h hh cs
  obtain ⟨b1, b2⟩ := trailer_tracking h hh cs'
  rw [hflat] at a1 a2
  have := List.append_inj' (a1.trans b1.symm) (a2.trans b2.symm)
  cases h1 : trailerRun h ⟨[], []⟩ cs
  cases h2 : trailerRun h ⟨[], []⟩ cs'
  simp only [h1, h2] at this
  simp [this.1, this.2]

example : trailerRun 3 ⟨[], []⟩ [[1, 2], [3], [], [4, 5, 6, 7, 8, 9], [10]] = ⟨[1, 2, 3, 4, 5, 6, 7], [8, 9, 10]⟩ := by
  decide

/-! ## 11. capability lists and ref lines -/

/-- **Capability-list round trip (full)** through `format_ref_line` / `extract_capabilities`: for
every ref and sha without NUL and EVERY list — the empty one included — of non-empty capability
tokens without NUL, LF and SP (`CapsWF`: the separator, the terminator and the field delimiter of
the format itself; nothing else is excluded — TAB, CR, VT, FF, any other byte may occur anywhere). -/
theorem caps_roundtrip (ref sha : Bytes) (caps : List Bytes) (hw : CapsWF caps)
    (hs : (0 : UInt8) ∉ sha) (hr : (0 : UInt8) ∉ ref) :
    extractCapabilities (formatRefLine ref sha (some caps)) = some (sha ++ [32] ++ ref, caps) := by
  have hT0 : (0 : UInt8) ∉ sha ++ [32] ++ ref := by
    simp only [List.mem_append, List.mem_cons, List.not_mem_nil, or_false]
    intro h
    rcases h with (h | h) | h
    · exact hs h
    · exact absurd h (by decide)
    · exact hr h
  unfold formatRefLine
  simp only
  by_cases hne : caps = []
  · subst hne
    have hline : sha ++ [32] ++ ref ++ [0] ++ formatCapabilityLine [] ++ [10]
        = (sha ++ [32] ++ ref) ++ 0 :: [10] := by simp [formatCapabilityLine]
    rw [hline]
    unfold extractCapabilities
    have hc : ((sha ++ [32] ++ ref) ++ 0 :: [10]).contains 0 = true := by simp
    simp only [hc, not_true_eq_false, if_false]
    rw [splitOn_append 0 _ _ hT0, splitOn_nosep 0 [10] (by decide)]
    have : stripBy isSepLf [10] = [] := by decide
    simp [this]
  · have hJ0 : (0 : UInt8) ∉ (32 :: joinWith 32 caps) ++ [10] := by
      intro h
      simp only [List.mem_append, List.mem_cons, List.not_mem_nil, or_false] at h
      rcases h with (h | h) | h
      · exact absurd h (by decide)
      · rcases mem_joinWith 32 0 caps h with h | ⟨p, hp, hx⟩
        · exact absurd h (by decide)
        · exact hw.nosep 0 (Or.inr (Or.inr rfl)) p hp hx
      · exact absurd h (by decide)
    rw [formatCapabilityLine_eq caps hne]
    have hline : sha ++ [32] ++ ref ++ [0] ++ (32 :: joinWith 32 caps) ++ [10]
        = (sha ++ [32] ++ ref) ++ 0 :: ((32 :: joinWith 32 caps) ++ [10]) := by simp
    rw [hline]
    unfold extractCapabilities
    have hc : ((sha ++ [32] ++ ref) ++ 0 :: ((32 :: joinWith 32 caps) ++ [10])).contains 0 = true := by simp
    simp only [hc, not_true_eq_false, if_false]
    rw [splitOn_append 0 _ _ hT0, splitOn_nosep 0 _ hJ0]
    simp only
    rw [strip_capline caps hw hne]
    obtain ⟨b0, r, t, e0, _⟩ := hw.first hne
    obtain ⟨J, hJ⟩ := joinWith_first 32 b0 r t
    have hJne : joinWith 32 caps ≠ [] := by rw [e0, hJ]; simp
    simp only [hJne, if_false]
    rw [splitOn_join 32 caps hne (hw.nosep 32 (Or.inl rfl))]

/-- Non-vacuity: tokens with TAB and CR at their edges are in the domain now. -/
example : CapsWF [[9, 97, 98], [99, 61, 100, 13]] ∧ CapsWF [] := by
  refine ⟨fun c hc => ?_, fun c hc => by simp at hc⟩
  simp only [List.mem_cons, List.not_mem_nil, or_false] at hc
  rcases hc with rfl | rfl <;> decide

example : extractCapabilities (formatRefLine [114] [49] (some [[9, 97], [98, 13]]))
    = some ([49, 32, 114], [[9, 97], [98, 13]]) := by decide

/-- **Want-line capability round trip (full for non-empty lists)** (`want <sha> cap cap…\n` as the
client writes it): every non-empty list of `CapsWF` tokens comes back, for any command word and
sha without SP. -/
theorem want_caps_roundtrip (cmd sha : Bytes) (caps : List Bytes) (hw : CapsWF caps) (hne : caps ≠ [])
    (hc : (32 : UInt8) ∉ cmd) (hs : (32 : UInt8) ∉ sha) :
    extractWantLineCapabilities (joinWith 32 (cmd :: sha :: caps) ++ [10]) = (cmd ++ 32 :: sha, caps) := by
  obtain ⟨i, c, b, e, hb⟩ := hw.last hne
  obtain ⟨X, hX⟩ := joinWith_last 32 (cmd :: sha :: i) c b
  have e' : cmd :: sha :: caps = (cmd :: sha :: i) ++ [c ++ [b]] := by rw [e]; rfl
  have k1 : Gen.PktLine.wantMin = 3 := rfl
  have k2 : Gen.PktLine.wantHead = 2 := rfl
  unfold extractWantLineCapabilities
  rw [rstrip_snoc_ws _ _ _ (by decide)]
  have hr : rstripBy isSepLf (joinWith 32 (cmd :: sha :: caps)) = joinWith 32 (cmd :: sha :: caps) := by
    rw [e', hX, rstrip_snoc_nonws _ _ _ hb]
  rw [hr, splitOn_join 32 _ (by simp) (by
    intro p hp
    simp only [List.mem_cons] at hp
    rcases hp with rfl | rfl | hp
    · exact hc
    · exact hs
    · exact hw.nosep 32 (Or.inl rfl) p hp)]
  cases caps with
  | nil => exact absurd rfl hne
  | cons c0 cr => simp [k1, k2, joinWith]

/-- a want line without capabilities (`want <sha> \n`, as the v0/v1 client writes for an empty set)
yields no capabilities -/
example : (extractWantLineCapabilities [119, 32, 49, 32, 10]).2 = [] := by decide

/-- Regression witness (fixed F-C19-caps-empty-list, PENDING-3): the old `extract_capabilities` returned
the empty capability list as `[b""]`; the new one returns `[]`. -/
theorem old_caps_empty_list_witness :
    Old.extractCapabilities (formatRefLine [114] [49] (some [])) = some ([49, 32, 114], [[]]) ∧
    extractCapabilities (formatRefLine [114] [49] (some [])) = some ([49, 32, 114], []) := by decide

/-- Regression witness (fixed F-C19-caps-edge-whitespace, PENDING-4): the old extractors stripped a TAB at
the start of the first token and a CR at the end of the last one (`[b"\ta", b"b\r"]` came back as
`[b"a", b"b"]`, also on the want line); the new ones keep them. -/
theorem old_caps_edge_whitespace_witness :
    Old.extractCapabilities (formatRefLine [114] [49] (some [[9, 97], [98, 13]])) = some ([49, 32, 114], [[97], [98]]) ∧
    Old.extractWantLineCapabilities (joinWith 32 [[119], [49], [97], [98, 13]] ++ [10]) = ([119, 32, 49], [[97], [98]]) ∧
    extractWantLineCapabilities (joinWith 32 [[119], [49], [97], [98, 13]] ++ [10]) = ([119, 32, 49], [[97], [98, 13]]) := by
  decide

end Dulwich.Props.C19
