/-
  C19 — pkt-line and side-band framing round-trips under any read chunking.

  Only property theorems, non-vacuity examples and negation witnesses live here; helper lemmas
  are in Lemmas/PktLine.lean.  The model is Model/PktLine.lean; every constant it uses comes from
  Gen/PktLine.lean, which the translator regenerates from /repo on every run.
-/
import DulwichModel.Lemmas.PktLine

namespace Dulwich.Props.C19
open Dulwich Dulwich.PktLine

/-! ## 1. Frames: `pkt_line` output is a well-formed frame iff the payload fits four hex digits -/

/-- `f` is a four-byte length prefix that `_parse_pkt_line_length` reads as `|p| + 4`, followed by `p`. -/
def WellFramed (f p : Bytes) : Prop :=
  ∃ pre, pre.length = 4 ∧ f = pre ++ p ∧ parseLen pre = .ok (p.length + 4)

/-- **Frame well-formedness.**  `pkt_line(p)` is a well-formed frame exactly when `|p| + 4 ≤ 0xFFFF`;
`pkt_line` neither splits nor refuses anything (it is total), so beyond that it emits a malformed
frame — see the two counterexamples below. -/
theorem frame_well_formed (p : Bytes) : WellFramed (pktLine (some p)) p ↔ p.length + 4 ≤ 0xFFFF := by
  constructor
  · intro ⟨pre, hl, he, _⟩
    by_cases h : p.length + 4 ≤ 0xFFFF
    · exact h
    · exfalso
      have hlong := fmtHex_long 4 (p.length + 4) (by omega)
      have := congrArg List.length he
      rw [pktLine_data] at this
      simp only [List.length_append] at this
      omega
  · intro h
    exact ⟨fmtHex 4 (p.length + 4), fmtHex_length _ (by omega), pktLine_data p, parseLen_fmtHex _ (by omega)⟩

/-- What the property asks for and the code only delivers below the limit: within git's
`LARGE_PACKET_MAX` the frame is well-formed and no longer than a conforming peer accepts. -/
theorem frame_within_git_max_partial (p : Bytes) (h : p.length + 4 ≤ gitLargePacketMax) :
    WellFramed (pktLine (some p)) p ∧ (pktLine (some p)).length ≤ gitLargePacketMax := by
  have hg : gitLargePacketMax = 65520 := rfl
  rw [hg] at h ⊢
  refine ⟨(frame_well_formed p).mpr (by omega), ?_⟩
  rw [pktLine_data, List.length_append, fmtHex_length _ (by omega)]
  omega

example : WellFramed (pktLine (some [104, 105])) [104, 105] :=
  (frame_well_formed _).mpr (by decide)

/-- Negation witness (F19a): a 65532-byte payload gets the five-digit prefix `10000` — for every
such payload the output is not a frame (as coded: `f"{len(data) + 4:04x}"` pads, never truncates or
refuses). -/
theorem oversize_frame_counterexample (p : Bytes) (h : p.length = 65532) :
    (pktLine (some p)).take 5 = [49, 48, 48, 48, 48] ∧ ¬ WellFramed (pktLine (some p)) p := by
  refine ⟨?_, fun hw => ?_⟩
  · rw [pktLine_data, h]
    have : fmtHex 4 (65532 + 4) = [49, 48, 48, 48, 48] := by decide
    rw [this]; rfl
  · have := (frame_well_formed p).mp hw
    omega

/-- Negation witness (F19b): a 65517-byte payload is neither split nor refused: one 65521-byte
frame comes out, longer than git's `LARGE_PACKET_MAX`. -/
theorem over_git_max_counterexample (p : Bytes) (h : p.length = 65517) :
    (pktLine (some p)).length = 65521 ∧ gitLargePacketMax < (pktLine (some p)).length := by
  have : (pktLine (some p)).length = 65521 := by
    rw [pktLine_data, List.length_append, fmtHex_length _ (by omega)]; omega
  rw [this]
  exact ⟨rfl, by decide⟩

/-! ## 2. Every byte string offered as a length prefix is classified -/

/-- **Length-prefix totality**, all byte strings (in particular all 2^32 four-byte prefixes): either a
protocol error — wrong length or some byte outside `_HEX_DIGITS` — or exactly four hex digits and
a length below 16^4.  Nothing else (no other exception class, no negative or huge length).  The
proof lifts a `decide` over the 256-entry per-byte table (`digit_table`). -/
theorem parseLen_total (s : Bytes) :
    (parseLen s = .protocol ∧ (s.length ≠ 4 ∨ ∃ b ∈ s, Gen.PktLine.hexDigits.contains b.toNat = false)) ∨
    (∃ n, n < 65536 ∧ parseLen s = .ok n ∧ s.length = 4 ∧
      ∀ b ∈ s, Gen.PktLine.hexDigits.contains b.toNat = true) :=
  parseLen_classified s

/-- the length field round-trips for every length that fits -/
theorem prefix_roundtrip (n : Nat) (h : n < 65536) : parseLen (fmtHex 4 n) = .ok n :=
  parseLen_fmtHex n h

example : parseLen [48, 48, 97, 70] = .ok 175 ∧ parseLen [45, 48, 48, 49] = .protocol ∧
    parseLen [48, 48, 48] = .protocol := by decide

/-! ## 3. `read_pkt_line`: round trip over a blocking read, and over `ReceivableProtocol` for
EVERY fragmentation of the byte stream -/

/-- **Round trip, blocking reader** (`Protocol` over a file-like `read`): every sequence of
flush-pkts and payloads that fit comes back, followed by a clean hang-up. -/
theorem protocol_roundtrip (ps : List Pkt) (h : ∀ x ∈ ps, Fits x) :
    readAll bytesRead (ps.length + 1) ⟨none, encode ps⟩ = (ps, .hangup) :=
  readAll_roundtrip bytesRead_spec ps (ps.length + 1) (encode ps) trivial rfl
    (fun x hx => ⟨h x hx, Or.inl trivial⟩) (Nat.lt_succ_self _)

/-- **`ReceivableProtocol.read` is a blocking read of the stream, whatever the fragments.**  For any
buffer state and any list of non-empty fragments still to be delivered by `recv`, `read(n)`
(`n > 0`) returns exactly the next `n` bytes of the concatenated stream (fewer only at EOF) and
leaves a state whose remaining stream is the rest. -/
theorem receivable_read_is_blocking_read (n : Nat) (st : RP) (hn : 0 < n) (hv : ∀ c ∈ st.src, c ≠ []) :
    ∃ st', rpRead n st = some (st.stream.take n, st') ∧ st'.stream = st.stream.drop n ∧
      (∀ c ∈ st'.src, c ≠ []) := by
  obtain ⟨out, st', h1, h2, h3, h4⟩ := rpRead_spec n st hv (Or.inl hn)
  refine ⟨st', ?_, ?_, h4⟩
  · rw [h1, ← h2]
    congr 2
    by_cases hc : out.length = n
    · exact (List.take_left' hc).symm
    · have hlen : st'.stream.length = 0 := by
        have := congrArg List.length h2
        simp only [List.length_append] at this
        omega
      have : st'.stream = [] := List.eq_nil_of_length_eq_zero hlen
      rw [this, List.append_nil, List.take_of_length_le (by omega)]
  · rw [← h2]
    by_cases hc : out.length = n
    · exact (List.drop_left' hc).symm
    · have hlen : st'.stream.length = 0 := by
        have := congrArg List.length h2
        simp only [List.length_append] at this
        omega
      have : st'.stream = [] := List.eq_nil_of_length_eq_zero hlen
      rw [this, List.append_nil, List.drop_of_length_le (by omega)]

/-- **Round trip under every chunking, `ReceivableProtocol`.**  For every sequence of flush-pkts and
non-empty payloads that fit, and EVERY way `recv` may cut the encoded byte stream into non-empty
fragments, repeated `read_pkt_line` returns the original sequence and then hangs up cleanly.
(The empty payload is excluded by the proof: see the counterexample below.) -/
theorem receivable_roundtrip_any_chunking (ps : List Pkt) (cs : List Bytes)
    (h : ∀ x ∈ ps, Fits x ∧ x ≠ some []) (hcs : ∀ c ∈ cs, c ≠ []) (hflat : cs.flatten = encode ps) :
    readAll rpRead (ps.length + 1) ⟨none, ⟨[], cs⟩⟩ = (ps, .hangup) :=
  readAll_roundtrip rpRead_spec ps (ps.length + 1) ⟨[], cs⟩ hcs (by simpa [RP.stream] using hflat)
    (fun x hx => ⟨(h x hx).1, Or.inr (h x hx).2⟩) (Nat.lt_succ_self _)

/-- Non-vacuity: `0005a` `0000` `0006bc` delivered as `00|05a00|0|0000|6bc`. -/
example : readAll rpRead 4 ⟨none, ⟨[], [[48, 48], [48, 53, 97, 48, 48], [48], [48, 48, 48, 48], [54, 98, 99]]⟩⟩
    = ([some [97], none, some [98, 99]], .hangup) := by decide

/-- Negation witness (F-C19-rp-empty-pkt-line): the empty payload does not survive
`ReceivableProtocol`: `pkt_line(b"") = b"0004"`, `read_pkt_line` calls `read(0)`, which trips
`assert size > 0` — neither the payload nor a protocol error. -/
theorem receivable_empty_payload_counterexample :
    readAll rpRead 2 ⟨none, ⟨[], [pktLine (some [])]⟩⟩ = ([], .otherErr) := by decide

/-- A transport `read` that returns short (socket `recv` used directly): outside `Protocol`'s contract. -/
def shortRead : Reader (List Bytes) := fun n s => some (srcRecv n s)

/-- The blocking hypothesis is necessary: over a `read` that may return short, a perfectly valid
stream (`0005a` delivered as `00|05a`) is a protocol error.  `Protocol` must be given a blocking
`read`; `ReceivableProtocol` is what provides one over `recv`. -/
theorem unbuffered_short_read_counterexample :
    readAll shortRead 3 ⟨none, [[48, 48], [48, 53, 97]]⟩ = ([], .protoErr) := by decide

/-! ## 4. `PktLineParser`: chunking independence and round trip under every chunking -/

/-- **Chunking independence**, every byte string (well-formed or not) and every fragmentation
(empty fragments included): feeding the fragments one `parse()` call each delivers exactly the
packets, and ends in exactly the tail / protocol error, of a single call on the whole string. -/
theorem parser_chunking_independent (cs : List Bytes) : feedAll [] cs = parse cs.flatten := by
  have := feedAll_eq_parse cs [] parse_nil
  simpa using this

/-- **Round trip under every chunking, `PktLineParser`.**  Every sequence of flush-pkts and payloads
that fit (the empty payload included), however the encoded stream is cut, is handed to the
callback unchanged, and nothing is left in the read-ahead buffer. -/
theorem parser_roundtrip_any_chunking (ps : List Pkt) (cs : List Bytes)
    (h : ∀ x ∈ ps, Fits x) (hflat : cs.flatten = encode ps) :
    feedAll [] cs = (ps, .tail []) := by
  rw [parser_chunking_independent, hflat, parse_encode ps h]

example : feedAll [] [[48], [48, 48, 52, 48, 48], [48, 48, 48, 48, 48], [54, 98], [99, 48, 48]]
    = ([some [], none, some [98, 99]], .tail [48, 48]) := by decide

/-! ## 5. Decoder totality: frames, then a clean end or a protocol error — nothing else -/

/-- The incremental parser never ends in anything but a tail or a protocol error, for every
byte string and (by §4) every fragmentation. -/
theorem parser_total : ∀ (n : Nat) (buf : Bytes), buf.length ≤ n → (parse buf).2 ≠ .otherErr := by
  intro n
  induction n using Nat.strongRecOn with
  | _ n ih =>
    intro buf hn
    rw [parse_unfold]
    by_cases h4 : buf.length < 4
    · simp [h4]
    · simp only [h4, if_false]
      rcases parseLen_classified (buf.take 4) with ⟨hp, _⟩ | ⟨size, _, hp, _, _⟩
      · simp [hp]
      · simp only [hp]
        by_cases h0 : size = 0
        · simp only [h0, if_true]
          exact ih (buf.length - 4) (by omega) _ (by simp)
        · simp only [h0, if_false]
          by_cases h1 : size < 4
          · simp [h1]
          · simp only [h1, if_false]
            by_cases h2 : size ≤ buf.length
            · simp only [h2, if_true]
              exact ih (buf.length - size) (by omega) _ (by simp)
            · simp [h2]

theorem parser_total_any_chunking (cs : List Bytes) : (feedAll [] cs).2 ≠ .otherErr := by
  rw [parser_chunking_independent]
  exact parser_total _ _ (Nat.le_refl _)

/-- `read_pkt_line` over a blocking read, repeated until it raises: for EVERY byte string the run
ends in a hang-up (clean EOF at a frame boundary) or a protocol error; the fuel `|s| + 1` is never
exhausted (each returned packet consumed at least four bytes). -/
theorem reader_total : ∀ (n : Nat) (s : Bytes), s.length < n →
    (readAll bytesRead n ⟨none, s⟩).2 = .hangup ∨ (readAll bytesRead n ⟨none, s⟩).2 = .protoErr := by
  have c1 : Gen.PktLine.rdPrefix = 4 := rfl
  have c2 : Gen.PktLine.rdFlush = 0 := rfl
  have c3 : Gen.PktLine.rdDelim = 1 := rfl
  have c4 : Gen.PktLine.rdMin = 4 := rfl
  have c5 : Gen.PktLine.rdHdr = 4 := rfl
  have c6 : Gen.PktLine.rdChk = 4 := rfl
  intro n
  induction n using Nat.strongRecOn with
  | _ n ih =>
    intro s hn
    cases n with
    | zero => omega
    | succ f =>
      simp only [readAll, readPktLine, readCore, bytesRead, c1, c2, c3, c4, c5, c6]
      by_cases he : s.take 4 = []
      · simp [he]
      · simp only [he, if_false]
        rcases parseLen_classified (s.take 4) with ⟨hp, _⟩ | ⟨size, _, hp, hl4, _⟩
        · simp [hp]
        · simp only [hp]
          have hs4 : 4 ≤ s.length := by
            simp only [List.length_take] at hl4; omega
          by_cases h0 : size = 0 ∨ size = 1
          · simp only [h0, if_true]
            exact ih f (by omega) (s.drop 4) (by simp only [List.length_drop]; omega)
          · simp only [h0, if_false]
            by_cases h1 : size < 4
            · simp [h1]
            · simp only [h1, if_false]
              by_cases h2 : ((s.drop 4).take (size - 4)).length + 4 = size
              · simp only [h2, ne_eq, not_true_eq_false, if_false]
                exact ih f (by omega) ((s.drop 4).drop (size - 4))
                  (by simp only [List.length_drop]; omega)
              · simp only [List.length_take, List.length_drop] at h2
                simp [h2]

end Dulwich.Props.C19
