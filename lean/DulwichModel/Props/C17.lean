/-
  C17 — checkout never writes outside the work tree or into .git.

  Only property theorems, non-vacuity examples and negation witnesses live here; helper lemmas are in
  Lemmas/PathSafe.lean and Lemmas/Checkout.lean.  Models: Model/PathSafe.lean (validators, as coded, POSIX host)
  and Model/Checkout.lean (abstract file system with symlinks, verify_leading_dirs, build_file_from_blob,
  build_index_from_tree).  Every literal comes from Gen/PathSafe.lean, regenerated from /repo on every run.
-/
import DulwichModel.Lemmas.PathSafe
import DulwichModel.Lemmas.Checkout

namespace Dulwich.Props.C17
open Dulwich Dulwich.PathSafe Dulwich.Checkout Dulwich.Gen.PathSafe

/-! ## 1. The default validator (protectNTFS and protectHFS both off) -/

/-- `.git` in ANY ASCII case is refused even with both protections off (the comparison is on `lower()`). -/
theorem default_rejects_dotgit_case_insensitively (e : Bytes) (h : lower e = [46, 103, 105, 116]) :
    validateDefault e = false := by
  simp [validateDefault, invalidDotnames, h]

/-- Exactly what the default validator refuses: the empty name, `.`, `..` and `.git` in any ASCII case. -/
theorem default_rejects_iff (e : Bytes) :
    validateDefault e = false ↔ (e = [] ∨ e = [46] ∨ e = [46, 46] ∨ lower e = [46, 103, 105, 116]) := by
  have h1 : ∀ b : UInt8, lowerByte b = 46 → b = 46 := fun b h => lowerByte_punct h (by decide)
  simp only [validateDefault, invalidDotnames, Bool.not_eq_false', List.contains_eq_mem, List.mem_cons,
    List.not_mem_nil, or_false, decide_eq_true_eq]
  constructor
  · rintro (h | h | h | h)
    · exact Or.inr (Or.inr (Or.inr h))
    · right; left
      obtain ⟨b, r, rfl, hb, h⟩ := lower_eq_cons.mp h
      rw [lower_eq_nil.mp h, h1 b hb]
    · right; right; left
      obtain ⟨a, r, rfl, ha, h⟩ := lower_eq_cons.mp h
      obtain ⟨b, r, rfl, hb, h⟩ := lower_eq_cons.mp h
      rw [lower_eq_nil.mp h, h1 a ha, h1 b hb]
    · left; exact lower_eq_nil.mp h
  · rintro (rfl | rfl | rfl | h)
    · right; right; right; rfl
    · right; left; rfl
    · right; right; left; rfl
    · left; exact h

/-- As the code behaves with protectNTFS off: the NTFS spellings of `.git` are ACCEPTED by the default
validator (they are ordinary names on a POSIX file system). -/
theorem default_accepts_ntfs_spellings :
    validateDefault [46, 103, 105, 116, 32] = true ∧            -- ".git "
    validateDefault [46, 103, 105, 116, 46] = true ∧            -- ".git."
    validateDefault [103, 105, 116, 126, 49] = true ∧           -- "git~1"
    validateDefault [46, 103, 105, 116, 58, 58, 36, 73] = true  -- ".git::$I"
    := by decide

/-! ## 2. The NTFS validator: the whole `.git` family is refused, for all strings -/

theorem family_prefix_no_backslash {pre : Bytes} (h : IsDotGit pre ∨ IsGitTilde1 pre) : ∀ x ∈ pre, x ≠ 92 := by
  have aux : ∀ (b c : UInt8), lowerByte b = c → c ≠ 92 → c.toNat ≥ 97 ∨ c.toNat < 65 → b ≠ 92 := by
    intro b c hb hc hr he
    subst he
    have : lowerByte 92 = 92 := by decide
    rw [this] at hb
    exact hc hb.symm
  rcases h with ⟨g, i, t, rfl, hg, hi, ht⟩ | ⟨g, i, t, rfl, hg, hi, ht⟩
  · intro x hx
    simp only [List.mem_cons, List.not_mem_nil, or_false] at hx
    rcases hx with rfl | rfl | rfl | rfl
    · decide
    · exact aux _ _ hg (by decide) (by decide)
    · exact aux _ _ hi (by decide) (by decide)
    · exact aux _ _ ht (by decide) (by decide)
  · intro x hx
    simp only [List.mem_cons, List.not_mem_nil, or_false] at hx
    rcases hx with rfl | rfl | rfl | rfl | rfl
    · exact aux _ _ hg (by decide) (by decide)
    · exact aux _ _ hi (by decide) (by decide)
    · exact aux _ _ ht (by decide) (by decide)
    · decide
    · decide

/-- **`ntfs_dotgit_complete`.**  Every byte string of the form (`.git` | `git~1`) in any ASCII case, followed by
any mix of dots and spaces, optionally followed by `:` and ANYTHING (backslashes included), is refused by
`validate_path_element_ntfs` — the universally quantified form of the CVE regression tests
(`.git`, `.GIT`, `.git.`, `.git `, `.git . .`, `git~1`, `GIT~1 `, `.git::$INDEX_ALLOCATION`, `.git:x\y`, …). -/
theorem ntfs_dotgit_complete (e : Bytes) (h : NtfsDotGitFamily e) : validateNtfs e = false := by
  have hsep : ntfsSegSep = 92 := rfl
  have key : ∃ seg ∈ splitOn ntfsSegSep e, isNtfsDotgit seg = true := by
    rw [hsep]
    cases h with
    | plain pre ds hp hd =>
      have hno : ∀ x ∈ pre ++ ds, x ≠ 92 := by
        intro x hx
        rcases List.mem_append.mp hx with h1 | h1
        · exact family_prefix_no_backslash hp x h1
        · rcases hd x h1 with rfl | rfl <;> decide
      refine ⟨pre ++ ds, ?_, isNtfsDotgit_family (.plain pre ds hp hd)⟩
      have := splitOn_append 92 (pre ++ ds) [] hno
      simp only [List.append_nil, splitOn, List.headD_cons, List.tail_cons] at this
      rw [this]; exact List.mem_cons_self
    | ads pre ds rest hp hd =>
      have hno : ∀ x ∈ pre ++ ds ++ [58], x ≠ 92 := by
        intro x hx
        rcases List.mem_append.mp hx with h1 | h1
        · rcases List.mem_append.mp h1 with h2 | h2
          · exact family_prefix_no_backslash hp x h2
          · rcases hd x h2 with rfl | rfl <;> decide
        · simp only [List.mem_cons, List.not_mem_nil, or_false] at h1; subst h1; decide
      refine ⟨pre ++ ds ++ 58 :: (splitOn 92 rest).headD [], ?_, isNtfsDotgit_family (.ads pre ds _ hp hd)⟩
      have := splitOn_append 92 (pre ++ ds ++ [58]) rest hno
      have e1 : pre ++ ds ++ [58] ++ rest = pre ++ ds ++ 58 :: rest := by simp
      have e2 : pre ++ ds ++ [58] ++ (splitOn 92 rest).headD [] = pre ++ ds ++ 58 :: (splitOn 92 rest).headD [] := by simp
      rw [e1, e2] at this
      rw [this]; exact List.mem_cons_self
  simp only [validateNtfs]
  rw [if_pos (List.any_eq_true.mpr key)]

/-- The same for every backslash-separated segment: `a\.git`, `x\GIT~1 .\y`, … are refused. -/
theorem ntfs_dotgit_segment_complete (e seg : Bytes) (hs : seg ∈ splitOn ntfsSegSep e)
    (h : NtfsDotGitFamily seg) : validateNtfs e = false := by
  simp only [validateNtfs]
  rw [if_pos (List.any_eq_true.mpr ⟨seg, hs, isNtfsDotgit_family h⟩)]

/-- Names made only of dots and spaces (`""`, `.`, `..`, `. `, `.. .`, …) are refused: NTFS strips them to `""`. -/
theorem ntfs_rejects_dots_spaces (e : Bytes) (h : DotsSpaces e) : validateNtfs e = false := by
  simp only [validateNtfs]
  split
  · rfl
  · simp [normalizeNtfs, rstrip_all ntfsStrip e (ds_contains h), lower, invalidDotnames]

/-- Non-vacuity: members of the family, and a name just outside it that is accepted. -/
example : NtfsDotGitFamily [46, 71, 105, 84, 32, 46, 58, 58, 36, 92, 120] ∧              -- ".GiT .::$\x"
    validateNtfs [46, 71, 105, 84, 32, 46, 58, 58, 36, 92, 120] = false ∧
    validateNtfs [46, 103, 105, 116, 120] = true ∧                                       -- ".gitx"
    validateNtfs [103, 105, 116, 126, 50] = true := by                                   -- "git~2"
  refine ⟨?_, by decide, by decide, by decide⟩
  exact .ads [46, 71, 105, 84] [32, 46] [58, 36, 92, 120]
    (.inl ⟨71, 105, 84, rfl, by decide, by decide, by decide⟩)
    (by intro b hb; simp only [List.mem_cons, List.not_mem_nil, or_false] at hb; rcases hb with rfl | rfl <;> simp)

/-! ## 3. The HFS validator (NFD + lower-casing is the parameter `fold`) -/

section hfs
variable (fold : List Nat → List Nat)

/-- The only assumption made about Unicode normalisation + case folding: on ASCII it is ASCII lower-casing
(checked against the real `unicodedata` in stream `fold.ascii`). -/
def FoldAsciiOk : Prop := ∀ cs : List Nat, (∀ c ∈ cs, c < 128) → fold cs = foldAscii cs

/-- Malformed UTF-8 (overlong forms, surrogates, stray continuation bytes, …) is refused. -/
theorem hfs_rejects_undecodable (e : Bytes) (h : utf8Decode e = none) : validateHfs fold e = false := by
  simp [validateHfs, normalizeHfs, h]

/-- On ASCII names the HFS validator is the default validator plus the refusal of `git~1` (any case). -/
theorem hfs_ascii (hf : FoldAsciiOk fold) (e : Bytes) (h : ∀ b ∈ e, b.toNat < 128) :
    validateHfs fold e = (validateDefault e && !(lower e == hfsShort)) := by
  have hcs : ∀ c ∈ e.map UInt8.toNat, c < 128 := by
    intro c hc
    obtain ⟨b, hb, rfl⟩ := List.mem_map.mp hc
    exact h b hb
  have hfa : ∀ c ∈ foldAscii (e.map UInt8.toNat), c < 128 := by
    intro c hc
    simp only [foldAscii, List.map_map, List.mem_map, Function.comp] at hc
    obtain ⟨b, hb, rfl⟩ := hc
    have := h b hb
    split <;> omega
  have hn : normalizeHfs fold e = some (lower e) := by
    simp only [normalizeHfs, utf8Decode_ascii e h, Option.map_some, hfsFilter_ascii _ hcs, hf _ hcs,
      utf8Encode_ascii _ hfa]
    congr 1
    simp only [foldAscii, lower, List.map_map]
    apply List.map_congr_left
    intro b _
    simp only [Function.comp, lowerByte]
    split
    · rfl
    · exact UInt8.ofNat_toNat
  simp [validateHfs, hn, validateDefault]

/-- Non-vacuity of `FoldAsciiOk`, and a concrete ignorable-code-point spelling that is refused:
`.g<U+200C>it` (the byte string `2e 67 e2 80 8c 69 74`). -/
example : FoldAsciiOk foldAscii ∧ validateHfs foldAscii [0x2e, 0x67, 0xe2, 0x80, 0x8c, 0x69, 0x74] = false ∧
    validateHfs foldAscii [0x2e, 0x67, 0x69, 0x74, 0x78] = true := ⟨fun _ _ => rfl, by decide, by decide⟩

end hfs

/-! ## 4. `validate_path`: what an accepted path looks like (all byte strings, all four validators) -/

/-- What every component of an accepted path satisfies: non-empty, not `.`/`..`, not `.git` in any ASCII
case; with protectNTFS on, additionally outside the whole NTFS family and not made of dots/spaces only. -/
def SafeComponent (v : Validator) (c : Bytes) : Prop :=
  c ≠ [] ∧ c ≠ [46] ∧ c ≠ [46, 46] ∧ lower c ≠ [46, 103, 105, 116] ∧ pathSep ∉ c ∧
  ((v = .ntfs ∨ v = .both) → ¬ NtfsDotGitFamily c ∧ ¬ DotsSpaces c ∧
    ∀ seg ∈ splitOn ntfsSegSep c, ¬ NtfsDotGitFamily seg)

theorem default_safe {c : Bytes} (h : validateDefault c = true) :
    c ≠ [] ∧ c ≠ [46] ∧ c ≠ [46, 46] ∧ lower c ≠ [46, 103, 105, 116] := by
  have hn : ¬ (c = [] ∨ c = [46] ∨ c = [46, 46] ∨ lower c = [46, 103, 105, 116]) := fun hh => by
    rw [(default_rejects_iff c).mpr hh] at h; cases h
  exact ⟨fun a => hn (.inl a), fun a => hn (.inr (.inl a)), fun a => hn (.inr (.inr (.inl a))),
    fun a => hn (.inr (.inr (.inr a)))⟩

theorem ntfs_safe {c : Bytes} (h : validateNtfs c = true) :
    c ≠ [] ∧ c ≠ [46] ∧ c ≠ [46, 46] ∧ lower c ≠ [46, 103, 105, 116] ∧ ¬ NtfsDotGitFamily c ∧ ¬ DotsSpaces c ∧
      ∀ seg ∈ splitOn ntfsSegSep c, ¬ NtfsDotGitFamily seg := by
  have hfam : ¬ NtfsDotGitFamily c := fun hf => by rw [ntfs_dotgit_complete c hf] at h; cases h
  have hds : ¬ DotsSpaces c := fun hd => by rw [ntfs_rejects_dots_spaces c hd] at h; cases h
  refine ⟨?_, ?_, ?_, ?_, hfam, hds, ?_⟩
  · rintro rfl; exact hds (by intro b hb; cases hb)
  · rintro rfl; exact hds (by intro b hb; simp at hb; exact Or.inl hb)
  · rintro rfl; exact hds (by intro b hb; simp at hb; exact Or.inl hb)
  · intro hl
    obtain ⟨g, i, t, rfl, hg, hi, ht⟩ := lower_eq_dotgit hl
    have := NtfsDotGitFamily.plain [46, g, i, t] [] (.inl ⟨g, i, t, rfl, hg, hi, ht⟩) (by intro b hb; cases hb)
    exact hfam (by simpa using this)
  · intro seg hs hf
    rw [ntfs_dotgit_segment_complete c seg hs hf] at h; cases h

/-- **`validate_path_lexical`.**  For ALL byte strings `p` and each of the four validators
`get_path_element_validator` can return: if `validate_path` accepts `p` then every `/`-separated component of `p`
is non-empty, is not `.` or `..`, is not `.git` in any ASCII case, contains no `/`, and — with protectNTFS on —
lies outside the whole NTFS `.git` family (also segment-wise between backslashes). -/
theorem validate_path_lexical (fold : List Nat → List Nat) (hf : FoldAsciiOk fold) (v : Validator) (p : Bytes)
    (h : validatePath (v.run fold) p = true) : ∀ c ∈ splitOn pathSep p, SafeComponent v c := by
  intro c hc
  have hv : v.run fold c = true := (List.all_eq_true.mp h) c hc
  have hsep : pathSep ∉ c := splitOn_no_sep pathSep p c hc
  cases v with
  | default =>
    obtain ⟨h1, h2, h3, h4⟩ := default_safe hv
    exact ⟨h1, h2, h3, h4, hsep, by rintro (h | h) <;> cases h⟩
  | ntfs =>
    obtain ⟨h1, h2, h3, h4, h5⟩ := ntfs_safe hv
    exact ⟨h1, h2, h3, h4, hsep, fun _ => h5⟩
  | both =>
    simp only [Validator.run, Bool.and_eq_true] at hv
    obtain ⟨h1, h2, h3, h4, h5⟩ := ntfs_safe hv.1
    exact ⟨h1, h2, h3, h4, hsep, fun _ => h5⟩
  | hfs =>
    simp only [Validator.run] at hv
    refine ⟨?_, ?_, ?_, ?_, hsep, by rintro (h | h) <;> cases h⟩
    · rintro rfl
      rw [hfs_ascii fold hf [] (by intro b hb; cases hb)] at hv; revert hv; decide
    · rintro rfl
      rw [hfs_ascii fold hf [46] (by intro b hb; simp at hb; subst hb; decide)] at hv; revert hv; decide
    · rintro rfl
      rw [hfs_ascii fold hf [46, 46] (by intro b hb; simp at hb; subst hb; decide)] at hv; revert hv; decide
    · intro hl
      have hascii : ∀ b ∈ c, b.toNat < 128 := by
        obtain ⟨g, i, t, rfl, hg, hi, ht⟩ := lower_eq_dotgit hl
        intro b hb
        simp only [List.mem_cons, List.not_mem_nil, or_false] at hb
        rcases hb with rfl | rfl | rfl | rfl
        · decide
        · rcases lowerByte_g hg with rfl | rfl <;> decide
        · rcases lowerByte_i hi with rfl | rfl <;> decide
        · rcases lowerByte_t ht with rfl | rfl <;> decide
      rw [hfs_ascii fold hf c hascii, default_rejects_dotgit_case_insensitively c hl] at hv
      cases hv

/-- POSIX lexical normalisation of a component list on top of a directory stack (what the kernel would do if
there were no symlinks): `""` and `.` stay, `..` pops. -/
def lexNorm : List Bytes → List Bytes → List Bytes
  | st, [] => st
  | st, c :: cs =>
    if c = [] ∨ c = [46] then lexNorm st cs
    else if c = [46, 46] then lexNorm st.dropLast cs
    else lexNorm (st ++ [c]) cs

theorem lexNorm_safe : ∀ (cs st : List Bytes), (∀ c ∈ cs, c ≠ [] ∧ c ≠ [46] ∧ c ≠ [46, 46]) →
    lexNorm st cs = st ++ cs := by
  intro cs
  induction cs with
  | nil => intro st _; simp [lexNorm]
  | cons c cs ih =>
    intro st h
    obtain ⟨h1, h2, h3⟩ := h c List.mem_cons_self
    simp only [lexNorm, h1, h2, h3, or_self, if_false]
    rw [ih _ (fun x hx => h x (List.mem_cons_of_mem _ hx))]
    simp

/-- **Lexical confinement** (the corollary of `validate_path_lexical`): an accepted path is relative (does not
start with `/`, so `os.path.join(root, p)` keeps the root), its lexical normalisation under any root directory
stack is the root followed by exactly its components (no `..` ever pops the root), there is at least one
component, and the first component is not `.git` in any ASCII case. -/
theorem lexical_confined (fold : List Nat → List Nat) (hf : FoldAsciiOk fold) (v : Validator) (p : Bytes)
    (h : validatePath (v.run fold) p = true) (root : List Bytes) :
    p.head? ≠ some pathSep ∧
    lexNorm root (splitOn pathSep p) = root ++ splitOn pathSep p ∧
    ∃ c rest, splitOn pathSep p = c :: rest ∧ lower c ≠ [46, 103, 105, 116] := by
  have hs := validate_path_lexical fold hf v p h
  refine ⟨?_, ?_, ?_⟩
  · intro hp
    match p, hp with
    | b :: r, hp =>
      simp only [List.head?_cons, Option.some.injEq] at hp
      subst hp
      have : ([] : Bytes) ∈ splitOn pathSep (pathSep :: r) := by simp [splitOn]
      exact (hs [] this).1 rfl
  · exact lexNorm_safe _ root (fun c hc => ⟨(hs c hc).1, (hs c hc).2.1, (hs c hc).2.2.1⟩)
  · have hne := splitOn_ne_nil pathSep p
    match hsp : splitOn pathSep p with
    | [] => exact absurd hsp hne
    | c :: rest => exact ⟨c, rest, rfl, (hs c (by rw [hsp]; exact List.mem_cons_self)).2.2.2.1⟩

/-- Non-vacuity: an accepted three-component path, and refused ones (`..` inside, `.GIT` first, absolute). -/
example : validatePath (Validator.ntfs.run foldAscii) [97, 47, 46, 103, 105, 116, 120, 47, 98] = true ∧   -- "a/.gitx/b"
    validatePath (Validator.ntfs.run foldAscii) [97, 47, 46, 46, 47, 98] = false ∧                          -- "a/../b"
    validatePath (Validator.default.run foldAscii) [46, 71, 73, 84, 47, 120] = false ∧                      -- ".GIT/x"
    validatePath (Validator.default.run foldAscii) [47, 120] = false := by decide                            -- "/x"

/-! ## 5. `cleanup_mode`: only 0644 / 0755 ever reach `chmod` -/

/-- **`mode_canonical`.**  Whatever 32-bit-or-larger mode a tree entry carries (set-uid, set-gid, sticky,
world-writable, garbage type bits), `cleanup_mode` returns one of five values; for anything that is not a
symlink / directory / gitlink it is `0100644` or `0100755`. -/
theorem mode_canonical (m : Nat) :
    cleanupMode m = 0o120000 ∨ cleanupMode m = 0o040000 ∨ cleanupMode m = 0o160000 ∨
    cleanupMode m = 0o100644 ∨ cleanupMode m = 0o100755 := by
  unfold cleanupMode
  split
  · left; rfl
  · split
    · right; left; rfl
    · split
      · right; right; left; rfl
      · split
        · right; right; right; right; decide
        · right; right; right; left; decide

/-- `build_file_from_blob` chmods regular files with `cleanup_mode(mode)` only (translator-checked): the
permission bits are 0644 or 0755 — never set-uid/set-gid/sticky, never group- or world-writable. -/
theorem mode_no_special_bits (m : Nat) : cleanupMode m &&& 0o7022 = 0 := by
  rcases mode_canonical m with h | h | h | h | h <;> rw [h] <;> decide

example : cleanupMode 0o104777 = 0o100755 ∧ cleanupMode 0o102666 = 0o100644 ∧ cleanupMode 0o100002 = 0o100644 := by
  decide

/-! ## 6. Validator selection -/

/-- With an empty configuration on this (non-darwin) platform `get_path_element_validator` returns the NTFS
validator (`core.protectNTFS` defaults to true — read from the source by the translator), so the whole NTFS
family is refused by default. -/
theorem default_config_refuses_ntfs_family (fold : List Nat → List Nat) (e : Bytes) (h : NtfsDotGitFamily e) :
    (select protectNtfsDefault false).run fold e = false := by
  simp only [protectNtfsDefault, select, Validator.run]
  exact ntfs_dotgit_complete e h

/-! ## 7. `build_index_from_tree` on a file system with symlinks: cache soundness and confinement -/

section checkout
variable (fold : List Nat → List Nat)

theorem validated_clean (hf : FoldAsciiOk fold) (v : Validator) (p : Bytes)
    (h : validatePath (v.run fold) p = true) : Clean (splitOn pathSep p) :=
  fun c hc => let hs := validate_path_lexical fold hf v p h c hc; ⟨hs.1, hs.2.1, hs.2.2.1⟩

/-- **`safe_prefix_sound`.**  For EVERY starting file system (any leftovers of earlier checkouts: symlinks
anywhere, files where directories are expected, …), every work-tree root, every list of entries (any names, any
order, duplicates allowed — more than a tree can contain) and each of the four validators: whenever the loop of
`build_index_from_tree` has completed its iterations over `entries` without raising, every prefix of the
`safe_prefix` cache is a real directory in the CURRENT file system — not merely when it was `lstat`ed.  Applied
to each initial segment of a tree's entry list this says the cache is sound at the start of every iteration, which
is what lets `verify_leading_dirs` skip the cached components. -/
theorem safe_prefix_sound (hf : FoldAsciiOk fold) (v : Validator) (root : PPath) (entries : List Entry) (fs : FS)
    (h : (buildIndexFromTree (v.run fold) root entries fs).2 = none) :
    let st := (buildIndexFromTree (v.run fold) root entries fs).1
    ∀ i, 1 ≤ i → i ≤ st.safe.length → st.fs (root ++ st.safe.take i) = some .dir := by
  have := (runEntries_ok (root := root) (v.run fold) (validated_clean fold hf v) entries
    { fs := fs, log := [], safe := [] } (fun i h1 h2 => by simp at h2; omega)).2 h
  exact this

/-- a physical path strictly below the work-tree root whose first component under the root is not `.git` (in any
ASCII case), nor empty, `.` or `..` -/
def Confined (root : PPath) (p : PPath) : Prop :=
  ∃ c rest, p = root ++ c :: rest ∧ lower c ≠ [46, 103, 105, 116] ∧ c ≠ [] ∧ c ≠ [46] ∧ c ≠ [46, 46]

/-- **`confined`** (for `build_index_from_tree`: clone, `reset_index`, the write loop shared with stash pop).
For EVERY starting file system — symlinks to absolute, parent or sibling targets anywhere, left by any sequence of
earlier checkouts —, every root, every entry list (any bytes as names, any modes, any order) and each of the four
validators: every mutating system call the run makes (mkdir, unlink, symlink, open-for-write, chmod) acts, AFTER
the kernel's symlink resolution, on a physical path strictly below the work-tree root and outside `root/.git`;
moreover that path is a lexical prefix of a validated entry path.  No hypothesis on the file system is needed. -/
theorem confined (hf : FoldAsciiOk fold) (v : Validator) (root : PPath) (entries : List Entry) (fs : FS) :
    ∀ m ∈ (buildIndexFromTree (v.run fold) root entries fs).1.log, Confined root m.target := by
  intro m hm
  have := (runEntries_ok (root := root) (v.run fold) (validated_clean fold hf v) entries
    { fs := fs, log := [], safe := [] } (fun i h1 h2 => by simp at h2; omega)).1 m hm
  rcases this with h | ⟨e, _, hval, i, hi1, hi2, ht⟩
  · cases h
  · obtain ⟨_, _, c, rest, hsp, hc⟩ := lexical_confined fold hf v e.path hval root
    have hs := validate_path_lexical fold hf v e.path hval c (by rw [hsp]; exact List.mem_cons_self)
    refine ⟨c, rest.take (i - 1), ?_, hc, hs.1, hs.2.1, hs.2.2.1⟩
    rw [ht, hsp]
    cases i with
    | zero => omega
    | succ i => simp

/-- what each logged call is, in terms of the tree: a lexical prefix of the path of an accepted entry -/
theorem confined_lexical (hf : FoldAsciiOk fold) (v : Validator) (root : PPath) (entries : List Entry) (fs : FS) :
    ∀ m ∈ (buildIndexFromTree (v.run fold) root entries fs).1.log, ∃ e ∈ entries,
      validatePath (v.run fold) e.path = true ∧ ∃ i, 1 ≤ i ∧ i ≤ (splitOn pathSep e.path).length ∧
        m.target = root ++ (splitOn pathSep e.path).take i := by
  intro m hm
  have := (runEntries_ok (root := root) (v.run fold) (validated_clean fold hf v) entries
    { fs := fs, log := [], safe := [] } (fun i h1 h2 => by simp at h2; omega)).1 m hm
  rcases this with h | h
  · cases h
  · exact h

/-- **`mode_canonical` on the run**: whatever mode bits the entries carry (set-uid, set-gid, sticky, world-writable,
anything above 16 bits), every `chmod` the run performs carries permission bits without set-id/sticky bits and
without group/world write permission (for blob entries: exactly 0644 or 0755, by `mode_canonical`).  Holds for any
validator and any file system. -/
theorem chmod_canonical (v : Bytes → Bool) (root : PPath) (entries : List Entry) (fs : FS) (p : PPath) (md : Nat)
    (h : Mut.chmod p md ∈ (buildIndexFromTree v root entries fs).1.log) : md &&& 0o7022 = 0 := by
  have := runEntries_good v root entries { fs := fs, log := [], safe := [] } (fun m hm => by cases hm) _ h
  obtain ⟨mode, rfl⟩ := this
  rcases mode_canonical mode with h | h | h | h | h <;> rw [h] <;> decide

end checkout

/-- Non-vacuity / regression shapes on a concrete file system (`w` is the work tree, `o` lies outside):
`w/d -> ../o` left by an earlier checkout.  (1) a tree with `d/x` is refused before anything is written
(CVE-2021-21300 shape); (2) a tree with the regular file `d` REPLACES the link (unlink, then write, then chmod 0644)
instead of writing through it; (3) `a/b` creates `w/a` and writes `w/a/b`, the second entry `a/c` reuses the cache. -/
def exFs : FS := fun q =>
  if q = [[119]] then some .dir                           -- w
  else if q = [[111]] then some .dir                      -- o
  else if q = [[111], [120]] then some (.file [1] 0o644)  -- o/x
  else if q = [[119], [100]] then some (.link [46, 46, 47, 111])  -- w/d -> ../o
  else none

example : (buildIndexFromTree validateNtfs [[119]] [⟨[100, 47, 120], 0o100644, [7]⟩] exFs).2 = some .invalidPath ∧
    (buildIndexFromTree validateNtfs [[119]] [⟨[100, 47, 120], 0o100644, [7]⟩] exFs).1.log = [] := by decide

example : (buildIndexFromTree validateNtfs [[119]] [⟨[100], 0o104755, [7]⟩] exFs).1.log =
    [.unlink [[119], [100]], .write [[119], [100]], .chmod [[119], [100]] 0o755] ∧
    (buildIndexFromTree validateNtfs [[119]] [⟨[100], 0o104755, [7]⟩] exFs).1.fs [[111], [120]] = some (.file [1] 0o644) := by
  decide

example : (buildIndexFromTree validateNtfs [[119]] [⟨[97, 47, 98], 0o100644, [7]⟩, ⟨[97, 47, 99], 0o120000, [46, 46]⟩] exFs).1.log =
    [.mkdir [[119], [97]], .write [[119], [97], [98]], .chmod [[119], [97], [98]] 0o644,
     .symlink [[119], [97], [99]] [46, 46]] ∧
    (buildIndexFromTree validateNtfs [[119]] [⟨[97, 47, 98], 0o100644, [7]⟩, ⟨[97, 47, 99], 0o120000, [46, 46]⟩] exFs).1.safe = [[97]] := by
  decide

/-! ## 8. The delete phase and the pre-checks of `update_working_tree` (after the repair of
F-C17-delete-through-symlink: old paths are lstat'ed through `_lstat_tracked_path`) -/

/-- **`delete_confined`** — the full statement, for the delete step AS CODED NOW (`Gen.deleteGuarded`, read from the
source by the translator), for EVERY file system, root, validator and list of old paths: every unlink the delete
phase performs acts, after symlink resolution, on a path strictly below the root and outside `root/.git`.
(If the guard is removed from the source the translator emits `deleteGuarded := false` and this proof no longer
compiles.) -/
theorem delete_confined (fold : List Nat → List Nat) (hf : FoldAsciiOk fold) (v : Validator) (root : PPath) :
    ∀ (paths : List Bytes) (st : St),
      ∀ m ∈ (deletePhase (v.run fold) root paths st).1.log, m ∈ st.log ∨ Confined root m.target := by
  have hg : deleteGuarded = true := rfl
  have step : ∀ (path : Bytes) (st : St), ∀ m ∈ (deleteOldG true (v.run fold) root path st).1.log,
      m ∈ st.log ∨ Confined root m.target := by
    intro path st m hm
    by_cases hval : validatePath (v.run fold) path = true
    · have hcl := validated_clean fold hf v path hval
      have hne := splitOn_ne_nil pathSep path
      obtain ⟨lead, last, hsplit⟩ : ∃ lead last, splitOn pathSep path = lead ++ [last] :=
        ⟨_, _, (List.dropLast_concat_getLast hne).symm⟩
      have hE := deleteOldG_guarded_ext (root := root) (v.run fold) path st lead last hsplit (by rw [← hsplit]; exact hcl)
      rcases hE.log m hm with h | ⟨i, hi1, hi2, ht⟩
      · exact Or.inl h
      · right
        obtain ⟨_, _, c, rest, hsp, hc⟩ := lexical_confined fold hf v path hval root
        have hs := validate_path_lexical fold hf v path hval c (by rw [hsp]; exact List.mem_cons_self)
        refine ⟨c, rest.take (i - 1), ?_, hc, hs.1, hs.2.1, hs.2.2.1⟩
        rw [ht, ← hsplit, hsp]
        cases i with
        | zero => omega
        | succ i => simp
    · have : validatePath (v.run fold) path = false := by simpa using hval
      simp only [deleteOldG, this, if_true] at hm
      exact Or.inl hm
  intro paths
  unfold deletePhase
  rw [hg]
  induction paths with
  | nil => intro st m hm; exact Or.inl hm
  | cons p ps ih =>
    intro st m hm
    simp only [deletePhaseG] at hm
    have h1 := step p st
    generalize deleteOldG true (v.run fold) root p st = r at *
    obtain ⟨st1, e1⟩ := r
    cases e1 with
    | some err => exact h1 m hm
    | none =>
      simp only [Step.andThen] at hm
      rcases ih st1 m hm with h | h
      · exact h1 m h
      · exact Or.inr h

/-- **The pre-checks are lexical too**: whenever the guarded lstat used by the uncommitted-modification check and
the file-becoming-directory check reports an object for a clean path, every leading component is a real directory
and the object is the one at the lexical path inside the work tree — for every file system. -/
theorem precheck_lexical (root : PPath) (path : Bytes) (fs : FS) (n : Node) (hcl : Clean (splitOn pathSep path))
    (h : precheckOld root path fs = .ok n) :
    fs (root ++ splitOn pathSep path) = some n ∧
    ∀ i, 1 ≤ i → i < (splitOn pathSep path).length → fs (root ++ (splitOn pathSep path).take i) = some .dir := by
  have hne := splitOn_ne_nil pathSep path
  obtain ⟨lead, last, hsplit⟩ : ∃ lead last, splitOn pathSep path = lead ++ [last] :=
    ⟨_, _, (List.dropLast_concat_getLast hne).symm⟩
  unfold precheckOld at h
  rw [hsplit] at h hcl ⊢
  obtain ⟨hd, hP⟩ := lstatTracked_lexical (root := root) hcl h
  refine ⟨hP, fun i h1 h2 => ?_⟩
  have h2' : i ≤ lead.length := by simp at h2; omega
  rw [List.take_append_of_le_length h2']
  exact hd i h1 h2'

/-- **Regression witness for the OLD code** (bare `os.lstat(full_path)` in the delete phase; replayed on the real
code every run: corpus/C17/f18-*.json).  Work tree `w` with `w/d -> ../o` on disk and the old tree listing `d/x`: the
unguarded delete unlinks `o/x`, OUTSIDE the work tree; the guarded one (the code now) does nothing. -/
theorem delete_phase_old_counterexample :
    (deletePhaseG false validateNtfs [[119]] [[100, 47, 120]] { fs := exFs, log := [], safe := [] }).1.log
      = [.unlink [[111], [120]]] ∧ ¬ Confined [[119]] [[111], [120]] ∧
    (deletePhaseG true validateNtfs [[119]] [[100, 47, 120]] { fs := exFs, log := [], safe := [] }).1.log = [] := by
  refine ⟨by decide, ?_, by decide⟩
  rintro ⟨c, rest, h, _⟩
  simp at h

/-- what was true of the old code: confined only under the hypothesis that every leading component is a real
directory — exactly what the guard now establishes -/
theorem delete_old_confined_partial (fold : List Nat → List Nat) (hf : FoldAsciiOk fold) (v : Validator) (root : PPath)
    (path : Bytes) (st : St)
    (hskel : ∀ i, 1 ≤ i → i < (splitOn pathSep path).length → st.fs (root ++ (splitOn pathSep path).take i) = some .dir) :
    ∀ m ∈ (deleteOldG false (v.run fold) root path st).1.log, m ∈ st.log ∨ Confined root m.target := by
  intro m hm
  by_cases hval : validatePath (v.run fold) path = true
  · have hcl := validated_clean fold hf v path hval
    have hne := splitOn_ne_nil pathSep path
    obtain ⟨lead, last, hsplit⟩ : ∃ lead last, splitOn pathSep path = lead ++ [last] :=
      ⟨_, _, (List.dropLast_concat_getLast hne).symm⟩
    have hd : DirChain st.fs root lead lead.length := by
      intro i h1 h2
      have := hskel i h1 (by rw [hsplit]; simp; omega)
      rwa [hsplit, List.take_append_of_le_length h2] at this
    have hE := deleteOld_ext (root := root) (v.run fold) path st lead last hsplit (by rw [← hsplit]; exact hcl) hd
    rcases hE.log m hm with h | ⟨i, hi1, hi2, ht⟩
    · exact Or.inl h
    · right
      obtain ⟨_, _, c, rest, hsp, hc⟩ := lexical_confined fold hf v path hval root
      have hs := validate_path_lexical fold hf v path hval c (by rw [hsp]; exact List.mem_cons_self)
      refine ⟨c, rest.take (i - 1), ?_, hc, hs.1, hs.2.1, hs.2.2.1⟩
      rw [ht, ← hsplit, hsp]
      cases i with
      | zero => omega
      | succ i => simp
  · have : validatePath (v.run fold) path = false := by simpa using hval
    simp only [deleteOldG, this, if_true] at hm
    exact Or.inl hm

/-! ## 9. The whole `update_working_tree`: deletions, then writes with a FRESH verified-directory cache per path -/

/-- **`uwt_write_confined`** — the add/modify phase as coded now (`Gen.uwtFreshCache`: every
`verify_leading_dirs` call of `update_working_tree` gets a new `[]`), for EVERY state it can start from (whatever
the delete phase and earlier writes did: directories removed, symlinks created, any stale `safe` list in the
state), every emptiness oracle, root, validator and entry list: every mkdir / rmdir / unlink / symlink /
open-for-write / chmod acts, after symlink resolution, strictly below the root and outside `root/.git`.
(If the source starts sharing one cache across paths the translator emits `uwtFreshCache := false` and this proof no
longer compiles; `shared_cache_counterexample` shows why.) -/
theorem uwt_write_confined (fold : List Nat → List Nat) (hf : FoldAsciiOk fold) (v : Validator) (root : PPath)
    (isEmpty : FS → PPath → Bool) :
    ∀ (adds : List Entry) (st : St),
      ∀ m ∈ (uwtWritePhaseG uwtFreshCache isEmpty (v.run fold) root adds st).1.log, m ∈ st.log ∨ Confined root m.target := by
  have hg : uwtFreshCache = true := rfl
  rw [hg]
  have step : ∀ (e : Entry) (st : St), ∀ m ∈ (uwtWriteG true isEmpty (v.run fold) root e st).1.log,
      m ∈ st.log ∨ Confined root m.target := by
    intro e st m hm
    by_cases hval : validatePath (v.run fold) e.path = true
    · have hcl := validated_clean fold hf v e.path hval
      have hne := splitOn_ne_nil pathSep e.path
      obtain ⟨lead, last, hsplit⟩ : ∃ lead last, splitOn pathSep e.path = lead ++ [last] :=
        ⟨_, _, (List.dropLast_concat_getLast hne).symm⟩
      have hE := uwtWriteG_fresh_log (root := root) isEmpty (v.run fold) e st lead last hsplit (by rw [← hsplit]; exact hcl)
      rcases hE m hm with h | ⟨i, hi1, hi2, ht⟩
      · exact Or.inl h
      · right
        obtain ⟨_, _, c, rest, hsp, hc⟩ := lexical_confined fold hf v e.path hval root
        have hs := validate_path_lexical fold hf v e.path hval c (by rw [hsp]; exact List.mem_cons_self)
        refine ⟨c, rest.take (i - 1), ?_, hc, hs.1, hs.2.1, hs.2.2.1⟩
        rw [ht, ← hsplit, hsp]
        cases i with
        | zero => omega
        | succ i => simp
    · have : validatePath (v.run fold) e.path = false := by simpa using hval
      simp only [uwtWriteG, this, if_true] at hm
      exact Or.inl hm
  intro adds
  induction adds with
  | nil => intro st m hm; exact Or.inl hm
  | cons e es ih =>
    intro st m hm
    simp only [uwtWritePhaseG] at hm
    have h1 := step e st
    generalize uwtWriteG true isEmpty (v.run fold) root e st = r at *
    obtain ⟨st1, e1⟩ := r
    cases e1 with
    | some err => exact h1 m hm
    | none =>
      simp only [Step.andThen] at hm
      rcases ih st1 m hm with h | h
      · exact h1 m h
      · exact Or.inr h

/-! ### gitlink entries and the whole update -/

theorem validated_safe (fold : List Nat → List Nat) (hf : FoldAsciiOk fold) (v : Validator) (p : Bytes)
    (h : validatePath (v.run fold) p = true) : SafeComps (splitOn pathSep p) :=
  ⟨splitOn_ne_nil _ _, validated_clean fold hf v p h,
   fun c hc => (validate_path_lexical fold hf v p h c hc).2.2.2.1⟩

theorem lexMut_confined {root : PPath} {m : Mut} (h : LexMut root m) : Confined root m.target := by
  obtain ⟨comps, ⟨hne, hcl, hs⟩, hcase⟩ := h
  cases comps with
  | nil => exact absurd rfl hne
  | cons c rest =>
    have hc := hcl c List.mem_cons_self
    rcases hcase with ⟨i, hi1, hi2, ht⟩ | hw
    · refine ⟨c, rest.take (i - 1), ?_, hs c List.mem_cons_self, hc.1, hc.2.1, hc.2.2⟩
      rw [ht]
      cases i with
      | zero => omega
      | succ i => simp
    · refine ⟨c, rest ++ [dotGit], ?_, hs c List.mem_cons_self, hc.1, hc.2.1, hc.2.2⟩
      rw [hw]; simp [Mut.target]

/-- the invariant of the write phase, gitlink entries included: every logged call is lexical (`LexMut`) and every
symlink on disk is an original one or one the log accounts for (`LinkFrame`) -/
theorem uwt_phase_all_inv (fold : List Nat → List Nat) (hf : FoldAsciiOk fold) (v : Validator) (root : PPath)
    (isEmpty : FS → PPath → Bool) (fs0 : FS) (h0 : NoDotGitLink fs0) :
    ∀ (adds : List Entry) (st : St), (∀ m ∈ st.log, LexMut root m) → LinkFrame fs0 st →
      (∀ m ∈ (uwtPhaseAllG uwtFreshCache gitlinkDirTestFollows isEmpty (v.run fold) root adds st).1.log, LexMut root m) ∧
      LinkFrame fs0 (uwtPhaseAllG uwtFreshCache gitlinkDirTestFollows isEmpty (v.run fold) root adds st).1 := by
  have hg : uwtFreshCache = true := rfl
  have hfol : gitlinkDirTestFollows = false := rfl
  rw [hg, hfol]
  have step : ∀ (e : Entry) (st : St), (∀ m ∈ st.log, LexMut root m) → LinkFrame fs0 st →
      ∀ m ∈ (uwtEntryG true false isEmpty (v.run fold) root e st).1.log, LexMut root m := by
    intro e st hlog hfr m hm
    by_cases hval : validatePath (v.run fold) e.path = true
    · have hsafe := validated_safe fold hf v e.path hval
      have hcl := hsafe.2.1
      obtain ⟨lead, last, hsplit⟩ : ∃ lead last, splitOn pathSep e.path = lead ++ [last] :=
        ⟨_, _, (List.dropLast_concat_getLast hsafe.1).symm⟩
      unfold uwtEntryG at hm
      split at hm
      · -- gitlink
        simp only [hval, Bool.true_eq_false, if_false, hsplit, if_true] at hm
        cases hver : verifyLeadingDirs st.fs root (lead ++ [last]) [] with
        | error err => rw [hver] at hm; exact hlog m hm
        | ok safe' =>
          rw [hver] at hm
          simp only at hm
          have hst : ({ st with safe := st.safe } : St) = st := by cases st; rfl
          rw [hst] at hm
          have hgit := nolink_at_dotgit (root := root) h0 hlog hfr (root ++ (lead ++ [last]))
          have hE := uwtGitlink_log (root := root) (gitfileContent e.path) st lead last (by rw [← hsplit]; exact hcl)
            hver (fun t => by have := hgit t; simpa [List.append_assoc] using this)
          rcases hE m hm with h | h | h
          · exact hlog m h
          · exact ⟨lead ++ [last], by rw [← hsplit]; exact hsafe, Or.inl h⟩
          · exact ⟨lead ++ [last], by rw [← hsplit]; exact hsafe, Or.inr h⟩
      · have hE := uwtWriteG_fresh_log (root := root) isEmpty (v.run fold) e st lead last hsplit (by rw [← hsplit]; exact hcl)
        rcases hE m hm with h | h
        · exact hlog m h
        · exact ⟨lead ++ [last], by rw [← hsplit]; exact hsafe, Or.inl h⟩
    · have hv : validatePath (v.run fold) e.path = false := by simpa using hval
      unfold uwtEntryG at hm
      split at hm
      · simp only [hv] at hm; exact hlog m hm
      · simp only [uwtWriteG, hv, if_true] at hm; exact hlog m hm
  intro adds
  induction adds with
  | nil => intro st hlog hfr; exact ⟨hlog, hfr⟩
  | cons e es ih =>
    intro st hlog hfr
    simp only [uwtPhaseAllG]
    have h1 := step e st hlog hfr
    have h2 := (linkFrame_closed fs0).uwtEntryG true false isEmpty (v.run fold) root e st hfr
    generalize uwtEntryG true false isEmpty (v.run fold) root e st = r at *
    obtain ⟨st1, e1⟩ := r
    cases e1 with
    | some err => exact ⟨h1, h2⟩
    | none => exact ih st1 h1 h2

/-- **`uwt_confined`**: `update_working_tree` as coded (guarded deletions of non-directories first, then blob, symlink
AND gitlink writes — fresh cache per path, directory test of the gitlink branch on the LSTAT result), from every file
system that holds no symlink NAMED `.git` (the one thing the placeholder write `open(path/.git, "wb")` would follow;
the proof shows no modelled call ever creates one, `gitlink_needs_no_dotgit_link` shows the hypothesis is needed):
every mutating call acts, after symlink resolution, strictly below the root and outside `root/.git`. -/
theorem uwt_confined (fold : List Nat → List Nat) (hf : FoldAsciiOk fold) (v : Validator) (root : PPath)
    (isEmpty : FS → PPath → Bool) (deletes : List Bytes) (adds : List Entry) (fs : FS) (h0 : NoDotGitLink fs) :
    ∀ m ∈ (updateWorkingTree isEmpty (v.run fold) root deletes adds { fs := fs, log := [], safe := [] }).1.log,
      Confined root m.target := by
  intro m hm
  unfold updateWorkingTree at hm
  -- the delete phase: lexical log, link frame
  have hdel : ∀ (paths : List Bytes) (st : St), (∀ m ∈ st.log, LexMut root m) →
      ∀ m ∈ (deletePhase (v.run fold) root paths st).1.log, LexMut root m := by
    have hgd : deleteGuarded = true := rfl
    unfold deletePhase
    rw [hgd]
    intro paths
    induction paths with
    | nil => intro st h; exact h
    | cons p ps ih =>
      intro st hlog
      simp only [deletePhaseG]
      have h1 : ∀ m ∈ (deleteOldG true (v.run fold) root p st).1.log, LexMut root m := by
        intro m hm
        by_cases hval : validatePath (v.run fold) p = true
        · have hsafe := validated_safe fold hf v p hval
          obtain ⟨lead, last, hsplit⟩ : ∃ lead last, splitOn pathSep p = lead ++ [last] :=
            ⟨_, _, (List.dropLast_concat_getLast hsafe.1).symm⟩
          have hE := deleteOldG_guarded_ext (root := root) (v.run fold) p st lead last hsplit
            (by rw [← hsplit]; exact hsafe.2.1)
          rcases hE.log m hm with h | h
          · exact hlog m h
          · exact ⟨lead ++ [last], by rw [← hsplit]; exact hsafe, Or.inl h⟩
        · have : validatePath (v.run fold) p = false := by simpa using hval
          simp only [deleteOldG, this, if_true] at hm
          exact hlog m hm
      generalize deleteOldG true (v.run fold) root p st = r at *
      obtain ⟨st1, e1⟩ := r
      cases e1 with
      | some err => exact h1
      | none => exact ih st1 h1
  have hl0 := hdel deletes { fs := fs, log := [], safe := [] } (fun m hm => by cases hm)
  have hf0 : LinkFrame fs (deletePhase (v.run fold) root deletes { fs := fs, log := [], safe := [] }).1 :=
    (linkFrame_closed fs).deletePhaseG _ _ _ _ _ (fun q t hq => Or.inl ⟨t, hq⟩)
  generalize deletePhase (v.run fold) root deletes { fs := fs, log := [], safe := [] } = r at *
  obtain ⟨st1, e1⟩ := r
  cases e1 with
  | some err => exact lexMut_confined (hl0 m hm)
  | none =>
    simp only [Step.andThen] at hm
    exact lexMut_confined ((uwt_phase_all_inv fold hf v root isEmpty fs h0 adds st1 hl0 hf0).1 m hm)

/-- **Why the gitlink directory test must look at the LSTAT result** (regression witness for a test that follows
symlinks).  `w/sub -> ../o` left on disk (HEAD/index out of step), the new tree has the gitlink `sub`: with
`os.path.isdir` the link is kept and the placeholder is written to `o/.git`, OUTSIDE the work tree; the code as it
stands removes the link, creates the directory `w/sub` and writes `w/sub/.git`. -/
def exFs3 : FS := fun q =>
  if q = [[119]] then some .dir
  else if q = [[111]] then some .dir
  else if q = [[119], [115]] then some (.link [46, 46, 47, 111])   -- w/s -> ../o
  else none

theorem gitlink_follow_counterexample :
    (uwtGitlinkG true [[119]] [[115]] [1] { fs := exFs3, log := [], safe := [] }).1.log = [.write [[111], dotGit]] ∧
    ¬ Confined [[119]] [[111], dotGit] ∧
    (uwtGitlinkG false [[119]] [[115]] [1] { fs := exFs3, log := [], safe := [] }).1.log =
      [.unlink [[119], [115]], .mkdir [[119], [115]], .write [[119], [115], dotGit]] := by
  refine ⟨by decide, ?_, by decide⟩
  rintro ⟨c, rest, h, _⟩
  simp at h

/-- the hypothesis of `uwt_confined` is needed: with a dangling symlink NAMED `.git` already inside the gitlink's
directory the placeholder write follows it (no tree can put such a link there: `.git` components are refused) -/
def exFs4 : FS := fun q =>
  if q = [[119]] then some .dir
  else if q = [[111]] then some .dir
  else if q = [[119], [115]] then some .dir
  else if q = [[119], [115], dotGit] then some (.link [46, 46, 47, 46, 46, 47, 111, 47, 120])   -- w/s/.git -> ../../o/x
  else none

theorem gitlink_needs_no_dotgit_link :
    (uwtGitlinkG false [[119]] [[115]] [1] { fs := exFs4, log := [], safe := [] }).1.log = [.write [[111], [120]]] ∧
    ¬ NoDotGitLink exFs4 := by
  refine ⟨by decide, fun h => h [[119], [115]] [46, 46, 47, 46, 46, 47, 111, 47, 120] (by decide)⟩

/-- **Why the cache must be fresh** (regression witness for the shared-cache variant).  After a delete phase that
verified `w/0` as a directory and removed it, and a write that created `w/0 -> ../o`, a cache still naming `0` makes
the write of `0/y` skip the lstat of `0` and go THROUGH the link: it creates `o/y` outside the work tree.  With a
fresh cache the same entry is refused. -/
def exFs2 : FS := fun q =>
  if q = [[119]] then some .dir
  else if q = [[111]] then some .dir
  else if q = [[119], [48]] then some (.link [46, 46, 47, 111])   -- w/0 -> ../o
  else none

theorem shared_cache_counterexample :
    (uwtWriteG false (fun _ _ => true) validateNtfs [[119]] ⟨[48, 47, 121], 0o100644, [7]⟩
        { fs := exFs2, log := [], safe := [[48]] }).1.log = [.write [[111], [121]], .chmod [[111], [121]] 0o644] ∧
    ¬ Confined [[119]] [[111], [121]] ∧
    (uwtWriteG true (fun _ _ => true) validateNtfs [[119]] ⟨[48, 47, 121], 0o100644, [7]⟩
        { fs := exFs2, log := [], safe := [[48]] }).2 = some .invalidPath := by
  refine ⟨by decide, ?_, by decide⟩
  rintro ⟨c, rest, h, _⟩
  simp at h

/-! ## 10. Sparse checkout (`apply_included_paths`, after the repair of the two sparse findings) -/

/-- **`sparse_confined`** — step 2 of `apply_included_paths` as coded now (`Gen.sparseGuarded`), for EVERY file system,
root, validator, index contents (any names, modes, skip-worktree bits): every mkdir / unlink / symlink /
open-for-write / chmod acts, after symlink resolution, strictly below the root and outside `root/.git`. -/
theorem sparse_confined (fold : List Nat → List Nat) (hf : FoldAsciiOk fold) (v : Validator) (root : PPath) :
    ∀ (entries : List (Entry × Bool)) (st : St),
      ∀ m ∈ (sparseApply (v.run fold) root entries st).1.log, m ∈ st.log ∨ Confined root m.target := by
  have hg : sparseGuarded = true := rfl
  unfold sparseApply
  rw [hg]
  have step : ∀ (e : Entry) (x : Bool) (st : St), ∀ m ∈ (sparseEntryG true (v.run fold) root e x st).1.log,
      m ∈ st.log ∨ Confined root m.target := by
    intro e x st m hm
    by_cases hval : validatePath (v.run fold) e.path = true
    · have hsafe := validated_safe fold hf v e.path hval
      obtain ⟨lead, last, hsplit⟩ : ∃ lead last, splitOn pathSep e.path = lead ++ [last] :=
        ⟨_, _, (List.dropLast_concat_getLast hsafe.1).symm⟩
      have hE := sparseEntryG_guarded_log (root := root) (v.run fold) e x st lead last hsplit (by rw [← hsplit]; exact hsafe.2.1)
      rcases hE m hm with h | h
      · exact Or.inl h
      · exact Or.inr (lexMut_confined ⟨lead ++ [last], by rw [← hsplit]; exact hsafe, Or.inl h⟩)
    · have hv : validatePath (v.run fold) e.path = false := by simpa using hval
      cases x <;> simp only [sparseEntryG, deleteOldG, hv, if_true, Bool.false_eq_true, if_false] at hm <;> exact Or.inl hm
  intro entries
  induction entries with
  | nil => intro st m hm; exact Or.inl hm
  | cons ex es ih =>
    obtain ⟨e, x⟩ := ex
    intro st m hm
    simp only [sparseApplyG] at hm
    have h1 := step e x st
    generalize sparseEntryG true (v.run fold) root e x st = r at *
    obtain ⟨st1, e1⟩ := r
    cases e1 with
    | some err => exact h1 m hm
    | none =>
      simp only [Step.andThen] at hm
      rcases ih st1 m hm with h | h
      · exact h1 m h
      · exact Or.inr h

/-- **Regression witnesses for the OLD sparse code** (replayed on the real code every run: corpus/C17/sparse-*.json).
(1) the index path `../o/p` (copied in by a mixed reset) is materialised OUTSIDE the work tree; (2) with
`w/d -> ../o` on disk the excluded index path `d/x` is removed from `o`; (3) the included path `d/p` is created in
`o`.  The code as it stands refuses (1), does nothing for (2) and refuses (3). -/
theorem sparse_old_counterexample :
    (sparseEntryG false validateNtfs [[119]] ⟨[46, 46, 47, 111, 47, 112], 0o100644, [7]⟩ false
        { fs := exFs, log := [], safe := [] }).1.log = [.write [[111], [112]]] ∧
    (sparseEntryG false validateNtfs [[119]] ⟨[100, 47, 120], 0o100644, [7]⟩ true
        { fs := exFs, log := [], safe := [] }).1.log = [.unlink [[111], [120]]] ∧
    (sparseEntryG false validateNtfs [[119]] ⟨[100, 47, 112], 0o100644, [7]⟩ false
        { fs := exFs, log := [], safe := [] }).1.log = [.write [[111], [112]]] ∧
    ¬ Confined [[119]] [[111], [112]] ∧
    (sparseEntryG true validateNtfs [[119]] ⟨[46, 46, 47, 111, 47, 112], 0o100644, [7]⟩ false
        { fs := exFs, log := [], safe := [] }) = ({ fs := exFs, log := [], safe := [] }, some .invalidPath) ∧
    (sparseEntryG true validateNtfs [[119]] ⟨[100, 47, 120], 0o100644, [7]⟩ true
        { fs := exFs, log := [], safe := [] }).1.log = [] ∧
    (sparseEntryG true validateNtfs [[119]] ⟨[100, 47, 112], 0o100644, [7]⟩ false
        { fs := exFs, log := [], safe := [] }).2 = some .invalidPath := by
  refine ⟨by decide, by decide, by decide, ?_, ?_, by decide, by decide⟩
  · rintro ⟨c, rest, h, _⟩
    simp at h
  · simp only [sparseEntryG, if_true, Bool.false_eq_true, if_false]
    have : validatePath validateNtfs [46, 46, 47, 111, 47, 112] = false := by decide
    simp [this]

/-! ## 11. `update_working_tree` over changes of EVERY kind -/

/-- every kind the write loop writes reaches `validate_path` first (both sets are read from the source) -/
theorem written_kinds_validated : ∀ k : ChangeKind, writtenKind k = true → validatedKind k = true := by
  intro k; cases k <;> decide

theorem uwtWriteChanges_eq (isEmpty : FS → PPath → Bool) (v : Bytes → Bool) (root : PPath) :
    ∀ (cs : List Change) (st : St), uwtWriteChanges isEmpty v root cs st =
      uwtPhaseAllG uwtFreshCache gitlinkDirTestFollows isEmpty v root
        ((cs.filter (fun c => writtenKind c.1)).map (·.2.2)) st := by
  intro cs
  induction cs with
  | nil => intro st; rfl
  | cons c cs ih =>
    obtain ⟨k, old, e⟩ := c
    intro st
    simp only [uwtWriteChanges]
    by_cases hw : writtenKind k = true
    · have hv := written_kinds_validated k hw
      simp only [hw, hv, if_true, List.filter_cons, List.map_cons, uwtPhaseAllG]
      congr 1
      funext s
      exact ih s
    · have hw' : writtenKind k = false := by simpa using hw
      simp only [hw', Bool.false_eq_true, if_false, List.filter_cons]
      exact ih st

/-- **`uwt_confined_kinds`**: `update_working_tree` on ANY list of tree changes — add, modify, copy, rename, delete
and UNCHANGED (what `reset --hard` and friends pass with `want_unchanged=True`), any old paths, any new entries —
from every file system without a symlink named `.git`: every mutating call is confined.  It rests on
`written_kinds_validated`: the set of kinds for which the write loop reaches `validate_path` ⊇ the set of kinds it
writes, both extracted from the source; validating only a subset (e.g. in a pre-pass that skips UNCHANGED) makes
that lemma, hence this theorem, fail to compile. -/
theorem uwt_confined_kinds (fold : List Nat → List Nat) (hf : FoldAsciiOk fold) (v : Validator) (root : PPath)
    (isEmpty : FS → PPath → Bool) (changes : List Change) (fs : FS) (h0 : NoDotGitLink fs) :
    ∀ m ∈ (updateWorkingTreeK isEmpty (v.run fold) root changes { fs := fs, log := [], safe := [] }).1.log,
      Confined root m.target := by
  intro m hm
  have := uwt_confined fold hf v root isEmpty ((changes.filter (fun c => deletedKind c.1)).map (·.2.1))
    ((changes.filter (fun c => writtenKind c.1)).map (·.2.2)) fs h0 m
  apply this
  unfold updateWorkingTreeK at hm
  unfold updateWorkingTree
  have e : (uwtWriteChanges isEmpty (v.run fold) root changes) =
      (uwtPhaseAllG uwtFreshCache gitlinkDirTestFollows isEmpty (v.run fold) root
        ((changes.filter (fun c => writtenKind c.1)).map (·.2.2))) := by
    funext s; exact uwtWriteChanges_eq isEmpty (v.run fold) root changes s
  rw [e] at hm
  exact hm

/-- Regression witness for a write loop that does not validate UNCHANGED entries: the index already lists
`../o/p` (copied in by a mixed reset) and the target tree is the same, so the change arrives as unchanged and the
file is absent: with the trivial validator the entry is written to `o/p`, outside; validated, it is refused. -/
theorem unchanged_unvalidated_counterexample :
    (uwtEntryG true false (fun _ _ => true) (fun _ => true) [[119]] ⟨[46, 46, 47, 111, 47, 112], 0o100644, [7]⟩
        { fs := exFs, log := [], safe := [] }).1.log = [.write [[111], [112]], .chmod [[111], [112]] 0o644] ∧
    (uwtEntryG true false (fun _ _ => true) validateNtfs [[119]] ⟨[46, 46, 47, 111, 47, 112], 0o100644, [7]⟩
        { fs := exFs, log := [], safe := [] }).2 = some .invalidPath := by
  refine ⟨by decide, by decide⟩

end Dulwich.Props.C17
