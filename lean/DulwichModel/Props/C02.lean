/-
  C02 — pack and pack-index round trip, internally consistent.

  Only property theorems, non-vacuity examples and negation witnesses live here; helper lemmas are in
  Lemmas/Pack.lean and Lemmas/PackIndex.lean.  The models are Model/Pack.lean and Model/PackIndex.lean;
  their masks, shifts, type numbers, magics and table offsets come from Gen/Pack.lean, which the
  translator regenerates from /repo on every run.
-/
import DulwichModel.Lemmas.Pack
import DulwichModel.Lemmas.PackIndex
import DulwichModel.Props.C03

namespace Dulwich.Props.C02
open Dulwich Dulwich.Pack Dulwich.Delta Dulwich.PackIndex

/-! ## 0. the shape the model assumes of the code (regenerated constants that are not numeric parameters) -/

/-- `raw[0]`, `raw[1:]`, `raw[-1]`, `ret.insert(0, …)`, `(start + end) // 2`, `i + 1`, `i - 1`,
`while start <= end`, `== 0`: positions and steps the model hard-wires as list patterns. -/
theorem shape_constants :
    [Gen.Pack.dhFirst, Gen.Pack.dhFirst2, Gen.Pack.dhRestFrom, Gen.Pack.doLast, Gen.Pack.doFirst,
      Gen.Pack.doRestFrom, Gen.Pack.doZero, Gen.Pack.ofsInsertPos, Gen.Pack.bisectDiv, Gen.Pack.bisectUp,
      Gen.Pack.bisectDown, Gen.Pack.bisectInclusive]
      = [0, 0, 1, 1, 0, 1, 0, 0, 2, 1, 1, 1] := by decide

/-! ## 1. object header: type + size varint, any trailing bytes -/

/-- `_decode_object_header(take_msb_bytes(pack_object_header(ty, size) ++ rest)) = (ty, size)`, leaving
exactly `rest`: every type number that fits the 3-bit field, every size (no upper bound). -/
theorem objheader_roundtrip (ty size : Nat) (rest : Bytes) (hty : ty < 8) :
    decodeObjHeader (encodeObjHeader ty size ++ rest) = some (ty, size, rest) := by
  simp only [decodeObjHeader, takeMsb_encodeObjHeader ty size rest hty, decodeObjHeaderRaw_encodeObjHeader ty size hty]

/-- Non-vacuity / boundary instances: sizes 15/16 (4-bit group), 2047/2048 (first 7-bit group), 65536. -/
example : encodeObjHeader 3 15 = [0x3f] ∧ encodeObjHeader 3 16 = [0xb0, 0x01]
    ∧ encodeObjHeader 3 2047 = [0xbf, 0x7f] ∧ encodeObjHeader 3 2048 = [0xb0, 0x80, 0x01]
    ∧ decodeObjHeader (encodeObjHeader 7 65536 ++ [0xff, 0x80]) = some (7, 65536, [0xff, 0x80]) := by
  refine ⟨by decide +kernel, by decide +kernel, by decide +kernel, by decide +kernel, ?_⟩
  exact objheader_roundtrip 7 65536 _ (by decide)

/-! ## 2. OFS_DELTA distance: the +1-biased base-128 code, all n > 0, any trailing bytes -/

theorem ofs_roundtrip (n : Nat) (rest : Bytes) (hn : 0 < n) :
    decodeOfs (encodeOfs n ++ rest) = some (.ok n, rest) := by
  simp only [decodeOfs, takeMsb_encodeOfs n rest, decodeOfsRaw_encodeOfs n hn]

/-- Why `n > 0`: distance 0 is encodable but the decoder refuses it (`ApplyDeltaError`). -/
theorem ofs_zero_rejected (rest : Bytes) : decodeOfs (encodeOfs 0 ++ rest) = some (.error .delta, rest) := by
  unfold decodeOfs encodeOfs
  rw [encodeOfsAux]
  simp [takeMsb, decodeOfsRaw, lastHasMsb, decodeOfsAux, Gen.Pack.ofsLowShift, Gen.Pack.ofsLowMask,
    Gen.Pack.msbBit, Gen.Pack.doContBit, Gen.Pack.doLowMask, Gen.Pack.doZero]

/-- Boundary instances of the bias: 127/128 (one/two bytes), 16511/16512 (two/three bytes). -/
example : encodeOfs 127 = [0x7f] ∧ encodeOfs 128 = [0x80, 0x00] ∧ encodeOfs 16511 = [0xff, 0x7f]
    ∧ encodeOfs 16512 = [0x80, 0x80, 0x00] ∧ decodeOfs (encodeOfs 16512 ++ [0x80]) = some (.ok 16512, [0x80]) := by
  refine ⟨by decide +kernel, by decide +kernel, by decide +kernel, by decide +kernel, ?_⟩
  exact ofs_roundtrip 16512 _ (by decide)

/-! ## 3. trailer tracking under every chunking (`PackStreamReader._read`) -/

/-- Whatever way a stream `D` is cut into the chunks the read callbacks return (empty chunks included),
after feeding them all the running hash has been given exactly `D` minus its last `hs` bytes and the
deque holds exactly those last `hs` bytes (all of `D` while it is shorter than `hs`). -/
theorem trailer_tracking (hs : Nat) (hhs : 0 < hs) (chunks : List Bytes) :
    feedAll hs chunks
      = ⟨chunks.flatten.take (chunks.flatten.length - hs), chunks.flatten.drop (chunks.flatten.length - hs)⟩ := by
  have key : ∀ (cs : List Bytes) (s : TrailerState) (P : Bytes), s.hashed ++ s.trailer = P →
      s.trailer.length = min hs P.length →
      (cs.foldl (feed hs) s).hashed ++ (cs.foldl (feed hs) s).trailer = P ++ cs.flatten ∧
      (cs.foldl (feed hs) s).trailer.length = min hs (P ++ cs.flatten).length := by
    intro cs
    induction cs with
    | nil => intro s P h1 h2; simp [h1, h2]
    | cons c cs ih =>
      intro s P h1 h2
      obtain ⟨a, b⟩ := feed_invariant hs hhs s P c h1 h2
      have := ih (feed hs s c) (P ++ c) a b
      simpa [List.append_assoc] using this
  obtain ⟨h1, h2⟩ := key chunks ⟨[], []⟩ [] rfl (by simp)
  simp only [List.nil_append] at h1 h2
  unfold feedAll
  generalize chunks.foldl (feed hs) ⟨[], []⟩ = s at h1 h2
  generalize chunks.flatten = D at h1 h2
  obtain ⟨hashed, trailer⟩ := s
  simp only at h1 h2
  subst h1
  have hl : (hashed ++ trailer).length - hs = hashed.length := by
    simp only [List.length_append] at h2 ⊢; omega
  rw [hl]
  simp

/-- Non-vacuity: a 5-byte stream fed as `[1,2] [] [3] [4,5]` with a 3-byte trailer. -/
example : feedAll 3 [[1, 2], [], [3], [4, 5]] = ⟨[1, 2], [3, 4, 5]⟩ := by decide

/-! ## 4. pack framing: what `write_pack_data` writes is what the readers read -/

/-- **Sequential round trip.**  With zlib as a parameter (`inflate (deflate x ++ rest) = some (x, rest)`) and a
trailer hash of `hs > 0` bytes, the pack `write_pack_data` produces for *any* list of well-formed records —
full objects, deltas whose base was written earlier (emitted as OFS_DELTA with the +1-biased distance) and
deltas whose base was not (emitted as REF_DELTA) — is accepted by `PackData` and `iter_unpacked` yields, in
order, exactly the entries the writer meant: same offsets, same pack types, same base references, same
payload bytes. -/
theorem pack_sequential_roundtrip (deflate : Bytes → Bytes) (inflate : Bytes → Option (Bytes × Bytes))
    (H : Bytes → Bytes) (hs : Nat) (recs : List Rec)
    (hz : ZlibOk deflate inflate) (hhs : 0 < hs) (hH : ∀ x, (H x).length = hs)
    (hwf : ∀ r ∈ recs, wfRec hs r = true) (hn : recs.length < 2 ^ 32) :
    readPackSeq inflate hs (writePack deflate H recs).1 = .ok (layoutRecs deflate 12 [] recs) := by
  unfold writePack writePackBody
  simp only [packHeader_length]
  generalize hT : H (packHeader recs.length ++ (writeRecs deflate 12 [] recs).1) = T
  have hTl : T.length = hs := by rw [← hT]; exact hH _
  have hTne : T ≠ [] := by intro h; rw [h] at hTl; simp at hTl; omega
  have hpl := packHeader_length recs.length
  unfold readPackSeq
  have hlen : ¬ ((packHeader recs.length ++ (writeRecs deflate 12 [] recs).1 ++ T).length
      < Gen.Pack.packHeaderSize + hs) := by
    simp only [List.length_append, hpl, hTl, Gen.Pack.packHeaderSize]; omega
  rw [if_neg hlen]
  have htake : (packHeader recs.length ++ (writeRecs deflate 12 [] recs).1 ++ T).take Gen.Pack.packHeaderSize
      = packHeader recs.length := by
    rw [List.append_assoc]
    exact List.take_left' hpl
  have hhdr : readPackHeader (packHeader recs.length ++ (writeRecs deflate 12 [] recs).1 ++ T) = .ok recs.length := by
    unfold readPackHeader
    simp only [htake]
    have h1 : (packHeader recs.length).isEmpty = false := by
      simp [packHeader, Gen.Pack.packMagic]
    have h2 : (packHeader recs.length).take Gen.Pack.packMagic.length = Gen.Pack.packMagic := by
      unfold packHeader; rw [List.append_assoc]; exact List.take_left' rfl
    have h3 : beAt 4 (packHeader recs.length) Gen.Pack.packVersionAt = some Gen.Pack.packVersion := by
      unfold packHeader
      rw [List.append_assoc]
      exact beAt_beBytes 4 _ _ _ _ (by simp [Gen.Pack.packMagic, Gen.Pack.packVersionAt]) (by decide)
    have h4 : beAt 4 (packHeader recs.length) Gen.Pack.packCountAt = some recs.length := by
      unfold packHeader
      have := beAt_beBytes 4 recs.length (Gen.Pack.packMagic ++ beBytes 4 Gen.Pack.packVersion) [] Gen.Pack.packCountAt
        (by simp [Gen.Pack.packMagic, Gen.Pack.packCountAt, beBytes_length']) (by omega)
      rw [List.append_nil] at this
      exact this
    simp only [h1, Bool.false_eq_true, if_false, h2, ne_eq, not_true_eq_false, h3, h4, Gen.Pack.packVersion,
      Gen.Pack.packVersionLo, Gen.Pack.packVersionHi]
    simp
  rw [hhdr]
  simp only
  have hdrop : (packHeader recs.length ++ (writeRecs deflate 12 [] recs).1 ++ T).drop Gen.Pack.packHeaderSize
      = (writeRecs deflate 12 [] recs).1 ++ T := by
    rw [List.append_assoc]
    exact List.drop_left' hpl
  rw [hdrop, parseEntries_writeRecs deflate inflate hz hs T hTne recs 12 _ [] hwf (by simp)
    (by simp only [List.length_append, hpl]; omega)]

/-- **Offsets and CRC ranges are consistent.**  Every `(name, offset, raw)` the writer records (the index is
written from these; the CRC-32 is taken over `raw`) satisfies `pack[offset : offset + len raw] = raw`. -/
theorem crc_ranges_consistent (deflate : Bytes → Bytes) (H : Bytes → Bytes) (recs : List Rec) :
    ∀ e ∈ (writePack deflate H recs).2,
      slice (writePack deflate H recs).1 e.offset e.raw.length = e.raw := by
  intro e he
  unfold writePack writePackBody at he ⊢
  simp only [packHeader_length] at he ⊢
  have := writeRecs_ranges deflate recs 12 [] (packHeader recs.length)
    (H (packHeader recs.length ++ (writeRecs deflate 12 [] recs).1)) (packHeader_length _) e he
  rcases this with h | h
  · simp at h
  · rw [List.append_assoc]; exact h

/-- **Random access round trip (bases precede).**  If the record list denotes objects `objs`
(`objectsOf recs = .ok objs`: every delta names a base that occurs *earlier* in the list — so the writer
emits it as OFS_DELTA — and applies to it), then in the written pack every recorded entry, resolved by
`Pack.resolve_object` from its recorded offset (walk down the OFS chain of any depth, apply the deltas
back up), yields exactly the type and content the list denotes; fuel `= number of records` suffices, so
the walk terminates.  `lookup` (the index, used for REF_DELTA only) is arbitrary. -/
theorem pack_random_access (deflate : Bytes → Bytes) (inflate : Bytes → Option (Bytes × Bytes))
    (H : Bytes → Bytes) (hs : Nat) (recs : List Rec) (objs : List (Bytes × Nat × Bytes))
    (lookup : Bytes → Except Err Nat)
    (hz : ZlibOk deflate inflate) (hhs : 0 < hs) (hH : ∀ x, (H x).length = hs)
    (hwf : ∀ r ∈ recs, wfRec hs r = true) (hobj : objectsOf recs = .ok objs) :
    List.Forall₂
      (fun e a => e.name = a.1 ∧
        resolveAt inflate hs lookup (writePack deflate H recs).1 recs.length e.offset = .ok (a.2.1, a.2.2))
      (writePack deflate H recs).2 objs := by
  unfold writePack writePackBody
  simp only [packHeader_length]
  generalize hT : H (packHeader recs.length ++ (writeRecs deflate 12 [] recs).1) = T
  have hTne : T ≠ [] := by
    intro h
    have := hH (packHeader recs.length ++ (writeRecs deflate 12 [] recs).1)
    rw [hT, h] at this; simp at this; omega
  rw [List.append_assoc]
  have hparse := parseAt_layout deflate inflate hz hs T hTne recs 12 [] (packHeader recs.length)
    (packHeader_length _) hwf (by simp)
  have hal := resolve_layout deflate inflate hs lookup
    (packHeader recs.length ++ ((writeRecs deflate 12 [] recs).1 ++ T)) recs 12 [] [] objs hparse
    (by simp [Aligned]) (Nat.le_refl _) (by simp) hobj
  exact aligned_forall₂ _ recs.length _ _ hal (by rw [writeRecs_snd_length]; simp)

/-- **Deltified records denote their targets** (the link to C03).  A record whose payload is
`create_delta(base content, target)` — for *any* opcode list that stays inside the base, as C03 proves
for difflib's, `similar`'s and git's — contributes the target, with the base's type, to `objectsOf`. -/
theorem deltified_record_denotes_target (acc : List (Bytes × Nat × Bytes)) (rs : List Rec)
    (name bname : Bytes) (ty : Nat) (a : Bytes × Nat × Bytes) (ops : List Op)
    (hfind : acc.find? (fun x => x.1 = bname) = some a)
    (hv : Dulwich.Props.C03.OpsValid a.2.2 ops) (h32 : a.2.2.length ≤ 2 ^ 32)
    (hins : ∀ d, Op.insert d ∈ ops → 0 < d.length) :
    resolveRecs acc (⟨name, ty, some bname, createDelta a.2.2 ops⟩ :: rs)
      = resolveRecs ((name, a.2.1, opsTarget a.2.2 ops) :: acc) rs := by
  simp only [resolveRecs, hfind, Dulwich.Props.C03.apply_create a.2.2 ops hv h32 hins]

/-- Non-vacuity: a blob, an OFS delta on it, and a delta on the delta (chain depth 2), with a toy "zlib"
(`deflate x = len x :: x`).  All hypotheses of `pack_sequential_roundtrip` / `pack_random_access` hold and
random access to the last entry gives the twice-patched content. -/
example :
    let deflate : Bytes → Bytes := fun x => UInt8.ofNat x.length :: x
    let inflate : Bytes → Option (Bytes × Bytes) := fun b =>
      match b with | [] => none | n :: r => some (r.take n.toNat, r.drop n.toNat)
    let H : Bytes → Bytes := fun _ => [0xaa]
    let base : Bytes := [1, 2, 3, 4, 5]
    let recs : List Rec := [⟨[1], 3, none, base⟩,
      ⟨[2], 3, some [1], createDelta base [.copy 1 3, .insert [9]]⟩,
      ⟨[3], 3, some [2], createDelta [2, 3, 4, 9] [.insert [7], .copy 0 4]⟩]
    (∀ r ∈ recs, wfRec 1 r = true) ∧
      objectsOf recs = .ok [([3], 3, [7, 2, 3, 4, 9]), ([2], 3, [2, 3, 4, 9]), ([1], 3, base)] ∧
      (layoutRecs deflate 12 [] recs).map (fun p => (p.1, p.2.ty, p.2.base))
        = [(12, 3, .none), (19, 6, .ofs 7), (29, 6, .ofs 10)] ∧
      resolveAt inflate 1 (fun _ => .error .key) (writePack deflate H recs).1 3 29 = .ok (3, [7, 2, 3, 4, 9]) := by
  refine ⟨by decide, by decide +kernel, by decide +kernel, by decide +kernel⟩

/-! ## 4b. the CRC range of an entry does not depend on how the reader slices its input -/

/-- **Slice-size independence of `read_zlib_chunks_at`.**  Whatever the slice size `B > 0` — in particular
when the zlib stream ends *exactly* at the end of a slice, `L = k·B` — the bytes fed to the CRC (and kept as
`comp_chunks` with `include_comp`) are exactly the `L` bytes of the stream and the reported end offset is
`L`; at least one byte must follow the stream (the pack trailer does). -/
theorem crc_range_independent_of_slicing (B L : Nat) (buf : Bytes) (hB : 0 < B) (hL : L < buf.length) :
    zlibWalkAt 1 B L buf (L + 1) 0 [] = some (buf.take L, L) :=
  zlibWalkAt_spec B L buf hB hL (L + 1) 0 [] (Nat.zero_le _) (Nat.le_refl _) rfl

/-- The same for the code as it is: its loop-ending condition and its slice size (`_ZLIB_BUFSIZE`) are read
from the source.  A loop that ends on `decomp_obj.eof` makes `Gen.Pack.zlibAtEndsOnUnused = 0` and this proof
fail. -/
theorem crc_range_at_default_slice (L : Nat) (buf : Bytes) (hL : L < buf.length) :
    zlibWalkAt Gen.Pack.zlibAtEndsOnUnused Gen.Pack.zlibBufSize L buf (L + 1) 0 [] = some (buf.take L, L) :=
  crc_range_independent_of_slicing Gen.Pack.zlibBufSize L buf (by decide) hL

/-- With the entry header in front (its CRC is taken byte by byte in `take_msb_bytes_at`): the CRC input of the
entry at `off`, whose zlib stream starts at `s0` and is `L` bytes long, is exactly `pack[off : s0 + L]` — the
range up to the next entry's offset — for every slice size. -/
theorem entry_crc_range (B L off s0 : Nat) (pack : Bytes) (hB : 0 < B) (hoff : off ≤ s0) (hL : s0 + L < pack.length) :
    ∃ fed, zlibWalkAt 1 B L (pack.drop s0) (L + 1) 0 [] = some (fed, L) ∧
      slice pack off (s0 - off) ++ fed = slice pack off (s0 + L - off) := by
  refine ⟨(pack.drop s0).take L, crc_range_independent_of_slicing B L _ hB (by simp; omega), ?_⟩
  simp only [slice]
  have e : s0 + L - off = (s0 - off) + L := by omega
  rw [e, List.take_add, List.drop_drop]
  congr 3
  omega

/-- **Negation witness for the `eof` variant** (a seeded change that slipped past the first version of this
check): a loop that ends on `decomp_obj.eof`, with a 4-byte stream read in 4-byte slices, feeds *nothing* of the
last slice to the CRC (`left = 0`, and Python's `add[:-0]` is empty) while still reporting the right end. -/
theorem crc_eof_variant_counterexample :
    zlibWalkAt 0 4 4 [1, 2, 3, 4, 9] 5 0 [] = some ([], 4) ∧
    zlibWalkAt 1 4 4 [1, 2, 3, 4, 9] 5 0 [] = some ([1, 2, 3, 4], 4) := by decide

/-- **Chunking independence of the streaming reader `read_zlib_chunks`.**  However `read_some` cuts the data
into non-empty chunks (also when a chunk ends exactly with the stream), the CRC input / `comp_chunks` are
exactly the `L` stream bytes and the `unused` bytes handed back are the non-empty continuation. -/
theorem stream_walk_independent_of_chunking (L : Nat) (chunks : List Bytes)
    (hne : ∀ c ∈ chunks, c ≠ []) (hL : L < chunks.flatten.length) :
    ∃ u tail, zlibWalkStream L chunks 0 [] = some (chunks.flatten.take L, u) ∧
      chunks.flatten = chunks.flatten.take L ++ u ++ tail ∧ u ≠ [] := by
  have := zlibWalkStream_spec L chunks 0 [] hne rfl (Nat.zero_le _) (by simpa using hL)
  simpa using this

example : zlibWalkStream 4 [[1, 2], [3, 4], [9, 8]] 0 [] = some ([1, 2, 3, 4], [9, 8]) := by decide

/-! ## 5. pack index: write → load → lookup is sound and complete (versions 2, 3 and 1) -/

/-- **Index v2 round trip.**  For every strictly sorted (hence duplicate-free) entry list with names of the
hash length (20 or 32), 32-bit CRCs and offsets below 2^64 (so also the ones ≥ 2^31 that go through the
64-bit table), the file `write_pack_index_v2` writes loads as a v2 index with `len = #entries` and
`fan_out[b] = #{names with first byte ≤ b}`, and `_object_offset(sha)` returns the offset of the entry named
`sha`, or `KeyError` when there is none — for **every** probe `sha` of the hash length.  (Up to the F3
repair this needed the hypothesis that `sha` is not the byte string after the name table; see
`index_old_bound_phantom_counterexample`.) -/
theorem index_v2_lookup (H : Bytes → Bytes) (es : List IdxEntry) (cs sha : Bytes) (hs : Nat)
    (hhs : hs = 20 ∨ hs = 32) (hcs : cs.length = hs) (hnames : ∀ e ∈ es, e.name.length = hs)
    (hsha : sha.length = hs) (hsorted : Sorted es) (hn : es.length < 2 ^ 31)
    (hfield : ∀ e ∈ es, e.crc < 2 ^ 32 ∧ e.offset < 2 ^ 64) :
    ∃ file x, writeIndexV2 H es cs = .ok file ∧ loadIndex hs file = .ok x ∧ x.n = es.length ∧
      (∀ b, b < 256 → x.fan[b]? = some (countLe es b)) ∧
      x.lookup sha = match es.find? (fun e => decide (e.name = sha)) with
                     | some e => .ok e.offset
                     | none => .error .key := by
  refine ⟨v2File H es cs, v2Idx H es cs hs, write_v2_ok H es cs hs hhs hcs hnames hfield,
    load_v2 H es cs hs hn, rfl, ?_, ?_⟩
  · intro b hb
    show ((List.range' 0 256).map (cumul es))[b]? = some (countLe es b)
    rw [fan_get es b hb, cumul_eq_countLe]
  · show (v2Idx H es cs hs).lookupWith 1 1 sha = _
    exact lookup_correct _ es hs sha
      (facts_of_tabled _ es hs _ _ (v2Idx_tabled H es cs hs) hnames hn (fun e he => (hfield e he).2)) hsha hsorted

/-- **Index v3 round trip** (SHA-1: `write_pack_index_v3` implements `hash_format = 1` only). -/
theorem index_v3_lookup (H : Bytes → Bytes) (es : List IdxEntry) (cs sha : Bytes)
    (hcs : cs.length = 20) (hnames : ∀ e ∈ es, e.name.length = 20)
    (hsha : sha.length = 20) (hsorted : Sorted es) (hn : es.length < 2 ^ 31)
    (hfield : ∀ e ∈ es, e.crc < 2 ^ 32 ∧ e.offset < 2 ^ 64) :
    ∃ file x, writeIndexV3 H es cs 1 = .ok file ∧ loadIndex 20 file = .ok x ∧ x.version = 3 ∧ x.n = es.length ∧
      (∀ b, b < 256 → x.fan[b]? = some (countLe es b)) ∧
      x.lookup sha = match es.find? (fun e => decide (e.name = sha)) with
                     | some e => .ok e.offset
                     | none => .error .key := by
  refine ⟨v3File H es cs, v3Idx H es cs, write_v3_ok H es cs hcs hnames hfield, load_v3 H es cs hn, rfl, rfl, ?_, ?_⟩
  · intro b hb
    show ((List.range' 0 256).map (cumul es))[b]? = some (countLe es b)
    rw [fan_get es b hb, cumul_eq_countLe]
  · show (v3Idx H es cs).lookupWith 1 1 sha = _
    exact lookup_correct _ es 20 sha
      (facts_of_tabled _ es 20 _ _ (v3Idx_tabled H es cs) hnames hn (fun e he => (hfield e he).2)) hsha hsorted

/-- **Index v1 round trip**: 20-byte names, offsets below 2^32 (the writer refuses larger ones), no CRCs. -/
theorem index_v1_lookup (H : Bytes → Bytes) (es : List IdxEntry) (cs sha : Bytes)
    (hcs : cs.length = 20) (hnames : ∀ e ∈ es, e.name.length = 20)
    (hsha : sha.length = 20) (hsorted : Sorted es) (hn : es.length < 2 ^ 31)
    (hoff : ∀ e ∈ es, e.offset < 2 ^ 32) :
    ∃ file x, writeIndexV1 H es cs = .ok file ∧ loadIndex 20 file = .ok x ∧ x.version = 1 ∧ x.n = es.length ∧
      (∀ b, b < 256 → x.fan[b]? = some (countLe es b)) ∧
      x.lookup sha = match es.find? (fun e => decide (e.name = sha)) with
                     | some e => .ok e.offset
                     | none => .error .key := by
  refine ⟨v1File H es cs, v1Idx H es cs, write_v1_ok H es cs hcs hnames hoff, load_v1 H es cs hn, rfl, rfl, ?_, ?_⟩
  · intro b hb
    show ((List.range' 0 256).map (cumul es))[b]? = some (countLe es b)
    rw [fan_get es b hb, cumul_eq_countLe]
  · show (v1Idx H es cs).lookupWith 1 1 sha = _
    exact lookup_correct _ es 20 sha (v1_facts H es cs hnames hoff) hsha hsorted

/-- Non-vacuity: two entries, one with an offset ≥ 2^32 (64-bit table); present and absent probes, in every
version that can hold them. -/
example :
    let es : List IdxEntry := [⟨List.replicate 20 1, 12, 7⟩, ⟨List.replicate 20 2, 2 ^ 32 + 5, 9⟩]
    let es1 : List IdxEntry := [⟨List.replicate 20 1, 12, 7⟩, ⟨List.replicate 20 2, 2 ^ 32 - 1, 9⟩]
    let cs : Bytes := List.replicate 20 0xab
    let H : Bytes → Bytes := fun _ => List.replicate 20 0
    Sorted es ∧
      (v2Idx H es cs 20).lookup (List.replicate 20 2) = .ok (2 ^ 32 + 5) ∧
      (v3Idx H es cs).lookup (List.replicate 20 2) = .ok (2 ^ 32 + 5) ∧
      (v1Idx H es1 cs).lookup (List.replicate 20 2) = .ok (2 ^ 32 - 1) ∧
      (v2Idx H es cs 20).lookup (List.replicate 20 3) = .error .key := by
  refine ⟨by decide, by decide +kernel, by decide +kernel, by decide +kernel, by decide +kernel⟩

/-- What index `len(index)` of the name table holds: the `hs` bytes that follow it — the beginning of the CRC
table, or for an empty index the pack checksum itself. -/
theorem index_phantom_is_after_names (H : Bytes → Bytes) (es : List IdxEntry) (cs : Bytes) (hs : Nat)
    (hnames : ∀ e ∈ es, e.name.length = hs) :
    (v2Idx H es cs hs).nameAt es.length
      = (crcTable es ++ (ofsWords 0 es ++ (largeWords es ++ (cs ++ H (v2Body es cs))))).take hs :=
  nameAt_tabled_phantom _ es hs _ _ (v2Idx_tabled H es cs hs) hnames

/-- **Regression witness for DESIGN §7-F3** (confirmed on the code before the repair).  With the *old* call
site — `bisect_find_sha(start, end, …)`, i.e. `lookupWith 0 0` — the index of the empty pack (pack checksum
`029d0882…`) finds the pack checksum *as an object name*, at offset `0x029d0882`, although it has no
entries: the inclusive bisection over `[0, 0]` probes the 20 bytes after the empty name table.  The call
site of the working tree (`lookup`) answers `KeyError`. -/
theorem index_old_bound_phantom_counterexample :
    let cs : Bytes := [0x02, 0x9d, 0x08, 0x82, 0x3b, 0xd8, 0xa8, 0xea, 0xb5, 0x10, 0xad, 0x6a, 0xc7, 0x5c, 0x82,
      0x3c, 0xfd, 0x3e, 0xd3, 0x1e]
    let H : Bytes → Bytes := fun _ => List.replicate 20 0
    (v2Idx H [] cs 20).lookupWith 0 0 cs = .ok 0x029d0882 ∧
      ([] : List IdxEntry).find? (fun e => decide (e.name = cs)) = none ∧
      (v2Idx H [] cs 20).lookup cs = .error .key := by
  refine ⟨by decide +kernel, rfl, by decide +kernel⟩

end Dulwich.Props.C02
