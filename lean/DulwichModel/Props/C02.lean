/-
  C02 — pack and pack-index round trip, internally consistent.

  Only property theorems, non-vacuity examples and negation witnesses live here; helper lemmas are in
  Lemmas/Pack.lean and Lemmas/PackIndex.lean.  The models are Model/Pack.lean and Model/PackIndex.lean;
  their masks, shifts, type numbers, magics and table offsets come from Gen/Pack.lean, which the
  translator regenerates from /repo on every run.
-/
import DulwichModel.Lemmas.Pack

namespace Dulwich.Props.C02
open Dulwich Dulwich.Pack Dulwich.Delta

/-! ## 0. the shape the model assumes of the code (regenerated constants that are not numeric parameters) -/

/-- `raw[0]`, `raw[1:]`, `raw[-1]`, `ret.insert(0, …)`, `(start + end) // 2`, `i + 1`, `i - 1`,
`while start <= end`, `== 0`: positions and steps the model hard-wires as list patterns. -/
theorem shape_constants :
    [Gen.Pack.dhFirst, Gen.Pack.dhFirst2, Gen.Pack.dhRestFrom, Gen.Pack.doLast, Gen.Pack.doFirst,
      Gen.Pack.doRestFrom, Gen.Pack.doZero, Gen.Pack.ofsInsertPos, Gen.Pack.bisectDiv, Gen.Pack.bisectUp,
      Gen.Pack.bisectDown, Gen.Pack.bisectInclusive]
      = [0, 0, 1, 1, 0, 1, 0, 0, 2, 1, 1, 1] := by decide

/-! ## 1. object header: type + size varint, any trailing bytes -/

/-- `_decode_object_header(take_msb_bytes(pack_object_header(ty, size) ++ rest)) = (ty, size)`, leaving
exactly `rest`: every type number that fits the 3-bit field, every size (no upper bound). -/
theorem objheader_roundtrip (ty size : Nat) (rest : Bytes) (hty : ty < 8) :
    decodeObjHeader (encodeObjHeader ty size ++ rest) = some (ty, size, rest) := by
  have hc : ty * 2 ^ Gen.Pack.hdrTypeShift + size % (Gen.Pack.hdrLowMask + 1) < 128 := by
    simp only [Gen.Pack.hdrTypeShift, Gen.Pack.hdrLowMask]; omega
  have h1 : takeMsb (encodeObjHeader ty size ++ rest) = some (encodeObjHeader ty size, rest) :=
    takeMsb_encVarTail _ _ _ hc
  have h2 : decodeObjHeaderRaw (encodeObjHeader ty size) = some (ty, size) := by
    unfold encodeObjHeader
    rw [encVarTail]
    split
    · rename_i h0
      have h1 : (UInt8.ofNat (ty * 2 ^ Gen.Pack.hdrTypeShift + size % (Gen.Pack.hdrLowMask + 1))).toNat
          = ty * 16 + size % 16 := u8_toNat_ofNat (by omega)
      simp only [decodeObjHeaderRaw, h1, sizeTail, Gen.Pack.dhTypeShift, Gen.Pack.dhTypeMask, Gen.Pack.dhLowMask]
      simp only [Gen.Pack.hdrLowShift] at h0
      have e1 : (ty * 16 + size % 16) / 2 ^ 4 % (7 + 1) = ty := by omega
      have e2 : (ty * 16 + size % 16) % (15 + 1) + 0 = size := by omega
      rw [e1, e2]
    · rename_i h0
      have h1 : (UInt8.ofNat (ty * 2 ^ Gen.Pack.hdrTypeShift + size % (Gen.Pack.hdrLowMask + 1)
          + Gen.Pack.hdrContBit)).toNat = ty * 16 + size % 16 + 128 :=
        u8_toNat_ofNat (by simp only [Gen.Pack.hdrContBit]; omega)
      simp only [decodeObjHeaderRaw, h1]
      rw [sizeTail_encVarTail _ _ _ (by simp only [Gen.Pack.hdrGroupMask]; omega)]
      simp only [Gen.Pack.dhTypeShift, Gen.Pack.dhTypeMask, Gen.Pack.dhLowMask, Gen.Pack.dhLowShift,
        Gen.Pack.hdrGroupMask, Gen.Pack.hdrGroupShift, Gen.Pack.hdrLowShift]
      have e1 : (ty * 16 + size % 16 + 128) / 2 ^ 4 % (7 + 1) = ty := by omega
      have e2 : (ty * 16 + size % 16 + 128) % (15 + 1)
          + (size / 2 ^ 4 % (127 + 1) + 128 * (size / 2 ^ 4 / 2 ^ 7)) * 2 ^ 4 = size := by omega
      rw [e1, e2]
  simp only [decodeObjHeader, h1, h2]

/-- Non-vacuity / boundary instances: sizes 15/16 (4-bit group), 2047/2048 (first 7-bit group), 65536. -/
example : encodeObjHeader 3 15 = [0x3f] ∧ encodeObjHeader 3 16 = [0xb0, 0x01]
    ∧ encodeObjHeader 3 2047 = [0xbf, 0x7f] ∧ encodeObjHeader 3 2048 = [0xb0, 0x80, 0x01]
    ∧ decodeObjHeader (encodeObjHeader 7 65536 ++ [0xff, 0x80]) = some (7, 65536, [0xff, 0x80]) := by
  refine ⟨by decide +kernel, by decide +kernel, by decide +kernel, by decide +kernel, ?_⟩
  exact objheader_roundtrip 7 65536 _ (by decide)

/-! ## 2. OFS_DELTA distance: the +1-biased base-128 code, all n > 0, any trailing bytes -/

theorem ofs_roundtrip (n : Nat) (rest : Bytes) (hn : 0 < n) :
    decodeOfs (encodeOfs n ++ rest) = some (.ok n, rest) := by
  unfold decodeOfs encodeOfs
  have hb : (UInt8.ofNat (n % (Gen.Pack.ofsLowMask + 1))).toNat = n % 128 :=
    u8_toNat_ofNat (by simp only [Gen.Pack.ofsLowMask]; omega)
  simp only [takeMsb_encodeOfsAux _ _ _ (show takeMsb ([UInt8.ofNat (n % (Gen.Pack.ofsLowMask + 1))] ++ rest)
    = some ([UInt8.ofNat (n % (Gen.Pack.ofsLowMask + 1))], rest) by simp [takeMsb, hb, Gen.Pack.msbBit]; omega)]
  have hq : n / 2 ^ Gen.Pack.ofsLowShift = n / 128 := rfl
  rw [hq]
  by_cases h0 : n / 128 = 0
  · rw [h0, encodeOfsAux]
    simp only [if_true, decodeOfsRaw, lastHasMsb, hb, Gen.Pack.doContBit, decodeOfsAux, Gen.Pack.doLowMask,
      Gen.Pack.doZero]
    have e : n % 128 % (127 + 1) = n := by omega
    have e2 : ¬ n % 128 ≥ 128 := by omega
    simp [e, e2]
    omega
  · obtain ⟨b', r', he, hd⟩ := decodeOfsAux_encodeOfsAux (n / 128) (UInt8.ofNat (n % (Gen.Pack.ofsLowMask + 1))) []
      (by omega)
    have hl := lastHasMsb_encodeOfsAux (n / 128) [UInt8.ofNat (n % (Gen.Pack.ofsLowMask + 1))] (by simp)
    rw [he] at hl ⊢
    simp only [decodeOfsRaw, hl, lastHasMsb, hb, Gen.Pack.doContBit, Gen.Pack.doLowMask]
    have e2 : ¬ n % 128 ≥ 128 := by omega
    simp only [e2, decide_false, Bool.false_eq_true, if_false]
    have hd' : decodeOfsAux (b'.toNat % (127 + 1)) r' = n := by
      have : b'.toNat % (127 + 1) = b'.toNat % 128 := rfl
      rw [this, hd]
      simp only [decodeOfsAux, hb, Gen.Pack.doBias, Gen.Pack.doGroupShift, Gen.Pack.doGroupMask]
      omega
    simp only [hd', Gen.Pack.doZero]
    have : ¬ n = 0 := by omega
    simp [this]

/-- Why `n > 0`: distance 0 is encodable but the decoder refuses it (`ApplyDeltaError`). -/
theorem ofs_zero_rejected (rest : Bytes) : decodeOfs (encodeOfs 0 ++ rest) = some (.error .delta, rest) := by
  unfold decodeOfs encodeOfs
  rw [encodeOfsAux]
  simp [takeMsb, decodeOfsRaw, lastHasMsb, decodeOfsAux, Gen.Pack.ofsLowShift, Gen.Pack.ofsLowMask,
    Gen.Pack.msbBit, Gen.Pack.doContBit, Gen.Pack.doLowMask, Gen.Pack.doZero]

/-- Boundary instances of the bias: 127/128 (one/two bytes), 16511/16512 (two/three bytes). -/
example : encodeOfs 127 = [0x7f] ∧ encodeOfs 128 = [0x80, 0x00] ∧ encodeOfs 16511 = [0xff, 0x7f]
    ∧ encodeOfs 16512 = [0x80, 0x80, 0x00] ∧ decodeOfs (encodeOfs 16512 ++ [0x80]) = some (.ok 16512, [0x80]) := by
  refine ⟨by decide +kernel, by decide +kernel, by decide +kernel, by decide +kernel, ?_⟩
  exact ofs_roundtrip 16512 _ (by decide)

/-! ## 3. trailer tracking under every chunking (`PackStreamReader._read`) -/

/-- Whatever way a stream `D` is cut into the chunks the read callbacks return (empty chunks included),
after feeding them all the running hash has been given exactly `D` minus its last `hs` bytes and the
deque holds exactly those last `hs` bytes (all of `D` while it is shorter than `hs`). -/
theorem trailer_tracking (hs : Nat) (hhs : 0 < hs) (chunks : List Bytes) :
    feedAll hs chunks
      = ⟨chunks.flatten.take (chunks.flatten.length - hs), chunks.flatten.drop (chunks.flatten.length - hs)⟩ := by
  have key : ∀ (cs : List Bytes) (s : TrailerState) (P : Bytes), s.hashed ++ s.trailer = P →
      s.trailer.length = min hs P.length →
      (cs.foldl (feed hs) s).hashed ++ (cs.foldl (feed hs) s).trailer = P ++ cs.flatten ∧
      (cs.foldl (feed hs) s).trailer.length = min hs (P ++ cs.flatten).length := by
    intro cs
    induction cs with
    | nil => intro s P h1 h2; simp [h1, h2]
    | cons c cs ih =>
      intro s P h1 h2
      obtain ⟨a, b⟩ := feed_invariant hs hhs s P c h1 h2
      have := ih (feed hs s c) (P ++ c) a b
      simpa [List.append_assoc] using this
  obtain ⟨h1, h2⟩ := key chunks ⟨[], []⟩ [] rfl (by simp)
  simp only [List.nil_append] at h1 h2
  unfold feedAll
  generalize chunks.foldl (feed hs) ⟨[], []⟩ = s at h1 h2
  generalize chunks.flatten = D at h1 h2
  obtain ⟨hashed, trailer⟩ := s
  simp only at h1 h2
  subst h1
  have hl : (hashed ++ trailer).length - hs = hashed.length := by
    simp only [List.length_append] at h2 ⊢; omega
  rw [hl]
  simp

/-- Non-vacuity: a 5-byte stream fed as `[1,2] [] [3] [4,5]` with a 3-byte trailer. -/
example : feedAll 3 [[1, 2], [], [3], [4, 5]] = ⟨[1, 2], [3, 4, 5]⟩ := by decide

end Dulwich.Props.C02
