/-
  C10 — maintenance never loses reachable objects; readers survive concurrent repacks.

  Models: `Model/GC.lean` (logical store + maintenance operations), `Model/Reader.lean` (a reader's lookup /
  iteration as a small-step program interleaved with a repacker's file-system actions).
  Constants and the recorded file-system programs of the real `repack` / `pack_loose_objects` /
  `garbage_collect` come from `Gen/GC.lean` (regenerated from the source on every run).
-/
import DulwichModel.Model.GC
import DulwichModel.Model.Reader
import DulwichModel.Lemmas.GC
import DulwichModel.Lemmas.Reader

namespace Dulwich.Props.C10
open Dulwich Dulwich.Reader

/-! ## Logical half: maintenance never loses reachable objects

`GC.Reach s G roots x` (defined in `Lemmas/GC.lean`): `x` is a root (value of a ref or HEAD), or a child — tree/parents of
a commit, entry of a tree, target of a tag, as given by `G` — of a reachable object that is present in store `s`.
All theorems hold for every store (any mix of loose objects, packs with duplicates, alternates), every graph `G`,
every set of roots, every clock and mtimes. -/

/-- The `reachable` set / `pending` deque worklist of `find_reachable_objects` computes exactly the reachable set
(closure lemma), for every graph — whenever it returns. -/
theorem reach_worklist_complete (s : GC.Store) (G : GC.Id → List GC.Id) (roots : List GC.Id) (fuel : Nat)
    (r : List GC.Id) (h : GC.findReachable s G roots fuel = some r) (x : GC.Id) :
    x ∈ r ↔ GC.Reach s G roots x :=
  GC.findReachable_iff h x

/-- … and it always returns: the loop pops at most (number of roots + number of child slots of present objects) ids. -/
theorem reach_worklist_terminates (s : GC.Store) (G : GC.Id → List GC.Id) (roots : List GC.Id) (fuel : Nat)
    (hf : (roots ++ s.allIds.flatMap G).length ≤ fuel) : (GC.findReachable s G roots fuel).isSome = true :=
  GC.findReachable_total s G roots fuel hf

/-- every maintenance operation is total (given that much fuel for its reachability walk) -/
theorem maintenance_total (s : GC.Store) (G : GC.Id → List GC.Id) (roots : List GC.Id) (fuel : Nat) (op : GC.Op)
    (hf : (roots ++ s.allIds.flatMap G).length ≤ fuel) : (GC.apply G roots fuel op s).isSome = true := by
  have := GC.findReachable_total s G roots fuel hf
  cases op <;> simp [GC.apply, this]

/-- For every store, refs and grace periods: every object reachable from refs ∪ HEAD that is present stays present
after any sequence (any order, any number of times) of pack_loose_objects / repack / prune_unreachable_objects /
garbage_collect (prune or not, any grace period incl. 0 and None) / pack_refs / temp-file prune.
(Content is a function of the id in the model; the oracle compares type and bytes on the real code.) -/
theorem gc_preserves_reachable (G : GC.Id → List GC.Id) (roots : List GC.Id) (fuel : Nat) (ops : List GC.Op)
    (s s' : GC.Store) (h : GC.applyAll G roots fuel ops s = some s') (x : GC.Id)
    (hr : GC.Reach s G roots x) (hx : s.has x = true) : s'.has x = true :=
  GC.applyAll_preserves_reachable h hr hx

/-- Whatever one operation makes disappear was unreachable, and the operation was a prune / a gc with prune=True whose
grace period the object's mtime (as `get_object_mtime` reports it) had outlived (`t + grace ≤ now`; no condition when the
grace period is None). -/
theorem only_old_unreachable_removed (G : GC.Id → List GC.Id) (roots : List GC.Id) (fuel : Nat) (op : GC.Op)
    (s s' : GC.Store) (h : GC.apply G roots fuel op s = some s') (x : GC.Id)
    (hx : s.has x = true) (hgone : s'.has x = false) :
    ¬ GC.Reach s G roots x ∧
    ((∃ grace now, op = .prune grace now ∧ GC.OldEnough s grace now x) ∨
     (∃ grace now, op = .gc true grace now ∧ GC.OldEnough s grace now x)) :=
  GC.apply_only_old_unreachable_removed h hx hgone

/-- maintenance never invents or resurrects an object -/
theorem maintenance_adds_nothing (G : GC.Id → List GC.Id) (roots : List GC.Id) (fuel : Nat) (op : GC.Op)
    (s s' : GC.Store) (h : GC.apply G roots fuel op s = some s') (x : GC.Id) (hx : s'.has x = true) :
    s.has x = true :=
  GC.apply_no_new_objects h hx

/-- `OldEnough` uses the mtime of ONE copy (the loose file, else the first pack in cache order).  Negation witness of the
stronger reading "every copy is older than the grace period": object 9 is unreachable, its loose copy is 7200 s old, its
packed copy 1800 s; `gc(grace 3600)` removes it from the store altogether. -/
theorem younger_copy_pruned_counterexample :
    let s : GC.Store := { loose := [(9, 2800)], packs := [{ ids := [1, 2], mtime := 2800 }, { ids := [9], mtime := 8200 }],
                          alts := [] }
    let G : GC.Id → List GC.Id := fun x => if x = 1 then [2] else []
    (GC.apply G [1] 10 (.gc true (some 3600) 10000) s).map (fun s' => (s'.has 1, s'.has 2, s'.has 9)) =
      some (true, true, false) ∧ 10000 < 8200 + 3600 := by
  decide

/-- A second way in which "older than the grace period" fails for the object as a whole: object 9 sits in an old pack
`{9}`; it is re-added (fresh loose copy, 10 s old); `pack_loose_objects` finds that the pack it would write already exists
and only deletes the loose copy (`installPack` keeps the old pack with its old mtime); `gc(grace 3600)` then removes
object 9, ten seconds after it was written. -/
theorem fresh_copy_dropped_counterexample :
    let s : GC.Store := { loose := [(9, 9990)], packs := [{ ids := [1, 2], mtime := 100 }, { ids := [9], mtime := 100 }],
                          alts := [] }
    let G : GC.Id → List GC.Id := fun x => if x = 1 then [2] else []
    (GC.applyAll G [1] 10 [.packLoose 10000, .gc true (some 3600) 10000] s).map (fun s' => (s'.has 1, s'.has 2, s'.has 9)) =
      some (true, true, false) ∧ 10000 < 9990 + 3600 := by
  decide

/-- non-vacuity of the hypotheses of the logical theorems: a store with loose, packed, duplicated and alternate objects;
gc with the default grace period (from the source) keeps the closure of the root and the young unreachable object, and
removes the old unreachable one. -/
example :
    let s : GC.Store := { loose := [(3, 100), (7, 100), (8, 5000000)], packs := [{ ids := [1, 2, 3], mtime := 100 },
                          { ids := [3, 6], mtime := 100 }], alts := [4] }
    let G : GC.Id → List GC.Id := fun x => if x = 1 then [2, 3] else if x = 3 then [4, 5] else []
    GC.findReachable s G [1] 20 = some [1, 2, 3, 4, 5] ∧
    (GC.apply G [1] 20 (.gc true GC.defaultGrace 5000100) s).map
        (fun s' => ([1, 2, 3, 4, 5, 6, 7, 8].map s'.has, s'.loose, s'.packs.map (·.ids))) =
      some ([true, true, true, true, false, false, false, true], [], [[8, 1, 2, 3]]) := by
  decide

/-! ## Concurrent half: concrete witnesses (the general theorems follow below) -/

/-- is `x` readable in file-system state `f` (loose file present, or in a pack that a directory scan would show) -/
def present (ids : Name → List Id) (f : FS) (x : Id) : Bool :=
  f.loose.contains x || f.visible.any (fun p => (ids p).contains x)

/-- the recorded program of the real `pack_loose_objects()` (two loose objects `1`, `2` go into the new pack) -/
def packLooseProg : List Act := Gen.GC.packLooseProgram.map Act.ofCode

def raceIds : Name → List Id := fun p => if p = Gen.GC.packLooseNewPack then [1, 2] else []

/-- `store[1]` exactly as the code does it now (`reprobe` as found in the source) -/
def raceCfg (reprobe : Bool) : Cfg :=
  { ids := raceIds, x := 1, needData := true, alts := [], maxAttempts := Gen.GC.maxPackRescanAttempts, reprobe := reprobe }

def raceStart (reprobe : Bool) : Sys :=
  { fs := { idx := [], data := [], loose := [1, 2] }, prog := packLooseProg,
    readers := [(raceCfg reprobe, RState.init [] [] [])] }

/-- the interleaving: the reader scans the (empty) pack directory; `pack_loose_objects` runs to completion
(install pack, delete both loose files); the reader then probes the loose file, then the alternates. -/
def raceSchedule : List (Option Nat) := [some 0, none, none, none, none, some 0, some 0, some 0, some 0, some 0, some 0]

/-- F12: object `1` is readable in every intermediate state (loose first, then packed) and yet the lookup ends
with "missing" — with the probe order and the missing re-probe read off the source by the translator. -/
theorem loose_to_pack_race_counterexample :
    Gen.GC.getRawReprobesPacks = false ∧
    (∀ k, k ≤ raceSchedule.length →
        present raceIds ((raceStart Gen.GC.getRawReprobesPacks).exec (raceSchedule.take k)).fs 1 = true) ∧
    ((raceStart Gen.GC.getRawReprobesPacks).exec raceSchedule).readers.map (fun cr => cr.2.phase) = [Phase.done false] := by
  decide

/-- the proposed patch (one more look at the packs after the loose miss, as git does) closes this interleaving -/
theorem loose_to_pack_race_fixed_by_reprobe :
    ((raceStart true).exec raceSchedule).readers.map (fun cr => cr.2.phase) = [Phase.done true] := by
  decide

/-! ### iteration skips a vanished pack without rescanning -/

def iterIds : Name → List Id := fun p => if p = 2 then [1] else if p = 1 then [1, 2] else []

/-- `list(store)` against the recorded `repack()` program restricted to one old pack `2 = {1}` and one loose object `2`:
the reader lists the pack directory (sees pack 2), the repack installs pack `1 = {1,2}` and removes pack 2, the reader
opens pack 2's index (gone: evicted, NOT rescanned), lists loose objects (none left).  Object 1 was in a visible pack
throughout and is not in the result. -/
theorem iter_skips_disappeared_pack_counterexample :
    let f0 : FS := { idx := [2], data := [2], loose := [2] }
    let prog : List Act := [.installData 1, .installIdx 1, .delLoose 2, .removeData 2, .removeIdx 2]
    let fEnd := prog.foldl FS.act f0
    present iterIds f0 1 = true ∧ present iterIds fEnd 1 = true ∧
    (irun iterIds [] [f0, fEnd, fEnd, fEnd, fEnd] (IState.init [] [])).phase = IPhase.done ∧
    (irun iterIds [] [f0, fEnd, fEnd, fEnd, fEnd] (IState.init [] [])).acc = [] := by
  decide

/-! ### the retry bound is tight -/

def retryIds : Name → List Id := fun _ => [1]

/-- Three successive repacks (packs 1 → 2 → 3 → 4, each new pack installed before the old one is removed, object 1 in a
visible pack at every instant) defeat a lookup with `_MAX_PACK_RESCAN_ATTEMPTS` passes that starts from an empty cache. -/
theorem retry_bound_counterexample :
    let c : Cfg := { ids := retryIds, x := 1, needData := true, alts := [], maxAttempts := Gen.GC.maxPackRescanAttempts,
                     reprobe := false }
    let f (a b : Name) : FS := { idx := [a, b], data := [a, b], loose := [] }
    let g (a : Name) : FS := { idx := [a], data := [a], loose := [] }
    -- scan (sees 1) | 1 gone (2 is there) | rescan sees 2 | 2 gone (3 there) | rescan sees 3 | 3 gone (4 there) | rescan | loose | alts
    let tr : List FS := [g 1, g 2, g 2, g 3, g 3, g 4, g 4, g 4, g 4]
    (∀ fs ∈ [g 1, f 1 2, g 2, f 2 3, g 3, f 3 4, g 4], present retryIds fs 1 = true) ∧
    (run c tr (RState.init [] [] [])).phase = Phase.done false := by
  decide

/-- with one pass fewer even a single repack (from an empty cache) is enough: the bound in the source is needed -/
theorem two_attempts_insufficient_counterexample :
    let c : Cfg := { ids := retryIds, x := 1, needData := true, alts := [], maxAttempts := 2, reprobe := false }
    let g (a : Name) : FS := { idx := [a], data := [a], loose := [] }
    (run c [g 1, g 2, g 2, g 2, g 2] (RState.init [] [] [])).phase = Phase.done false := by
  decide

/-! ### the general theorems -/

/-- the retry bound found in the source is enough for the theorems below (and `two_attempts_insufficient_counterexample`
shows that 2 would not be) -/
theorem rescan_attempts_sufficient : 3 ≤ Gen.GC.maxPackRescanAttempts := by decide

/-- For every interleaving (any schedule) of ONE repacker whose program has the safe shape (`checkProgram`: the new pack
`pstar` is installed — data, then index — before any pack file is removed, and is never removed) with ANY number of
readers, each doing `store[x]` or `x in store` from any cache state (empty, stale, already loaded) for an object that is
in a complete pack at the start and in `pstar`: no reader ever reports "missing".  The number of passes is the constant
from the source. -/
theorem reader_finds_persistent_object (pstar : Name) (prog : List Act)
    (hprog : checkProgram pstar false false prog = true) (f0 : FS) (readers : List (Cfg × RState))
    (hreaders : ∀ cr ∈ readers, cr.1.maxAttempts = Gen.GC.maxPackRescanAttempts ∧ cr.1.x ∈ cr.1.ids pstar ∧
        (∃ p, f0.complete p = true ∧ cr.1.x ∈ cr.1.ids p) ∧
        (∃ cache idxL dataL, cr.2 = RState.init cache idxL dataL))
    (sched : List (Option Nat)) :
    ∀ cr ∈ (Sys.exec { fs := f0, prog := prog, readers := readers } sched).readers,
      ∀ b, cr.2.phase = Phase.done b → b = true := by
  apply sys_readers_never_miss pstar prog hprog f0 readers
  intro cr hcr
  obtain ⟨hN, h⟩ := hreaders cr hcr
  exact ⟨by rw [hN]; exact rescan_attempts_sufficient, h⟩

/-- The same against an arbitrary environment (e.g. `git repack -a -d` as another process): any sequence of file-system
states, observed at the reader's steps, in which the object is always in a complete pack and the "no removal before the
stable pack is complete" discipline holds (`Rely`). -/
theorem reader_finds_persistent_object_any_environment (c : Cfg) (pstar : Name)
    (hN : c.maxAttempts = Gen.GC.maxPackRescanAttempts) (tr : List (EPhase × FS)) (hrely : Rely c pstar tr)
    (cache idxL dataL : List Name) (b : Bool)
    (hdone : (run c (tr.map (·.2)) (RState.init cache idxL dataL)).phase = Phase.done b) : b = true :=
  reader_never_misses c pstar (by rw [hN]; exact rescan_attempts_sufficient) tr hrely cache idxL dataL b hdone

/-! ### the recorded programs of the real code have the safe shape -/

/-- `repack()`: the consolidated pack is fully installed (data, then index) before any old pack file is removed, and it
is never removed.  A reordering in dulwich changes the generated term and this stops compiling. -/
theorem recorded_repack_order_safe :
    checkProgram Gen.GC.repackNewPack false false (Gen.GC.repackProgram.map Act.ofCode) = true := by decide

theorem recorded_pack_loose_order_safe :
    checkProgram Gen.GC.packLooseNewPack false false (Gen.GC.packLooseProgram.map Act.ofCode) = true := by decide

theorem recorded_gc_order_safe :
    checkProgram Gen.GC.gcNewPack false false (Gen.GC.gcProgram.map Act.ofCode) = true := by decide

/-- `repack_order_safe`: readers of any object that is packed before the real `repack()` starts survive it, whatever the
schedule — the program is the one recorded from the source on this run. -/
theorem repack_order_safe (f0 : FS) (readers : List (Cfg × RState))
    (hreaders : ∀ cr ∈ readers, cr.1.maxAttempts = Gen.GC.maxPackRescanAttempts ∧
        cr.1.x ∈ cr.1.ids Gen.GC.repackNewPack ∧ (∃ p, f0.complete p = true ∧ cr.1.x ∈ cr.1.ids p) ∧
        (∃ cache idxL dataL, cr.2 = RState.init cache idxL dataL))
    (sched : List (Option Nat)) :
    ∀ cr ∈ (Sys.exec { fs := f0, prog := Gen.GC.repackProgram.map Act.ofCode, readers := readers } sched).readers,
      ∀ b, cr.2.phase = Phase.done b → b = true :=
  reader_finds_persistent_object _ _ recorded_repack_order_safe f0 readers hreaders sched

/-- non-vacuity: a concrete instance of all hypotheses of `repack_order_safe` (object 5 in old pack 2 and in the new
pack 1; one cold `get_raw` reader and one `__contains__` reader with a stale cache), and a schedule on which both
lookups finish — with "found". -/
example :
    let ids : Name → List Id := fun p => if p = 1 then [5, 6, 7] else if p = 2 then [5] else if p = 3 then [6] else []
    let c1 : Cfg := { ids := ids, x := 5, needData := true, alts := [], maxAttempts := Gen.GC.maxPackRescanAttempts, reprobe := false }
    let c2 : Cfg := { c1 with needData := false }
    let f0 : FS := { idx := [2, 3], data := [3, 2], loose := [7] }
    let readers := [(c1, RState.init [] [] []), (c2, RState.init [9, 2] [] [])]
    checkProgram Gen.GC.repackNewPack false false (Gen.GC.repackProgram.map Act.ofCode) = true ∧
    f0.complete 2 = true ∧ (5 ∈ ids 2) ∧ (5 ∈ ids Gen.GC.repackNewPack) ∧
    ((Sys.exec { fs := f0, prog := Gen.GC.repackProgram.map Act.ofCode, readers := readers }
        [some 0, none, none, some 1, none, none, none, none, none, none, some 0, some 0, some 0, some 0, some 0,
         some 1, some 1, some 1, some 1, some 1]).readers.map (fun cr => cr.2.phase)) = [Phase.done true, Phase.done true] := by
  decide

end Dulwich.Props.C10
