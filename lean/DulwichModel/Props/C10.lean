/-
  C10 — maintenance never loses reachable objects; readers survive concurrent repacks.

  Models: `Model/GC.lean` (logical store + maintenance operations), `Model/Reader.lean` (a reader's lookup /
  iteration as a small-step program interleaved with a repacker's file-system actions).
  Constants and the recorded file-system programs of the real `repack` / `pack_loose_objects` /
  `garbage_collect` come from `Gen/GC.lean` (regenerated from the source on every run).
-/
import DulwichModel.Model.GC
import DulwichModel.Model.Reader

namespace Dulwich.Props.C10
open Dulwich Dulwich.Reader

/-! ## Concurrent half: concrete witnesses (the general theorems follow below) -/

/-- is `x` readable in file-system state `f` (loose file present, or in a pack that a directory scan would show) -/
def present (ids : Name → List Id) (f : FS) (x : Id) : Bool :=
  f.loose.contains x || f.visible.any (fun p => (ids p).contains x)

/-- the recorded program of the real `pack_loose_objects()` (two loose objects `1`, `2` go into the new pack) -/
def packLooseProg : List Act := Gen.GC.packLooseProgram.map Act.ofCode

def raceIds : Name → List Id := fun p => if p = Gen.GC.packLooseNewPack then [1, 2] else []

/-- `store[1]` exactly as the code does it now (`reprobe` as found in the source) -/
def raceCfg (reprobe : Bool) : Cfg :=
  { ids := raceIds, x := 1, needData := true, alts := [], maxAttempts := Gen.GC.maxPackRescanAttempts, reprobe := reprobe }

def raceStart (reprobe : Bool) : Sys :=
  { fs := { idx := [], data := [], loose := [1, 2] }, prog := packLooseProg,
    readers := [(raceCfg reprobe, RState.init [] [] [])] }

/-- the interleaving: the reader scans the (empty) pack directory; `pack_loose_objects` runs to completion
(install pack, delete both loose files); the reader then probes the loose file, then the alternates. -/
def raceSchedule : List (Option Nat) := [some 0, none, none, none, none, some 0, some 0, some 0, some 0, some 0, some 0]

/-- F12: object `1` is readable in every intermediate state (loose first, then packed) and yet the lookup ends
with "missing" — with the probe order and the missing re-probe read off the source by the translator. -/
theorem loose_to_pack_race_counterexample :
    Gen.GC.getRawReprobesPacks = false ∧
    (∀ k, k ≤ raceSchedule.length →
        present raceIds ((raceStart Gen.GC.getRawReprobesPacks).exec (raceSchedule.take k)).fs 1 = true) ∧
    ((raceStart Gen.GC.getRawReprobesPacks).exec raceSchedule).readers.map (fun cr => cr.2.phase) = [Phase.done false] := by
  decide

/-- the proposed patch (one more look at the packs after the loose miss, as git does) closes this interleaving -/
theorem loose_to_pack_race_fixed_by_reprobe :
    ((raceStart true).exec raceSchedule).readers.map (fun cr => cr.2.phase) = [Phase.done true] := by
  decide

/-! ### iteration skips a vanished pack without rescanning -/

def iterIds : Name → List Id := fun p => if p = 2 then [1] else if p = 1 then [1, 2] else []

/-- `list(store)` against the recorded `repack()` program restricted to one old pack `2 = {1}` and one loose object `2`:
the reader lists the pack directory (sees pack 2), the repack installs pack `1 = {1,2}` and removes pack 2, the reader
opens pack 2's index (gone: evicted, NOT rescanned), lists loose objects (none left).  Object 1 was in a visible pack
throughout and is not in the result. -/
theorem iter_skips_disappeared_pack_counterexample :
    let f0 : FS := { idx := [2], data := [2], loose := [2] }
    let prog : List Act := [.installData 1, .installIdx 1, .delLoose 2, .removeData 2, .removeIdx 2]
    let fEnd := prog.foldl FS.act f0
    present iterIds f0 1 = true ∧ present iterIds fEnd 1 = true ∧
    (irun iterIds [] [f0, fEnd, fEnd, fEnd, fEnd] (IState.init [] [])).phase = IPhase.done ∧
    (irun iterIds [] [f0, fEnd, fEnd, fEnd, fEnd] (IState.init [] [])).acc = [] := by
  decide

/-! ### the retry bound is tight -/

def retryIds : Name → List Id := fun _ => [1]

/-- Three successive repacks (packs 1 → 2 → 3 → 4, each new pack installed before the old one is removed, object 1 in a
visible pack at every instant) defeat a lookup with `_MAX_PACK_RESCAN_ATTEMPTS` passes that starts from an empty cache. -/
theorem retry_bound_counterexample :
    let c : Cfg := { ids := retryIds, x := 1, needData := true, alts := [], maxAttempts := Gen.GC.maxPackRescanAttempts,
                     reprobe := false }
    let f (a b : Name) : FS := { idx := [a, b], data := [a, b], loose := [] }
    let g (a : Name) : FS := { idx := [a], data := [a], loose := [] }
    -- scan (sees 1) | 1 gone (2 is there) | rescan sees 2 | 2 gone (3 there) | rescan sees 3 | 3 gone (4 there) | rescan | loose | alts
    let tr : List FS := [g 1, g 2, g 2, g 3, g 3, g 4, g 4, g 4, g 4]
    (∀ fs ∈ [g 1, f 1 2, g 2, f 2 3, g 3, f 3 4, g 4], present retryIds fs 1 = true) ∧
    (run c tr (RState.init [] [] [])).phase = Phase.done false := by
  decide

/-- with one pass fewer even a single repack (from an empty cache) is enough: the bound in the source is needed -/
theorem two_attempts_insufficient_counterexample :
    let c : Cfg := { ids := retryIds, x := 1, needData := true, alts := [], maxAttempts := 2, reprobe := false }
    let g (a : Name) : FS := { idx := [a], data := [a], loose := [] }
    (run c [g 1, g 2, g 2, g 2, g 2] (RState.init [] [] [])).phase = Phase.done false := by
  decide

/-! ### the recorded programs of the real code have the safe shape -/

/-- `repack()`: the consolidated pack is fully installed (data, then index) before any old pack file is removed, and it
is never removed.  A reordering in dulwich changes the generated term and this stops compiling. -/
theorem recorded_repack_order_safe :
    checkProgram Gen.GC.repackNewPack false false (Gen.GC.repackProgram.map Act.ofCode) = true := by decide

theorem recorded_pack_loose_order_safe :
    checkProgram Gen.GC.packLooseNewPack false false (Gen.GC.packLooseProgram.map Act.ofCode) = true := by decide

theorem recorded_gc_order_safe :
    checkProgram Gen.GC.gcNewPack false false (Gen.GC.gcProgram.map Act.ofCode) = true := by decide

end Dulwich.Props.C10
