/-
  C10 — maintenance never loses reachable objects; readers survive concurrent repacks.

  Models: `Model/GC.lean` (logical store + maintenance operations), `Model/Reader.lean` (a reader's lookup /
  iteration as a small-step program interleaved with a repacker's file-system actions).
  Constants, the behaviour switches (does `get_raw` look at the packs again after a loose miss? does `__iter__` rescan
  after the loose listing? is an object's mtime the most recent over its copies? does `_complete_pack` refresh an
  existing pack's mtime?) and the recorded file-system programs of the real `repack` / `pack_loose_objects` /
  `garbage_collect` come from `Gen/GC.lean`, regenerated from the source on every run.

  The positive theorems are about the code AFTER the C10 fix series; the behaviour before it is kept as `decide`d
  regression witnesses on the old variants (`…_old_code`).
-/
import DulwichModel.Model.GC
import DulwichModel.Model.Reader
import DulwichModel.Lemmas.GC
import DulwichModel.Lemmas.Reader

namespace Dulwich.Props.C10
open Dulwich Dulwich.Reader

/-! ## What the source does now (translator output) -/

/-- The source has the repaired behaviours the theorems below are about.  (Against a tree without the fix series this is
the obligation that stops compiling.) -/
theorem source_has_repaired_behaviour :
    Gen.GC.getRawReprobesPacks = true ∧ Gen.GC.containsReprobesPacks = true ∧ Gen.GC.iterRescansAfterLoose = true ∧
    GC.Variant.current = GC.Variant.fixed ∧
    Gen.GC.getRawProbeOrder = [0, 1, 2, 0] ∧ Gen.GC.containsProbeOrder = [0, 1, 2, 0] := by
  decide

/-- the retry bound found in the source is enough for the theorems below -/
theorem rescan_attempts_sufficient : 3 ≤ Gen.GC.maxPackRescanAttempts := by decide

/-! ## Logical half: maintenance never loses reachable objects

`GC.Reach s G roots x` (defined in `Lemmas/GC.lean`): `x` is a root (value of a ref or HEAD), or a child — tree/parents of
a commit, entry of a tree, target of a tag, as given by `G` — of a reachable object that is present in store `s`.
All theorems hold for every store (any mix of loose objects, packs with duplicates, alternates), every graph `G`,
every set of roots, every clock and mtimes; those that do not mention mtimes hold for both variants of the code. -/

/-- The `reachable` set / `pending` deque worklist of `find_reachable_objects` computes exactly the reachable set
(closure lemma), for every graph — whenever it returns. -/
theorem reach_worklist_complete (s : GC.Store) (G : GC.Id → List GC.Id) (roots : List GC.Id) (fuel : Nat)
    (r : List GC.Id) (h : GC.findReachable s G roots fuel = some r) (x : GC.Id) :
    x ∈ r ↔ GC.Reach s G roots x :=
  GC.findReachable_iff h x

/-- … and it always returns: the loop pops at most (number of roots + number of child slots of present objects) ids. -/
theorem reach_worklist_terminates (s : GC.Store) (G : GC.Id → List GC.Id) (roots : List GC.Id) (fuel : Nat)
    (hf : (roots ++ s.allIds.flatMap G).length ≤ fuel) : (GC.findReachable s G roots fuel).isSome = true :=
  GC.findReachable_total s G roots fuel hf

/-- every maintenance operation is total (given that much fuel for its reachability walk) -/
theorem maintenance_total (v : GC.Variant) (s : GC.Store) (G : GC.Id → List GC.Id) (roots : List GC.Id) (fuel : Nat)
    (op : GC.Op) (hf : (roots ++ s.allIds.flatMap G).length ≤ fuel) : (GC.apply v G roots fuel op s).isSome = true := by
  have := GC.findReachable_total s G roots fuel hf
  cases op <;> simp [GC.apply, this]

/-- For every store, refs and grace periods: every object reachable from refs ∪ HEAD that is present stays present
after any sequence (any order, any number of times) of pack_loose_objects / repack / prune_unreachable_objects /
garbage_collect (prune or not, any grace period incl. 0 and None) / pack_refs / temp-file prune.
(Content is a function of the id in the model; the oracle compares type and bytes on the real code.) -/
theorem gc_preserves_reachable (v : GC.Variant) (G : GC.Id → List GC.Id) (roots : List GC.Id) (fuel : Nat)
    (ops : List GC.Op) (s s' : GC.Store) (h : GC.applyAll v G roots fuel ops s = some s') (x : GC.Id)
    (hr : GC.Reach s G roots x) (hx : s.has x = true) : s'.has x = true :=
  GC.applyAll_preserves_reachable h hr hx

/-- Whatever one operation of the current code makes disappear was unreachable, the operation was a prune / a gc with
prune=True, and the object was older than the grace period in the property's sense: it had a local copy and EVERY copy of
it — each loose file, each pack containing it — was last written at least `grace` seconds before `now`
(`GC.OldEnough`; no condition when the grace period is None). -/
theorem only_old_unreachable_removed (G : GC.Id → List GC.Id) (roots : List GC.Id) (fuel : Nat) (op : GC.Op)
    (s s' : GC.Store) (h : GC.apply GC.Variant.current G roots fuel op s = some s') (x : GC.Id)
    (hx : s.has x = true) (hgone : s'.has x = false) :
    ¬ GC.Reach s G roots x ∧
    ((∃ grace now, op = .prune grace now ∧ GC.OldEnough s grace now x) ∨
     (∃ grace now, op = .gc true grace now ∧ GC.OldEnough s grace now x)) :=
  GC.apply_only_old_unreachable_removed_all_copies (by decide) h hx hgone

/-- maintenance never invents or resurrects an object -/
theorem maintenance_adds_nothing (v : GC.Variant) (G : GC.Id → List GC.Id) (roots : List GC.Id) (fuel : Nat)
    (op : GC.Op) (s s' : GC.Store) (h : GC.apply v G roots fuel op s = some s') (x : GC.Id) (hx : s'.has x = true) :
    s.has x = true :=
  GC.apply_no_new_objects h hx

/-- Maintenance from a LONG-LIVED handle: every operation is given its own, arbitrary `view` of the packs (what
`self.packs` returns in that process: cached `Pack` objects, possibly of files another process has removed since, in any
order, followed by whatever a rescan finds) and an arbitrary set of objects of vanished-but-still-mapped packs that the
reachability walk of `prune_unreachable_objects` can still read.  Whether an operation returns or raises
`PackFileDisappeared`, every reachable object that is present stays present — for any sequence of operations and views. -/
theorem maintenance_from_any_cache_preserves_reachable (v : GC.Variant) (G : GC.Id → List GC.Id) (roots : List GC.Id)
    (fuel : Nat) (ops : List (List GC.Pack × List GC.Id × GC.Op)) (s s' : GC.Store)
    (h : GC.applyAllV v G roots fuel ops s = some s') (x : GC.Id)
    (hr : GC.Reach s G roots x) (hx : s.has x = true) : s'.has x = true :=
  GC.applyAllV_preserves_reachable h hr hx

/-- Why `_complete_pack` must not take a cached pack's word for it: pack `{1,2}` was removed by another process (say
`git gc --prune=now` after a branch deletion), its objects are back as loose files, and the long-lived handle still has
the pack cached.  The code raises `PackFileDisappeared` and deletes nothing; a test that trusts the cache
(`trustStale`, not the code) "finds the objects already packed", installs nothing and deletes the loose files:
reachable objects 1 and 2 are gone. -/
theorem stale_cached_pack_must_not_count :
    let stale : GC.Pack := { ids := [1, 2], mtime := 50 }
    let s : GC.Store := { loose := [(1, 100), (2, 100)], packs := [{ ids := [3], mtime := 60 }], alts := [] }
    GC.packLooseV GC.Variant.current false [stale, { ids := [3], mtime := 60 }] s 200 = (s, true) ∧
    ((GC.packLooseV GC.Variant.current true [stale, { ids := [3], mtime := 60 }] s 200).1.has 1,
     (GC.packLooseV GC.Variant.current true [stale, { ids := [3], mtime := 60 }] s 200).1.has 2) = (false, false) ∧
    -- with a fresh view the same call packs them
    (GC.packLooseV GC.Variant.current false [{ ids := [3], mtime := 60 }] s 200).1.packs.map (·.ids) = [[3], [1, 2]] := by
  decide

/-! ### the roots while refs are being packed -/

/-- What the source does when it enumerates the roots and when it packs refs (translator output): `find_reachable_objects`
enumerates with `allkeys()`, which reads the loose tree BEFORE `packed-refs`; `read_ref` reads the loose file before
`packed-refs`; and the recorded `pack_refs(all=True)` renames the new `packed-refs` into place before it unlinks a loose
file. -/
theorem source_reads_loose_refs_first :
    Gen.GC.gcRootsViaAllkeys = true ∧ Gen.GC.allkeysReadsLooseFirst = true ∧ Gen.GC.readRefReadsLooseFirst = true ∧
    GC.packsBeforeUnlink false (Gen.GC.packRefsProgram.map GC.RefAct.ofCode) = true := by
  decide

/-- For every ref that exists throughout (loose, packed or both at the start), every packer program that writes
`packed-refs` before unlinking the loose file, and EVERY interleaving: if the loose tree is read (state `i`) no later than
`packed-refs` (state `j`), the ref is in the union of the two views — it is a root of the reachability walk. -/
theorem loose_before_packed_sees_every_persistent_ref (s : GC.RefAt) (hs : s.1 = true ∨ s.2 = true)
    (prog : List GC.RefAct) (hp : GC.packsBeforeUnlink s.2 prog = true) (i j : Nat) (hij : i ≤ j)
    (hj : j < (GC.refTrace s prog).length) : GC.rootSeen (GC.refTrace s prog) i j = true :=
  GC.refTrace_inv prog s hs hp i j hij hj

/-- Negation witness for the opposite read order (NOT the code): a loose-only ref; `packed-refs` is read first (state 0:
not there yet), the packer writes `packed-refs` and unlinks the loose file, the loose tree is read last (state 2: gone).
The ref existed throughout and is in neither view: its closure would be pruned.  Read loose-first it is seen in every
pair of states. -/
theorem packed_before_loose_misses_ref_counterexample :
    let prog : List GC.RefAct := [.writePacked, .unlinkLoose]
    GC.packsBeforeUnlink false prog = true ∧
    GC.rootSeen (GC.refTrace (true, false) prog) 2 0 = false ∧
    (∀ i, i < 3 → ∀ j, j < 3 → i ≤ j → GC.rootSeen (GC.refTrace (true, false) prog) i j = true) := by
  decide

/-! ### the grace period as configured -/

/-- What the source does with `gc.pruneExpire` (translator output): the only keyword `get_prune_grace_period` answers itself
means "everything may go"; an unset key gives at least two weeks; an unparsable value raises (no handler turns it into a
grace period); the result is `max(0, now - timestamp)`; `porcelain.gc` and the CLI forward the configured value when no
explicit one is given. -/
theorem source_configured_grace_is_sound :
    GC.tableSound Gen.GC.pruneExpireKeywords = true ∧ 1209600 ≤ Gen.GC.pruneExpireUnsetDefault ∧
    Gen.GC.pruneExpireUnparsableRaises = true ∧ Gen.GC.pruneExpireGraceIsNowMinusTimestamp = true ∧
    Gen.GC.porcelainGcForwardsConfiguredGrace = true ∧ Gen.GC.cliGcDefaultsToConfig = true := by
  decide

/-- For EVERY configured value: under the grace period the code derives from it, `garbage_collect` /
`prune_unreachable_objects` remove no object that has a copy written after the instant the value denotes (`never`: no
object at all — the code refuses to run rather than degrade to "no age check", which it only ever derives from a value
meaning "everything may go"). -/
theorem configured_prune_removes_nothing_younger_than_expiry (v : GC.ConfigValue) (now : Nat)
    (G : GC.Id → List GC.Id) (roots : List GC.Id) (fuel : Nat) (s s' : GC.Store) (x : GC.Id) (prune : Bool) (g : Nat)
    (hg : GC.graceOf Gen.GC.pruneExpireKeywords Gen.GC.pruneExpireUnsetDefault now v = .secs g)
    (h : GC.apply GC.Variant.current G roots fuel (.gc prune (some g) now) s = some s')
    (hx : s.has x = true) (hgone : s'.has x = false) :
    ∃ e, GC.expiryOf now v = some e ∧ ∀ t ∈ s.mtimes x, t ≤ e := by
  have hsound := GC.graceOf_respects_expiry Gen.GC.pruneExpireKeywords source_configured_grace_is_sound.1
    Gen.GC.pruneExpireUnsetDefault now source_configured_grace_is_sound.2.1 v
  rw [hg] at hsound
  obtain ⟨e, he, hle⟩ := hsound
  refine ⟨e, he, ?_⟩
  obtain ⟨_, hold⟩ := only_old_unreachable_removed G roots fuel _ s s' h x hx hgone
  rcases hold with ⟨gr, nw, hop, ho⟩ | ⟨gr, nw, hop, ho⟩
  · cases hop
  · cases hop
    intro t ht
    have := ho.2 t ht
    omega

/-- `never` is refused, not turned into "no age check"; a table that answered `never` (with any grace period, or with the
API's None) would be rejected -/
theorem never_is_not_no_grace :
    GC.graceOf Gen.GC.pruneExpireKeywords Gen.GC.pruneExpireUnsetDefault 1000 (.keyword "never") = .refuse ∧
    GC.tableSound [("now", some 0), ("never", none)] = false ∧ GC.tableSound [("never", some 0)] = false ∧
    GC.expiryOf 1000 (.keyword "never") = some 0 := by
  decide

/-- Regression witness (code before the series: `get_object_mtime` = the loose file's mtime, else the first pack's):
object 9 is unreachable, its loose copy is 7200 s old, its packed copy 1800 s; `gc(grace 3600)` removed it from the store
altogether.  The repaired code keeps it. -/
theorem younger_copy_pruned_old_code :
    let s : GC.Store := { loose := [(9, 2800)], packs := [{ ids := [1, 2], mtime := 2800 }, { ids := [9], mtime := 8200 }],
                          alts := [] }
    let G : GC.Id → List GC.Id := fun x => if x = 1 then [2] else []
    (GC.apply GC.Variant.old G [1] 10 (.gc true (some 3600) 10000) s).map (fun s' => (s'.has 1, s'.has 2, s'.has 9)) =
      some (true, true, false) ∧ 10000 < 8200 + 3600 ∧
    (GC.apply GC.Variant.fixed G [1] 10 (.gc true (some 3600) 10000) s).map (fun s' => (s'.has 1, s'.has 2, s'.has 9)) =
      some (true, true, true) := by
  decide

/-- Regression witness (code before the series: `_complete_pack` left an existing identical pack's mtime alone): object 9
sits in an old pack `{9}`; it is re-added (fresh loose copy, 10 s old); `pack_loose_objects` finds that the pack it would
write already exists and only deletes the loose copy; `gc(grace 3600)` then removed object 9, ten seconds after it was
written.  The repaired code refreshes the pack's mtime and keeps it. -/
theorem fresh_copy_dropped_old_code :
    let s : GC.Store := { loose := [(9, 9990)], packs := [{ ids := [1, 2], mtime := 100 }, { ids := [9], mtime := 100 }],
                          alts := [] }
    let G : GC.Id → List GC.Id := fun x => if x = 1 then [2] else []
    (GC.applyAll GC.Variant.old G [1] 10 [.packLoose 10000, .gc true (some 3600) 10000] s).map
        (fun s' => (s'.has 1, s'.has 2, s'.has 9)) = some (true, true, false) ∧ 10000 < 9990 + 3600 ∧
    (GC.applyAll GC.Variant.fixed G [1] 10 [.packLoose 10000, .gc true (some 3600) 10000] s).map
        (fun s' => (s'.has 1, s'.has 2, s'.has 9)) = some (true, true, true) := by
  decide

/-- non-vacuity of the hypotheses of the logical theorems: a store with loose, packed, duplicated and alternate objects;
gc with the default grace period (from the source) keeps the closure of the root and the young unreachable object, and
removes the old unreachable ones — all of whose copies are old. -/
example :
    let s : GC.Store := { loose := [(3, 100), (7, 100), (8, 5000000)], packs := [{ ids := [1, 2, 3], mtime := 100 },
                          { ids := [3, 6], mtime := 100 }], alts := [4] }
    let G : GC.Id → List GC.Id := fun x => if x = 1 then [2, 3] else if x = 3 then [4, 5] else []
    GC.findReachable s G [1] 20 = some [1, 2, 3, 4, 5] ∧
    (GC.apply GC.Variant.current G [1] 20 (.gc true GC.defaultGrace 5000100) s).map
        (fun s' => ([1, 2, 3, 4, 5, 6, 7, 8].map s'.has, s'.loose, s'.packs.map (·.ids))) =
      some ([true, true, true, true, false, false, false, true], [], [[8, 1, 2, 3]]) ∧
    s.mtimes 6 = [100] ∧ s.mtimes 7 = [100] := by
  decide

/-! ## Concurrent half -/

/-- is `x` readable in file-system state `f` (loose file present, or in a pack that a directory scan would show) -/
def present (ids : Name → List Id) (f : FS) (x : Id) : Bool :=
  f.loose.contains x || f.visible.any (fun p => (ids p).contains x)

/-- For every interleaving (any schedule) of ONE repacker whose program has the safe shape (`checkProgram`: the new pack
`pstar` is installed — data, then index — before any pack file is removed and before any loose object of `prot` is
deleted, and is never removed; `started`: `pstar` was already there) with ANY number of readers, each doing `store[x]`
or `x in store` as the source does it now (with the second look at the packs), from any cache state (empty, stale,
already loaded), for an object of `prot` that exists at the start — in a complete pack OR as a loose file — and is in
`pstar`: no reader ever reports "missing".  Objects that move from loose to packed are included.  The number of passes
is the constant from the source. -/
theorem reader_finds_persistent_object (pstar : Name) (prot : List Id) (started : Bool) (prog : List Act)
    (hprog : checkProgram pstar prot started started prog = true) (f0 : FS)
    (hstart : started = true → f0.complete pstar = true) (readers : List (Cfg × RState))
    (hreaders : ∀ cr ∈ readers, cr.1.maxAttempts = Gen.GC.maxPackRescanAttempts ∧
        cr.1.reprobe = (if cr.1.needData then Gen.GC.getRawReprobesPacks else Gen.GC.containsReprobesPacks) ∧
        cr.1.x ∈ cr.1.ids pstar ∧ cr.1.x ∈ prot ∧
        ((∃ p, f0.complete p = true ∧ cr.1.x ∈ cr.1.ids p) ∨ cr.1.x ∈ f0.loose) ∧
        (∃ cache idxL dataL, cr.2 = RState.init cache idxL dataL))
    (sched : List (Option Nat)) :
    ∀ cr ∈ (Sys.exec { fs := f0, prog := prog, readers := readers } sched).readers,
      ∀ b, cr.2.phase = Phase.done b → b = true := by
  apply sys_readers_never_miss pstar prot started prog hprog f0 hstart readers
  intro cr hcr
  obtain ⟨hN, hre, h⟩ := hreaders cr hcr
  refine ⟨by rw [hN]; exact rescan_attempts_sufficient, ?_, h⟩
  rw [hre]
  have h1 : Gen.GC.getRawReprobesPacks = true := source_has_repaired_behaviour.1
  have h2 : Gen.GC.containsReprobesPacks = true := source_has_repaired_behaviour.2.1
  split <;> assumption

/-- The same against an arbitrary environment (e.g. `git repack -a -d` as another process): any sequence of file-system
states, observed at the reader's steps, in which the object is always in a complete pack or loose, and neither a pack
file nor its loose file is removed before the stable pack is complete (`Rely`). -/
theorem reader_finds_persistent_object_any_environment (c : Cfg) (pstar : Name)
    (hN : c.maxAttempts = Gen.GC.maxPackRescanAttempts) (hre : c.reprobe = true)
    (tr : List (EPhase × FS)) (hrely : Rely c pstar tr)
    (cache idxL dataL : List Name) (b : Bool)
    (hdone : (run c (tr.map (·.2)) (RState.init cache idxL dataL)).phase = Phase.done b) : b = true :=
  reader_never_misses c pstar (by rw [hN]; exact rescan_attempts_sufficient) hre tr hrely cache idxL dataL b hdone

/-- Iteration (`list(store)` as the source does it now: pack scan, packs, loose listing, second pack scan, new packs,
alternates) interleaved by ANY schedule with a repacker of the safe shape: every object of `prot` that exists at the
start — packed or loose — and is in `pstar` is in the result, whatever the iterator's cache. -/
theorem iteration_complete_during_repack (ids : Name → List Id) (alts : List Id) (x : Id) (pstar : Name)
    (prot : List Id) (started : Bool) (prog : List Act)
    (hprog : checkProgram pstar prot started started prog = true) (f0 : FS)
    (hstart : started = true → f0.complete pstar = true) (hx : x ∈ ids pstar) (hprot : x ∈ prot)
    (hex : (∃ p, f0.complete p = true ∧ x ∈ ids p) ∨ x ∈ f0.loose)
    (cache idxL : List Name) (sched : List Bool)
    (hdone : (iexec Gen.GC.iterRescansAfterLoose ids alts f0 prog (IState.init cache idxL) sched).2.2.phase = IPhase.done) :
    x ∈ (iexec Gen.GC.iterRescansAfterLoose ids alts f0 prog (IState.init cache idxL) sched).2.2.acc := by
  have h : Gen.GC.iterRescansAfterLoose = true := source_has_repaired_behaviour.2.2.1
  rw [h] at hdone ⊢
  exact iteration_complete ids alts x pstar prot started prog hprog f0 hstart hx hprot hex cache idxL sched hdone

/-! ### the recorded programs of the real code have the safe shape -/

/-- `repack()`: the consolidated pack is fully installed (data, then index) before any old pack file is removed and
before the loose objects it contains are deleted, and it is never removed.  A reordering in dulwich changes the generated
term and this stops compiling. -/
theorem recorded_repack_order_safe :
    checkProgram Gen.GC.repackNewPack Gen.GC.repackProtected false false (Gen.GC.repackProgram.map Act.ofCode) = true := by
  decide

theorem recorded_pack_loose_order_safe :
    checkProgram Gen.GC.packLooseNewPack Gen.GC.packLooseProtected false false
      (Gen.GC.packLooseProgram.map Act.ofCode) = true := by
  decide

theorem recorded_gc_order_safe :
    checkProgram Gen.GC.gcNewPack Gen.GC.gcProtected false false (Gen.GC.gcProgram.map Act.ofCode) = true := by
  decide

/-- `repack()` and `garbage_collect()` as recorded from the source (pack-directory listings included): after the new pack is
installed the pack directory is not listed again before pack files are removed — the removal loop works off the snapshot
taken before copying.  A removal loop that re-lists the directory is rejected; and the translator finds the loop iterating
the pre-copy variable in the source. -/
theorem recorded_repack_removes_snapshot_only :
    Gen.GC.repackRemovesSnapshotOnly = true ∧
    removesSnapshotOnly Gen.GC.repackNewPack false false (Gen.GC.repackProgramL.map Act.ofCode) = true ∧
    removesSnapshotOnly Gen.GC.gcNewPack false false (Gen.GC.gcProgramL.map Act.ofCode) = true ∧
    -- the recorded programs with the listings dropped are the ones used above
    (Gen.GC.repackProgramL.filter (fun a => a.1 != 6)) = Gen.GC.repackProgram ∧
    (Gen.GC.gcProgramL.filter (fun a => a.1 != 6)) = Gen.GC.gcProgram ∧
    -- what the check rejects: listing the directory between the installation and the removals
    removesSnapshotOnly 1 false false [.listPacks, .installData 1, .installIdx 1, .delLoose 7, .listPacks, .removeData 2,
      .removeIdx 2] = false := by
  decide

/-- A pack that another writer lands while `repack()` runs survives: the procedure (`mstep`, removal targets = the packs of
the snapshot taken before copying, minus the consolidated pack) interleaved by ANY schedule with ANY adding actions of the
environment never makes incomplete a pack that is complete and not among the packs it may still remove — in particular
any pack that was not in the directory when the snapshot was taken. -/
theorem pack_landed_during_repack_survives (newp : Name) (sched : List (Option Act)) (f : FS) (m : MPhase) (q : Name)
    (henv : ∀ a, some a ∈ sched → a.adds = true) (hm : m ≠ MPhase.start) (hq : q ∉ mayRemove m)
    (hc : f.complete q = true) : (mexec false newp f m sched).1.complete q = true :=
  late_pack_survives newp sched f m q henv hm hq hc

/-- Negation witness for the variant whose removal loop lists the directory again (NOT the code): old pack 1, the
repacker snapshots [1] and installs pack 9, another writer lands pack 5, the removal loop re-lists, sees [1, 9, 5] and
removes 1 and 5 — pack 5's objects were never copied.  The real procedure leaves pack 5 alone (and this run is an
instance of the theorem's hypotheses: non-vacuity). -/
theorem relisting_removal_loop_deletes_late_pack :
    let f0 : FS := { idx := [1], data := [1], loose := [] }
    let sched : List (Option Act) := [none, none, some (.installData 5), some (.installIdx 5), none, none, none, none]
    (mexec true 9 f0 .start sched).1.complete 5 = false ∧ (mexec true 9 f0 .start sched).2 = MPhase.done ∧
    (mexec false 9 f0 .start sched).1.complete 5 = true ∧ (mexec false 9 f0 .start sched).1.complete 1 = false ∧
    (mexec false 9 f0 .start sched).1.complete 9 = true ∧
    (mexec false 9 f0 .start (sched.take 2)).2 = MPhase.installed [1] ∧ 5 ∉ mayRemove (MPhase.installed [1]) := by
  decide

/-- `repack_order_safe`: readers of any object that the real `repack()` keeps — packed before, or loose and moved into
the new pack — survive it, whatever the schedule; the program is the one recorded from the source on this run. -/
theorem repack_order_safe (f0 : FS) (readers : List (Cfg × RState))
    (hreaders : ∀ cr ∈ readers, cr.1.maxAttempts = Gen.GC.maxPackRescanAttempts ∧
        cr.1.reprobe = (if cr.1.needData then Gen.GC.getRawReprobesPacks else Gen.GC.containsReprobesPacks) ∧
        cr.1.x ∈ cr.1.ids Gen.GC.repackNewPack ∧ cr.1.x ∈ Gen.GC.repackProtected ∧
        ((∃ p, f0.complete p = true ∧ cr.1.x ∈ cr.1.ids p) ∨ cr.1.x ∈ f0.loose) ∧
        (∃ cache idxL dataL, cr.2 = RState.init cache idxL dataL))
    (sched : List (Option Nat)) :
    ∀ cr ∈ (Sys.exec { fs := f0, prog := Gen.GC.repackProgram.map Act.ofCode, readers := readers } sched).readers,
      ∀ b, cr.2.phase = Phase.done b → b = true :=
  reader_finds_persistent_object _ _ false _ recorded_repack_order_safe f0 (by simp) readers hreaders sched

/-! ### the race of §7-F12, before and after -/

/-- the recorded program of the real `pack_loose_objects()` (two loose objects `1`, `2` go into the new pack) -/
def packLooseProg : List Act := Gen.GC.packLooseProgram.map Act.ofCode

def raceIds : Name → List Id := fun p => if p = Gen.GC.packLooseNewPack then [1, 2] else []

def raceCfg (reprobe : Bool) : Cfg :=
  { ids := raceIds, x := 1, needData := true, alts := [], maxAttempts := Gen.GC.maxPackRescanAttempts, reprobe := reprobe }

def raceStart (reprobe : Bool) : Sys :=
  { fs := { idx := [], data := [], loose := [1, 2] }, prog := packLooseProg,
    readers := [(raceCfg reprobe, RState.init [] [] [])] }

/-- the interleaving: the reader scans the (empty) pack directory; `pack_loose_objects` runs to completion
(install pack, delete both loose files); the reader then probes the loose file, then the alternates, … -/
def raceSchedule : List (Option Nat) := [some 0, none, none, none, none, some 0, some 0, some 0, some 0, some 0, some 0]

/-- Regression witness (code before the series: no second look at the packs): object `1` is readable in every
intermediate state (loose first, then packed) and yet the lookup ended with "missing". -/
theorem loose_to_pack_race_old_code :
    (∀ k, k ≤ raceSchedule.length →
        present raceIds ((raceStart false).exec (raceSchedule.take k)).fs 1 = true) ∧
    ((raceStart false).exec raceSchedule).readers.map (fun cr => cr.2.phase) = [Phase.done false] := by
  decide

/-- the same interleaving with the lookup as the source does it now: found (an instance of
`reader_finds_persistent_object`, whose hypotheses it satisfies — non-vacuity) -/
theorem loose_to_pack_race_now_found :
    checkProgram Gen.GC.packLooseNewPack Gen.GC.packLooseProtected false false packLooseProg = true ∧
    (1 ∈ raceIds Gen.GC.packLooseNewPack) ∧ (1 ∈ Gen.GC.packLooseProtected) ∧
    ((raceStart Gen.GC.getRawReprobesPacks).exec raceSchedule).readers.map (fun cr => cr.2.phase) = [Phase.done true] := by
  decide

/-! ### iteration, before and after -/

def iterIds : Name → List Id := fun p => if p = 2 then [1] else if p = 1 then [1, 2] else []

/-- Regression witness (code before the series): `list(store)` against a `repack()` that replaces old pack `2 = {1}` and
loose object `2` by pack `1 = {1,2}`: the reader lists the pack directory (sees pack 2), the repack runs, the reader opens
pack 2's index (gone: evicted, not rescanned), lists loose objects (none left).  Object 1 was in a visible pack
throughout, object 2 was loose then packed; the result was empty.  The current code returns both. -/
theorem iter_during_repack_old_code :
    let f0 : FS := { idx := [2], data := [2], loose := [2] }
    let prog : List Act := [.installData 1, .installIdx 1, .delLoose 2, .removeData 2, .removeIdx 2]
    let sched : List Bool := [false, true, true, true, true, true, false, false, false, false, false, false, false, false]
    present iterIds f0 1 = true ∧ present iterIds (prog.foldl FS.act f0) 1 = true ∧
    (iexec false iterIds [] f0 prog (IState.init [] []) sched).2.2.phase = IPhase.done ∧
    (iexec false iterIds [] f0 prog (IState.init [] []) sched).2.2.acc = [] ∧
    checkProgram 1 [2] false false prog = true ∧
    (iexec Gen.GC.iterRescansAfterLoose iterIds [] f0 prog (IState.init [] []) sched).2.2.phase = IPhase.done ∧
    (iexec Gen.GC.iterRescansAfterLoose iterIds [] f0 prog (IState.init [] []) sched).2.2.acc = [1, 2] := by
  decide

/-! ### what remains false: the retry bound -/

def retryIds : Name → List Id := fun _ => [1]

/-- KNOWN FINDING (not repaired): successive repacks (packs 1 → 2 → … → 6, each new pack installed before the old one is
removed, object 1 in a visible pack at every instant) defeat a lookup that starts from an empty cache: each of the
`_MAX_PACK_RESCAN_ATTEMPTS` passes of the first look at the packs, and then of the second one, meets a pack that the next
repack has just removed. -/
theorem retry_bound_counterexample :
    let c : Cfg := { ids := retryIds, x := 1, needData := true, alts := [], maxAttempts := Gen.GC.maxPackRescanAttempts,
                     reprobe := Gen.GC.getRawReprobesPacks }
    let f (a b : Name) : FS := { idx := [a, b], data := [a, b], loose := [] }
    let g (a : Name) : FS := { idx := [a], data := [a], loose := [] }
    -- scan (sees 1) | 1 gone | rescan sees 2 | 2 gone | rescan sees 3, passes used up | loose | alts, start over with [3]
    -- | 3 gone | rescan sees 4 | 4 gone | rescan sees 5 | 5 gone | rescan, passes used up
    let tr : List FS := [g 1, g 2, g 2, g 3, g 3, g 3, g 3, g 4, g 4, g 5, g 5, g 6, g 6]
    (∀ fs ∈ [g 1, f 1 2, g 2, f 2 3, g 3, f 3 4, g 4, f 4 5, g 5, f 5 6, g 6], present retryIds fs 1 = true) ∧
    (run c tr (RState.init [] [] [])).phase = Phase.done false := by
  decide

/-- Regression witness: without the second look, 2 passes were not enough even against a single repack (the bound in the
source is needed) -/
theorem two_attempts_insufficient_old_code :
    let c : Cfg := { ids := retryIds, x := 1, needData := true, alts := [], maxAttempts := 2, reprobe := false }
    let g (a : Name) : FS := { idx := [a], data := [a], loose := [] }
    (run c [g 1, g 2, g 2, g 2, g 2] (RState.init [] [] [])).phase = Phase.done false := by
  decide

/-- non-vacuity: a concrete instance of all hypotheses of `repack_order_safe` (object 5 in old pack 2 and in the new
pack 1, object 7 loose and in the new pack; one cold `get_raw` reader of 5, one `__contains__` reader of 7 with a stale
cache), and a schedule on which both lookups finish — with "found". -/
example :
    let ids : Name → List Id := fun p => if p = 1 then [5, 6, 7, 1, 2] else if p = 2 then [5] else if p = 3 then [6] else []
    let c1 : Cfg := { ids := ids, x := 5, needData := true, alts := [], maxAttempts := Gen.GC.maxPackRescanAttempts,
                      reprobe := Gen.GC.getRawReprobesPacks }
    let c2 : Cfg := { ids := ids, x := 2, needData := false, alts := [], maxAttempts := Gen.GC.maxPackRescanAttempts,
                      reprobe := Gen.GC.containsReprobesPacks }
    let f0 : FS := { idx := [2, 3], data := [3, 2], loose := [1, 2] }
    let readers := [(c1, RState.init [] [] []), (c2, RState.init [9, 2] [] [])]
    checkProgram Gen.GC.repackNewPack Gen.GC.repackProtected false false (Gen.GC.repackProgram.map Act.ofCode) = true ∧
    f0.complete 2 = true ∧ (5 ∈ ids 2) ∧ (5 ∈ ids Gen.GC.repackNewPack) ∧ (2 ∈ f0.loose) ∧ (2 ∈ ids Gen.GC.repackNewPack) ∧
    (2 ∈ Gen.GC.repackProtected) ∧
    ((Sys.exec { fs := f0, prog := Gen.GC.repackProgram.map Act.ofCode, readers := readers }
        [some 0, some 1, some 1, some 1, none, none, none, none, none, none, none, none, some 0, some 0, some 0, some 0,
         some 0, some 1, some 1, some 1, some 1, some 1, some 1, some 1]).readers.map (fun cr => cr.2.phase)) =
      [Phase.done true, Phase.done true] := by
  decide

end Dulwich.Props.C10
