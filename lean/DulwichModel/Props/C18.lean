/-
  C18 — Work tree round trip: checkout then stage reproduces the tree; status is exact.

  Only property theorems, non-vacuity examples and negation witnesses live here; helper lemmas are in
  Lemmas/WorkTree.lean.  The model is Model/WorkTree.lean; the constants and the list of compared
  fields come from Gen/WorkTree.lean, which the translator regenerates from /repo on every run.
-/
import DulwichModel.Lemmas.WorkTree

namespace Dulwich.Props.C18
open Dulwich Dulwich.WorkTree

/-! ## 0. mode canonicalisation (`cleanup_mode`) -/

/-- What checkout writes for a tree entry of kind `k` (`os.chmod(path, cleanup_mode(mode))`, or a
symbolic link) is read back by `index_entry_from_stat` as the same kind. -/
theorem kind_roundtrip (k : Kind) :
    kindOfMode (cleanupMode (stModeAfterCheckout (modeOfKind k))) = some k := by
  cases k <;> decide

/-- `cleanup_mode` is idempotent and only ever yields the five canonical modes. -/
theorem cleanupMode_canonical (m : Nat) :
    cleanupMode (cleanupMode m) = cleanupMode m ∧
    (cleanupMode m = 0o100644 ∨ cleanupMode m = 0o100755 ∨ cleanupMode m = 0o120000 ∨
     cleanupMode m = 0o40000 ∨ cleanupMode m = 0o160000) := by
  unfold cleanupMode
  split
  · exact ⟨by decide, by decide⟩
  · split
    · exact ⟨by decide, by decide⟩
    · split
      · exact ⟨by decide, by decide⟩
      · split
        · exact ⟨by decide, by decide⟩
        · exact ⟨by decide, by decide⟩

/-- The stat short-cut of the source IS the exact comparison of the model: `_stat_matches_entry`,
evaluated from its source by the translator on a grid of (seconds, nanoseconds) time stamps — index
entries with 0 nanoseconds, as `WorkTree.unstage` writes them, included — gives the model's answer in
every row.  A rule that ignores nanoseconds (or any field) changes a row and breaks this theorem. -/
theorem stat_shortcut_as_in_source :
    Gen.WorkTree.statProbes.all (fun r =>
      match r with
      | (trust, sc, sm, sz, ec, em, ez, res) => statMatchesWith trust ⟨sc, sm, sz⟩ ⟨ec, em, ez⟩ == res) = true := by
  decide

/-- non-vacuity of the probe table: it has rows that differ only in the nanoseconds of an index entry
whose own nanoseconds are 0, answered "no match". -/
example : (true, 100000000007, 100000000007, 4, 100000000007, 100000000000, 4, false) ∈ Gen.WorkTree.statProbes ∧
    (true, 100000000007, 100000000007, 4, 100000000000, 100000000007, 4, false) ∈ Gen.WorkTree.statProbes := by
  decide

/-- The scan of `get_unstaged_changes`, serial or divided among threads (`core.preloadIndex`), visits
every index entry exactly once, whatever the number of entries and of workers: the slices, put end to
end, are the positions `0 … n-1` in index order — so that the model's single pass over the index
(`unstagedOf`) describes it. -/
theorem scan_slices_cover (n workers : Nat) : (scanSlices n workers).flatten = List.range n := by
  unfold scanSlices
  induction List.range n with
  | nil => rfl
  | cons x r ih => simp [List.map_cons, List.flatten_cons, ih]

/-- … and the source agrees: `get_unstaged_changes`, run from its source by the translator on fake
indexes of 0 … 41 entries with 1 … 16 workers (and serially) with `_check_entry_for_changes` replaced
by a recorder, calls it for every position exactly once.  (For 99 … 4001 entries the translator makes
the same check itself and refuses to translate otherwise.) -/
theorem scan_probes_exact :
    Gen.WorkTree.scanProbes.all (fun r =>
      match r with
      | (n, _, visited) => visited.length == n && (List.range n).all (fun i => visited.contains i)) = true := by
  decide

example : (17, 8, List.range 17) ∈ Gen.WorkTree.scanProbes ∧ (41, 3, List.range 41) ∈ Gen.WorkTree.scanProbes := by
  decide

/-! ## 1. status is exact -/

/-- What "exact" means: the five lists are the three-way comparison of HEAD, index and directory. -/
def ExactStatus (w : World) (s : Status) : Prop :=
  (∀ p, p ∈ s.add ↔ (w.head.get p = none ∧ ∃ i, w.index.get p = some i)) ∧
  (∀ p, p ∈ s.del ↔ ((∃ h, w.head.get p = some h) ∧ w.index.get p = none)) ∧
  (∀ p, p ∈ s.mod ↔ ∃ h i, w.head.get p = some h ∧ w.index.get p = some i ∧ h ≠ i.entry) ∧
  (∀ p, p ∈ s.unstaged ↔ ∃ i, w.index.get p = some i ∧ wdEntry w.wd p ≠ some i.entry) ∧
  (∀ p, p ∈ s.untracked ↔ ((∃ e, wdEntry w.wd p = some e) ∧ w.index.get p = none))

/-- `staged = {p | head p ≠ index p}`: the union of the three staged lists. -/
theorem exact_staged_union {w : World} {s : Status} (h : ExactStatus w s) (p : Path) :
    p ∈ s.add ++ s.del ++ s.mod ↔ w.head.get p ≠ (w.index.get p).map IEntry.entry := by
  obtain ⟨ha, hd, hm, _, _⟩ := h
  simp only [List.mem_append, ha, hd, hm]
  cases hh : w.head.get p <;> cases hi : w.index.get p <;> simp

/-- The property's second sentence on the model: whatever the working directory, index and HEAD look
like (so: after any sequence of edits), status succeeds and is exact, assuming only the racy-git
hypothesis `StatHonest`. -/
def StatusExactStatement : Prop :=
  ∀ w : World, StatHonest w → ∃ s, status cur w = .ok s ∧ ExactStatus w s

/-- `status_exact`: the full statement, for the code after the C18 fix series.  (Before it, four more
hypotheses were needed; see the `legacy_…` regression witnesses below.) -/
theorem status_exact : StatusExactStatement := by
  intro w hstat
  refine ⟨⟨stagedAdd w.head w.index, stagedDel w.head w.index, stagedMod w.head w.index,
    w.index.keys.filter (changedAt cur w.wd w.index), untrackedOf cur w.wd w.index⟩, ?_, ?_⟩
  · unfold status
    rw [unstagedOf_cur]
    have : cur.strictDecode = false := rfl
    simp [this]
  · refine ⟨?_, ?_, ?_, ?_, ?_⟩
    · intro p
      simp only [stagedAdd, List.mem_filter, FMap.mem_keys_iff, FMap.has]
      cases hh : w.head.get p <;> cases hi : w.index.get p <;> simp
    · intro p
      simp only [stagedDel, List.mem_filter, FMap.mem_keys_iff, FMap.has]
      cases hh : w.head.get p <;> cases hi : w.index.get p <;> simp
    · intro p
      simp only [stagedMod, modifiedAt, List.mem_filter, FMap.mem_keys_iff]
      cases hh : w.head.get p <;> cases hi : w.index.get p <;> simp [entryDiffers_iff]
    · intro p
      simp only [List.mem_filter, FMap.mem_keys_iff, changedAt]
      cases hi : w.index.get p with
      | none => simp
      | some e =>
        have h1 := all_get hstat hi
        simp only [hi] at h1
        have := @entryChanged_iff w.wd p e
          (by intro f hv hm; simp only [hv, hm] at h1; simpa using h1)
        simp [this]
    · intro p
      simp only [untrackedOf, List.mem_filter, untrackedAt_cur]
      constructor
      · rintro ⟨_, hv⟩
        cases hview : lstatView w.wd p with
        | file f =>
          rw [hview] at hv
          refine ⟨⟨f.entry, wdEntry_file hview⟩, ?_⟩
          simpa [FMap.has] using hv
        | enoent => simp [hview] at hv
        | enotdir => simp [hview] at hv
        | dir => simp [hview] at hv
      · rintro ⟨⟨e, he⟩, hi⟩
        have hs : (wdEntry w.wd p).isSome = true := by rw [he]; rfl
        obtain ⟨f, hview⟩ := (wdEntry_isSome_iff _ _).mp hs
        refine ⟨FMap.mem_keys_of_get (lstatView_file_get hview), ?_⟩
        rw [hview]
        simp [FMap.has, hi]

/-- "normal" mode (the default of `porcelain.status`) changes only the untracked list: every untracked
file is reported either by name or by one of its leading directories, and a directory is reported only
if the index has nothing below it. -/
theorem status_normal_untracked (w : World) (s : Status) (h : statusNormal cur w = .ok s) :
    (∀ u ∈ untrackedOf cur w.wd w.index, collapse w.index u ∈ s.untracked) ∧
    (∀ q ∈ s.untracked, ∃ u ∈ untrackedOf cur w.wd w.index, q = collapse w.index u) ∧
    (∀ u d, (ancestorsOf u).find? (fun d => !hasDescendant w.index d) = some d →
      collapse w.index u = d ++ [slash] ∧ d ∈ ancestorsOf u ∧ hasDescendant w.index d = false) ∧
    (∀ u, (ancestorsOf u).find? (fun d => !hasDescendant w.index d) = none → collapse w.index u = u) := by
  unfold statusNormal at h
  cases hs : status cur w with
  | error e => rw [hs] at h; cases h
  | ok s0 =>
    rw [hs] at h
    cases h
    refine ⟨?_, ?_, ?_, ?_⟩
    · intro u hu
      simp only [untrackedNormalOf, List.mem_eraseDups, List.mem_map]
      exact ⟨u, hu, rfl⟩
    · intro q hq
      simp only [untrackedNormalOf, List.mem_eraseDups, List.mem_map] at hq
      obtain ⟨u, hu, he⟩ := hq
      exact ⟨u, hu, he.symm⟩
    · intro u d hf
      refine ⟨by simp [collapse, hf], List.mem_of_find?_eq_some hf, ?_⟩
      simpa using List.find?_some hf
    · intro u hf
      simp [collapse, hf]

/-- The same, phrased over the edit operations of the property's quantifier: start anywhere, apply ANY
sequence of edits (modify same/different size, chmod, delete, rmtree, create/replace by file, link or
directory, arbitrary rearrangement, stage, unstage, remove from index, add everything). -/
theorem status_exact_after_edits (env : Env) (w0 : World) (es : List Edit)
    (hstat : StatHonest (runEdits cur env w0 es)) :
    ∃ s, status cur (runEdits cur env w0 es) = .ok s ∧ ExactStatus (runEdits cur env w0 es) s :=
  status_exact _ hstat

/-! ### a non-trivial instance, the witness that `StatHonest` is needed, and regression witnesses for
the behaviour before the fix series (`legacy`) -/

section witnesses

def reg : LinkRes := ⟨.file, none⟩
def pa : Path := [97]            -- a
def pb : Path := [98]            -- b
def pc : Path := [99]            -- c
def pn : Path := [110]           -- n
def pu : Path := [117]           -- u
def pde : Path := [100, 47, 101] -- d/e
def pd : Path := [100]           -- d

/-- HEAD has a, b, c, d/e; the index has a modification of b staged, n added, c removed; in the
directory a was rewritten (new mtime), d/e is a link leading nowhere, u is new. -/
def wDemo : World :=
  { head := [(pa, ⟨.regular, 1⟩), (pb, ⟨.regular, 2⟩), (pc, ⟨.executable, 3⟩), (pde, ⟨.symlink, 4⟩)],
    index := [(pa, ⟨.regular, 1, ⟨5, 5, 10⟩⟩), (pb, ⟨.regular, 7, ⟨6, 6, 3⟩⟩), (pn, ⟨.executable, 8, ⟨6, 6, 1⟩⟩),
              (pde, ⟨.symlink, 4, ⟨5, 5, 9⟩⟩)],
    wd := [(pa, ⟨.regular, 9, ⟨7, 7, 10⟩, reg⟩), (pb, ⟨.regular, 7, ⟨6, 6, 3⟩, reg⟩), (pn, ⟨.executable, 8, ⟨6, 6, 1⟩, reg⟩),
           (pde, ⟨.symlink, 4, ⟨5, 5, 9⟩, ⟨.missing, some pb⟩⟩), (pu, ⟨.regular, 1, ⟨8, 8, 10⟩, reg⟩)] }

example : StatHonest wDemo := by decide

example : status cur wDemo = .ok ⟨[pn], [pc], [pb], [pa], [pu]⟩ := by decide

/-- the same state reached by edits from a clean checkout -/
example : status cur (runEdits cur ⟨[], 0⟩
    { head := wDemo.head,
      index := [(pa, ⟨.regular, 1, ⟨5, 5, 10⟩⟩), (pb, ⟨.regular, 2, ⟨5, 5, 3⟩⟩), (pc, ⟨.executable, 3, ⟨5, 5, 2⟩⟩), (pde, ⟨.symlink, 4, ⟨5, 5, 9⟩⟩)],
      wd := [(pa, ⟨.regular, 1, ⟨5, 5, 10⟩, reg⟩), (pb, ⟨.regular, 2, ⟨5, 5, 3⟩, reg⟩), (pc, ⟨.executable, 3, ⟨5, 5, 2⟩, reg⟩),
             (pde, ⟨.symlink, 4, ⟨5, 5, 9⟩, ⟨.missing, some pb⟩⟩)] }
    [.modify pb 7 ⟨6, 6, 3⟩, .stage pb, .create pn ⟨.executable, 8, ⟨6, 6, 1⟩, reg⟩, .stage pn, .rmCached pc, .delete pc,
     .modify pa 9 ⟨7, 7, 10⟩, .create pu ⟨.regular, 1, ⟨8, 8, 10⟩, reg⟩])
    = .ok ⟨[pn], [pc], [pb], [pa], [pu]⟩ := by decide

/-- Same-size rewrite within the same time stamp: the cached stat key still matches. -/
def wRacy : World :=
  { head := [(pa, ⟨.regular, 1⟩)], index := [(pa, ⟨.regular, 1, ⟨5, 5, 4⟩⟩)],
    wd := [(pa, ⟨.regular, 2, ⟨5, 5, 4⟩, reg⟩)] }

/-- `StatHonest` is needed: without it status reports a clean tree although the file's content
differs from the index. -/
theorem stat_honest_needed_counterexample :
    ¬ StatHonest wRacy ∧ status cur wRacy = .ok ⟨[], [], [], [], []⟩ ∧
    wdEntry wRacy.wd pa ≠ (wRacy.index.get pa).map IEntry.entry := by decide

/-- chmod +x on a tracked file (stat key differs: ctime moved). -/
def wChmod : World :=
  { head := [(pa, ⟨.regular, 1⟩)], index := [(pa, ⟨.regular, 1, ⟨5, 5, 4⟩⟩)],
    wd := [(pa, ⟨.executable, 1, ⟨6, 5, 4⟩, reg⟩)] }

/-- REGRESSION (fixed: mode-only change): the old code reported nothing, the code now lists `a`. -/
theorem legacy_mode_only_witness :
    StatHonest wChmod ∧ status legacy wChmod = .ok ⟨[], [], [], [], []⟩ ∧
    status cur wChmod = .ok ⟨[], [], [], [pa], []⟩ := by decide

/-- A file replaced by a link whose target bytes are the old content (same blob id). -/
def wType : World :=
  { head := [(pa, ⟨.regular, 1⟩)], index := [(pa, ⟨.regular, 1, ⟨5, 5, 1⟩⟩)],
    wd := [(pa, ⟨.symlink, 1, ⟨6, 6, 1⟩, ⟨.missing, none⟩⟩)] }

/-- REGRESSION (fixed: type change with the same blob). -/
theorem legacy_type_change_witness :
    StatHonest wType ∧ status legacy wType = .ok ⟨[], [], [], [], []⟩ ∧
    status cur wType = .ok ⟨[], [], [], [pa], []⟩ := by decide

/-- A tracked directory `d` (with `d/e`) replaced by a file `d`. -/
def wDirFile : World :=
  { head := [(pde, ⟨.regular, 1⟩)], index := [(pde, ⟨.regular, 1, ⟨5, 5, 1⟩⟩)],
    wd := [(pd, ⟨.regular, 2, ⟨6, 6, 3⟩, reg⟩)] }

/-- REGRESSION (fixed: `NotADirectoryError`): now `d/e` is unstaged and `d` untracked, as git says. -/
theorem legacy_notdir_witness :
    StatHonest wDirFile ∧ status legacy wDirFile = .error .notADirectory ∧
    status cur wDirFile = .ok ⟨[], [], [], [pde], [pd]⟩ := by decide

/-- A modified tracked file whose name is the single byte 0xff. -/
def wNonUtf8 : World :=
  { head := [([255], ⟨.regular, 1⟩)], index := [([255], ⟨.regular, 1, ⟨5, 5, 1⟩⟩)],
    wd := [([255], ⟨.regular, 2, ⟨6, 6, 7⟩, reg⟩)] }

/-- REGRESSION (fixed: `UnicodeDecodeError`). -/
theorem legacy_utf8_witness :
    StatHonest wNonUtf8 ∧ status legacy wNonUtf8 = .error .unicodeDecode ∧
    status cur wNonUtf8 = .ok ⟨[], [], [], [[255]], []⟩ := by decide

/-- `l -> a` untracked next to the tracked `a`; `k -> d` untracked, `d` a directory; the tracked
link `m -> b` leads nowhere. -/
def wLinks : World :=
  { head := [(pa, ⟨.regular, 1⟩), (pde, ⟨.regular, 2⟩), ([109], ⟨.symlink, 5⟩)],
    index := [(pa, ⟨.regular, 1, ⟨5, 5, 1⟩⟩), (pde, ⟨.regular, 2, ⟨5, 5, 1⟩⟩), ([109], ⟨.symlink, 5, ⟨5, 5, 1⟩⟩)],
    wd := [(pa, ⟨.regular, 1, ⟨5, 5, 1⟩, reg⟩), (pde, ⟨.regular, 2, ⟨5, 5, 1⟩, reg⟩),
           ([109], ⟨.symlink, 5, ⟨5, 5, 1⟩, ⟨.missing, some pb⟩⟩),
           ([108], ⟨.symlink, 3, ⟨6, 6, 1⟩, ⟨.file, some pa⟩⟩), ([107], ⟨.symlink, 4, ⟨6, 6, 1⟩, ⟨.dir, some pd⟩⟩)] }

/-- REGRESSION (fixed: symbolic links in untracked detection): the old code listed the tracked link
`m` and missed the untracked links `l` and `k`; the code now lists exactly `l` and `k`. -/
theorem legacy_untracked_link_witness :
    StatHonest wLinks ∧ status legacy wLinks = .ok ⟨[], [], [], [], [[109]]⟩ ∧
    status cur wLinks = .ok ⟨[], [], [], [], [[108], [107]]⟩ := by decide

end witnesses

/-! ## 2. checkout: status is clean, and staging everything reproduces the tree -/

/-- Status is clean right after the checkout of any well-formed tree of valid paths. -/
def CleanAfterCheckoutStatement : Prop :=
  ∀ (t : FMap Entry) (obs : Obs), t.keys.all validPath = true → t.keys.all obs.has = true → TreeWF t →
    ∃ w, checkoutFresh t obs = .ok w ∧ status cur w = .ok ⟨[], [], [], [], []⟩

/-- `clean_after_checkout`: the full statement. -/
theorem clean_after_checkout : CleanAfterCheckoutStatement := by
  intro t obs hvalid hobs hwf
  exact ⟨checkedOut t obs, by simp [checkoutFresh, hvalid, hobs], (checkedOut_synced hobs hwf).status⟩

/-- non-vacuity: a tree with a file, an executable in a directory, and links leading to a tracked file,
nowhere, and to a directory -/
example : ∃ w, checkoutFresh
      [(pa, ⟨.regular, 1⟩), (pde, ⟨.executable, 2⟩), ([108], ⟨.symlink, 3⟩), ([107], ⟨.symlink, 4⟩), ([109], ⟨.symlink, 5⟩)]
      [(pa, (⟨5, 5, 1⟩, reg)), (pde, (⟨5, 5, 2⟩, reg)), ([108], (⟨5, 5, 1⟩, ⟨.file, some pa⟩)),
       ([107], (⟨5, 5, 9⟩, ⟨.missing, some pb⟩)), ([109], (⟨5, 5, 1⟩, ⟨.dir, some pd⟩))] = .ok w ∧
      status cur w = .ok ⟨[], [], [], [], []⟩ :=
  clean_after_checkout _ _ (by decide) (by decide) (by decide)

/-- REGRESSION (fixed): a tracked link whose target does not exist (resolves to the untracked path
`b`) was listed as untracked right after checkout. -/
theorem legacy_clean_after_checkout_witness :
    status legacy (checkedOut [(pa, ⟨.symlink, 1⟩)] [(pa, (⟨5, 5, 1⟩, ⟨.missing, some pb⟩))]) =
      .ok ⟨[], [], [], [], [pa]⟩ ∧
    status cur (checkedOut [(pa, ⟨.symlink, 1⟩)] [(pa, (⟨5, 5, 1⟩, ⟨.missing, some pb⟩))]) =
      .ok ⟨[], [], [], [], []⟩ := by decide

/-- `checkout_stage_roundtrip`: check out any well-formed tree of valid paths, stage everything
(`porcelain.add()`), and the index's tree is the tree that was checked out. -/
theorem checkout_stage_roundtrip (t : FMap Entry) (obs : Obs)
    (hvalid : t.keys.all validPath = true) (hobs : t.keys.all obs.has = true) (hwf : TreeWF t) :
    ∃ w w', checkoutFresh t obs = .ok w ∧ stageAll cur w = .ok w' ∧
      ∀ p, (treeOf w'.index).get p = t.get p := by
  have hsync := checkedOut_synced hobs hwf
  obtain ⟨_, _, _, hu, hut⟩ := hsync.nothing_changed
  refine ⟨checkedOut t obs, checkedOut t obs, by simp [checkoutFresh, hvalid, hobs], ?_, hsync.treeOf⟩
  unfold stageAll
  rw [hu, hut]
  rfl

/-- The stronger round trip: throw the index away after the checkout, add everything from scratch, and
the index's tree is again the tree. -/
theorem checkout_clear_stage_roundtrip (t : FMap Entry) (obs : Obs)
    (hvalid : t.keys.all validPath = true) (hobs : t.keys.all obs.has = true) (hwf : TreeWF t) :
    ∃ w w', checkoutFresh t obs = .ok w ∧ stageAll cur (clearIndex w) = .ok w' ∧
      ∀ p, (treeOf w'.index).get p = t.get p := by
  refine ⟨checkedOut t obs,
    (untrackedOf cur (checkedOut t obs).wd [] ++ []).foldl stage (clearIndex (checkedOut t obs)),
    by simp [checkoutFresh, hvalid, hobs], ?_, ?_⟩
  · unfold stageAll
    rw [unstagedOf_cur]
    rfl
  · intro p
    have hkeys : (checkedOut t obs).wd.keys = t.keys := by
      simp only [checkedOut]; exact checkoutFiles_keys t obs hobs
    have hL : untrackedOf cur (checkedOut t obs).wd [] = t.keys := by
      simp only [untrackedOf, hkeys]
      rw [List.filter_eq_self]
      intro q hq
      obtain ⟨e, o, he, ho, hv, _⟩ := checkedOut_view hobs hwf hq
      have hv' : lstatView (checkedOut t obs).wd q = .file ⟨e.kind, e.cid, o.1, o.2⟩ := hv
      rw [untrackedAt_cur, hv']
      simp [FMap.has]
    have hfiles : ∀ q ∈ t.keys, ∃ f, lstatView (clearIndex (checkedOut t obs)).wd q = .file f := by
      intro q hq
      obtain ⟨e, o, _, _, hv, _⟩ := checkedOut_view hobs hwf hq
      exact ⟨_, hv⟩
    have hidx := foldl_stage_files t.keys (clearIndex (checkedOut t obs)) hfiles p
    simp only [treeOf, List.append_nil]
    rw [FMap.get_mapVal _ (fun _ (v : IEntry) => v.entry) p, hL, hidx]
    cases ht : t.get p with
    | none =>
      have : p ∉ t.keys := by
        intro hp; obtain ⟨v, hv⟩ := FMap.get_of_mem_keys hp; rw [ht] at hv; cases hv
      simp [this, clearIndex]
    | some e =>
      have hp : p ∈ t.keys := FMap.mem_keys_of_get ht
      obtain ⟨o, ho⟩ := Option.isSome_iff_exists.mp ((List.all_eq_true.mp hobs) p hp)
      have hg : (checkoutFiles t obs).get p = some ⟨e.kind, e.cid, o.1, o.2⟩ := by
        rw [checkoutFiles_get t obs hobs, ht, ho]; rfl
      simp [hp, clearIndex, checkedOut, hg, WFile.ientry, IEntry.entry]

/-- non-vacuity for both round trips (with a link that leads to a directory) -/
example : ∃ w w', checkoutFresh
      [(pa, ⟨.regular, 1⟩), (pde, ⟨.executable, 2⟩), ([107], ⟨.symlink, 3⟩)]
      [(pa, (⟨5, 5, 1⟩, reg)), (pde, (⟨5, 5, 2⟩, reg)), ([107], (⟨5, 5, 1⟩, ⟨.dir, some pd⟩))] = .ok w ∧
      stageAll cur (clearIndex w) = .ok w' ∧
      ∀ p, (treeOf w'.index).get p = FMap.get [(pa, ⟨.regular, 1⟩), (pde, ⟨.executable, 2⟩), ([107], ⟨.symlink, 3⟩)] p :=
  checkout_clear_stage_roundtrip _ _ (by decide) (by decide) (by decide)

/-- REGRESSION (fixed): a link that leads to a directory was not picked up by "add everything". -/
theorem legacy_clear_stage_witness :
    (stageAll legacy (clearIndex (checkedOut [(pde, ⟨.regular, 1⟩), ([107], ⟨.symlink, 2⟩)]
        [(pde, (⟨5, 5, 1⟩, reg)), ([107], (⟨5, 5, 1⟩, ⟨.dir, some pd⟩))]))).toOption.map
      (fun w => (treeOf w.index).get [107]) = some none ∧
    (stageAll cur (clearIndex (checkedOut [(pde, ⟨.regular, 1⟩), ([107], ⟨.symlink, 2⟩)]
        [(pde, (⟨5, 5, 1⟩, reg)), ([107], (⟨5, 5, 1⟩, ⟨.dir, some pd⟩))]))).toOption.map
      (fun w => (treeOf w.index).get [107]) = some (some ⟨.symlink, 2⟩) := by decide

/-! ## 3. branch switch -/

/-- From a clean checkout of any tree `a`, `porcelain.checkout` of any tree `b` succeeds, HEAD is `b`,
the directory and the index then hold exactly `b`, and status is clean. -/
def BranchSwitchStatement : Prop :=
  ∀ (a b : FMap Entry) (obsA obsB : Obs),
    a.keys.all validPath = true → b.keys.all validPath = true →
    a.keys.all obsA.has = true → b.keys.all obsB.has = true → TreeWF a → TreeWF b →
    ∃ w', switchTo cur (checkedOut a obsA) b obsB = ⟨w', none⟩ ∧ w'.head = b ∧
      (∀ p, wdEntry w'.wd p = b.get p) ∧ (∀ p, (treeOf w'.index).get p = b.get p) ∧
      status cur w' = .ok ⟨[], [], [], [], []⟩

/-- `branch_switch`: the full statement, for ALL pairs of well-formed trees of valid paths: every
combination of added, deleted, modified, re-moded and type-changed (file ↔ executable ↔ symbolic
link) paths at any depth, files that become directories and directories that become files.  All
deletions are applied first (which empties and so removes the directories that go away), then all
writes; each path is independent of the others because no path of a tree lies below another. -/
theorem branch_switch : BranchSwitchStatement := by
  intro a b obsA obsB hva hvb hoa hob hwfa hwfb
  have hsync := checkedOut_synced hoa hwfa
  have hcu := checkUncommitted_synced hsync b
  have hpd : preCheckDirs (checkedOut a obsA).wd (changes a b) = .ok () := preCheckDirs_synced hsync b
  have hpm : preCheckModified (checkedOut a obsA).wd (changes a b) = .ok () := preCheckModified_synced hsync b
  have hfA0 : ∀ p, a.get p = none → (checkoutFiles a obsA).get p = none := by
    intro p h; rw [checkoutFiles_get a obsA hoa, h]; rfl
  have hfA1 : ∀ p x, a.get p = some x → ∃ f, (checkoutFiles a obsA).get p = some f ∧ f.entry = x := by
    intro p x h
    obtain ⟨o, ho⟩ := Option.isSome_iff_exists.mp ((List.all_eq_true.mp hoa) p (FMap.mem_keys_of_get h))
    exact ⟨⟨x.kind, x.cid, o.1, o.2⟩, by rw [checkoutFiles_get a obsA hoa, h, ho]; rfl, rfl⟩
  have hoff : ∀ p, p ∉ changedPathOrder a b → a.get p = none ∧ b.get p = none := by
    intro p hp
    have hpK : p ∉ a.keys ++ b.keys := fun e => hp ((mem_changedPathOrder a b p).mpr e)
    constructor
    · cases h : a.get p with
      | none => rfl
      | some x => exact absurd (List.mem_append_left _ (FMap.mem_keys_of_get h)) hpK
    · cases h : b.get p with
      | none => rfl
      | some x => exact absurd (List.mem_append_right _ (FMap.mem_keys_of_get h)) hpK
  -- first phase: the deletions
  obtain ⟨s1, happ1, hin1, hout1⟩ := applyDels (a := a) (b := b) (fA := checkoutFiles a obsA) (obs := obsB) hwfa
    (fun p x h => (List.all_eq_true.mp hva) p (FMap.mem_keys_of_get h)) hfA0 hfA1
    (changedPathOrder a b) (nodup_changedPathOrder a b)
    ⟨(checkedOut a obsA).wd, (checkedOut a obsA).index⟩ (fun _ => Or.inr rfl)
    (fun p _ => ⟨rfl, checkedOut_index_get a obsA p⟩)
  -- second phase: the writes
  obtain ⟨s2, happ2, hall⟩ := applyAdds (a := a) (b := b) (fA := checkoutFiles a obsA) (obs := obsB) hwfb
    (fun p y h => (List.all_eq_true.mp hvb) p (FMap.mem_keys_of_get h))
    (fun p y h => Option.isSome_iff_exists.mp ((List.all_eq_true.mp hob) p (FMap.mem_keys_of_get h)))
    hfA0 hfA1 (changedPathOrder a b) (nodup_changedPathOrder a b) s1 hin1
    (by
      intro p hp
      obtain ⟨han, hbn⟩ := hoff p hp
      have ht : targetWd a b (checkoutFiles a obsA) obsB p = none := by simp [targetWd, hbn]
      rw [(hout1 p hp).1, (hout1 p hp).2, ht]
      exact ⟨hfA0 p han, by rw [checkedOut_index_get, hfA0 p han]⟩)
  have hsync' : Synced ⟨b, s2.index, s2.wd⟩ := by
    refine ⟨fun p => by rw [(hall p).2, (hall p).1], ?_, ?_⟩
    · intro p
      show b.get p = (s2.wd.get p).map WFile.entry
      rw [(hall p).1]
      unfold targetWd
      cases hb : b.get p with
      | none => rfl
      | some y =>
        by_cases hay : a.get p = some y
        · obtain ⟨f, hf, hfe⟩ := hfA1 p y hay
          simp [hay, hf, hfe]
        · obtain ⟨o, ho⟩ := Option.isSome_iff_exists.mp ((List.all_eq_true.mp hob) p (FMap.mem_keys_of_get hb))
          simp [hay, ho, fileOf, WFile.entry]
    · intro p hp
      show hasFileAncestor s2.wd p = false
      obtain ⟨f, hf⟩ := FMap.get_of_mem_keys hp
      have hbp : ∃ y, b.get p = some y := by
        have := (hall p).1
        rw [hf] at this
        unfold targetWd at this
        cases hb : b.get p with
        | none => rw [hb] at this; cases this
        | some y => exact ⟨y, rfl⟩
      obtain ⟨y, hy⟩ := hbp
      rw [hasFileAncestor_false_iff]
      intro k hk
      rw [(hall k).1]
      simp [targetWd, hwfb.apply hy hk]
  refine ⟨⟨b, s2.index, s2.wd⟩, ?_, rfl, hsync'.wdEntry, hsync'.treeOf, hsync'.status⟩
  unfold switchTo
  have hh : (checkedOut a obsA).head = a := rfl
  have happ : applyChanges cur obsB ⟨(checkedOut a obsA).wd, (checkedOut a obsA).index⟩
      (applyOrder cur (changes a b)) = (s2, none) := by
    rw [applyOrder_cur, applyChanges_append, happ1]
    exact happ2
  simp only [hcu, hh, hpd, hpm, happ]

/-- non-vacuity: one switch that adds, deletes, rewrites, re-modes, changes the type of paths, turns
the file `x` into a directory and the directory `d` into a file -/
example : ∃ w', switchTo cur
      (checkedOut [(pa, ⟨.regular, 1⟩), (pb, ⟨.regular, 2⟩), (pc, ⟨.regular, 3⟩), (pde, ⟨.regular, 4⟩), (pu, ⟨.symlink, 5⟩), ([120], ⟨.regular, 7⟩)]
        [(pa, (⟨5, 5, 1⟩, reg)), (pb, (⟨5, 5, 1⟩, reg)), (pc, (⟨5, 5, 1⟩, reg)), (pde, (⟨5, 5, 1⟩, reg)),
         (pu, (⟨5, 5, 1⟩, ⟨.missing, none⟩)), ([120], (⟨5, 5, 1⟩, reg))])
      [(pa, ⟨.regular, 1⟩), (pb, ⟨.executable, 2⟩), (pc, ⟨.symlink, 3⟩), (pn, ⟨.regular, 6⟩), (pu, ⟨.regular, 5⟩), ([120, 47, 121], ⟨.regular, 8⟩), (pd, ⟨.regular, 9⟩)]
      [(pa, (⟨9, 9, 1⟩, reg)), (pb, (⟨9, 9, 1⟩, reg)), (pc, (⟨9, 9, 1⟩, ⟨.missing, none⟩)), (pn, (⟨9, 9, 1⟩, reg)),
       (pu, (⟨9, 9, 1⟩, reg)), ([120, 47, 121], (⟨9, 9, 1⟩, reg)), (pd, (⟨9, 9, 1⟩, reg))] = ⟨w', none⟩ ∧
      status cur w' = .ok ⟨[], [], [], [], []⟩ := by
  obtain ⟨w', h1, _, _, _, h5⟩ := branch_switch
    [(pa, ⟨.regular, 1⟩), (pb, ⟨.regular, 2⟩), (pc, ⟨.regular, 3⟩), (pde, ⟨.regular, 4⟩), (pu, ⟨.symlink, 5⟩), ([120], ⟨.regular, 7⟩)]
    [(pa, ⟨.regular, 1⟩), (pb, ⟨.executable, 2⟩), (pc, ⟨.symlink, 3⟩), (pn, ⟨.regular, 6⟩), (pu, ⟨.regular, 5⟩), ([120, 47, 121], ⟨.regular, 8⟩), (pd, ⟨.regular, 9⟩)]
    [(pa, (⟨5, 5, 1⟩, reg)), (pb, (⟨5, 5, 1⟩, reg)), (pc, (⟨5, 5, 1⟩, reg)), (pde, (⟨5, 5, 1⟩, reg)),
     (pu, (⟨5, 5, 1⟩, ⟨.missing, none⟩)), ([120], (⟨5, 5, 1⟩, reg))]
    [(pa, (⟨9, 9, 1⟩, reg)), (pb, (⟨9, 9, 1⟩, reg)), (pc, (⟨9, 9, 1⟩, ⟨.missing, none⟩)), (pn, (⟨9, 9, 1⟩, reg)),
     (pu, (⟨9, 9, 1⟩, reg)), ([120, 47, 121], (⟨9, 9, 1⟩, reg)), (pd, (⟨9, 9, 1⟩, reg))]
    (by decide) (by decide) (by decide) (by decide) (by decide) (by decide)
  exact ⟨w', h1, h5⟩

/-- REGRESSION (fixed): directory → file.  `a` has `x/y`, `b` has the file `x`: the old code wrote `x`
before it deleted `x/y` and failed with `IsADirectoryError`; the code now switches. -/
theorem legacy_dir_to_file_witness :
    (switchTo legacy (checkedOut [([120, 47, 121], ⟨.regular, 1⟩)] [([120, 47, 121], (⟨5, 5, 1⟩, reg))])
      [([120], ⟨.regular, 1⟩)] [([120], (⟨9, 9, 1⟩, reg))]).err = some .isADirectory ∧
    (switchTo cur (checkedOut [([120, 47, 121], ⟨.regular, 1⟩)] [([120, 47, 121], (⟨5, 5, 1⟩, reg))])
      [([120], ⟨.regular, 1⟩)] [([120], (⟨9, 9, 1⟩, reg))]).err = none ∧
    wdEntry (switchTo cur (checkedOut [([120, 47, 121], ⟨.regular, 1⟩)] [([120, 47, 121], (⟨5, 5, 1⟩, reg))])
      [([120], ⟨.regular, 1⟩)] [([120], (⟨9, 9, 1⟩, reg))]).world.wd [120] = some ⟨.regular, 1⟩ := by decide

/-- REGRESSION: file → directory worked in the old order too and still works. -/
theorem file_to_dir_both_orders :
    ∀ fl ∈ [legacy, cur],
      (switchTo fl (checkedOut [([120], ⟨.symlink, 1⟩)] [([120], (⟨5, 5, 1⟩, ⟨.missing, none⟩))])
        [([120, 47, 121], ⟨.regular, 1⟩)] [([120, 47, 121], (⟨9, 9, 1⟩, reg))]).err = none := by decide

/-! ## 4. reset --hard: index, work tree and target three-way different -/

/-- `reset_hard_exact`: `porcelain.reset(repo, "hard", commit)` from ANY state — for every path the
staged entry `I`, the file on disk `W` and the target entry `T` may be absent or present and differ in
content, executable bit and type in every combination (in particular `W = T ≠ I`: the old bytes put
back by hand under a staged modification) — as long as no path of index, work tree and target lies
below another.  The reset succeeds, HEAD is the target, the index's tree is the target, every tracked
path holds the target's entry on disk, untracked files are untouched, and nothing is staged or
unstaged.  (Before 38aea9c the index entry of a file that was already deleted survived; the lemma
`resetHard_outcome` keeps the hypothesis `NoGoneEntries` that variant needs, and
`reset_hard_gone_entry_witness` shows both variants.) -/
theorem reset_hard_exact (w : World) (t : FMap Entry) (obs : Obs)
    (hflat : Flat (w.index.keys ++ w.wd.keys ++ t.keys))
    (hvi : w.index.keys.all validPath = true) (hvt : t.keys.all validPath = true)
    (hobs : t.keys.all obs.has = true) :
    ∃ w', resetHard cur w t obs = ⟨w', none⟩ ∧ w'.head = t ∧
      (∀ p, (treeOf w'.index).get p = t.get p) ∧
      (∀ p, ((w.index.get p).isSome = true ∨ (t.get p).isSome = true) → wdEntry w'.wd p = t.get p) ∧
      (∀ p, w.index.get p = none → t.get p = none → w'.wd.get p = w.wd.get p) ∧
      stagedAdd w'.head w'.index = [] ∧ stagedDel w'.head w'.index = [] ∧ stagedMod w'.head w'.index = [] ∧
      unstagedOf cur w'.wd w'.index = .ok [] := by
  -- `_transition_to_absent` drops the index entry of a file that is already gone (translated flag)
  have hgone : NoGoneEntries cur w t := Or.inl rfl
  obtain ⟨w', hr, hh, ho⟩ := resetHard_outcome cur rfl w t obs hflat hvi hvt hobs hgone
  have hview : ∀ p f, w'.wd.get p = some f → hasFileAncestor w'.wd p = false := by
    intro p f hf
    exact (flat_view ho.keys hflat (ho.keys p (FMap.mem_keys_of_get hf))).1
  have hidx : ∀ p, w'.index.get p = (t.get p).bind (fun y => (w'.wd.get p).map WFile.ientry) ∧
      (∀ y, t.get p = some y → ∃ f, w'.wd.get p = some f ∧ f.entry = y ∧ w'.index.get p = some f.ientry) ∧
      (t.get p = none → w'.index.get p = none) := by
    intro p
    cases ht : t.get p with
    | some y =>
      obtain ⟨f, h1, h2, h3⟩ := ho.tracked p y ht
      exact ⟨(by simp [h1, h3]), (fun y' e => by cases e; exact ⟨f, h1, h2, h3⟩), (fun e => by cases e)⟩
    | none =>
      have hn : w'.index.get p = none := by
        cases hi : w.index.get p with
        | none => exact (ho.other p ht hi).2
        | some i => exact (ho.gone p ht (by rw [hi]; rfl)).2
      exact ⟨(by simp [hn]), (fun y e => by cases e), (fun _ => hn)⟩
  refine ⟨w', hr, hh, ?_, ?_, ?_, ?_⟩
  · intro p
    simp only [treeOf]
    rw [FMap.get_mapVal _ (fun _ (v : IEntry) => v.entry) p]
    cases ht : t.get p with
    | some y =>
      obtain ⟨f, _, h2, h3⟩ := (hidx p).2.1 y ht
      rw [h3]; simp [WFile.ientry, IEntry.entry, ← h2, WFile.entry]
    | none => rw [(hidx p).2.2 ht]; rfl
  · intro p hp
    cases ht : t.get p with
    | some y =>
      obtain ⟨f, h1, h2, _⟩ := (hidx p).2.1 y ht
      rw [wdEntry_file (lstatView_noAnc_some (hview p f h1) h1), h2]
    | none =>
      have hi : (w.index.get p).isSome = true := by
        rcases hp with h | h
        · exact h
        · rw [ht] at h; cases h
      have hn := (ho.gone p ht hi).1
      cases hv : wdEntry w'.wd p with
      | none => rfl
      | some e =>
        have : (wdEntry w'.wd p).isSome = true := by rw [hv]; rfl
        obtain ⟨f, hf⟩ := (wdEntry_isSome_iff _ _).mp this
        rw [lstatView_file_get hf] at hn; cases hn
  · intro p hi ht
    exact (ho.other p ht hi).1
  · apply tracked_synced_nothing_changed
    · intro p i hi
      cases ht : t.get p with
      | none => rw [(hidx p).2.2 ht] at hi; cases hi
      | some y =>
        obtain ⟨f, h1, h2, h3⟩ := (hidx p).2.1 y ht
        rw [h3] at hi
        exact ⟨f, h1, (Option.some.inj hi).symm, by rw [hh, ht, h2], hview p f h1⟩
    · intro p h hp
      rw [hh] at hp
      obtain ⟨f, _, _, h3⟩ := (hidx p).2.1 h hp
      rw [h3]; rfl

/-- non-vacuity, with every relation between `I`, `W` and `T` at some path:
`a`: `W = T ≠ I` (modified and staged, then the old bytes put back by hand);
`b`: `I = W ≠ T`; `c`: all three differ (and the executable bit); `n`: staged addition the target lacks;
`d/e`: absent from index and disk, present in the target; `u`: an untracked file. -/
def wThreeWay : World :=
  { head := [(pa, ⟨.regular, 1⟩), (pb, ⟨.regular, 2⟩), (pc, ⟨.regular, 3⟩)],
    index := [(pa, ⟨.regular, 7, ⟨6, 6, 1⟩⟩), (pb, ⟨.regular, 8, ⟨6, 6, 1⟩⟩), (pc, ⟨.executable, 9, ⟨6, 6, 1⟩⟩),
              (pn, ⟨.regular, 10, ⟨6, 6, 1⟩⟩)],
    wd := [(pa, ⟨.regular, 1, ⟨7, 7, 1⟩, reg⟩), (pb, ⟨.regular, 8, ⟨6, 6, 1⟩, reg⟩), (pc, ⟨.regular, 11, ⟨7, 7, 1⟩, reg⟩),
           (pn, ⟨.regular, 10, ⟨6, 6, 1⟩, reg⟩), (pu, ⟨.regular, 12, ⟨7, 7, 1⟩, reg⟩)] }

def tThreeWay : FMap Entry := [(pa, ⟨.regular, 1⟩), (pb, ⟨.regular, 2⟩), (pc, ⟨.executable, 3⟩), (pde, ⟨.symlink, 4⟩)]

def obsThreeWay : Obs := [(pa, (⟨9, 9, 1⟩, reg)), (pb, (⟨9, 9, 1⟩, reg)), (pc, (⟨9, 9, 1⟩, reg)), (pde, (⟨9, 9, 1⟩, ⟨.missing, none⟩))]

example : ∃ w', resetHard cur wThreeWay tThreeWay obsThreeWay = ⟨w', none⟩ ∧ w'.head = tThreeWay ∧
    (∀ p, (treeOf w'.index).get p = tThreeWay.get p) ∧ w'.wd.get pu = wThreeWay.wd.get pu := by
  obtain ⟨w', h1, h2, h3, _, h5, _⟩ := reset_hard_exact wThreeWay tThreeWay obsThreeWay
    (by decide) (by decide) (by decide) (by decide)
  exact ⟨w', h1, h2, h3, h5 pu (by decide) (by decide)⟩

/-- at `a` (`W = T ≠ I`) the file is left alone and only the index entry is rewritten, from the file's
own stat data; status is clean apart from the untracked `u`, and a second reset changes nothing -/
example :
    let r := resetHard cur wThreeWay tThreeWay obsThreeWay
    r.err = none ∧ r.world.wd.get pa = wThreeWay.wd.get pa ∧
    r.world.index.get pa = some ⟨.regular, 1, ⟨7, 7, 1⟩⟩ ∧
    status cur r.world = .ok ⟨[], [], [], [], [pu]⟩ ∧
    (resetHard cur r.world tThreeWay obsThreeWay).world.index = r.world.index ∧
    (resetHard cur r.world tThreeWay obsThreeWay).world.wd = r.world.wd := by decide

/-- REGRESSION (fixed, hardreset-deleted-file-keeps-index-entry), on the variant of the code that returns from
`_transition_to_absent` before dropping the index entry: `a` is staged, deleted from disk, and absent
from the target; after `reset --hard` the index still has it.  With the entry dropped it is gone. -/
theorem reset_hard_gone_entry_witness :
    let w : World := { head := [(pa, ⟨.regular, 1⟩)], index := [(pa, ⟨.regular, 1, ⟨5, 5, 1⟩⟩)], wd := [] }
    (resetHard { cur with absentDropsIndex := false } w [] []).err = none ∧
    (resetHard { cur with absentDropsIndex := false } w [] []).world.index.get pa = some ⟨.regular, 1, ⟨5, 5, 1⟩⟩ ∧
    ¬ NoGoneEntries { cur with absentDropsIndex := false } w [] ∧
    (resetHard { cur with absentDropsIndex := true } w [] []).world.index.get pa = none := by decide

/-- FINDING (force-checkout-starts-from-head): `checkout(force=True)` on the variant that takes the
changes from HEAD's tree and skips equal entries keeps a staged and an unstaged modification of a path
that HEAD and the target agree on; started from the index (as `reset --hard`) it resets them. -/
theorem force_checkout_witness :
    let w : World := { head := [(pa, ⟨.regular, 1⟩)], index := [(pa, ⟨.regular, 2, ⟨6, 6, 1⟩⟩)],
                       wd := [(pa, ⟨.regular, 3, ⟨7, 7, 1⟩, reg⟩)] }
    let t : FMap Entry := [(pa, ⟨.regular, 1⟩)]
    (switchForce { cur with forceUsesIndex := false } w t [(pa, (⟨9, 9, 1⟩, reg))]).world.index.get pa
      = some ⟨.regular, 2, ⟨6, 6, 1⟩⟩ ∧
    (treeOf (switchForce { cur with forceUsesIndex := true } w t [(pa, (⟨9, 9, 1⟩, reg))]).world.index).get pa
      = some ⟨.regular, 1⟩ ∧
    wdEntry (switchForce { cur with forceUsesIndex := true } w t [(pa, (⟨9, 9, 1⟩, reg))]).world.wd pa
      = some ⟨.regular, 1⟩ := by decide

end Dulwich.Props.C18
