/-
  C18 — Work tree round trip: checkout then stage reproduces the tree; status is exact.

  Only property theorems, non-vacuity examples and negation witnesses live here; helper lemmas are in
  Lemmas/WorkTree.lean.  The model is Model/WorkTree.lean; the constants and the list of compared
  fields come from Gen/WorkTree.lean, which the translator regenerates from /repo on every run.
-/
import DulwichModel.Lemmas.WorkTree

namespace Dulwich.Props.C18
open Dulwich Dulwich.WorkTree

/-! ## 0. mode canonicalisation (`cleanup_mode`) -/

/-- What checkout writes for a tree entry of kind `k` (`os.chmod(path, cleanup_mode(mode))`, or a
symbolic link) is read back by `index_entry_from_stat` as the same kind. -/
theorem kind_roundtrip (k : Kind) :
    kindOfMode (cleanupMode (stModeAfterCheckout (modeOfKind k))) = some k := by
  cases k <;> decide

/-- `cleanup_mode` is idempotent and only ever yields the five canonical modes. -/
theorem cleanupMode_canonical (m : Nat) :
    cleanupMode (cleanupMode m) = cleanupMode m ∧
    (cleanupMode m = 0o100644 ∨ cleanupMode m = 0o100755 ∨ cleanupMode m = 0o120000 ∨
     cleanupMode m = 0o40000 ∨ cleanupMode m = 0o160000) := by
  unfold cleanupMode
  split
  · exact ⟨by decide, by decide⟩
  · split
    · exact ⟨by decide, by decide⟩
    · split
      · exact ⟨by decide, by decide⟩
      · split
        · exact ⟨by decide, by decide⟩
        · exact ⟨by decide, by decide⟩

/-! ## 1. status is exact -/

/-- What "exact" means: the five lists are the three-way comparison of HEAD, index and directory. -/
def ExactStatus (w : World) (s : Status) : Prop :=
  (∀ p, p ∈ s.add ↔ (w.head.get p = none ∧ ∃ i, w.index.get p = some i)) ∧
  (∀ p, p ∈ s.del ↔ ((∃ h, w.head.get p = some h) ∧ w.index.get p = none)) ∧
  (∀ p, p ∈ s.mod ↔ ∃ h i, w.head.get p = some h ∧ w.index.get p = some i ∧ h ≠ i.entry) ∧
  (∀ p, p ∈ s.unstaged ↔ ∃ i, w.index.get p = some i ∧ wdEntry w.wd p ≠ some i.entry) ∧
  (∀ p, p ∈ s.untracked ↔ ((∃ e, wdEntry w.wd p = some e) ∧ w.index.get p = none))

/-- `staged = {p | head p ≠ index p}`: the union of the three staged lists. -/
theorem exact_staged_union {w : World} {s : Status} (h : ExactStatus w s) (p : Path) :
    p ∈ s.add ++ s.del ++ s.mod ↔ w.head.get p ≠ (w.index.get p).map IEntry.entry := by
  obtain ⟨ha, hd, hm, _, _⟩ := h
  simp only [List.mem_append, ha, hd, hm]
  cases hh : w.head.get p <;> cases hi : w.index.get p <;> simp

/-- The full statement of the property's second sentence on the model: whatever the working
directory, index and HEAD look like (so: after any sequence of edits), status succeeds and is exact,
assuming only the racy-git hypothesis.  It is FALSE for the code as it is (see the counterexamples
below); the proved theorem is `status_exact_partial`. -/
def StatusExactStatement : Prop :=
  ∀ w : World, StatHonest w → ∃ s, status w = .ok s ∧ ExactStatus w s

/-- Status is exact in every world (hence after ANY sequence of edits of the working directory and
the index) that satisfies the racy-git hypothesis `StatHonest` and the four hypotheses the code as
it is forces: no tracked path below a file, changed paths decodable, no kind-only change, link
lookups harmless. -/
theorem status_exact_partial (w : World)
    (hdir : NoTrackedBelowFile w) (hutf : TrackedUtf8 w)
    (hstat : StatHonest w) (hkind : KindFollowsContent w) (hlink : LinkLookupHarmless w) :
    ∃ s, status w = .ok s ∧ ExactStatus w s := by
  have hcatch : Gen.WorkTree.unstagedCatchesNotDir = false := rfl
  -- get_unstaged_changes does not raise
  have hun : unstagedOf w.wd w.index = .ok (w.index.keys.filter (changedAt w.wd w.index)) := by
    unfold unstagedOf
    have : w.index.keys.any (lstatRaisesNotDir w.wd) = false := by
      rw [List.any_eq_false]
      intro p hp
      have := (List.all_eq_true.mp hdir) p hp
      simp only [lstatRaisesNotDir, hcatch]
      simpa using this
    simp [this]
  -- every listed staged / unstaged path is a key of HEAD or of the index, hence UTF-8
  have hall : (stagedAdd w.head w.index ++ stagedDel w.head w.index ++ stagedMod w.head w.index ++
      w.index.keys.filter (changedAt w.wd w.index)).all validUtf8 = true := by
    rw [List.all_eq_true]
    intro p hp
    have hk : p ∈ w.head.keys ++ w.index.keys := by
      simp only [List.mem_append, stagedAdd, stagedDel, stagedMod, List.mem_filter] at hp ⊢
      rcases hp with ((h | h) | h) | h
      · exact Or.inr h.1
      · exact Or.inl h.1
      · exact Or.inl h.1
      · exact Or.inr h.1
    exact (List.all_eq_true.mp hutf) p hk
  refine ⟨⟨stagedAdd w.head w.index, stagedDel w.head w.index, stagedMod w.head w.index,
    w.index.keys.filter (changedAt w.wd w.index), untrackedOf w.wd w.index⟩, ?_, ?_⟩
  · unfold status
    rw [hun]
    simp only [hall, if_true]
  · refine ⟨?_, ?_, ?_, ?_, ?_⟩
    · intro p
      simp only [stagedAdd, List.mem_filter, FMap.mem_keys_iff, FMap.has]
      cases hh : w.head.get p <;> cases hi : w.index.get p <;> simp
    · intro p
      simp only [stagedDel, List.mem_filter, FMap.mem_keys_iff, FMap.has]
      cases hh : w.head.get p <;> cases hi : w.index.get p <;> simp
    · intro p
      simp only [stagedMod, modifiedAt, List.mem_filter, FMap.mem_keys_iff]
      cases hh : w.head.get p <;> cases hi : w.index.get p <;> simp [entryDiffers_iff]
    · intro p
      simp only [List.mem_filter, FMap.mem_keys_iff, changedAt]
      cases hi : w.index.get p with
      | none => simp
      | some e =>
        have h1 := all_get hstat hi
        have h2 := all_get hkind hi
        simp only [hi] at h1 h2
        have := @entryChanged_iff w.wd p e
          (by intro f hv hm; simp only [hv, hm] at h1; simpa using h1)
          (by intro f hv hc; simp only [hv, hc] at h2; simpa using h2)
        simp [this]
    · intro p
      simp only [untrackedOf, untrackedAt, List.mem_filter]
      constructor
      · rintro ⟨hk, hv⟩
        cases hview : lstatView w.wd p with
        | file f =>
          have hl := (List.all_eq_true.mp hlink) p hk
          simp only [hview] at hl hv
          refine ⟨⟨f.entry, wdEntry_file hview⟩, ?_⟩
          have : w.index.has p = false := by
            rw [hv] at hl; simpa using hl.symm
          simpa [FMap.has] using this
        | enoent => simp [hview] at hv
        | enotdir => simp [hview] at hv
        | dir => simp [hview] at hv
      · rintro ⟨⟨e, he⟩, hi⟩
        have hs : (wdEntry w.wd p).isSome = true := by rw [he]; rfl
        obtain ⟨f, hview⟩ := (wdEntry_isSome_iff _ _).mp hs
        have hk : p ∈ w.wd.keys := FMap.mem_keys_of_get (lstatView_file_get hview)
        have hl := (List.all_eq_true.mp hlink) p hk
        simp only [hview] at hl ⊢
        refine ⟨hk, ?_⟩
        have : w.index.has p = false := by simp [FMap.has, hi]
        rw [this] at hl
        simpa using hl

end Dulwich.Props.C18
