/-
  C18 — Work tree round trip: checkout then stage reproduces the tree; status is exact.

  Only property theorems, non-vacuity examples and negation witnesses live here; helper lemmas are in
  Lemmas/WorkTree.lean.  The model is Model/WorkTree.lean; the constants and the list of compared
  fields come from Gen/WorkTree.lean, which the translator regenerates from /repo on every run.
-/
import DulwichModel.Lemmas.WorkTree

namespace Dulwich.Props.C18
open Dulwich Dulwich.WorkTree

/-! ## 0. mode canonicalisation (`cleanup_mode`) -/

/-- What checkout writes for a tree entry of kind `k` (`os.chmod(path, cleanup_mode(mode))`, or a
symbolic link) is read back by `index_entry_from_stat` as the same kind. -/
theorem kind_roundtrip (k : Kind) :
    kindOfMode (cleanupMode (stModeAfterCheckout (modeOfKind k))) = some k := by
  cases k <;> decide

/-- `cleanup_mode` is idempotent and only ever yields the five canonical modes. -/
theorem cleanupMode_canonical (m : Nat) :
    cleanupMode (cleanupMode m) = cleanupMode m ∧
    (cleanupMode m = 0o100644 ∨ cleanupMode m = 0o100755 ∨ cleanupMode m = 0o120000 ∨
     cleanupMode m = 0o40000 ∨ cleanupMode m = 0o160000) := by
  unfold cleanupMode
  split
  · exact ⟨by decide, by decide⟩
  · split
    · exact ⟨by decide, by decide⟩
    · split
      · exact ⟨by decide, by decide⟩
      · split
        · exact ⟨by decide, by decide⟩
        · exact ⟨by decide, by decide⟩

/-! ## 1. status is exact -/

/-- What "exact" means: the five lists are the three-way comparison of HEAD, index and directory. -/
def ExactStatus (w : World) (s : Status) : Prop :=
  (∀ p, p ∈ s.add ↔ (w.head.get p = none ∧ ∃ i, w.index.get p = some i)) ∧
  (∀ p, p ∈ s.del ↔ ((∃ h, w.head.get p = some h) ∧ w.index.get p = none)) ∧
  (∀ p, p ∈ s.mod ↔ ∃ h i, w.head.get p = some h ∧ w.index.get p = some i ∧ h ≠ i.entry) ∧
  (∀ p, p ∈ s.unstaged ↔ ∃ i, w.index.get p = some i ∧ wdEntry w.wd p ≠ some i.entry) ∧
  (∀ p, p ∈ s.untracked ↔ ((∃ e, wdEntry w.wd p = some e) ∧ w.index.get p = none))

/-- `staged = {p | head p ≠ index p}`: the union of the three staged lists. -/
theorem exact_staged_union {w : World} {s : Status} (h : ExactStatus w s) (p : Path) :
    p ∈ s.add ++ s.del ++ s.mod ↔ w.head.get p ≠ (w.index.get p).map IEntry.entry := by
  obtain ⟨ha, hd, hm, _, _⟩ := h
  simp only [List.mem_append, ha, hd, hm]
  cases hh : w.head.get p <;> cases hi : w.index.get p <;> simp

/-- The full statement of the property's second sentence on the model: whatever the working
directory, index and HEAD look like (so: after any sequence of edits), status succeeds and is exact,
assuming only the racy-git hypothesis.  It is FALSE for the code as it is (see the counterexamples
below); the proved theorem is `status_exact_partial`. -/
def StatusExactStatement : Prop :=
  ∀ w : World, StatHonest w → ∃ s, status w = .ok s ∧ ExactStatus w s

/-- Status is exact in every world (hence after ANY sequence of edits of the working directory and
the index) that satisfies the racy-git hypothesis `StatHonest` and the four hypotheses the code as
it is forces: no tracked path below a file, changed paths decodable, no kind-only change, link
lookups harmless. -/
theorem status_exact_partial (w : World)
    (hdir : NoTrackedBelowFile w) (hutf : TrackedUtf8 w)
    (hstat : StatHonest w) (hkind : KindFollowsContent w) (hlink : LinkLookupHarmless w) :
    ∃ s, status w = .ok s ∧ ExactStatus w s := by
  have hcatch : Gen.WorkTree.unstagedCatchesNotDir = false := rfl
  -- get_unstaged_changes does not raise
  have hun : unstagedOf w.wd w.index = .ok (w.index.keys.filter (changedAt w.wd w.index)) := by
    unfold unstagedOf
    have : w.index.keys.any (lstatRaisesNotDir w.wd) = false := by
      rw [List.any_eq_false]
      intro p hp
      have := (List.all_eq_true.mp hdir) p hp
      simp only [lstatRaisesNotDir, hcatch]
      simpa using this
    simp [this]
  -- every listed staged / unstaged path is a key of HEAD or of the index, hence UTF-8
  have hall : (stagedAdd w.head w.index ++ stagedDel w.head w.index ++ stagedMod w.head w.index ++
      w.index.keys.filter (changedAt w.wd w.index)).all validUtf8 = true := by
    rw [List.all_eq_true]
    intro p hp
    have hk : p ∈ w.head.keys ++ w.index.keys := by
      simp only [List.mem_append, stagedAdd, stagedDel, stagedMod, List.mem_filter] at hp ⊢
      rcases hp with ((h | h) | h) | h
      · exact Or.inr h.1
      · exact Or.inl h.1
      · exact Or.inl h.1
      · exact Or.inr h.1
    exact (List.all_eq_true.mp hutf) p hk
  refine ⟨⟨stagedAdd w.head w.index, stagedDel w.head w.index, stagedMod w.head w.index,
    w.index.keys.filter (changedAt w.wd w.index), untrackedOf w.wd w.index⟩, ?_, ?_⟩
  · unfold status
    rw [hun]
    simp only [hall, if_true]
  · refine ⟨?_, ?_, ?_, ?_, ?_⟩
    · intro p
      simp only [stagedAdd, List.mem_filter, FMap.mem_keys_iff, FMap.has]
      cases hh : w.head.get p <;> cases hi : w.index.get p <;> simp
    · intro p
      simp only [stagedDel, List.mem_filter, FMap.mem_keys_iff, FMap.has]
      cases hh : w.head.get p <;> cases hi : w.index.get p <;> simp
    · intro p
      simp only [stagedMod, modifiedAt, List.mem_filter, FMap.mem_keys_iff]
      cases hh : w.head.get p <;> cases hi : w.index.get p <;> simp [entryDiffers_iff]
    · intro p
      simp only [List.mem_filter, FMap.mem_keys_iff, changedAt]
      cases hi : w.index.get p with
      | none => simp
      | some e =>
        have h1 := all_get hstat hi
        have h2 := all_get hkind hi
        simp only [hi] at h1 h2
        have := @entryChanged_iff w.wd p e
          (by intro f hv hm; simp only [hv, hm] at h1; simpa using h1)
          (by intro f hv hc; simp only [hv, hc] at h2; simpa using h2)
        simp [this]
    · intro p
      simp only [untrackedOf, untrackedAt, List.mem_filter]
      constructor
      · rintro ⟨hk, hv⟩
        cases hview : lstatView w.wd p with
        | file f =>
          have hl := (List.all_eq_true.mp hlink) p hk
          simp only [hview] at hl hv
          refine ⟨⟨f.entry, wdEntry_file hview⟩, ?_⟩
          have : w.index.has p = false := by
            rw [hv] at hl; simpa using hl.symm
          simpa [FMap.has] using this
        | enoent => simp [hview] at hv
        | enotdir => simp [hview] at hv
        | dir => simp [hview] at hv
      · rintro ⟨⟨e, he⟩, hi⟩
        have hs : (wdEntry w.wd p).isSome = true := by rw [he]; rfl
        obtain ⟨f, hview⟩ := (wdEntry_isSome_iff _ _).mp hs
        have hk : p ∈ w.wd.keys := FMap.mem_keys_of_get (lstatView_file_get hview)
        have hl := (List.all_eq_true.mp hlink) p hk
        simp only [hview] at hl ⊢
        refine ⟨hk, ?_⟩
        have : w.index.has p = false := by simp [FMap.has, hi]
        rw [this] at hl
        simpa using hl

/-- The same, phrased over the edit operations of the property's quantifier: start anywhere, apply ANY
sequence of edits (modify same/different size, chmod, delete, rmtree, create/replace by file, link or
directory, arbitrary rearrangement, stage, unstage, remove from index, add everything). -/
theorem status_exact_after_edits (env : Env) (w0 : World) (es : List Edit)
    (hdir : NoTrackedBelowFile (runEdits env w0 es)) (hutf : TrackedUtf8 (runEdits env w0 es))
    (hstat : StatHonest (runEdits env w0 es)) (hkind : KindFollowsContent (runEdits env w0 es))
    (hlink : LinkLookupHarmless (runEdits env w0 es)) :
    ∃ s, status (runEdits env w0 es) = .ok s ∧ ExactStatus (runEdits env w0 es) s :=
  status_exact_partial _ hdir hutf hstat hkind hlink

/-! ### a non-trivial instance, and the witnesses that each hypothesis is needed -/

section witnesses

def reg : LinkRes := ⟨.file, none⟩
def pa : Path := [97]            -- a
def pb : Path := [98]            -- b
def pc : Path := [99]            -- c
def pn : Path := [110]           -- n
def pu : Path := [117]           -- u
def pde : Path := [100, 47, 101] -- d/e
def pd : Path := [100]           -- d

/-- HEAD has a, b, c, d/e; the index has a modification of b staged, n added, c removed; in the
directory a was rewritten (new mtime), d/e is a link leading outside, u is new. -/
def wDemo : World :=
  { head := [(pa, ⟨.regular, 1⟩), (pb, ⟨.regular, 2⟩), (pc, ⟨.executable, 3⟩), (pde, ⟨.symlink, 4⟩)],
    index := [(pa, ⟨.regular, 1, ⟨5, 5, 10⟩⟩), (pb, ⟨.regular, 7, ⟨6, 6, 3⟩⟩), (pn, ⟨.executable, 8, ⟨6, 6, 1⟩⟩),
              (pde, ⟨.symlink, 4, ⟨5, 5, 9⟩⟩)],
    wd := [(pa, ⟨.regular, 9, ⟨7, 7, 10⟩, reg⟩), (pb, ⟨.regular, 7, ⟨6, 6, 3⟩, reg⟩), (pn, ⟨.executable, 8, ⟨6, 6, 1⟩, reg⟩),
           (pde, ⟨.symlink, 4, ⟨5, 5, 9⟩, ⟨.missing, none⟩⟩), (pu, ⟨.regular, 1, ⟨8, 8, 10⟩, reg⟩)] }

example : NoTrackedBelowFile wDemo ∧ TrackedUtf8 wDemo ∧ StatHonest wDemo ∧ KindFollowsContent wDemo ∧
    LinkLookupHarmless wDemo := by decide

example : status wDemo = .ok ⟨[pn], [pc], [pb], [pa], [pu]⟩ := by decide

/-- the same state reached by edits from a clean checkout -/
example : status (runEdits ⟨[], 0⟩
    { head := wDemo.head,
      index := [(pa, ⟨.regular, 1, ⟨5, 5, 10⟩⟩), (pb, ⟨.regular, 2, ⟨5, 5, 3⟩⟩), (pc, ⟨.executable, 3, ⟨5, 5, 2⟩⟩), (pde, ⟨.symlink, 4, ⟨5, 5, 9⟩⟩)],
      wd := [(pa, ⟨.regular, 1, ⟨5, 5, 10⟩, reg⟩), (pb, ⟨.regular, 2, ⟨5, 5, 3⟩, reg⟩), (pc, ⟨.executable, 3, ⟨5, 5, 2⟩, reg⟩),
             (pde, ⟨.symlink, 4, ⟨5, 5, 9⟩, ⟨.missing, none⟩⟩)] }
    [.modify pb 7 ⟨6, 6, 3⟩, .stage pb, .create pn ⟨.executable, 8, ⟨6, 6, 1⟩, reg⟩, .stage pn, .rmCached pc, .delete pc,
     .modify pa 9 ⟨7, 7, 10⟩, .create pu ⟨.regular, 1, ⟨8, 8, 10⟩, reg⟩])
    = .ok ⟨[pn], [pc], [pb], [pa], [pu]⟩ := by decide

/-- Same-size rewrite within the same time stamp: the cached stat key still matches. -/
def wRacy : World :=
  { head := [(pa, ⟨.regular, 1⟩)], index := [(pa, ⟨.regular, 1, ⟨5, 5, 4⟩⟩)],
    wd := [(pa, ⟨.regular, 2, ⟨5, 5, 4⟩, reg⟩)] }

/-- `StatHonest` is needed: without it (and with every other hypothesis in place) status reports a
clean tree although the file's content differs from the index. -/
theorem stat_honest_needed_counterexample :
    ¬ StatHonest wRacy ∧ NoTrackedBelowFile wRacy ∧ TrackedUtf8 wRacy ∧ KindFollowsContent wRacy ∧
    LinkLookupHarmless wRacy ∧ status wRacy = .ok ⟨[], [], [], [], []⟩ ∧
    wdEntry wRacy.wd pa ≠ (wRacy.index.get pa).map IEntry.entry := by decide

/-- chmod +x on a tracked file (stat key differs: ctime moved). -/
def wChmod : World :=
  { head := [(pa, ⟨.regular, 1⟩)], index := [(pa, ⟨.regular, 1, ⟨5, 5, 4⟩⟩)],
    wd := [(pa, ⟨.executable, 1, ⟨6, 5, 4⟩, reg⟩)] }

/-- FINDING (mode-only change): all hypotheses but `KindFollowsContent` hold, and status misses it. -/
theorem status_mode_only_counterexample :
    StatHonest wChmod ∧ NoTrackedBelowFile wChmod ∧ TrackedUtf8 wChmod ∧ LinkLookupHarmless wChmod ∧
    status wChmod = .ok ⟨[], [], [], [], []⟩ ∧
    wdEntry wChmod.wd pa ≠ (wChmod.index.get pa).map IEntry.entry := by decide

/-- The full statement (only `StatHonest` assumed) does not hold for the code as it is. -/
theorem statusExactStatement_counterexample : ¬ StatusExactStatement := by
  intro h
  obtain ⟨s, hs, hex⟩ := h wChmod (by decide)
  have hc : status wChmod = .ok ⟨[], [], [], [], []⟩ := by decide
  rw [hc] at hs
  cases hs
  have := (hex.2.2.2.1 pa).mpr ⟨⟨.regular, 1, ⟨5, 5, 4⟩⟩, by decide, by decide⟩
  simp at this

/-- A file replaced by a link whose target bytes are the old content (same blob id). -/
def wType : World :=
  { head := [(pa, ⟨.regular, 1⟩)], index := [(pa, ⟨.regular, 1, ⟨5, 5, 1⟩⟩)],
    wd := [(pa, ⟨.symlink, 1, ⟨6, 6, 1⟩, ⟨.missing, none⟩⟩)] }

/-- FINDING (type change with the same blob): status reports nothing. -/
theorem status_type_change_counterexample :
    StatHonest wType ∧ status wType = .ok ⟨[], [], [], [], []⟩ ∧
    wdEntry wType.wd pa ≠ (wType.index.get pa).map IEntry.entry := by decide

/-- A tracked directory `d` (with `d/e`) replaced by a file `d`. -/
def wDirFile : World :=
  { head := [(pde, ⟨.regular, 1⟩)], index := [(pde, ⟨.regular, 1, ⟨5, 5, 1⟩⟩)],
    wd := [(pd, ⟨.regular, 2, ⟨6, 6, 3⟩, reg⟩)] }

/-- FINDING: status raises `NotADirectoryError` (all other hypotheses hold). -/
theorem status_notdir_counterexample :
    StatHonest wDirFile ∧ TrackedUtf8 wDirFile ∧ KindFollowsContent wDirFile ∧ LinkLookupHarmless wDirFile ∧
    status wDirFile = .error .notADirectory := by decide

/-- A modified tracked file whose name is the single byte 0xff. -/
def wNonUtf8 : World :=
  { head := [([255], ⟨.regular, 1⟩)], index := [([255], ⟨.regular, 1, ⟨5, 5, 1⟩⟩)],
    wd := [([255], ⟨.regular, 2, ⟨6, 6, 7⟩, reg⟩)] }

/-- FINDING: status raises `UnicodeDecodeError` (all other hypotheses hold). -/
theorem status_utf8_counterexample :
    StatHonest wNonUtf8 ∧ NoTrackedBelowFile wNonUtf8 ∧ KindFollowsContent wNonUtf8 ∧ LinkLookupHarmless wNonUtf8 ∧
    status wNonUtf8 = .error .unicodeDecode := by decide

/-- `l -> a` untracked next to the tracked `a`; `k -> d` untracked, `d` a directory. -/
def wLinks : World :=
  { head := [(pa, ⟨.regular, 1⟩), (pde, ⟨.regular, 2⟩)],
    index := [(pa, ⟨.regular, 1, ⟨5, 5, 1⟩⟩), (pde, ⟨.regular, 2, ⟨5, 5, 1⟩⟩)],
    wd := [(pa, ⟨.regular, 1, ⟨5, 5, 1⟩, reg⟩), (pde, ⟨.regular, 2, ⟨5, 5, 1⟩, reg⟩),
           ([108], ⟨.symlink, 3, ⟨6, 6, 1⟩, ⟨.file, some pa⟩⟩), ([107], ⟨.symlink, 4, ⟨6, 6, 1⟩, ⟨.dir, some pd⟩⟩)] }

/-- FINDING: untracked links that lead to a tracked path or to a directory are not reported. -/
theorem status_untracked_link_counterexample :
    StatHonest wLinks ∧ NoTrackedBelowFile wLinks ∧ TrackedUtf8 wLinks ∧ KindFollowsContent wLinks ∧
    status wLinks = .ok ⟨[], [], [], [], []⟩ ∧
    wdEntry wLinks.wd [108] = some ⟨.symlink, 3⟩ ∧ wLinks.index.get [108] = none ∧
    wdEntry wLinks.wd [107] = some ⟨.symlink, 4⟩ ∧ wLinks.index.get [107] = none := by decide

end witnesses

/-! ## 2. checkout: status is clean, and staging everything reproduces the tree -/

/-- Every link of the tree leads to a directory, leads outside the work tree, or resolves to a path
that is itself in the tree (so that the index lookup by resolved path finds something). -/
def LinksHarmless (t : FMap Entry) (obs : Obs) : Prop :=
  t.keys.all (fun p =>
    match t.get p, obs.get p with
    | some e, some o =>
      !(e.kind == .symlink) || o.2.target == .dir ||
        (match o.2.alias with
         | none => true
         | some q => t.has q)
    | _, _ => true) = true

/-- No link of the tree leads to a directory. -/
def NoLinkToDir (t : FMap Entry) (obs : Obs) : Prop :=
  t.keys.all (fun p =>
    match t.get p, obs.get p with
    | some e, some o => !(e.kind == .symlink && o.2.target == .dir)
    | _, _ => true) = true

instance (t : FMap Entry) (obs : Obs) : Decidable (LinksHarmless t obs) := by unfold LinksHarmless; infer_instance
instance (t : FMap Entry) (obs : Obs) : Decidable (NoLinkToDir t obs) := by unfold NoLinkToDir; infer_instance

/-- Full statement: status is clean right after the checkout of any tree of valid paths. FALSE for the
code as it is (`clean_after_checkout_counterexample`). -/
def CleanAfterCheckoutStatement : Prop :=
  ∀ (t : FMap Entry) (obs : Obs), t.keys.all validPath = true → t.keys.all obs.has = true → TreeWF t →
    ∃ w, checkoutFresh t obs = .ok w ∧ status w = .ok ⟨[], [], [], [], []⟩

/-- Checkout of a well-formed tree of valid paths succeeds and status is clean immediately afterwards,
provided the tree's links are harmless for the resolved-path lookup. -/
theorem clean_after_checkout_partial (t : FMap Entry) (obs : Obs)
    (hvalid : t.keys.all validPath = true) (hobs : t.keys.all obs.has = true) (hwf : TreeWF t)
    (hlinks : LinksHarmless t obs) :
    ∃ w, checkoutFresh t obs = .ok w ∧ status w = .ok ⟨[], [], [], [], []⟩ := by
  refine ⟨checkedOut t obs, by simp [checkoutFresh, hvalid, hobs], ?_⟩
  obtain ⟨ha, hd, hm, hu⟩ := checkedOut_nothing_changed hobs hwf
  have hut : untrackedOf (checkedOut t obs).wd (checkedOut t obs).index = [] := by
    simp only [untrackedOf, List.filter_eq_nil_iff]
    intro p hp
    have hp' : p ∈ t.keys := by
      simp only [checkedOut] at hp; rwa [checkoutFiles_keys t obs hobs] at hp
    obtain ⟨e, o, he, ho, hv, hg⟩ := checkedOut_view hobs hwf hp'
    have hl := (List.all_eq_true.mp hlinks) p hp'
    simp only [he, ho] at hl
    have hhas : ∀ q, q ∈ t.keys → (checkedOut t obs).index.has q = true := by
      intro q hq; rw [FMap.has_iff, checkedOut_index_keys t obs hobs]; exact hq
    have hv' : lstatView (checkedOut t obs).wd p = .file ⟨e.kind, e.cid, o.1, o.2⟩ := hv
    simp only [untrackedAt, hv', walkedAsFile, aliasOf]
    cases hk : e.kind <;> simp only [hk] at hl ⊢
    · simpa using hhas p hp'
    · simpa using hhas p hp'
    · cases htg : o.2.target <;> simp only [htg] at hl ⊢ <;> try simp
      all_goals
        cases hal : o.2.alias with
        | none => simpa using hhas p hp'
        | some q =>
          simp only [hal] at hl
          have hq : q ∈ t.keys := by
            have : t.has q = true := by simpa using hl
            exact (FMap.has_iff t q).mp this
          simpa using hhas q hq
  unfold status
  have hh : (checkedOut t obs).head = t := rfl
  rw [hu, hh, ha, hd, hm, hut]
  rfl

/-- non-vacuity: a tree with a file, an executable in a directory, and two harmless links -/
example : ∃ w, checkoutFresh
      [(pa, ⟨.regular, 1⟩), (pde, ⟨.executable, 2⟩), ([108], ⟨.symlink, 3⟩), ([107], ⟨.symlink, 4⟩)]
      [(pa, (⟨5, 5, 1⟩, reg)), (pde, (⟨5, 5, 2⟩, reg)), ([108], (⟨5, 5, 1⟩, ⟨.file, some pa⟩)),
       ([107], (⟨5, 5, 9⟩, ⟨.missing, none⟩))] = .ok w ∧ status w = .ok ⟨[], [], [], [], []⟩ :=
  clean_after_checkout_partial _ _ (by decide) (by decide) (by decide) (by decide)

/-- FINDING: a tracked link whose target does not exist (resolves to the untracked work-tree path
`b`) is listed as untracked right after checkout. -/
theorem clean_after_checkout_counterexample : ¬ CleanAfterCheckoutStatement := by
  intro h
  obtain ⟨w, hw, hs⟩ := h [(pa, ⟨.symlink, 1⟩)] [(pa, (⟨5, 5, 1⟩, ⟨.missing, some pb⟩))] (by decide) (by decide) (by decide)
  have h1 : checkoutFresh [(pa, ⟨.symlink, 1⟩)] [(pa, (⟨5, 5, 1⟩, ⟨.missing, some pb⟩))] =
      .ok (checkedOut [(pa, ⟨.symlink, 1⟩)] [(pa, (⟨5, 5, 1⟩, ⟨.missing, some pb⟩))]) := by decide
  rw [h1] at hw
  cases hw
  revert hs
  decide

/-- `checkout_stage_roundtrip`: check out any well-formed tree of valid paths, stage everything
(`porcelain.add()`), and the index's tree is the tree that was checked out. -/
theorem checkout_stage_roundtrip (t : FMap Entry) (obs : Obs)
    (hvalid : t.keys.all validPath = true) (hobs : t.keys.all obs.has = true) (hwf : TreeWF t) :
    ∃ w w', checkoutFresh t obs = .ok w ∧ stageAll w = .ok w' ∧
      ∀ p, (treeOf w'.index).get p = t.get p := by
  refine ⟨checkedOut t obs,
    (untrackedOf (checkedOut t obs).wd (checkedOut t obs).index ++ []).foldl stage (checkedOut t obs),
    by simp [checkoutFresh, hvalid, hobs], ?_, ?_⟩
  · obtain ⟨_, _, _, hu⟩ := checkedOut_nothing_changed hobs hwf
    unfold stageAll
    rw [hu]
    rfl
  · intro p
    have hsame : ∀ q ∈ untrackedOf (checkedOut t obs).wd (checkedOut t obs).index,
        ∃ f, lstatView (checkedOut t obs).wd q = .file f ∧ (checkedOut t obs).index.get q = some f.ientry := by
      intro q hq
      simp only [untrackedOf, List.mem_filter] at hq
      have hq' : q ∈ t.keys := by
        have := hq.1; simp only [checkedOut] at this; rwa [checkoutFiles_keys t obs hobs] at this
      obtain ⟨e, o, _, _, hv, hg⟩ := checkedOut_view hobs hwf hq'
      exact ⟨_, hv, by rw [checkedOut_index_get, hg]; rfl⟩
    have hidx := foldl_stage_same _ (checkedOut t obs) hsame p
    simp only [treeOf, List.append_nil]
    rw [FMap.get_mapVal _ (fun _ (v : IEntry) => v.entry) p, hidx, checkedOut_index_get, checkoutFiles_get t obs hobs]
    cases ht : t.get p with
    | none => simp
    | some e =>
      have hp : p ∈ t.keys := FMap.mem_keys_of_get ht
      obtain ⟨o, ho⟩ := Option.isSome_iff_exists.mp ((List.all_eq_true.mp hobs) p hp)
      simp [ho, WFile.ientry, IEntry.entry]

/-- The stronger round trip: throw the index away after the checkout, add everything from scratch, and
the index's tree is again the tree — provided no link of the tree leads to a directory. -/
theorem checkout_clear_stage_roundtrip_partial (t : FMap Entry) (obs : Obs)
    (hvalid : t.keys.all validPath = true) (hobs : t.keys.all obs.has = true) (hwf : TreeWF t)
    (hnd : NoLinkToDir t obs) :
    ∃ w w', checkoutFresh t obs = .ok w ∧ stageAll (clearIndex w) = .ok w' ∧
      ∀ p, (treeOf w'.index).get p = t.get p := by
  refine ⟨checkedOut t obs,
    (untrackedOf (checkedOut t obs).wd [] ++ []).foldl stage (clearIndex (checkedOut t obs)),
    by simp [checkoutFresh, hvalid, hobs], rfl, ?_⟩
  · intro p
    have hkeys : (checkedOut t obs).wd.keys = t.keys := by
      simp only [checkedOut]; exact checkoutFiles_keys t obs hobs
    have hL : untrackedOf (checkedOut t obs).wd [] = t.keys := by
      simp only [untrackedOf, hkeys]
      rw [List.filter_eq_self]
      intro q hq
      obtain ⟨e, o, he, ho, hv, _⟩ := checkedOut_view hobs hwf hq
      have hn := (List.all_eq_true.mp hnd) q hq
      simp only [he, ho] at hn
      simp only [untrackedAt, checkedOut] at hv ⊢
      rw [hv]
      simpa [walkedAsFile, FMap.has] using hn
    have hfiles : ∀ q ∈ t.keys, ∃ f, lstatView (clearIndex (checkedOut t obs)).wd q = .file f := by
      intro q hq
      obtain ⟨e, o, _, _, hv, _⟩ := checkedOut_view hobs hwf hq
      exact ⟨_, hv⟩
    have hidx := foldl_stage_files t.keys (clearIndex (checkedOut t obs)) hfiles p
    simp only [treeOf, List.append_nil]
    rw [FMap.get_mapVal _ (fun _ (v : IEntry) => v.entry) p, hL, hidx]
    cases ht : t.get p with
    | none =>
      have : p ∉ t.keys := by
        intro hp; obtain ⟨v, hv⟩ := FMap.get_of_mem_keys hp; rw [ht] at hv; cases hv
      simp [this, clearIndex]
    | some e =>
      have hp : p ∈ t.keys := FMap.mem_keys_of_get ht
      obtain ⟨o, ho⟩ := Option.isSome_iff_exists.mp ((List.all_eq_true.mp hobs) p hp)
      have hg : (checkoutFiles t obs).get p = some ⟨e.kind, e.cid, o.1, o.2⟩ := by
        rw [checkoutFiles_get t obs hobs, ht, ho]; rfl
      simp [hp, clearIndex, checkedOut, hg, WFile.ientry, IEntry.entry]

/-- non-vacuity for both round trips -/
example : ∃ w w', checkoutFresh
      [(pa, ⟨.regular, 1⟩), (pde, ⟨.executable, 2⟩), ([108], ⟨.symlink, 3⟩)]
      [(pa, (⟨5, 5, 1⟩, reg)), (pde, (⟨5, 5, 2⟩, reg)), ([108], (⟨5, 5, 1⟩, ⟨.missing, some pb⟩))] = .ok w ∧
      stageAll (clearIndex w) = .ok w' ∧
      ∀ p, (treeOf w'.index).get p = FMap.get [(pa, ⟨.regular, 1⟩), (pde, ⟨.executable, 2⟩), ([108], ⟨.symlink, 3⟩)] p :=
  checkout_clear_stage_roundtrip_partial _ _ (by decide) (by decide) (by decide) (by decide)

/-- FINDING: a link that leads to a directory is not picked up by "add everything": after checkout,
dropping the index and adding everything, the link `k -> d` is missing from the index. -/
theorem checkout_clear_stage_counterexample :
    ∃ w w', checkoutFresh [(pde, ⟨.regular, 1⟩), ([107], ⟨.symlink, 2⟩)]
        [(pde, (⟨5, 5, 1⟩, reg)), ([107], (⟨5, 5, 1⟩, ⟨.dir, some pd⟩))] = .ok w ∧
      stageAll (clearIndex w) = .ok w' ∧ (treeOf w'.index).get [107] = none := by
  refine ⟨checkedOut [(pde, ⟨.regular, 1⟩), ([107], ⟨.symlink, 2⟩)]
    [(pde, (⟨5, 5, 1⟩, reg)), ([107], (⟨5, 5, 1⟩, ⟨.dir, some pd⟩))], _, by decide, rfl, by decide⟩

/-! ## 3. branch switch -/

/-- Full statement: from a clean checkout of any tree `a`, `porcelain.checkout` of any tree `b`
succeeds, the directory and the index then hold exactly `b`, and nothing is staged or unstaged.
FALSE for the code as it is when a directory of `a` is a file in `b`
(`branch_switch_dir_to_file_counterexample`). -/
def BranchSwitchStatement : Prop :=
  ∀ (a b : FMap Entry) (obsA obsB : Obs),
    a.keys.all validPath = true → b.keys.all validPath = true →
    a.keys.all obsA.has = true → b.keys.all obsB.has = true → TreeWF a → TreeWF b →
    ∃ w', switchTo (checkedOut a obsA) b obsB = ⟨w', none⟩ ∧ w'.head = b ∧
      (∀ p, wdEntry w'.wd p = b.get p) ∧ (∀ p, (treeOf w'.index).get p = b.get p)

/-- `branch_switch`: check out `b` on a clean checkout of `a`, for ALL pairs of well-formed trees of
valid paths except those in which a directory of `a` is a file in `b` (`NoDirToFile`): every
combination of added, deleted, modified, re-moded and type-changed (file ↔ executable ↔ symbolic
link) paths at any depth, and files (or links) of `a` that become directories in `b`.  The switch
succeeds, HEAD is `b`, the directory holds exactly `b` (kinds and contents), the index's tree is `b`,
nothing is staged or unstaged, and status is clean whenever the link lookup is harmless. -/
theorem branch_switch_partial (a b : FMap Entry) (obsA obsB : Obs)
    (hva : a.keys.all validPath = true) (hvb : b.keys.all validPath = true)
    (hoa : a.keys.all obsA.has = true) (hob : b.keys.all obsB.has = true)
    (hwfa : TreeWF a) (hwfb : TreeWF b) (hndf : NoDirToFile a b) :
    ∃ w', switchTo (checkedOut a obsA) b obsB = ⟨w', none⟩ ∧ w'.head = b ∧
      (∀ p, wdEntry w'.wd p = b.get p) ∧ (∀ p, (treeOf w'.index).get p = b.get p) ∧
      status w' = .ok ⟨[], [], [], [], untrackedOf w'.wd w'.index⟩ ∧
      (LinkLookupHarmless w' → status w' = .ok ⟨[], [], [], [], []⟩) := by
  have hsync := checkedOut_synced hoa hwfa
  have hcu := checkUncommitted_synced hsync b
  have hpd : preCheckDirs (checkedOut a obsA).wd (changes a b) = .ok () := preCheckDirs_synced hsync b
  have hpm : preCheckModified (checkedOut a obsA).wd (changes a b) = .ok () := preCheckModified_synced hsync b
  -- facts about the files of the clean checkout
  have hfA0 : ∀ p, a.get p = none → (checkoutFiles a obsA).get p = none := by
    intro p h; rw [checkoutFiles_get a obsA hoa, h]; rfl
  have hfA1 : ∀ p x, a.get p = some x → ∃ f, (checkoutFiles a obsA).get p = some f ∧ f.entry = x := by
    intro p x h
    obtain ⟨o, ho⟩ := Option.isSome_iff_exists.mp ((List.all_eq_true.mp hoa) p (FMap.mem_keys_of_get h))
    exact ⟨⟨x.kind, x.cid, o.1, o.2⟩, by rw [checkoutFiles_get a obsA hoa, h, ho]; rfl, rfl⟩
  have hTout : ∀ p, p ∉ changedPathOrder a b →
      (checkedOut a obsA).wd.get p = targetWd a b (checkoutFiles a obsA) obsB p ∧
      (checkedOut a obsA).index.get p = (targetWd a b (checkoutFiles a obsA) obsB p).map WFile.ientry := by
    intro p hp
    have hpK : p ∉ a.keys ++ b.keys := fun e => hp ((mem_changedPathOrder a b p).mpr e)
    have han : a.get p = none := by
      cases h : a.get p with
      | none => rfl
      | some x => exact absurd (List.mem_append_left _ (FMap.mem_keys_of_get h)) hpK
    have hbn : b.get p = none := by
      cases h : b.get p with
      | none => rfl
      | some x => exact absurd (List.mem_append_right _ (FMap.mem_keys_of_get h)) hpK
    have ht : targetWd a b (checkoutFiles a obsA) obsB p = none := by simp [targetWd, hbn]
    rw [ht]
    exact ⟨hfA0 p han, by rw [checkedOut_index_get, hfA0 p han]⟩
  obtain ⟨s', happ, hall⟩ := applyChanges_sorted (a := a) (b := b) (fA := checkoutFiles a obsA)
    (obs := obsB) hwfb hndf
    (fun p x h => (List.all_eq_true.mp hva) p (FMap.mem_keys_of_get h))
    (fun p y h => (List.all_eq_true.mp hvb) p (FMap.mem_keys_of_get h))
    (fun p y h => Option.isSome_iff_exists.mp ((List.all_eq_true.mp hob) p (FMap.mem_keys_of_get h)))
    hfA0 hfA1 (changedPathOrder a b) (sorted_changedPathOrder a b)
    (fun p hp => (mem_changedPathOrder a b p).mp hp)
    ⟨(checkedOut a obsA).wd, (checkedOut a obsA).index⟩
    (fun p _ => ⟨rfl, checkedOut_index_get a obsA p⟩) hTout
  have hsync' : Synced ⟨b, s'.index, s'.wd⟩ := by
    refine ⟨fun p => by rw [(hall p).2, (hall p).1], ?_, ?_⟩
    · intro p
      show b.get p = (s'.wd.get p).map WFile.entry
      rw [(hall p).1]
      unfold targetWd
      cases hb : b.get p with
      | none => rfl
      | some y =>
        by_cases hay : a.get p = some y
        · obtain ⟨f, hf, hfe⟩ := hfA1 p y hay
          simp [hay, hf, hfe]
        · obtain ⟨o, ho⟩ := Option.isSome_iff_exists.mp ((List.all_eq_true.mp hob) p (FMap.mem_keys_of_get hb))
          simp [hay, ho, fileOf, WFile.entry]
    · intro p hp
      show hasFileAncestor s'.wd p = false
      obtain ⟨f, hf⟩ := FMap.get_of_mem_keys hp
      have hbp : ∃ y, b.get p = some y := by
        have := (hall p).1
        rw [hf] at this
        unfold targetWd at this
        cases hb : b.get p with
        | none => rw [hb] at this; cases this
        | some y => exact ⟨y, rfl⟩
      obtain ⟨y, hy⟩ := hbp
      rw [hasFileAncestor_false_iff]
      intro k hk
      rw [(hall k).1]
      simp [targetWd, hwfb.apply hy hk]
  refine ⟨⟨b, s'.index, s'.wd⟩, ?_, rfl, hsync'.wdEntry, hsync'.treeOf, hsync'.status, ?_⟩
  · unfold switchTo
    have hh : (checkedOut a obsA).head = a := rfl
    have happ' : applyChanges obsB ⟨(checkedOut a obsA).wd, (checkedOut a obsA).index⟩ (changes a b) = (s', none) := happ
    simp only [hcu, hh, hpd, hpm, happ']
  · intro hl
    rw [hsync'.status]
    have : untrackedOf s'.wd s'.index = [] := by
      simp only [untrackedOf, List.filter_eq_nil_iff]
      intro p hp
      have hlp := (List.all_eq_true.mp hl) p hp
      obtain ⟨f, hf⟩ := FMap.get_of_mem_keys hp
      have hv : lstatView s'.wd p = .file f := hsync'.view hf
      have hi : s'.index.has p = true := by
        have := hsync'.idx p
        simp only at this
        simp [FMap.has, this, hf]
      simp only [hv, hi] at hlp
      simp only [untrackedAt, hv]
      cases hwf : walkedAsFile f <;> cases hal : s'.index.has (aliasOf p f) <;> simp_all
    simp only [this]

/-- non-vacuity: one switch that adds, deletes, rewrites, re-modes, changes the type of paths and turns
the file `x` into a directory -/
example : ∃ w', switchTo
      (checkedOut [(pa, ⟨.regular, 1⟩), (pb, ⟨.regular, 2⟩), (pc, ⟨.regular, 3⟩), (pde, ⟨.regular, 4⟩), (pu, ⟨.symlink, 5⟩), ([120], ⟨.regular, 7⟩)]
        [(pa, (⟨5, 5, 1⟩, reg)), (pb, (⟨5, 5, 1⟩, reg)), (pc, (⟨5, 5, 1⟩, reg)), (pde, (⟨5, 5, 1⟩, reg)),
         (pu, (⟨5, 5, 1⟩, ⟨.missing, none⟩)), ([120], (⟨5, 5, 1⟩, reg))])
      [(pa, ⟨.regular, 1⟩), (pb, ⟨.executable, 2⟩), (pc, ⟨.symlink, 3⟩), (pn, ⟨.regular, 6⟩), (pu, ⟨.regular, 5⟩), ([120, 47, 121], ⟨.regular, 8⟩)]
      [(pa, (⟨9, 9, 1⟩, reg)), (pb, (⟨9, 9, 1⟩, reg)), (pc, (⟨9, 9, 1⟩, ⟨.missing, none⟩)), (pn, (⟨9, 9, 1⟩, reg)),
       (pu, (⟨9, 9, 1⟩, reg)), ([120, 47, 121], (⟨9, 9, 1⟩, reg))] = ⟨w', none⟩ ∧
      w'.head = [(pa, ⟨.regular, 1⟩), (pb, ⟨.executable, 2⟩), (pc, ⟨.symlink, 3⟩), (pn, ⟨.regular, 6⟩), (pu, ⟨.regular, 5⟩), ([120, 47, 121], ⟨.regular, 8⟩)] ∧
      status w' = .ok ⟨[], [], [], [], []⟩ := by
  obtain ⟨w', h1, h2, _, _, _, h6⟩ := branch_switch_partial
    [(pa, ⟨.regular, 1⟩), (pb, ⟨.regular, 2⟩), (pc, ⟨.regular, 3⟩), (pde, ⟨.regular, 4⟩), (pu, ⟨.symlink, 5⟩), ([120], ⟨.regular, 7⟩)]
    [(pa, ⟨.regular, 1⟩), (pb, ⟨.executable, 2⟩), (pc, ⟨.symlink, 3⟩), (pn, ⟨.regular, 6⟩), (pu, ⟨.regular, 5⟩), ([120, 47, 121], ⟨.regular, 8⟩)]
    [(pa, (⟨5, 5, 1⟩, reg)), (pb, (⟨5, 5, 1⟩, reg)), (pc, (⟨5, 5, 1⟩, reg)), (pde, (⟨5, 5, 1⟩, reg)),
     (pu, (⟨5, 5, 1⟩, ⟨.missing, none⟩)), ([120], (⟨5, 5, 1⟩, reg))]
    [(pa, (⟨9, 9, 1⟩, reg)), (pb, (⟨9, 9, 1⟩, reg)), (pc, (⟨9, 9, 1⟩, ⟨.missing, none⟩)), (pn, (⟨9, 9, 1⟩, reg)),
     (pu, (⟨9, 9, 1⟩, reg)), ([120, 47, 121], (⟨9, 9, 1⟩, reg))]
    (by decide) (by decide) (by decide) (by decide) (by decide) (by decide) (by decide)
  refine ⟨w', h1, h2, h6 ?_⟩
  have hw : w' = (switchTo
      (checkedOut [(pa, ⟨.regular, 1⟩), (pb, ⟨.regular, 2⟩), (pc, ⟨.regular, 3⟩), (pde, ⟨.regular, 4⟩), (pu, ⟨.symlink, 5⟩), ([120], ⟨.regular, 7⟩)]
        [(pa, (⟨5, 5, 1⟩, reg)), (pb, (⟨5, 5, 1⟩, reg)), (pc, (⟨5, 5, 1⟩, reg)), (pde, (⟨5, 5, 1⟩, reg)),
         (pu, (⟨5, 5, 1⟩, ⟨.missing, none⟩)), ([120], (⟨5, 5, 1⟩, reg))])
      [(pa, ⟨.regular, 1⟩), (pb, ⟨.executable, 2⟩), (pc, ⟨.symlink, 3⟩), (pn, ⟨.regular, 6⟩), (pu, ⟨.regular, 5⟩), ([120, 47, 121], ⟨.regular, 8⟩)]
      [(pa, (⟨9, 9, 1⟩, reg)), (pb, (⟨9, 9, 1⟩, reg)), (pc, (⟨9, 9, 1⟩, ⟨.missing, none⟩)), (pn, (⟨9, 9, 1⟩, reg)),
       (pu, (⟨9, 9, 1⟩, reg)), ([120, 47, 121], (⟨9, 9, 1⟩, reg))]).world := by rw [h1]
  rw [hw]
  decide

/-- File → directory, concretely: `x` (file, executable, or link) in `a`, `x/y` and `x/z/w` in `b`. -/
theorem branch_switch_file_to_dir_instances :
    ∀ k ∈ [Kind.regular, Kind.executable, Kind.symlink],
      let r := switchTo (checkedOut [([120], ⟨k, 1⟩), (pa, ⟨.regular, 2⟩)]
          [([120], (⟨5, 5, 1⟩, ⟨.missing, none⟩)), (pa, (⟨5, 5, 1⟩, reg))])
        [([120, 47, 121], ⟨.regular, 1⟩), ([120, 47, 122, 47, 119], ⟨.symlink, 3⟩), (pa, ⟨.regular, 2⟩)]
        [([120, 47, 121], (⟨9, 9, 1⟩, reg)), ([120, 47, 122, 47, 119], (⟨9, 9, 1⟩, ⟨.missing, none⟩))]
      r.err = none ∧ status r.world = .ok ⟨[], [], [], [], []⟩ ∧
      wdEntry r.world.wd [120, 47, 121] = some ⟨.regular, 1⟩ ∧ wdEntry r.world.wd [120] = none ∧
      (treeOf r.world.index).get [120] = none ∧ (treeOf r.world.index).get [120, 47, 122, 47, 119] = some ⟨.symlink, 3⟩ := by
  decide

/-- FINDING: directory → file.  `a` has `x/y`, `b` has the file `x`: `tree_changes` yields "add x"
before "delete x/y", so `_transition_to_file` meets a non-empty directory and raises
`IsADirectoryError`; HEAD, index and directory stay at `a`. -/
theorem branch_switch_dir_to_file_counterexample : ¬ BranchSwitchStatement := by
  intro h
  obtain ⟨w', hw, _⟩ := h [([120, 47, 121], ⟨.regular, 1⟩)] [([120], ⟨.regular, 1⟩)]
    [([120, 47, 121], (⟨5, 5, 1⟩, reg))] [([120], (⟨9, 9, 1⟩, reg))]
    (by decide) (by decide) (by decide) (by decide) (by decide) (by decide)
  have : (switchTo (checkedOut [([120, 47, 121], ⟨.regular, 1⟩)] [([120, 47, 121], (⟨5, 5, 1⟩, reg))])
      [([120], ⟨.regular, 1⟩)] [([120], (⟨9, 9, 1⟩, reg))]).err = some .isADirectory := by decide
  rw [hw] at this
  cases this

end Dulwich.Props.C18
