/-
  C04 — corrupt or hostile input is contained; failed ingestion leaves no trace.
  (work in progress: theorems are added below)
-/
import DulwichModel.Model.Ingest

namespace Dulwich.Props.C04
open Dulwich Dulwich.Ingest

theorem ofs_zero_check_present : Gen.Ingest.ofsZeroRejected = true := rfl

end Dulwich.Props.C04
